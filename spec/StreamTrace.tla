---------------------------- MODULE StreamTrace -----------------------------
(***************************************************************************)
(* Code -> specification for the stream clause of C19: sessions recorded   *)
(* from the real parsers, replayed against module StreamSession.  Events:  *)
(*   {ev:"open", objs:[[head,body],...], rewinds: TRUE|FALSE}              *)
(*   {ev:"arrive", n}                                                      *)
(*   {ev:"parse", outcome:"object"|"incomplete"|"refused", pos, missing,   *)
(*    high}   pos = stream position after the call, high = furthest octet  *)
(*    ever read                                                            *)
(* A line the spec cannot explain is recorded in `rejected` and skipped    *)
(* (the spec's state follows the spec, so the rest is still checked).      *)
(***************************************************************************)
EXTENDS StreamSession, Json, IOUtils, TLC
Trace == ndJsonDeserialize(IOEnv.TRACE_FILE)
VARIABLES l, objs, rewinds, avail, pos, delivered, rejected
tvars == <<l, objs, rewinds, avail, pos, delivered, rejected>>

TInit == l = 1 /\ objs = <<>> /\ rewinds = FALSE /\ avail = 0 /\ pos = 0 /\ delivered = 0 /\ rejected = {}
IsEv(e) == l <= Len(Trace) /\ Trace[l].ev = e /\ l' = l + 1

TOpen == /\ IsEv("open")
         /\ objs' = Trace[l].objs /\ rewinds' = Trace[l].rewinds
         /\ avail' = 0 /\ pos' = 0 /\ delivered' = 0 /\ UNCHANGED rejected
TArrive == IsEv("arrive") /\ avail' = avail + Trace[l].n /\ UNCHANGED <<objs, rewinds, pos, delivered, rejected>>

\* what the spec expects of the parse call logged at line l
Expected == IF delivered >= Len(objs) THEN <<"incomplete", 0>> ELSE Answer(objs, delivered + 1, pos, avail)
Explains(e) ==
  LET a == Expected IN
    IF a[1] = "object"
      THEN \/ e.outcome = "object" /\ e.pos = a[2] /\ e.high <= a[2]
           \* a parser that promises nothing about incomplete input may also refuse to read off a stream at all
           \* (a class whose encoding has no end of its own, e.g. a key origin); the session ends there
           \/ ~rewinds /\ e.outcome = "refused"
      ELSE \/ (rewinds /\ e.outcome = "incomplete" /\ e.pos = pos /\ (delivered < Len(objs) => e.missing = a[2]))
           \/ (~rewinds /\ e.outcome = "refused")
TParse == /\ IsEv("parse")
          /\ LET a == Expected IN
               /\ IF a[1] = "object" /\ (rewinds \/ Trace[l].outcome = "object") THEN pos' = a[2] /\ delivered' = delivered + 1 ELSE UNCHANGED <<pos, delivered>>
               /\ rejected' = IF Explains(Trace[l]) THEN rejected ELSE rejected \cup {l}
          /\ UNCHANGED <<objs, rewinds, avail>>
TDone == l > Len(Trace) /\ UNCHANGED tvars
TNext == TOpen \/ TArrive \/ TParse \/ TDone
TSpec == TInit /\ [][TNext]_tvars
Consumed == l <= Len(Trace) + 1
Report == l = Len(Trace) + 1 => PrintT(<<"REJECTED", rejected>>)
=============================================================================
