--------------------------------- MODULE DER ---------------------------------
(***************************************************************************)
(* The DER encoding of an ECDSA signature (SEQUENCE of two INTEGERs) as    *)
(* Bitcoin uses it (BIP66): a total serializer DerSig and a strict parser  *)
(* written as a byte-at-a-time state machine, one action per byte read.    *)
(* Lengths are short-form only (content < 128 bytes), which covers every   *)
(* signature of a curve up to 512 bits.                                    *)
(*                                                                         *)
(* Model (M): the byte string read so far is part of the state, the        *)
(* environment appends any byte of Alphabet while the parser has not       *)
(* refused; the reachable states are therefore exactly the prefixes of     *)
(* encodings the parser may still accept, and TLC checks in every          *)
(* accepting state that re-encoding the parsed value gives the input back  *)
(* (canonical: the accepted language is in bijection with the values).     *)
(***************************************************************************)
EXTENDS Integers, Sequences, TLC

\* minimal big-endian bytes of a natural given as bytes (leading zeros stripped), DER INTEGER content
RECURSIVE Strip(_)
Strip(b) == IF Len(b) > 1 /\ b[1] = 0 THEN Strip(Tail(b)) ELSE b
IntContent(b) == LET m == Strip(IF b = << >> THEN <<0>> ELSE b) IN IF m[1] >= 128 THEN <<0>> \o m ELSE m
DerInt(b) == LET cnt == IntContent(b) IN <<2, Len(cnt)>> \o cnt
DerSig(r, s) == LET body == DerInt(r) \o DerInt(s) IN <<48, Len(body)>> \o body

\* ---- strict parser, one byte per step --------------------------------------------------
\* st = [stage, seqleft, left, first, r, s]; stage "bad" is absorbing
PInit == [stage |-> "tag30", seqleft |-> 0, left |-> 0, nb |-> 0, r |-> << >>, s |-> << >>]
Bad(st) == [st EXCEPT !.stage = "bad"]
\* after consuming one byte inside the sequence
In(st) == [st EXCEPT !.seqleft = @ - 1]

Step(st, b) ==
    CASE st.stage = "tag30"  -> IF b = 48 THEN [st EXCEPT !.stage = "seqlen"] ELSE Bad(st)
      [] st.stage = "seqlen" -> IF b >= 128 \/ b = 0 THEN Bad(st) ELSE [st EXCEPT !.stage = "tagr", !.seqleft = b]
      [] st.stage \in {"tagr", "tags"} ->
            IF st.seqleft = 0 \/ b # 2 THEN Bad(st)
            ELSE [In(st) EXCEPT !.stage = IF st.stage = "tagr" THEN "lenr" ELSE "lens"]
      [] st.stage \in {"lenr", "lens"} ->
            IF st.seqleft = 0 \/ b = 0 \/ b >= 128 \/ b > st.seqleft - 1 THEN Bad(st)
            ELSE [In(st) EXCEPT !.stage = IF st.stage = "lenr" THEN "r" ELSE "s", !.left = b, !.nb = 0]
      [] st.stage \in {"r", "s"} ->
            LET cur == IF st.stage = "r" THEN st.r ELSE st.s
                neg == st.nb = 0 /\ b >= 128                                  \* negative INTEGER
                pad == st.nb = 1 /\ cur[1] = 0 /\ b < 128                      \* superfluous leading zero
                nxt == IF st.left > 1 THEN st.stage ELSE IF st.stage = "r" THEN "tags" ELSE "end"
            IN IF neg \/ pad THEN Bad(st)
               ELSE IF st.stage = "r"
                    THEN [In(st) EXCEPT !.r = Append(@, b), !.left = @ - 1, !.nb = @ + 1, !.stage = nxt]
                    ELSE [In(st) EXCEPT !.s = Append(@, b), !.left = @ - 1, !.nb = @ + 1, !.stage = nxt]
      [] st.stage = "end" -> Bad(st)                \* a byte after the sequence (or inside it, unclaimed)
      [] st.stage = "bad" -> st

Accepting(st) == st.stage = "end" /\ st.seqleft = 0
RECURSIVE Run(_, _, _)
Run(st, bytes, i) == IF i > Len(bytes) THEN st ELSE Run(Step(st, bytes[i]), bytes, i + 1)
Parse(bytes) == Run(PInit, bytes, 1)
StrictOK(bytes) == Accepting(Parse(bytes))
=============================================================================
