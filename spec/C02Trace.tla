------------------------------ MODULE C02Trace -------------------------------
(***************************************************************************)
(* Code -> specification for C02 at real size: events recorded from        *)
(* btclib.ecc.dsa / rfc6979_nonce are recomputed by TLC.                   *)
(*  {op:"nonce",  c, hf, h, q, extra, out}          RFC 6979 nonce         *)
(*  {op:"sign",   c, hf, h, q, lows, grind, r, s, id, der}                 *)
(*  {op:"verify", c, hf, h, Q, r, s, out}           SEC 1 4.1.4            *)
(*  {op:"der",    b, valid, out}                    strict DER acceptance  *)
(***************************************************************************)
EXTENDS ECDSAReal, EvBase

Expected(e) ==
    CASE e.op = "nonce" ->
            LET c == CurveOf(e.c) k == Nonce(HF(e.hf), N(e.q), FromHex(e.h), c.n, FromHex(e.extra))
            IN [ok |-> k = N(e.out), want |-> ToHex(k)]
      [] e.op = "chal" ->
            LET c == CurveOf(e.c) v == Challenge(FromHex(e.h), c.n) IN [ok |-> v = N(e.out), want |-> ToHex(v)]
      [] e.op = "sign" ->
            LET c == CurveOf(e.c)
                sg == IF e.grind THEN Grind(c, HF(e.hf), FromHex(e.h), N(e.q), e.lows, 0)
                      ELSE SignDet(c, HF(e.hf), FromHex(e.h), N(e.q), e.lows, << >>)
            IN [ok |-> IF e.fail THEN ~sg.ok
                       ELSE sg.ok /\ sg.r = N(e.r) /\ sg.s = N(e.s) /\ (e.id >= 0 => sg.id = e.id)
                                  /\ (e.der # "" => ToHex(DerOf(sg)) = e.der),
                want |-> [r |-> ToHex(sg.r), s |-> ToHex(sg.s), id |-> sg.id, der |-> ToHex(DerOf(sg))]]
      [] e.op = "verify" ->
            LET c == CurveOf(e.c) v == Verify(c, Challenge(FromHex(e.h), c.n), PtOf(e.Q), N(e.r), N(e.s))
            IN [ok |-> v = e.out, want |-> v]
      [] e.op = "der" ->
            \* accepted <=> canonical DER of a pair that (when validity is asked for) is a valid secp256k1 signature
            LET b == FromHex(e.b)  st == Parse(b)
                acc == Accepting(st) /\ (e.valid => SigValid(Secp256k1, BFromBytes(st.r), BFromBytes(st.s)))
            IN [ok |-> acc = e.accepted /\ (acc => e.reser = e.b /\ N(e.r) = BFromBytes(st.r) /\ N(e.s) = BFromBytes(st.s)),
                want |-> acc]

EventOK == i > 0 => Expected(Trace[i]).ok
Diag == i > 0 => PrintT(<<"DIAG", i, Expected(Trace[i])>>)
=============================================================================
