------------------------------ MODULE ECToyGen ------------------------------
(***************************************************************************)
(* Specification -> code tables for C01 (and the toy halves of C02, C03):  *)
(* for every curve of ECToy and every prime order n > 2 occurring in its   *)
(* group, TLC prints the curve, its point set, two generators of order n   *)
(* and the table k |-> k*G, together with SEC 1's verdict on the tuple     *)
(* (3.1.1.2.1, without the MOV and anomalous-curve clauses that have their *)
(* own inputs).  One initial state per curve; no transitions.              *)
(***************************************************************************)
EXTENDS ECToyDefs, SequencesExt

CONSTANT PSet    \* the primes p to generate for (a subset of Primes)

ISqrt(n) == CHOOSE r \in 0..n : r * r <= n /\ (r + 1) * (r + 1) > n
\* SEC 1 v2 3.1.1.2.1 on true group data; n = 2 is excluded: btclib spells infinity (x, 0), so a
\* point of order two is not a point to it (documented deviation)
ValidTuple(cv, G, n, h) ==
    /\ EC!NonSingular(cv) /\ ~G.inf /\ EC!OnCurve(cv, G)
    /\ IsPrime(n) /\ n > 2 /\ MulRep(cv, n, G) = EC!Inf
    /\ h = (cv.p + 1 + ISqrt(4 * cv.p)) \div n
    /\ n # cv.p

XY(P) == IF P.inf THEN <<-1, -1>> ELSE <<P.x, P.y>>
SetToSeqXY(S) == LET RECURSIVE F(_) 
                     F(T) == IF T = {} THEN << >>
                             ELSE LET m == CHOOSE q \in T : \A r \in T : q[1] < r[1] \/ (q[1] = r[1] /\ q[2] <= r[2])
                                  IN <<m>> \o F(T \ {m})
                 IN F({XY(P) : P \in S})

VARIABLE cur
GInit == cur \in {cv \in Curves : cv.p \in PSet}
GNext == UNCHANGED cur

Record(cv) ==
    LET Ps == Points(cv)
        card == Cardinality(Ps)
        ord == [P \in Ps |-> Order(cv, P)]
        orders == {n \in {ord[P] : P \in Ps} : IsPrime(n) /\ n > 2}
        Gens(n) == LET S == {XY(P) : P \in {Q \in Ps : ord[Q] = n}}
                       lo == CHOOSE q \in S : \A r \in S : q[1] < r[1] \/ (q[1] = r[1] /\ q[2] <= r[2])
                       hi == CHOOSE q \in S : \A r \in S : q[1] > r[1] \/ (q[1] = r[1] /\ q[2] >= r[2])
                   IN {lo, hi}
        Entry(n, gxy) == LET G == EC!Pt(gxy[1], gxy[2])
                             h == card \div n
                             hsec == (cv.p + 1 + ISqrt(4 * cv.p)) \div n
                         IN [n |-> n, g |-> gxy, h |-> h, hsec |-> hsec,
                             valid |-> ValidTuple(cv, G, n, h),
                             validsec |-> ValidTuple(cv, G, n, hsec),
                             table |-> [k \in 1..n - 1 |-> XY(MulRep(cv, k, G))]]
    IN [p |-> cv.p, a |-> cv.a, b |-> cv.b, card |-> card,
        points |-> SetToSeqXY(Ps \ {EC!Inf}),
        groups |-> SetToSeq({Entry(n, gg) : n \in orders, gg \in UNION {Gens(m) : m \in orders}}) ]

\* (an Entry is only meaningful when g has order n; filter)
RecordF(cv) == LET r == Record(cv) IN
    [r EXCEPT !.groups = SelectSeq(r.groups, LAMBDA e : e.table[e.n - 1] # <<-1, -1>> /\ MulRep(cv, e.n, EC!Pt(e.g[1], e.g[2])) = EC!Inf)]

Emit == PrintT(<<"CURVE", RecordF(cur)>>)
=============================================================================
