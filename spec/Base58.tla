-------------------------------- MODULE Base58 --------------------------------
(***************************************************************************)
(* Base58 and Base58Check (the leading-zero rule, long division in base    *)
(* 58, the four-byte double-SHA256 checksum), and the payload layouts      *)
(* Bitcoin writes in it: addresses, WIF private keys, BIP32 extended keys. *)
(***************************************************************************)
EXTENDS Integers, Sequences, SequencesExt, BigNat, Hash

Alphabet58 == Utf8("123456789ABCDEFGHJKLMNPQRSTUVWXYZabcdefghijkmnopqrstuvwxyz")
RECURSIVE LeadingZeros(_)
LeadingZeros(b) == IF b # << >> /\ b[1] = 0 THEN 1 + LeadingZeros(Tail(b)) ELSE 0
RECURSIVE Digits58(_)
Digits58(n) == IF BIsZero(n) THEN << >> ELSE Append(Digits58(BDiv(n, B(58))), BToInt(BMod(n, B(58))))
Encode58(b) == Rep(49, LeadingZeros(b)) \o [j \in 1..Len(Digits58(BFromBytes(b))) |-> Alphabet58[Digits58(BFromBytes(b))[j] + 1]]
Index58(c) == LET S == {j \in 1..58 : Alphabet58[j] = c} IN IF S = {} THEN -1 ELSE (CHOOSE j \in S : TRUE) - 1
RECURSIVE LeadingOnes(_)
LeadingOnes(s) == IF s # << >> /\ s[1] = 49 THEN 1 + LeadingOnes(Tail(s)) ELSE 0
\* [ok, bytes]
Decode58(s) ==
    IF \E j \in 1..Len(s) : Index58(s[j]) = -1 THEN [ok |-> FALSE, v |-> << >>]
    ELSE LET n == FoldLeft(LAMBDA acc, c : BAdd(BMul(acc, B(58)), B(Index58(c))), BZero, s)
         IN [ok |-> TRUE, v |-> Zeros(LeadingOnes(s)) \o n]
Check58(payload) == Encode58(payload \o Take(Hash256(payload), 4))
DecodeCheck58(s) ==
    LET d == Decode58(s) IN
    IF ~d.ok \/ Len(d.v) < 4 THEN [ok |-> FALSE, v |-> << >>]
    ELSE LET body == Take(d.v, Len(d.v) - 4) IN
         [ok |-> Take(Hash256(body), 4) = Drop(d.v, Len(d.v) - 4), v |-> body]
=============================================================================
