------------------------------ MODULE Bech32Model -----------------------------
(***************************************************************************)
(* Properties of the text codecs checked on the specification itself:      *)
(*  RoundTrip      Decode(Encode(hrp, data, c)) gives back data and c      *)
(*  DetectsUpTo2   no string at Hamming distance 1 or 2 from a valid one   *)
(*                 (in the data part) is valid -- the BCH code's guarantee *)
(*                 is up to 4 errors; 2 is what is enumerated here         *)
(*  ConvertInverse 8->5->8 bit regrouping is the identity                  *)
(*  AddressInverse address and scriptPubKey are inverse maps on every      *)
(*                 witness version 0..16 x program length 2..40 and on     *)
(*                 P2PKH / P2SH, per network                               *)
(*  NetworksApart  no prefix is shared by the main and a test network      *)
(* One initial state per (codeword, constant).                             *)
(***************************************************************************)
EXTENDS Address, TLC

Words == {<<0, 1, 2>>, <<31, 0, 15, 7>>, <<1>>, <<16, 16, 16, 16, 1>>}
VARIABLES word, const
MInit == word \in Words /\ const \in {Bech32Const, Bech32mConst}
MNext == UNCHANGED <<word, const>>
MSpec == MInit /\ [][MNext]_<<word, const>>

HrpA == Utf8("tb")
Str == Encode(HrpA, word, const)
RoundTrip == LET d == Decode(Str) IN d.ok /\ d.hrp = HrpA /\ d.data = word /\ d.const = const
\* the symbols after the separator, with one or two of them changed
DataPos == (Len(HrpA) + 2)..Len(Str)
Sub(s, i, c) == [s EXCEPT ![i] = Charset[c]]
Valid(s) == LET d == Decode(s) IN d.ok /\ d.const \in {Bech32Const, Bech32mConst}
DetectsUpTo2 ==
    /\ \A i \in DataPos, c \in 1..32 : Charset[c] # Str[i] => ~Valid(Sub(Str, i, c))
    /\ \A i, j \in DataPos : i < j => \A c \in {1, 2, 17, 32}, e \in 1..32 :
            (Charset[c] # Str[i] /\ Charset[e] # Str[j]) => ~Valid(Sub(Sub(Str, i, c), j, e))
ConvertInverse == \A a \in {0, 1, 127, 128, 255}, b \in 0..255 :
    /\ From5To8(From8To5(<<a, b>>)).ok /\ From5To8(From8To5(<<a, b>>)).out = <<a, b>>
    /\ From5To8(From8To5(<<b>>)).out = <<b>> /\ From5To8(From8To5(<<a, b, a>>)).out = <<a, b, a>>
Prog(n) == [k \in 1..n |-> (7 * k + n) % 256]
AddressInverse == word = <<1>> =>
    \A net \in {"main", "test", "regtest"} :
      /\ \A ver \in 0..16, n \in 2..40 :
            ProgramOK(ver, Prog(n)) =>
                LET a == AddressDecode(AddressEncode(SpkWitness(ver, Prog(n)), net))
                IN a.ok /\ a.spk = SpkWitness(ver, Prog(n)) /\ a.net = net
      /\ \A ver \in 0..16, n \in 2..40 : ~ProgramOK(ver, Prog(n)) => AddressEncode(SpkWitness(ver, Prog(n)), net) = << >>
      /\ LET a == AddressDecode(AddressEncode(SpkP2PKH(Prog(20)), net)) IN a.ok /\ a.spk = SpkP2PKH(Prog(20)) /\ (a.net = "main") = (net = "main")
      /\ LET a == AddressDecode(AddressEncode(SpkP2SH(Prog(20)), net)) IN a.ok /\ a.spk = SpkP2SH(Prog(20)) /\ (a.net = "main") = (net = "main")
NetworksApart ==
    /\ P2PKHVersion("main") # P2PKHVersion("test") /\ P2SHVersion("main") # P2SHVersion("test") /\ WIFVersion("main") # WIFVersion("test")
    /\ Hrp("main") # Hrp("test") /\ Hrp("main") # Hrp("regtest")
    /\ {P2PKHVersion("main"), P2SHVersion("main"), WIFVersion("main")} \cap {P2PKHVersion("test"), P2SHVersion("test"), WIFVersion("test")} = {}
=============================================================================
