--------------------------- MODULE StreamSession ----------------------------
(***************************************************************************)
(* C19, the caller's stream.  A reader owns a stream onto which octets     *)
(* arrive in chunks; the stream carries whole objects back to back.  One   *)
(* Parse call either                                                       *)
(*   - delivers the next object and leaves the position on the octet after *)
(*     it (never further: what follows is the next object's), or           *)
(*   - (parsers that document it: p2p Message) reports "incomplete" with   *)
(*     the exact number of octets still missing and rewinds the position   *)
(*     to where the object started, so that the caller appends and calls   *)
(*     again, or                                                           *)
(*   - refuses for good.                                                   *)
(* Definitions only (no variables), shared by the model and the trace.     *)
(* An object is a pair <<head, body>> of lengths: the header phase and the *)
(* payload phase of Message.parse; parsers without phases have head = 0.   *)
(***************************************************************************)
EXTENDS Integers, Sequences, FiniteSets

Size(o) == o[1] + o[2]
RECURSIVE StartOf(_, _)
StartOf(objs, k) == IF k = 1 THEN 0 ELSE StartOf(objs, k - 1) + Size(objs[k - 1])
Total(objs) == StartOf(objs, Len(objs) + 1)

\* what a Parse call at position pos answers when `avail` octets have arrived and the k-th object starts at pos
\*   <<"object", pos after>> | <<"incomplete", missing>>
Answer(objs, k, pos, avail) ==
  LET have == avail - pos  o == objs[k] IN
    IF have < o[1] THEN <<"incomplete", o[1] - have>>
    ELSE IF have < Size(o) THEN <<"incomplete", Size(o) - have>>
    ELSE <<"object", pos + Size(o)>>
=============================================================================
