---------------------------------- MODULE GCS ----------------------------------
(***************************************************************************)
(* C17: BIP158 Golomb-Rice coded sets.  Definitions only.                  *)
(* A set of N elements is hashed into [0, N*M) (SipHash keyed by the block *)
(* hash, times the bound, shifted right 64), sorted, and the differences   *)
(* are written quotient-in-unary, remainder in P bits, most significant    *)
(* bit first, the last octet padded with zeros.  Decoding refuses a stream *)
(* that ends early, a value outside the range, octets after the last       *)
(* delta and non-zero padding.  Values are BigNat, bits 0/1.               *)
(***************************************************************************)
EXTENDS SipHash, Integers, Sequences, SequencesExt

BitsMSB(n, count) == [j \in 1..count |-> (n \div (2 ^ (count - j))) % 2]        \* n a TLC integer < 2^31, count <= 30
GolombBits(value, p) ==                                                          \* value a BigNat
  LET q == BToInt(BShr(value, p))  r == BToInt(BMod(value, BShl(BOne, p))) IN [j \in 1..q |-> 1] \o <<0>> \o BitsMSB(r, p)
PackBits(bits) ==
  LET n == (Len(bits) + 7) \div 8  padded == bits \o [j \in 1..(8 * n - Len(bits)) |-> 0] IN
    [k \in 1..n |-> FoldLeft(LAMBDA a, j : 2 * a + padded[8 * (k - 1) + j], 0, <<1, 2, 3, 4, 5, 6, 7, 8>>)]
UnpackBits(bytes) == [j \in 1..(8 * Len(bytes)) |-> (bytes[(j + 7) \div 8] \div (2 ^ (7 - ((j - 1) % 8)))) % 2]
\* sorted: ascending sequence of BigNat
EncodeSorted(sorted, p) ==
  LET step(acc, v) == [bits |-> acc.bits \o GolombBits(BSub(v, acc.last), p), last |-> v]
  IN PackBits(FoldLeft(step, [bits |-> << >>, last |-> BZero], sorted).bits)

\* one value: <<ok, value, next position>>; positions from 1
RECURSIVE Unary(_, _, _)
Unary(bits, pos, q) == IF pos > Len(bits) THEN <<FALSE, 0, 0>> ELSE IF bits[pos] = 0 THEN <<TRUE, q, pos + 1>> ELSE Unary(bits, pos + 1, q + 1)
GolombRead(bits, pos, p) ==
  LET u == Unary(bits, pos, 0) IN
    IF ~u[1] \/ u[3] + p - 1 > Len(bits) THEN <<FALSE, BZero, 0>>
    ELSE <<TRUE, BAdd(BShl(B(u[2]), p), B(FoldLeft(LAMBDA a, j : 2 * a + bits[u[3] + j - 1], 0, [j \in 1..p |-> j]))), u[3] + p>>
\* <<"ok", sorted values>> | <<"refused">>
RECURSIVE DecodeFrom(_, _, _, _, _, _, _)
DecodeFrom(bits, pos, p, left, last, bound, acc) ==
  IF left = 0
    THEN LET rest == Len(bits) - pos + 1 IN
           IF rest >= 8 \/ \E j \in pos..Len(bits) : bits[j] = 1 THEN <<"refused">> ELSE <<"ok", acc>>
    ELSE LET g == GolombRead(bits, pos, p) IN
           IF ~g[1] THEN <<"refused">>
           ELSE LET v == BAdd(last, g[2]) IN
                  IF BGe(v, bound) THEN <<"refused">> ELSE DecodeFrom(bits, g[3], p, left - 1, v, bound, Append(acc, v))
Decode(bytes, n, p, m) == DecodeFrom(UnpackBits(bytes), 1, p, n, BZero, BMul(B(n), B(m)), << >>)

\* BIP158 basic filter
BasicP == 19
BasicM == 784931
KeyOf(blockHashDisplay) == LET internal == Reverse(blockHashDisplay) IN <<WordLE(SubSeq(internal, 1, 8)), WordLE(SubSeq(internal, 9, 16))>>
HashToRange(key, element, bound) == BShr(BMul(SipHash24(key[1], key[2], element), bound), 64)
SortNat(s) == SortSeq(s, LAMBDA a, b : BLt(a, b))
\* elements: a sequence of distinct byte strings
BasicFilter(blockHashDisplay, elements) ==
  LET n == Len(elements)  bound == BMul(B(n), B(BasicM))  key == KeyOf(blockHashDisplay) IN
    EncodeSorted(SortNat([j \in 1..n |-> HashToRange(key, elements[j], bound)]), BasicP)
MatchBasic(blockHashDisplay, n, bytes, element) ==
  LET d == Decode(bytes, n, BasicP, BasicM) IN
    d[1] = "ok" /\ \E j \in 1..Len(d[2]) : d[2][j] = HashToRange(KeyOf(blockHashDisplay), element, BMul(B(n), B(BasicM)))
=============================================================================
