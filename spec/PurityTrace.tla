---------------------------- MODULE PurityTrace -----------------------------
(***************************************************************************)
(* Trace validation for the purity clause of C20.  The trace is a sequence *)
(* of events recorded from btclib: {ev: "ret", op, ans} when a call        *)
(* returns (op names the function and its arguments, ans is a digest of    *)
(* the answer or of the refusal), {ev: "clear"} (every memo cache          *)
(* cleared), {ev: "flip"} (backend switched).  The memoized function F of  *)
(* module MemoCache is not logged: TLC infers it.  `known` is the part of  *)
(* F the trace has revealed so far; the first events of a trace come from  *)
(* fresh processes (one call each), so they pin F to the history-free      *)
(* answers, and every later answer has to agree.                           *)
(***************************************************************************)
EXTENDS Json, IOUtils, TLC, Sequences, Integers

Trace == ndJsonDeserialize(IOEnv.TRACE_FILE)

VARIABLES known, l, serving, rejected
tvars == <<known, l, serving, rejected>>

TInit == known = <<>> /\ l = 1 /\ serving = TRUE /\ rejected = {}

IsEv(e) == l <= Len(Trace) /\ Trace[l].ev = e /\ l' = l + 1

\* a return is explained iff one function F explains it together with everything seen before
TRet == /\ IsEv("ret")
        /\ LET op == Trace[l].op  ans == Trace[l].ans IN
             /\ op \in DOMAIN known => known[op] = ans
             /\ known' = IF op \in DOMAIN known THEN known ELSE known @@ (op :> ans)
        /\ UNCHANGED <<serving, rejected>>
\* an answer no F explains: recorded, skipped, and the rest of the trace is still checked
TReject == /\ IsEv("ret")
           /\ Trace[l].op \in DOMAIN known /\ known[Trace[l].op] # Trace[l].ans
           /\ rejected' = rejected \cup {l}
           /\ UNCHANGED <<known, serving>>
TClear == IsEv("clear") /\ UNCHANGED <<known, serving, rejected>>
TFlip  == IsEv("flip") /\ serving' = ~serving /\ UNCHANGED <<known, rejected>>
TDone  == l > Len(Trace) /\ UNCHANGED tvars

TNext == TRet \/ TReject \/ TClear \/ TFlip \/ TDone
TSpec == TInit /\ [][TNext]_tvars

\* the whole trace is consumed (no event is left unexplained by an action) ...
Consumed == l <= Len(Trace) + 1
\* ... and the final state reports the lines that no F explains
Report == l = Len(Trace) + 1 => PrintT(<<"REJECTED", rejected>>)
=============================================================================
