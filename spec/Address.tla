-------------------------------- MODULE Address -------------------------------
(***************************************************************************)
(* Addresses and the scriptPubKeys they stand for, per network.  The       *)
(* prefix tables are transcribed from the BIPs and Bitcoin Core's          *)
(* chainparams, not from btclib's network.py.  Prefix classes: main, test     *)
(* (testnet3/4 and signet share every prefix), regtest (its own hrp only).  *)
(***************************************************************************)
EXTENDS Bech32, Base58

P2PKHVersion(net) == IF net = "main" THEN 0 ELSE 111
P2SHVersion(net)  == IF net = "main" THEN 5 ELSE 196
WIFVersion(net)   == IF net = "main" THEN 128 ELSE 239
Hrp(net) == CASE net = "main" -> Utf8("bc") [] net = "test" -> Utf8("tb") [] net = "regtest" -> Utf8("bcrt")
NetOfHrp(h) == IF h = Utf8("bc") THEN "main" ELSE IF h = Utf8("tb") THEN "test" ELSE IF h = Utf8("bcrt") THEN "regtest" ELSE "none"

\* the standard output templates
SpkP2PKH(h) == <<118, 169, 20>> \o h \o <<136, 172>>
SpkP2SH(h)  == <<169, 20>> \o h \o <<135>>
SpkWitness(ver, prog) == <<IF ver = 0 THEN 0 ELSE 80 + ver, Len(prog)>> \o prog

\* address -> [ok, spk, net]; base58 addresses do not tell test from regtest: net is "main" or "test"
AddressDecode(s) ==
    LET w == SegwitDecode(s) IN
    IF w.ok /\ NetOfHrp(w.hrp) # "none" THEN [ok |-> TRUE, spk |-> SpkWitness(w.ver, w.prog), net |-> NetOfHrp(w.hrp)]
    ELSE LET d == DecodeCheck58(s) IN
         IF d.ok /\ Len(d.v) = 21 /\ d.v[1] \in {0, 111} THEN [ok |-> TRUE, spk |-> SpkP2PKH(Tail(d.v)), net |-> IF d.v[1] = 0 THEN "main" ELSE "test"]
         ELSE IF d.ok /\ Len(d.v) = 21 /\ d.v[1] \in {5, 196} THEN [ok |-> TRUE, spk |-> SpkP2SH(Tail(d.v)), net |-> IF d.v[1] = 5 THEN "main" ELSE "test"]
         ELSE [ok |-> FALSE, spk |-> << >>, net |-> "none"]

\* scriptPubKey -> address (<<>> when the script has no address)
IsWitnessProgram(spk) == Len(spk) \in 4..42 /\ (spk[1] = 0 \/ spk[1] \in 81..96) /\ spk[2] = Len(spk) - 2
AddressEncode(spk, net) ==
    IF Len(spk) = 25 /\ Take(spk, 3) = <<118, 169, 20>> /\ Drop(spk, 23) = <<136, 172>> THEN Check58(<<P2PKHVersion(net)>> \o SubSeq(spk, 4, 23))
    ELSE IF Len(spk) = 23 /\ Take(spk, 2) = <<169, 20>> /\ spk[23] = 135 THEN Check58(<<P2SHVersion(net)>> \o SubSeq(spk, 3, 22))
    ELSE IF IsWitnessProgram(spk) /\ ProgramOK(IF spk[1] = 0 THEN 0 ELSE spk[1] - 80, Drop(spk, 2))
         THEN SegwitEncode(Hrp(net), IF spk[1] = 0 THEN 0 ELSE spk[1] - 80, Drop(spk, 2))
    ELSE << >>

\* WIF: version || 32-byte key [|| 01 for a compressed public key]
WIFDecode(s) ==
    LET d == DecodeCheck58(s) IN
    IF d.ok /\ Len(d.v) \in {33, 34} /\ d.v[1] \in {128, 239} /\ (Len(d.v) = 34 => d.v[34] = 1)
    THEN [ok |-> TRUE, key |-> SubSeq(d.v, 2, 33), compressed |-> Len(d.v) = 34, net |-> IF d.v[1] = 128 THEN "main" ELSE "test"]
    ELSE [ok |-> FALSE, key |-> << >>, compressed |-> FALSE, net |-> "none"]
\* The five networks by name.  An hrp tells main / test / regtest apart; every other prefix only main from the rest.
Networks == {"mainnet", "testnet", "regtest", "signet", "testnet4"}
ClassOf(name) == CASE name = "mainnet" -> "main" [] name = "regtest" -> "regtest" [] OTHER -> "test"
TypeOfNet(name) == IF name = "mainnet" THEN "main" ELSE "test"
\* BIP32 and SLIP132 version bytes of extended keys (x/y/Y/z/Z and t/u/U/v/V)
XPubMain == {FromHex("0488b21e"), FromHex("049d7cb2"), FromHex("0295b43f"), FromHex("04b24746"), FromHex("02aa7ed3")}
XPrvMain == {FromHex("0488ade4"), FromHex("049d7878"), FromHex("0295b005"), FromHex("04b2430c"), FromHex("02aa7a99")}
XPubTest == {FromHex("043587cf"), FromHex("044a5262"), FromHex("024289ef"), FromHex("045f1cf6"), FromHex("02575483")}
XPrvTest == {FromHex("04358394"), FromHex("044a4e28"), FromHex("024285b5"), FromHex("045f18bc"), FromHex("02575048")}
\* the network type a key string's prefix belongs to ("none" when the prefix is not one of the kind)
PrefixType(kind, prefix) ==
    CASE kind = "wif"  -> IF prefix = <<128>> THEN "main" ELSE IF prefix = <<239>> THEN "test" ELSE "none"
      [] kind = "xpub" -> IF prefix \in XPubMain THEN "main" ELSE IF prefix \in XPubTest THEN "test" ELSE "none"
      [] kind = "xprv" -> IF prefix \in XPrvMain THEN "main" ELSE IF prefix \in XPrvTest THEN "test" ELSE "none"
\* a key string read with a network declared ("" = none): accepted exactly when the declared network writes that prefix; the network
\* answered is the declared one, and without a declaration the first network of the type
KeyNetwork(kind, prefix, declared) ==
    LET t == PrefixType(kind, prefix) IN
    IF t = "none" \/ (declared # "" /\ TypeOfNet(declared) # t) THEN [ok |-> FALSE, net |-> "none"]
    ELSE [ok |-> TRUE, net |-> IF declared # "" THEN declared ELSE IF t = "main" THEN "mainnet" ELSE "testnet"]
\* the single-key output scripts
SpkOfKey(fn, sec) == CASE fn = "p2pkh" -> SpkP2PKH(Hash160(sec)) [] fn = "p2wpkh" -> SpkWitness(0, Hash160(sec))
                       [] fn = "p2wpkh_p2sh" -> SpkP2SH(Hash160(SpkWitness(0, Hash160(sec))))
WIFEncode(key, compressed, net) == Check58(<<WIFVersion(net)>> \o key \o (IF compressed THEN <<1>> ELSE << >>))
=============================================================================
