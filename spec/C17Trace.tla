------------------------------ MODULE C17Trace -------------------------------
(***************************************************************************)
(* Code -> specification for C17.  Events recorded from btclib:            *)
(*  root    {tag, leaves[], root, mutated}    merkle_root_and_mutated_..   *)
(*  branch  {leaf, branch[], index, out}      merkle_root_from_branch      *)
(*  proof   {txid, branch[], index, root, out: bool}  merkle_proof.verify  *)
(*  block   {hex, root_ok, commit_ok}         Block.assert_valid_merkle_   *)
(*                                            root / _witness_commitment   *)
(*  filter  {hex (block), prevouts[], n, bytes}  BasicBlockFilter.from_..  *)
(*  match   {hash, n, bytes, element, out}    BasicBlockFilter.match       *)
(*  decode  {n, bytes, refused, out: [values]}   parse + element_hashes    *)
(*  bits    {bits, target | "refused", negative}  target_from_bits         *)
(*  target  {target, bits}                    bits_from_target             *)
(*  next    {bits, timespan, limit, out}      next_bits                    *)
(*  work    {bits, out}                       block_work                   *)
(*  sid     {header, nonce, wtxid, out}       CmpctBlock.short_id          *)
(*  cmpct   {header, nonce, count, prefilled[[i, wtxid]], sids[], pool[],  *)
(*           refused, out: [wtxid | ""]}      reconstruct                  *)
(*  fill    {slots[], supplied[], refused, out}   PartialBlock.fill        *)
(***************************************************************************)
EXTENDS Merkle, GCS, PoW, CompactBlock, WireMore, EvBase

HX(s) == FromHex(s)
Hs(l) == [k \in 1..Len(l) |-> FromHex(l[k])]
\* display order <-> internal order
Rv(b) == Reverse(b)

\* ---- merkle proofs as merkle_proof.verify sees them (display order, inner nodes must not be transactions) ----
IsTx(b) == PTx(b).ok /\ SerTx(PTx(b).v, TRUE) = b
ProofOK(e) ==
  LET leaf == Rv(HX(e.txid))  br == [k \in 1..Len(e.branch) |-> Rv(HX(e.branch[k]))]
      step(acc, sib) == IF acc.bad THEN acc
                        ELSE LET pair == IF acc.idx % 2 = 1 THEN sib \o acc.root ELSE acc.root \o sib IN
                          IF (acc.idx % 2 = 1 /\ sib = acc.root) \/ IsTx(pair) THEN [acc EXCEPT !.bad = TRUE]
                          ELSE [root |-> Hash256(pair), idx |-> acc.idx \div 2, bad |-> FALSE]
      r == FoldLeft(step, [root |-> leaf, idx |-> e.index, bad |-> FALSE], br)
  IN ~r.bad /\ r.idx = 0 /\ Rv(r.root) = HX(e.root)

\* ---- block commitments, after Core's CheckBlock / ContextualCheckBlock ----
TxidI(tx) == Hash256(SerTx(tx, FALSE))
WtxidI(tx) == Hash256(SerTx(tx, TRUE))
RootOK(blk) == LET r == RootM("h256", [k \in 1..Len(blk.txs) |-> TxidI(blk.txs[k])]) IN r[1] = blk.header.merkle /\ ~r[2]
CommitPrefix == <<106, 36, 170, 33, 169, 237>>
CommitIndexes(cb) == {k \in 1..Len(cb.vout) : Len(cb.vout[k].spk) >= 38 /\ SubSeq(cb.vout[k].spk, 1, 6) = CommitPrefix}
MaxOf(S) == CHOOSE x \in S : \A y \in S : y <= x
AnyWitness(blk) == \E k \in 1..Len(blk.txs) : HasWitness(blk.txs[k])
\* Named deviation from Core (bad-witness-nonce-size): a block carrying no witness at all is the block as a legacy
\* node relays it, its witnesses stripped by the serialization; the library accepts it by design (block.py says so), there
\* being nothing left to check the commitment against.  Everything else is Core's rule.
CommitOK(blk) ==
  LET cb == blk.txs[1]  idx == CommitIndexes(cb) IN
    IF ~AnyWitness(blk) THEN TRUE
    ELSE IF idx = {} THEN FALSE
    ELSE LET w == cb.vin[1].witness IN
      /\ Len(cb.vin) >= 1 /\ Len(w) = 1 /\ Len(w[1]) = 32
      /\ LET wroot == Root("h256", <<[j \in 1..32 |-> 0]>> \o [k \in 1..(Len(blk.txs) - 1) |-> WtxidI(blk.txs[k + 1])])
         IN SubSeq(cb.vout[MaxOf(idx)].spk, 7, 38) = Hash256(wroot \o w[1])

\* ---- filters ----
Dedup(s) == FoldLeft(LAMBDA acc, x : IF \E j \in 1..Len(acc) : acc[j] = x THEN acc ELSE Append(acc, x), << >>, s)
FilterElements(blk, prevouts) ==
  LET outs == Concat([k \in 1..Len(blk.txs) |-> [j \in 1..Len(blk.txs[k].vout) |-> blk.txs[k].vout[j].spk]])
  IN Dedup(SelectSeq(outs, LAMBDA s : Len(s) > 0 /\ s[1] # 106) \o SelectSeq(prevouts, LAMBDA s : Len(s) > 0))
FilterOK(e) ==
  LET blk == PBlock(HX(e.hex)).v  els == FilterElements(blk, Hs(e.prevouts)) IN
    e.n = Len(els) /\ HX(e.bytes) = BasicFilter(HeaderHash(blk.header), els)
NatHexs(l) == [k \in 1..Len(l) |-> WN(l[k])]

\* ---- compact blocks ----
Key(e) == KeyFrom(HX(e.header), HX(e.nonce))
PreFn(e) == [q \in {e.prefilled[k].i + 1 : k \in 1..Len(e.prefilled)} |-> HX(e.prefilled[CHOOSE k \in 1..Len(e.prefilled) : e.prefilled[k].i + 1 = q].w)]
CmpctExpected(e) ==
  LET key == Key(e)
      pool == [j \in 1..Len(e.pool) |-> <<HX(e.pool[j]), ShortIdOf(key, HX(e.pool[j]))>>]
      r == Reconstruct(e.count, PreFn(e), NatHexs(e.sids), pool)
  IN IF r[1] = "refused" THEN <<TRUE, << >>>> ELSE <<FALSE, [q \in 1..Len(r[2]) |-> IF r[2][q][1] = "tx" THEN ToHex(r[2][q][2]) ELSE ""]>>
FillExpected(e) ==
  LET slots == [q \in 1..Len(e.slots) |-> IF e.slots[q] = "" THEN <<"missing">> ELSE <<"tx", e.slots[q]>>]
      r == Fill(slots, e.supplied)
  IN IF r[1] = "refused" THEN <<TRUE, << >>>> ELSE <<FALSE, r[2]>>

Check(e) ==
  CASE e.op = "root" -> LET r == RootM(e.tag, Hs(e.leaves)) IN ToHex(r[1]) = e.root /\ r[2] = e.mutated
    [] e.op = "branch" -> LET r == BranchRoot("h256", HX(e.leaf), Hs(e.branch), e.index) IN
                             IF r[1] = "refused" THEN e.out = "refused" ELSE e.out = ToHex(r[2])
    [] e.op = "proof" -> e.out = ProofOK(e)
    [] e.op = "block" -> LET blk == PBlock(HX(e.hex)).v IN e.root_ok = RootOK(blk) /\ e.commit_ok = CommitOK(blk)
    [] e.op = "filter" -> FilterOK(e)
    [] e.op = "match" -> e.out = MatchBasic(HX(e.hash), e.n, HX(e.bytes), HX(e.element))
    \* BIP158 match-any: a set of queries matches exactly when one of them does, in whatever order and number they are asked
    [] e.op = "match_any" -> e.out = (\E k \in 1..Len(e.elements) : MatchBasic(HX(e.hash), e.n, HX(e.bytes), HX(e.elements[k])))
    [] e.op = "decode" -> LET d == Decode(HX(e.bytes), e.n, BasicP, BasicM) IN
                             IF d[1] = "refused" THEN e.refused ELSE ~e.refused /\ NatHexs(e.out) = d[2]
    [] e.op = "bits" -> LET b == HX(e.bits)  t == TargetFromBits(b) IN
                             /\ (IF t[1] = "refused" THEN e.target = "refused" ELSE e.target = ToHex(t[2]))
                             /\ e.negative = IsNegative(b)
    [] e.op = "target" -> HX(e.bits) = BitsFromValue(BFromBytes(HX(e.target)))
    [] e.op = "next" -> HX(e.out) = NextBits(HX(e.bits), e.timespan, HX(e.limit))
    [] e.op = "work" -> LET b == HX(e.bits) IN IF Overflows(b) \/ BIsZero(ValueOf(b)) THEN e.out = "refused" ELSE e.out # "refused" /\ WN(e.out) = Work(b)
    [] e.op = "sid" -> WN(e.out) = ShortIdOf(Key(e), HX(e.wtxid))
    [] e.op = "cmpct" -> <<e.refused, e.out>> = CmpctExpected(e)
    [] e.op = "fill" -> <<e.refused, e.out>> = FillExpected(e)
EventOK == i > 0 => Check(Trace[i])
Diag == i > 0 => PrintT(<<"DIAG", i, <<Trace[i].op,
                  CASE Trace[i].op = "root" -> <<ToHex(RootM(Trace[i].tag, Hs(Trace[i].leaves))[1]), RootM(Trace[i].tag, Hs(Trace[i].leaves))[2]>>
                    [] Trace[i].op = "branch" -> BranchRoot("h256", HX(Trace[i].leaf), Hs(Trace[i].branch), Trace[i].index)
                    [] Trace[i].op = "proof" -> ProofOK(Trace[i])
                    [] Trace[i].op = "block" -> <<RootOK(PBlock(HX(Trace[i].hex)).v), CommitOK(PBlock(HX(Trace[i].hex)).v)>>
                    [] Trace[i].op = "filter" -> LET blk == PBlock(HX(Trace[i].hex)).v  els == FilterElements(blk, Hs(Trace[i].prevouts)) IN
                                                   <<Len(els), ToHex(BasicFilter(HeaderHash(blk.header), els))>>
                    [] Trace[i].op = "bits" -> <<TargetFromBits(HX(Trace[i].bits)), IsNegative(HX(Trace[i].bits))>>
                    [] Trace[i].op = "target" -> BitsFromValue(BFromBytes(HX(Trace[i].target)))
                    [] Trace[i].op = "next" -> NextBits(HX(Trace[i].bits), Trace[i].timespan, HX(Trace[i].limit))
                    [] Trace[i].op = "cmpct" -> CmpctExpected(Trace[i])
                    [] Trace[i].op = "fill" -> FillExpected(Trace[i])
                    [] Trace[i].op = "match_any" -> {k \in 1..Len(Trace[i].elements) : MatchBasic(HX(Trace[i].hash), Trace[i].n, HX(Trace[i].bytes), HX(Trace[i].elements[k]))}
                    [] Trace[i].op = "match" -> MatchBasic(HX(Trace[i].hash), Trace[i].n, HX(Trace[i].bytes), HX(Trace[i].element))
                    [] Trace[i].op = "decode" -> Decode(HX(Trace[i].bytes), Trace[i].n, BasicP, BasicM)
                    [] OTHER -> "-">>>>)
=============================================================================
