--------------------------------- MODULE BIP32 --------------------------------
(***************************************************************************)
(* BIP32 hierarchical deterministic keys at real size (secp256k1 +         *)
(* HMAC-SHA512), transcribed from the BIP.  A node is the decoded 78-byte  *)
(* extended key: [version(4 bytes), depth, fp(4), index(4 bytes BE),       *)
(* chain(32), key(33)] where key = 00 || k for a private node and serP(K)  *)
(* for a public one.  A refusal is [ok |-> FALSE].                         *)
(***************************************************************************)
EXTENDS ECReal

C1 == Secp256k1
SerP(P) == SecCompressed(C1, P)
Ser32(i) == BToBytes(i, 4)                   \* index as a BigNat
Hardened(i) == BGe(i, BPow2(31))
IsPrv(node) == node.key[1] = 0
PrvOf(node) == BFromBytes(Drop(node.key, 1))
\* decompress a 33-byte SEC point of secp256k1 (p = 3 mod 4)
PointOfSec(b) ==
    LET x == BFromBytes(Drop(b, 1))
        y2 == ECR!Rhs(C1, x)
        y0 == BPowMod(y2, BShr(BAdd(C1.p, BOne), 2), C1.p)
        y == IF BIsOdd(y0) = (b[1] = 3) THEN y0 ELSE BSub(C1.p, y0)
    IN IF BMulMod(y0, y0, C1.p) = y2 /\ b[1] \in {2, 3} /\ BLt(x, C1.p) THEN ECR!Pt(x, y) ELSE ECR!Inf
PubPoint(node) == IF IsPrv(node) THEN RMulG(C1, PrvOf(node)) ELSE PointOfSec(node.key)
Fingerprint(node) == Take(Hash160(SerP(PubPoint(node))), 4)
Bad == [ok |-> FALSE]

Master(seed, version) ==
    LET I == HMAC(HF("sha512"), Utf8("Bitcoin seed"), seed)  il == BFromBytes(Take(I, 32)) IN
    IF BIsZero(il) \/ BGe(il, C1.n) THEN Bad
    ELSE [ok |-> TRUE, version |-> version, depth |-> 0, fp |-> Zeros(4), index |-> Zeros(4), chain |-> Drop(I, 32), key |-> <<0>> \o Take(I, 32)]

\* the child from the 64 bytes I the HMAC gave (a parameter, so that traces with a dictated HMAC bind the refusals)
CKDprivWith(node, i, I) ==
    LET k == PrvOf(node)
        il == BFromBytes(Take(I, 32))
        child == BAddMod(il, k, C1.n)
    IN IF BGe(il, C1.n) \/ BIsZero(child) \/ node.depth >= 255 THEN Bad
       ELSE [ok |-> TRUE, version |-> node.version, depth |-> node.depth + 1, fp |-> Fingerprint(node), index |-> Ser32(i),
             chain |-> Drop(I, 32), key |-> <<0>> \o BToBytes(child, 32)]

CKDpriv(node, i) ==
    LET k == PrvOf(node)
        data == IF Hardened(i) THEN <<0>> \o BToBytes(k, 32) \o Ser32(i) ELSE SerP(RMulG(C1, k)) \o Ser32(i)
    IN CKDprivWith(node, i, HMAC(HF("sha512"), node.chain, data))

CKDpubWith(node, i, I) ==
    IF Hardened(i) THEN Bad ELSE
    LET K == PubPoint(node)
        il == BFromBytes(Take(I, 32))
        child == ECR!Add(C1, RMulG(C1, il), K)
    IN IF BGe(il, C1.n) \/ child.inf \/ node.depth >= 255 THEN Bad
       ELSE [ok |-> TRUE, version |-> node.version, depth |-> node.depth + 1, fp |-> Fingerprint(node), index |-> Ser32(i),
             chain |-> Drop(I, 32), key |-> SerP(child)]

CKDpub(node, i) == IF Hardened(i) THEN Bad ELSE CKDpubWith(node, i, HMAC(HF("sha512"), node.chain, SerP(PubPoint(node)) \o Ser32(i)))

\* SLIP132 version bytes: [purpose][network][prv|pub]
Slip132(kind, test, prv) ==
    CASE kind = "p2pkh"       -> IF test THEN (IF prv THEN FromHex("04358394") ELSE FromHex("043587cf")) ELSE (IF prv THEN FromHex("0488ade4") ELSE FromHex("0488b21e"))
      [] kind = "p2wpkh_p2sh" -> IF test THEN (IF prv THEN FromHex("044a4e28") ELSE FromHex("044a5262")) ELSE (IF prv THEN FromHex("049d7878") ELSE FromHex("049d7cb2"))
      [] kind = "p2wpkh"      -> IF test THEN (IF prv THEN FromHex("045f18bc") ELSE FromHex("045f1cf6")) ELSE (IF prv THEN FromHex("04b2430c") ELSE FromHex("04b24746"))
TestVersions == {FromHex("04358394"), FromHex("043587cf"), FromHex("044a4e28"), FromHex("044a5262"), FromHex("045f18bc"), FromHex("045f1cf6"),
                 FromHex("024285b5"), FromHex("024289ef"), FromHex("02575048"), FromHex("02575483")}

CKD(node, i) == IF IsPrv(node) THEN CKDpriv(node, i) ELSE CKDpub(node, i)
RECURSIVE DeriveFrom(_, _, _)
DeriveFrom(node, path, j) == IF j > Len(path) THEN node
                             ELSE LET c == CKD(node, path[j]) IN IF ~c.ok THEN Bad ELSE DeriveFrom(c, path, j + 1)
Derive(node, path) == DeriveFrom([node EXCEPT !.ok = TRUE], path, 1)

\* N(m): the public twin; pubVersion is the version bytes the caller's table pairs with the private ones
Neuter(node, pubVersion) == [node EXCEPT !.version = pubVersion, !.key = SerP(PubPoint(node))]

Ser(node) == node.version \o <<node.depth>> \o node.fp \o node.index \o node.chain \o node.key
NodeOf(b) == [ok |-> TRUE, version |-> SubSeq(b, 1, 4), depth |-> b[5], fp |-> SubSeq(b, 6, 9), index |-> SubSeq(b, 10, 13),
              chain |-> SubSeq(b, 14, 45), key |-> SubSeq(b, 46, 78)]
=============================================================================
