-------------------------------- MODULE Merkle --------------------------------
(***************************************************************************)
(* C17: Bitcoin's merkle tree.  Definitions only.                          *)
(* The tree over a bottom level of values: an odd level repeats its last   *)
(* node, a node is the hash of its two children concatenated.  The hash is *)
(* named by a tag so that the same definitions serve the model (a          *)
(* structural, collision-free hash: brackets) and the real tree (hash256). *)
(*  - RootM(tag, level) = <<root, mutated>>; mutated = some level holds    *)
(*    two equal siblings (CVE-2012-2459, Core's `mutated`);                *)
(*  - BranchOf(tag, level, idx): the siblings of leaf idx, bottom-up;      *)
(*  - BranchRoot(tag, leaf, branch, idx): the root a branch proves, or     *)
(*    <<"refused">>: a right child equal to its sibling (the duplicated    *)
(*    tail is not a position of its own), or index bits left over.         *)
(***************************************************************************)
EXTENDS Hash, Integers, Sequences, SequencesExt

MH(tag, x) == IF tag = "toy" THEN <<60>> \o x \o <<62>> ELSE Hash256(x)

Padded(level) == IF Len(level) % 2 = 1 THEN Append(level, level[Len(level)]) ELSE level
Up(tag, level) == LET p == Padded(level) IN [k \in 1..(Len(p) \div 2) |-> MH(tag, p[2 * k - 1] \o p[2 * k])]
\* equal siblings in the level as given (before padding): pairs (1,2), (3,4), ...
EqualSiblings(level) == \E k \in 1..(Len(level) \div 2) : level[2 * k - 1] = level[2 * k]
RECURSIVE RootM(_, _)
RootM(tag, level) == IF Len(level) = 1 THEN <<level[1], FALSE>>
                     ELSE LET r == RootM(tag, Up(tag, level)) IN <<r[1], r[2] \/ EqualSiblings(level)>>
Root(tag, level) == RootM(tag, level)[1]
Mutated(tag, level) == RootM(tag, level)[2]

\* idx counts from 0
RECURSIVE BranchOf(_, _, _)
BranchOf(tag, level, idx) ==
  IF Len(level) = 1 THEN << >>
  ELSE LET p == Padded(level)  sib == IF idx % 2 = 0 THEN p[idx + 2] ELSE p[idx] IN
         <<sib>> \o BranchOf(tag, Up(tag, level), idx \div 2)

BranchRoot(tag, leaf, branch, idx) ==
  LET step(acc, sib) ==
        IF acc.bad THEN acc
        ELSE IF acc.idx % 2 = 1
               THEN IF sib = acc.root THEN [acc EXCEPT !.bad = TRUE]
                    ELSE [root |-> MH(tag, sib \o acc.root), idx |-> acc.idx \div 2, bad |-> FALSE]
               ELSE [root |-> MH(tag, acc.root \o sib), idx |-> acc.idx \div 2, bad |-> FALSE]
      r == FoldLeft(step, [root |-> leaf, idx |-> idx, bad |-> FALSE], branch)
  IN IF r.bad \/ r.idx # 0 THEN <<"refused">> ELSE <<"ok", r.root>>
=============================================================================
