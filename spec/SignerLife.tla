----------------------------- MODULE SignerLife -----------------------------
(***************************************************************************)
(* Life cycle of a key-holding signer object: ecc.dsa.Signer,              *)
(* ecc.ssa.Signer (wipe / with-statement) and psbt_signer.SoftwareSigner   *)
(* (close).  Methods is the set of public entry points that can return a   *)
(* signature; Kill the set of entry points that end the object's life.     *)
(* The arm (bindings / Python) is fixed at construction; Flip switches the *)
(* process-wide backend and must not revive or re-arm the object.          *)
(***************************************************************************)
EXTENDS Integers, Sequences, TLC

CONSTANTS Methods, Kill, MaxLen

VARIABLES alive, serving, last, h
vars == <<alive, serving, last, h>>

Init == alive = TRUE /\ serving \in BOOLEAN /\ last = "none" /\ h = << >>

Sign(m) ==
    /\ last' = IF alive THEN "sig" ELSE "refused"
    /\ UNCHANGED <<alive, serving>>
    /\ h' = Append(h, <<"sign", m, last'>>)

End(k) ==
    /\ alive' = FALSE /\ last' = "none" /\ UNCHANGED serving
    /\ h' = Append(h, <<"kill", k, last'>>)

Flip ==
    /\ serving' = ~serving /\ last' = "none" /\ UNCHANGED alive
    /\ h' = Append(h, <<"flip", "-", last'>>)

Next == (\E m \in Methods : Sign(m)) \/ (\E k \in Kill : End(k)) \/ Flip
Spec == Init /\ [][Next]_vars

\* C20: a wiped or closed signer never signs again
DeadNeverSigns == [][~alive => last' # "sig"]_vars
DeadForever    == [][~alive => ~alive']_vars
AliveSigns     == [][(alive /\ h'[Len(h')][1] = "sign") => last' = "sig"]_vars

Bound == Len(h) <= MaxLen
View == <<alive, serving, last>>
Emit == Len(h) = MaxLen => PrintT(<<"BEH", h>>)
=============================================================================
