--------------------------------- MODULE Wire ---------------------------------
(***************************************************************************)
(* Bitcoin consensus wire formats: CompactSize, var-bytes, OutPoint, TxIn, *)
(* TxOut, Witness, Tx (BIP144 marker/flag rules), with for each class a    *)
(* total serializer and a parser.  The parser of every class is a function *)
(* from (bytes, position) to [ok, v, pos]: one step per field read,        *)
(* refusing on a short read, a non-minimal CompactSize, a count above the  *)
(* limit, a superfluous witness record and (at top level) trailing bytes.  *)
(* Integers that can exceed 2^31 are BigNat; counts and lengths are TLC    *)
(* integers.                                                               *)
(*                                                                         *)
(* A transaction is [version, vin, vout, locktime] with                    *)
(*   vin[i]  = [txid (32 bytes as on the wire), vout, script, sequence,    *)
(*              witness (sequence of byte strings)]                        *)
(*   vout[i] = [value (BigNat, 8 bytes on the wire), spk]                  *)
(***************************************************************************)
EXTENDS Integers, Sequences, SequencesExt, BigNat, Hash

LE(n, k) == BToBytesLE(n, k)                 \* BigNat -> k little-endian bytes
LEInt(n, k) == BToBytesLE(B(n), k)           \* TLC integer
Concat(seqs) == FoldLeft(LAMBDA acc, s : acc \o s, << >>, seqs)

CompactSize(n) == IF n < 253 THEN <<n>>
                  ELSE IF n <= 65535 THEN <<253>> \o LEInt(n, 2)
                  ELSE <<254>> \o LEInt(n, 4)
CompactSizeBig(n) == IF BLt(n, B(253)) THEN <<BToInt(n)>>
                     ELSE IF BLe(n, B(65535)) THEN <<253>> \o LE(n, 2)
                     ELSE IF BLt(n, BPow2(32)) THEN <<254>> \o LE(n, 4)
                     ELSE <<255>> \o LE(n, 8)
VarBytes(b) == CompactSize(Len(b)) \o b

SerOutPoint(i) == i.txid \o LE(i.vout, 4)
SerTxIn(i) == SerOutPoint(i) \o VarBytes(i.script) \o LE(i.sequence, 4)
SerTxOut(o) == LE(o.value, 8) \o VarBytes(o.spk)
SerWitness(w) == CompactSize(Len(w)) \o Concat([j \in 1..Len(w) |-> VarBytes(w[j])])
HasWitness(tx) == \E j \in 1..Len(tx.vin) : tx.vin[j].witness # << >>
SerTx(tx, withWitness) ==
    LET seg == withWitness /\ HasWitness(tx) IN
    LE(tx.version, 4) \o (IF seg THEN <<0, 1>> ELSE << >>)
    \o CompactSize(Len(tx.vin)) \o Concat([j \in 1..Len(tx.vin) |-> SerTxIn(tx.vin[j])])
    \o CompactSize(Len(tx.vout)) \o Concat([j \in 1..Len(tx.vout) |-> SerTxOut(tx.vout[j])])
    \o (IF seg THEN Concat([j \in 1..Len(tx.vin) |-> SerWitness(tx.vin[j].witness)]) ELSE << >>)
    \o LE(tx.locktime, 4)

Txid(tx)  == Rev(Hash256(SerTx(tx, FALSE)))
Wtxid(tx) == Rev(Hash256(SerTx(tx, TRUE)))
Size(tx)         == Len(SerTx(tx, TRUE))
StrippedSize(tx) == Len(SerTx(tx, FALSE))
Weight(tx) == 3 * StrippedSize(tx) + Size(tx)
VSize(tx)  == (Weight(tx) + 3) \div 4

-----------------------------------------------------------------------------
\* parsers: result [ok, v, pos]; pos is the index of the next unread byte (1-based)
Fail == [ok |-> FALSE, v |-> << >>, pos |-> 0]
Ok(v, pos) == [ok |-> TRUE, v |-> v, pos |-> pos]
Avail(b, pos, k) == pos + k - 1 <= Len(b)
Bytes(b, pos, k) == SubSeq(b, pos, pos + k - 1)

\* CompactSize as a natural (BigNat), canonical encodings only, value <= max (BigNat)
PCompactBig(b, pos, max) ==
    IF ~Avail(b, pos, 1) THEN Fail
    ELSE LET t == b[pos]
             width == IF t < 253 THEN 0 ELSE IF t = 253 THEN 2 ELSE IF t = 254 THEN 4 ELSE 8
         IN IF width = 0 THEN (IF BLe(B(t), max) THEN Ok(B(t), pos + 1) ELSE Fail)
            ELSE IF ~Avail(b, pos + 1, width) THEN Fail
            ELSE LET v == BFromBytesLE(Bytes(b, pos + 1, width))
                     min == IF width = 2 THEN B(253) ELSE IF width = 4 THEN B(65536) ELSE BPow2(32)
                 IN IF BLt(v, min) \/ BGt(v, max) THEN Fail ELSE Ok(v, pos + 1 + width)
MaxSize == B(33554432)             \* Core's MAX_SIZE, 0x02000000
PCompact(b, pos, max) == LET r == PCompactBig(b, pos, B(max)) IN IF r.ok THEN Ok(BToInt(r.v), r.pos) ELSE Fail

PVarBytes(b, pos) == LET n == PCompact(b, pos, 33554432) IN
                     IF ~n.ok \/ ~Avail(b, n.pos, n.v) THEN Fail ELSE Ok(Bytes(b, n.pos, n.v), n.pos + n.v)

POutPoint(b, pos) == IF ~Avail(b, pos, 36) THEN Fail
                     ELSE Ok([txid |-> Bytes(b, pos, 32), vout |-> BFromBytesLE(Bytes(b, pos + 32, 4))], pos + 36)
PTxIn(b, pos) ==
    LET o == POutPoint(b, pos) IN IF ~o.ok THEN Fail ELSE
    LET s == PVarBytes(b, o.pos) IN IF ~s.ok \/ ~Avail(b, s.pos, 4) THEN Fail ELSE
    Ok([txid |-> o.v.txid, vout |-> o.v.vout, script |-> s.v, sequence |-> BFromBytesLE(Bytes(b, s.pos, 4)), witness |-> << >>], s.pos + 4)
PTxOut(b, pos) ==
    IF ~Avail(b, pos, 8) THEN Fail ELSE
    LET s == PVarBytes(b, pos + 8) IN IF ~s.ok THEN Fail ELSE
    Ok([value |-> BFromBytesLE(Bytes(b, pos, 8)), spk |-> s.v], s.pos)

\* n items parsed one after the other by P(_, _)
RECURSIVE PMany(_, _, _, _, _)
PMany(P(_, _), b, pos, n, acc) ==
    IF n = 0 THEN Ok(acc, pos)
    ELSE LET r == P(b, pos) IN IF ~r.ok THEN Fail ELSE PMany(P, b, r.pos, n - 1, Append(acc, r.v))
PWitness(b, pos) == LET n == PCompact(b, pos, 33554432) IN IF ~n.ok THEN Fail ELSE PMany(PVarBytes, b, n.pos, n.v, << >>)

\* BIP144: after the version, 00 01 announces the extended format
PTx(b) ==
    IF ~Avail(b, 1, 4) THEN Fail ELSE
    LET version == BFromBytesLE(Bytes(b, 1, 4))
        seg == Avail(b, 5, 2) /\ b[5] = 0 /\ b[6] = 1
        p0 == IF seg THEN 7 ELSE 5
        nin == PCompact(b, p0, 33554432)
    IN IF ~nin.ok THEN Fail ELSE
    LET ins == PMany(PTxIn, b, nin.pos, nin.v, << >>) IN IF ~ins.ok THEN Fail ELSE
    LET nout == PCompact(b, ins.pos, 33554432) IN IF ~nout.ok THEN Fail ELSE
    LET outs == PMany(PTxOut, b, nout.pos, nout.v, << >>) IN IF ~outs.ok THEN Fail ELSE
    LET wits == IF seg THEN PMany(PWitness, b, outs.pos, nin.v, << >>) ELSE Ok(<< >>, outs.pos) IN IF ~wits.ok THEN Fail ELSE
    LET vin == IF seg THEN [j \in 1..nin.v |-> [ins.v[j] EXCEPT !.witness = wits.v[j]]] ELSE ins.v
        superfluous == seg /\ \A j \in 1..nin.v : wits.v[j] = << >>
    IN IF superfluous \/ ~Avail(b, wits.pos, 4) \/ wits.pos + 4 # Len(b) + 1 THEN Fail
       ELSE Ok([version |-> version, vin |-> vin, vout |-> outs.v, locktime |-> BFromBytesLE(Bytes(b, wits.pos, 4))], Len(b) + 1)

\* block header: 80 bytes
SerHeader(h) == LE(h.version, 4) \o h.prev \o h.merkle \o LE(h.time, 4) \o LE(h.bits, 4) \o LE(h.nonce, 4)
PHeader(b, pos) == IF ~Avail(b, pos, 80) THEN Fail ELSE
    Ok([version |-> BFromBytesLE(Bytes(b, pos, 4)), prev |-> Bytes(b, pos + 4, 32), merkle |-> Bytes(b, pos + 36, 32),
        time |-> BFromBytesLE(Bytes(b, pos + 68, 4)), bits |-> BFromBytesLE(Bytes(b, pos + 72, 4)),
        nonce |-> BFromBytesLE(Bytes(b, pos + 76, 4))], pos + 80)
HeaderHash(h) == Rev(Hash256(SerHeader(h)))

\* values from traces
WN(hexs) == BFromBytes(FromHex(hexs))
TxInOf(j) == [txid |-> FromHex(j.txid), vout |-> WN(j.vout), script |-> FromHex(j.script), sequence |-> WN(j.sequence),
              witness |-> [k \in 1..Len(j.witness) |-> FromHex(j.witness[k])]]
TxOutOf(j) == [value |-> WN(j.value), spk |-> FromHex(j.spk)]
TxOf(j) == [version |-> WN(j.version), locktime |-> WN(j.locktime),
            vin |-> [k \in 1..Len(j.vin) |-> TxInOf(j.vin[k])], vout |-> [k \in 1..Len(j.vout) |-> TxOutOf(j.vout[k])]]
=============================================================================
