------------------------------ MODULE BIP32Model ------------------------------
(***************************************************************************)
(* The algebra of BIP32 on an abstract instantiation: the group is a toy   *)
(* prime-order curve of ECToyDefs, the "HMAC" is an arbitrary but fixed    *)
(* mixing function into (IL, IR) with IL ranging over 0..n (so that the    *)
(* IL >= n and zero-child refusals are reachable, which at real size they  *)
(* are not).  The machine derives a tree node by node; TLC checks the      *)
(* BIP's laws in every state:                                              *)
(*   Commute       N(CKDpriv(m, i)) = CKDpub(N(m), i) for unhardened i     *)
(*   Refusals      a refused private child is a refused public child and   *)
(*                 is never "the next index's child"                       *)
(*   ParentRecovery  parent prv = child prv - IL (from the parent pub)     *)
(*   HardenedNeedsPrv  CKDpub refuses hardened indexes                     *)
(***************************************************************************)
EXTENDS ECToyDefs, Sequences

CONSTANTS GP, GA, GB, GX, GY, GN, Indexes, HardenedFrom, MaxDepth
Cv == [p |-> GP, a |-> GA, b |-> GB]
G0 == EC!Pt(GX, GY)
GT == [kk \in 0..GN |-> MulRep(Cv, kk, G0)]
MulG(kk) == GT[kk % GN]
Hard(i) == i >= HardenedFrom
\* a fixed mixing function standing for HMAC-SHA512(chain, data): data is an integer code of the bytes
Mix(chain, data, i) == LET v == (chain * 31 + data * 17 + i * 7 + 3) IN [il |-> v % (GN + 1), ir |-> (v * 13 + 5) % 11]
Code(P) == IF P.inf THEN 0 ELSE (P.x * 2) + (P.y % 2) + 1          \* serP: abscissa and parity

CKDprivT(k, chain, i) ==
    LET I == Mix(chain, IF Hard(i) THEN 1000 + k ELSE Code(MulG(k)), i)
        child == (I.il + k) % GN
    IN IF I.il >= GN \/ child = 0 THEN [ok |-> FALSE, k |-> 0, chain |-> 0, il |-> I.il] ELSE [ok |-> TRUE, k |-> child, chain |-> I.ir, il |-> I.il]
CKDpubT(K, chain, i) ==
    IF Hard(i) THEN [ok |-> FALSE, K |-> EC!Inf, chain |-> 0]
    ELSE LET I == Mix(chain, Code(K), i)
             child == EC!Add(Cv, MulG(I.il), K)
         IN IF I.il >= GN \/ child.inf THEN [ok |-> FALSE, K |-> EC!Inf, chain |-> 0] ELSE [ok |-> TRUE, K |-> child, chain |-> I.ir]

VARIABLES k, chain, depth
bvars == <<k, chain, depth>>
BInit == k \in 1..GN - 1 /\ chain \in 0..3 /\ depth = 0
BNext == /\ depth < MaxDepth
         /\ \E i \in Indexes : LET c == CKDprivT(k, chain, i) IN c.ok /\ k' = c.k /\ chain' = c.chain /\ depth' = depth + 1
BSpec == BInit /\ [][BNext]_bvars

Commute == \A i \in Indexes : ~Hard(i) =>
    LET a == CKDprivT(k, chain, i)  b == CKDpubT(MulG(k), chain, i) IN
    /\ a.ok = b.ok
    /\ a.ok => MulG(a.k) = b.K /\ a.chain = b.chain
HardenedNeedsPrv == \A i \in Indexes : Hard(i) => ~CKDpubT(MulG(k), chain, i).ok
ParentRecovery == \A i \in Indexes : ~Hard(i) =>
    LET a == CKDprivT(k, chain, i) IN a.ok => (a.k - Mix(chain, Code(MulG(k)), i).il) % GN = k
\* the refusals are reachable in this instantiation (else the model says nothing about them)
RefusalReached == ~(\E i \in Indexes : ~CKDprivT(k, chain, i).ok)
=============================================================================
