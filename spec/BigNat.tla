------------------------------- MODULE BigNat -------------------------------
(***************************************************************************)
(* Natural numbers of unbounded size.  TLC's Int is 32 bits, so a natural  *)
(* is represented by its canonical big-endian byte sequence (no leading    *)
(* zero byte; zero is the empty sequence) -- the same bytes the wire       *)
(* formats carry.  Equality of naturals is therefore TLA+ equality.        *)
(*                                                                         *)
(* The operators below are evaluated by java.math.BigInteger through TLC   *)
(* operator overrides (java/verif/BigNat.java), exactly as TLC evaluates   *)
(* Naturals.  The definitions given here are the specification of each     *)
(* override in terms of Val (the number a byte sequence denotes); module   *)
(* BigNatSelfTest checks override = definition on all small operands.      *)
(* The bodies are never evaluated by TLC when the overrides are loaded; if *)
(* they are not loaded, NoOverride makes every use fail loudly.            *)
(***************************************************************************)
EXTENDS Integers, Sequences

LOCAL NoOverride == CHOOSE x \in {} : TRUE

BAdd(a, b)        == NoOverride   \* Val(a) + Val(b)
BSub(a, b)        == NoOverride   \* Val(a) - Val(b)        (an error when negative)
BMul(a, b)        == NoOverride   \* Val(a) * Val(b)
BDiv(a, b)        == NoOverride   \* Val(a) \div Val(b)
BMod(a, m)        == NoOverride   \* Val(a) % Val(m)
BAddMod(a, b, m)  == NoOverride   \* (Val(a) + Val(b)) % Val(m)
BSubMod(a, b, m)  == NoOverride   \* (Val(a) - Val(b)) mod Val(m), in 0..m-1
BMulMod(a, b, m)  == NoOverride   \* (Val(a) * Val(b)) % Val(m)
BPowMod(a, e, m)  == NoOverride   \* Val(a)^Val(e) % Val(m)
BGcd(a, b)        == NoOverride
BInvMod(a, m)     == NoOverride   \* the x in 0..m-1 with a*x % m = 1   (an error when gcd # 1)
BCmp(a, b)        == NoOverride   \* -1, 0, 1
BBitLen(a)        == NoOverride
BBit(a, i)        == NoOverride   \* bit i (0 = least significant) as 0 / 1
BShl(a, k)        == NoOverride
BShr(a, k)        == NoOverride
BAnd(a, b)        == NoOverride
BOr(a, b)         == NoOverride
BXor(a, b)        == NoOverride
BFromInt(n)       == NoOverride   \* a TLC integer 0..2^31-1 as a natural
BToInt(a)         == NoOverride   \* defined below 2^31
BFromBytes(b)     == NoOverride   \* any byte string read big-endian
BToBytes(a, len)  == NoOverride   \* big-endian, zero-padded to len bytes (an error if too long)
BIsProbablePrime(a) == NoOverride
BSqrtFloor(a)     == NoOverride

-----------------------------------------------------------------------------
BZero == << >>
BOne  == << 1 >>
BTwo  == << 2 >>
BLt(a, b) == BCmp(a, b) = -1
BLe(a, b) == BCmp(a, b) # 1
BGt(a, b) == BCmp(a, b) = 1
BGe(a, b) == BCmp(a, b) # -1
BIsZero(a) == a = << >>
BIsOdd(a)  == a # << >> /\ a[Len(a)] % 2 = 1
BIsEven(a) == ~BIsOdd(a)
BNegMod(a, m) == BSubMod(BZero, a, m)
B(n) == BFromInt(n)
\* little-endian fixed width
BToBytesLE(a, len) == LET be == BToBytes(a, len) IN [i \in 1..len |-> be[len + 1 - i]]
BFromBytesLE(b)    == BFromBytes([i \in 1..Len(b) |-> b[Len(b) + 1 - i]])
\* 2^k
BPow2(k) == BShl(BOne, k)
=============================================================================
