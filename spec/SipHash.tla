------------------------------- MODULE SipHash --------------------------------
(* SipHash-2-4 (Aumasson, Bernstein) on 64-bit words held as BigNat: the keyed hash of BIP152 short ids and BIP158
   filters.  Definitions only. *)
EXTENDS BigNat, Integers, Sequences, SequencesExt

M64 == BShl(BOne, 64)
Add64(a, b) == BMod(BAdd(a, b), M64)
Rotl64(x, k) == BOr(BMod(BShl(x, k), M64), BShr(x, 64 - k))
WordLE(bytes8) == BFromBytes([j \in 1..8 |-> bytes8[9 - j]])

SipRound(v) ==
  LET a0 == Add64(v[1], v[2])  b1 == BXor(Rotl64(v[2], 13), a0)  a0r == Rotl64(a0, 32)
      c2 == Add64(v[3], v[4])  d3 == BXor(Rotl64(v[4], 16), c2)
      a0b == Add64(a0r, d3)    d3b == BXor(Rotl64(d3, 21), a0b)
      c2b == Add64(c2, b1)     b1b == BXor(Rotl64(b1, 17), c2b)  c2r == Rotl64(c2b, 32)
  IN <<a0b, b1b, c2r, d3b>>
Compress(v, m) == LET w == <<v[1], v[2], v[3], BXor(v[4], m)>>  r == SipRound(SipRound(w)) IN <<BXor(r[1], m), r[2], r[3], r[4]>>

SipHash24(k0, k1, data) ==
  LET v0 == <<BXor(BFromBytes(<<115, 111, 109, 101, 112, 115, 101, 117>>), k0), BXor(BFromBytes(<<100, 111, 114, 97, 110, 100, 111, 109>>), k1),
              BXor(BFromBytes(<<108, 121, 103, 101, 110, 101, 114, 97>>), k0), BXor(BFromBytes(<<116, 101, 100, 98, 121, 116, 101, 115>>), k1)>>
      n == Len(data)  full == n \div 8
      v1 == FoldLeft(LAMBDA v, j : Compress(v, WordLE(SubSeq(data, 8 * j - 7, 8 * j))), v0, [j \in 1..full |-> j])
      tail == SubSeq(data, 8 * full + 1, n)
      last == WordLE(tail \o [j \in 1..(7 - Len(tail)) |-> 0] \o <<n % 256>>)
      v2 == Compress(v1, last)
      v3 == <<v2[1], v2[2], BXor(v2[3], B(255)), v2[4]>>
      f == SipRound(SipRound(SipRound(SipRound(v3))))
  IN BXor(BXor(f[1], f[2]), BXor(f[3], f[4]))
=============================================================================
