-------------------------------- MODULE Hash --------------------------------
(***************************************************************************)
(* Hash and text primitives on byte sequences, evaluated by the JDK        *)
(* (java.security.MessageDigest, java.text.Normalizer; RIPEMD-160 in       *)
(* java/verif/Ripemd160.java) through TLC operator overrides, and the      *)
(* constructions Bitcoin builds from them, written out in TLA+.            *)
(***************************************************************************)
EXTENDS Integers, Sequences, SequencesExt, Bitwise, BigNat

LOCAL NoOverrideH == CHOOSE x \in {} : TRUE

SHA1(m)      == NoOverrideH
SHA256(m)    == NoOverrideH
SHA512(m)    == NoOverrideH
RIPEMD160(m) == NoOverrideH
FromHex(s)   == NoOverrideH    \* "00ff" |-> <<0, 255>>
ToHex(b)     == NoOverrideH
Utf8(s)      == NoOverrideH    \* a TLA+ string as its UTF-8 bytes
NFKD(b)      == NoOverrideH    \* Unicode normalisation of UTF-8 bytes
NFC(b)       == NoOverrideH

-----------------------------------------------------------------------------
Hash256(m) == SHA256(SHA256(m))
Hash160(m) == RIPEMD160(SHA256(m))
TaggedHash(tag, m) == LET t == SHA256(Utf8(tag)) IN SHA256(t \o t \o m)

Rev(b) == [i \in 1..Len(b) |-> b[Len(b) + 1 - i]]
Zeros(n) == [i \in 1..n |-> 0]
Rep(x, n) == [i \in 1..n |-> x]
XorBytes(a, b) == [i \in 1..Len(a) |-> a[i] ^^ b[i]]
Take(b, n) == SubSeq(b, 1, n)
Drop(b, n) == SubSeq(b, n + 1, Len(b))

\* hash function descriptors: name, digest size, block size
HF(name) == CASE name = "sha1"      -> [name |-> name, size |-> 20, block |-> 64]
              [] name = "sha256"    -> [name |-> name, size |-> 32, block |-> 64]
              [] name = "sha512"    -> [name |-> name, size |-> 64, block |-> 128]
              [] name = "ripemd160" -> [name |-> name, size |-> 20, block |-> 64]
              [] name = "toy"       -> [name |-> name, size |-> 1, block |-> 4]
\* a one-byte mixing function for the toy-curve models (no security claimed: only that it is a function of all bytes)
ToyHash(m) == <<FoldLeft(LAMBDA acc, x : (acc * 7 + x + 3) % 251, Len(m) % 251, m)>>
H(hf, m) == CASE hf.name = "sha1"      -> SHA1(m)
              [] hf.name = "sha256"    -> SHA256(m)
              [] hf.name = "sha512"    -> SHA512(m)
              [] hf.name = "ripemd160" -> RIPEMD160(m)
              [] hf.name = "toy"       -> ToyHash(m)

\* RFC 2104
HMAC(hf, key, m) ==
    LET k0  == IF Len(key) > hf.block THEN H(hf, key) ELSE key
        k   == k0 \o Zeros(hf.block - Len(k0))
        ipad == [i \in 1..hf.block |-> k[i] ^^ 54]
        opad == [i \in 1..hf.block |-> k[i] ^^ 92]
    IN H(hf, opad \o H(hf, ipad \o m))

\* RFC 8018 PBKDF2, one block is enough for dkLen <= digest size; general dkLen handled blockwise
\* iterated with FoldLeft (evaluated as a loop by TLC) rather than by recursion: c is 2048 and more
PBKDF2Block(hf, pw, salt, c, idx) ==
    LET u1 == HMAC(hf, pw, salt \o <<0, 0, 0, idx>>)
        Step(st, i) == LET u2 == HMAC(hf, pw, st[1]) IN <<u2, XorBytes(st[2], u2)>>
    IN FoldLeft(Step, <<u1, u1>>, [i \in 1..c - 1 |-> i])[2]
RECURSIVE PBKDF2Blocks(_, _, _, _, _, _)
PBKDF2Blocks(hf, pw, salt, c, idx, n) ==
    IF idx > n THEN << >> ELSE PBKDF2Block(hf, pw, salt, c, idx) \o PBKDF2Blocks(hf, pw, salt, c, idx + 1, n)
PBKDF2(hf, pw, salt, c, dkLen) ==
    Take(PBKDF2Blocks(hf, pw, salt, c, 1, (dkLen + hf.size - 1) \div hf.size), dkLen)

\* RFC 5869
HKDFExtract(hf, salt, ikm) == HMAC(hf, IF salt = << >> THEN Zeros(hf.size) ELSE salt, ikm)
RECURSIVE HKDFExpandT(_, _, _, _, _, _)
HKDFExpandT(hf, prk, info, prev, idx, n) ==
    IF idx > n THEN << >>
    ELSE LET t == HMAC(hf, prk, prev \o info \o <<idx>>) IN t \o HKDFExpandT(hf, prk, info, t, idx + 1, n)
HKDFExpand(hf, prk, info, len) ==
    Take(HKDFExpandT(hf, prk, info, << >>, 1, (len + hf.size - 1) \div hf.size), len)
=============================================================================
