------------------------------- MODULE SSAToy --------------------------------
(***************************************************************************)
(* BIP340 verification and batch verification on a toy group of prime      *)
(* order with cofactor one (so that every point of the curve is in the     *)
(* group and "has even y" is meaningful for every key).  The challenge is  *)
(* the BIP's tagged hash over field elements written on one byte -- the    *)
(* generalisation btclib itself makes -- reduced from its leftmost nlen    *)
(* bits; a zero challenge is refused (btclib's documented deviation: it    *)
(* would make one signature valid under every key).                        *)
(*                                                                         *)
(* Batch verification is a relation: the coefficient vector a (a_1 = 1,    *)
(* a_i in 1..n-1) is the verifier's random choice and is not logged, so a  *)
(* recorded verdict is accepted iff SOME a explains it.  All-valid batches *)
(* pass for every a; a batch with exactly one invalid member passes for    *)
(* none (OneBadNeverPasses), so a TRUE there is a violation, not bad luck. *)
(***************************************************************************)
EXTENDS ECToyDefs, RFC6979, SequencesExt, Json, IOUtils

CONSTANTS GP, GA, GB, GX, GY, GN, Msgs
Grp == [cv |-> [p |-> GP, a |-> GA, b |-> GB], G |-> EC!Pt(GX, GY), n |-> GN]
GPts == Points(Grp.cv)
GT   == [kk \in 0..GN |-> MulRep(Grp.cv, kk, Grp.G)]
MulG(kk) == GT[kk % GN]

Chal(xR, xP, m) ==
    BToInt(BMod(Bits2Int(TaggedHash("BIP0340/challenge", <<xR, xP>> \o m), B(GN)), B(GN)))
LiftT(x) == LET S == {P \in GPts : ~P.inf /\ P.x = x /\ P.y % 2 = 0 /\ P.y # 0} IN
            IF S = {} THEN EC!Inf ELSE CHOOSE P \in S : TRUE

VerifyT(x, m, r, s) ==
    LET P == LiftT(x) IN
    /\ ~P.inf /\ r \in 0..GP - 1 /\ s \in 0..GN - 1
    /\ LET e == Chal(r, x, m) IN
         /\ e # 0
         /\ LET R == EC!Add(Grp.cv, MulG(s), MulRep(Grp.cv, GN - e, P))
            IN ~R.inf /\ R.y % 2 = 0 /\ R.x = r

Table == [m \in Msgs |-> [x \in 0..GP - 1 |->
            SetToSeq({<<r, s>> \in (0..GP) \X (0..GN) : VerifyT(x, <<m>>, r, s)})]]

\* ---- batch relation -------------------------------------------------------------------
\* items: sequence of [x, m, r, s]
BatchOK(items, a) ==
    LET u == Len(items)
        P == [j \in 1..u |-> LiftT(items[j].x)]
        R == [j \in 1..u |-> LiftT(items[j].r)]
        e == [j \in 1..u |-> Chal(items[j].r, items[j].x, items[j].m)]
    IN /\ \A j \in 1..u : ~P[j].inf /\ ~R[j].inf /\ items[j].s \in 0..GN - 1 /\ e[j] # 0
       /\ LET lhs == MulG(FoldLeft(LAMBDA acc, j : (acc + a[j] * items[j].s) % GN, 0, [j \in 1..u |-> j]))
              rhs == EC!Sum(Grp.cv, [j \in 1..u |-> EC!Add(Grp.cv, MulRep(Grp.cv, a[j] % GN, R[j]),
                                                             MulRep(Grp.cv, (a[j] * e[j]) % GN, P[j]))])
          IN lhs = rhs
Coeffs(u) == {a \in [1..u -> 1..GN - 1] : a[1] = 1}
Explains(items, verdict) ==
    IF verdict THEN \E a \in Coeffs(Len(items)) : BatchOK(items, a)
    ELSE \E a \in Coeffs(Len(items)) : ~BatchOK(items, a)
AllValid(items) == \A j \in 1..Len(items) : VerifyT(items[j].x, items[j].m, items[j].r, items[j].s)
NumBad(items) == Cardinality({j \in 1..Len(items) : ~VerifyT(items[j].x, items[j].m, items[j].r, items[j].s)})

\* ---- model: single state per table, plus the batch laws over generated batches -------
VARIABLE i
Trace == IF "TRACE_FILE" \in DOMAIN IOEnv THEN ndJsonDeserialize(IOEnv.TRACE_FILE) ELSE << >>
TInit == i = 0
TNext == i < Len(Trace) /\ i' = i + 1
Item(j) == [x |-> j.x, m |-> j.m, r |-> j.r, s |-> j.s]
Items(e) == [j \in 1..Len(e.items) |-> Item(e.items[j])]
EmitTable == i = 0 => PrintT(<<"SSA", Table>>)
\* every recorded verdict has an explanation
EventOK == i > 0 => Explains(Items(Trace[i]), Trace[i].out)
\* design-level laws, checked on the very batches the code was run on
AllValidAlwaysPasses == i > 0 => (AllValid(Items(Trace[i])) => \A a \in Coeffs(Len(Trace[i].items)) : BatchOK(Items(Trace[i]), a))
OneBadNeverPasses == i > 0 => (NumBad(Items(Trace[i])) = 1 => \A a \in Coeffs(Len(Trace[i].items)) : ~BatchOK(Items(Trace[i]), a))
Diag == i > 0 => PrintT(<<"DIAG", i, [allvalid |-> AllValid(Items(Trace[i])), bad |-> NumBad(Items(Trace[i]))]>>)
=============================================================================
