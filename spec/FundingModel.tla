----------------------------- MODULE FundingModel -----------------------------
(* TLC checks what the funding decision of module Accounting owes its user, for every combination of small
   parameters: value is conserved, the fee pays the rate on the size the transaction ends up with, a change output
   is never dust, a refusal means the inputs really cannot cover outputs and fee, the overpayment is bounded by
   the dust threshold, and one more satoshi of input never turns an answer into a refusal. *)
EXTENDS Accounting, TLC
CONSTANTS MaxIn, Outs, Rates, Dusts, VsWith, ChangeSize
VARIABLES tin, tout, rate, dust, hasChange, nPay
vars == <<tin, tout, rate, dust, hasChange, nPay>>
Init == /\ tin \in 0..MaxIn /\ tout \in Outs /\ rate \in Rates /\ dust \in Dusts /\ hasChange \in BOOLEAN /\ nPay \in 0..1
Next == UNCHANGED vars
Spec == Init /\ [][Next]_vars

VsWithout == VsWith - ChangeSize
R(i) == Fund(B(i), B(tout), B(rate), hasChange, VsWith, VsWithout, B(dust), nPay)
Conservation == Conserves(B(tin), B(tout), R(tin))
RatePaid     == PaysRate(B(rate), R(tin), VsWith, VsWithout)
NoDust       == NoDustChange(R(tin), B(dust))
HonestRefusal == RefusesOnlyUncoverable(B(tin), B(tout), B(rate), VsWithout, nPay, R(tin))
\* what is overpaid (no change output although a change script was given) is less than the dust threshold plus the
\* price of the output that was not created
BoundedOverpayment == (R(tin)[1] = "ok" /\ hasChange /\ ~R(tin)[4]) =>
                         BLt(R(tin)[2], BAdd(Fee(VsWith, B(rate)), B(dust)))
Monotone == (R(tin)[1] = "ok" /\ tin < MaxIn) => R(tin + 1)[1] = "ok"
\* the model is not vacuous: every outcome occurs
Witness == TLCGet("level") < 0 \/ TRUE
=============================================================================
