------------------------------ MODULE C19Trace -------------------------------
(* Code -> specification for C19: every recorded call lies in the outcome alphabet of Totality. *)
EXTENDS Totality, EvBase
EventOK == i > 0 => OutcomeOK(Trace[i]) /\ StreamOK(Trace[i]) /\ SpellingOK(Trace[i])
Diag == i > 0 => PrintT(<<"DIAG", i, [outcome |-> OutcomeOK(Trace[i]), stream |-> StreamOK(Trace[i]), spelling |-> SpellingOK(Trace[i])]>>)
=============================================================================
