------------------------------- MODULE EvBase -------------------------------
(***************************************************************************)
(* Validation of independent events recorded from the implementation.      *)
(* Every line of the NDJSON file IOEnv.TRACE_FILE is one event             *)
(* {op, args.., out}; the trace module that EXTENDS this one defines       *)
(* EventOK as "the specification explains this event".  The events are     *)
(* the leaves of a two-level tree of states (root -> chunk -> event) so    *)
(* that TLC's workers evaluate them in parallel and a counterexample       *)
(* names the failing event by its index i.                                 *)
(***************************************************************************)
EXTENDS Json, IOUtils, TLC, Sequences, Integers

Trace == ndJsonDeserialize(IOEnv.TRACE_FILE)
NChunks == 64

VARIABLE i

EvInit == i = 0
EvNext == \/ i = 0 /\ i' \in {0 - c : c \in 1..NChunks}
          \/ i < 0 /\ i' \in {j \in 1..Len(Trace) : j % NChunks = (0 - i) - 1}

Has(e, k) == k \in DOMAIN e
IsOk(o)  == "ok" \in DOMAIN o      \* outcome {"ok": v}
IsErr(o) == "err" \in DOMAIN o     \* outcome {"err": family, "cls": name}
\* an outcome is a refusal by the library's own value-error family
Refused(o) == IsErr(o) /\ o.err = "value"
=============================================================================
