------------------------------- MODULE GCSModel --------------------------------
(* TLC checks the coded set on every set of up to MaxN values in a small range (P, M small): decoding gives back
   exactly the set (no false negative, ever); any other byte string of the same length and any truncation or
   extension either is refused or decodes to a different set (one encoding per set). *)
EXTENDS GCS, TLC, FiniteSets
CONSTANTS P, M, MaxN
VARIABLE S
Universe(n) == 0..(n * M - 1)
Init == \E n \in 0..MaxN : S \in {s \in SUBSET Universe(n) : Cardinality(s) = n}
Next == UNCHANGED S
Spec == Init /\ [][Next]_S
N == Cardinality(S)
Sorted == SortSeq(SetToSeq(S), LAMBDA a, b : a < b)
SortedB == [j \in 1..N |-> B(Sorted[j])]
Enc == EncodeSorted(SortedB, P)
RoundTrip == Decode(Enc, N, P, M) = <<"ok", SortedB>>
\* every other byte string of that length (exhaustive for short encodings) is refused or is another set
AllBytes(k) == [1..k -> 0..255]
OneEncoding == /\ Len(Enc) <= 1 => \A other \in AllBytes(Len(Enc)) : other # Enc => Decode(other, N, P, M) # <<"ok", SortedB>>
               \* longer encodings: every single-bit flip
               /\ \A k \in 1..Len(Enc) : \A b \in 0..7 :
                    LET bit == 2 ^ b  flipped == [Enc EXCEPT ![k] = IF (Enc[k] \div bit) % 2 = 1 THEN Enc[k] - bit ELSE Enc[k] + bit]
                    IN Decode(flipped, N, P, M) # <<"ok", SortedB>>
NoSlack == /\ Decode(Enc \o <<0>>, N, P, M) = <<"refused">>
           /\ (Len(Enc) > 0 => Decode(SubSeq(Enc, 1, Len(Enc) - 1), N, P, M) # <<"ok", SortedB>>)
=============================================================================
