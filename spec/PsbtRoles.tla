------------------------------- MODULE PsbtRoles -------------------------------
(***************************************************************************)
(* C11: the PSBT roles over what a PSBT is on the wire -- a sequence of    *)
(* key-value maps (global, one per input, one per output), BIP174/370.     *)
(* Definitions only.  A map is a sequence of <<key, value>> byte strings   *)
(* (module WireMore's PPsbtMaps reads them).                               *)
(*                                                                         *)
(* Combiner (BIP174): "the resulting PSBT must contain all of the          *)
(* key-value pairs from each of the PSBTs" -- map by map, the union; no    *)
(* pair invented.  PSBT_GLOBAL_TX_MODIFIABLE (BIP370) is the one computed  *)
(* field: the two modifiable bits are the AND of the operands (an operand  *)
(* without the field counts as 0), every other bit the OR.  Operands that  *)
(* give one key two values conflict, and then any pick is allowed.         *)
(* Operands that are not the same transaction may be refused: they differ  *)
(* in a structural pair (what identifies the transaction).                 *)
(*                                                                         *)
(* Signer's answer: the request plus signature pairs only.                 *)
(***************************************************************************)
EXTENDS WireMore, Integers, Sequences, FiniteSets

KV(m) == AsSet(m)
Keys(S) == {p[1] : p \in S}
TypeOf(key) == key[1]
NMaps(ps) == Len(ps[1])

\* ---- structure -----------------------------------------------------------
GlobalStructural == {0, 2, 4, 5, 251}                    \* unsigned tx, tx version, input/output counts, psbt version
InputStructural  == {14, 15}                               \* previous txid, output index
OutputStructural == {3, 4}                                 \* amount, script
\* lock-time fields move a version 2 identifier as well (the identifier commits to the computed lock time)
GlobalLockTime == {3}
InputLockTime  == {17, 18}
GlobalMap(p) == p[1]
VersionOf(p) == LET v == {q[2] : q \in {q \in KV(p[1]) : q[1] = <<251>>}} IN IF v = {} THEN 0 ELSE (CHOOSE x \in v : TRUE)[1]
NIn(p) == IF VersionOf(p) = 2 THEN (CHOOSE q \in KV(p[1]) : q[1] = <<4>>)[2][1]
          ELSE Len(PTx((CHOOSE q \in KV(p[1]) : q[1] = <<0>>)[2]).v.vin)
Scope(p, j) == IF j = 1 THEN "global" ELSE IF j <= 1 + NIn(p) THEN "input" ELSE "output"
StructuralTypes(scope) == IF scope = "global" THEN GlobalStructural \cup GlobalLockTime
                          ELSE IF scope = "input" THEN InputStructural \cup InputLockTime ELSE OutputStructural
Structural(p, j) == {q \in KV(p[j]) : TypeOf(q[1]) \in StructuralTypes(Scope(p, j))}
SameTransaction(ps) == /\ \A a, b \in 1..Len(ps) : Len(ps[a]) = Len(ps[b])
                       /\ \A a, b \in 1..Len(ps) : \A j \in 1..Len(ps[a]) : Structural(ps[a], j) = Structural(ps[b], j)

\* ---- Combiner ------------------------------------------------------------
TxModKey == <<6>>
Plain(p, j) == IF j = 1 THEN {q \in KV(p[j]) : q[1] # TxModKey} ELSE KV(p[j])
Union(ps, j) == UNION {Plain(ps[a], j) : a \in 1..Len(ps)}
Conflict(ps) == \E j \in 1..NMaps(ps) : \E q1, q2 \in Union(ps, j) : q1[1] = q2[1] /\ q1[2] # q2[2]
Bit(n, k) == (n \div (2 ^ k)) % 2
ModFlags(p) == LET v == {q[2] : q \in {q \in KV(p[1]) : q[1] = TxModKey}} IN IF v = {} THEN -1 ELSE (CHOOSE x \in v : TRUE)[1]
CombinedModifiable(ps) ==
  LET flags == [a \in 1..Len(ps) |-> ModFlags(ps[a])] IN
    IF \A a \in 1..Len(ps) : flags[a] = -1 THEN -1
    ELSE LET bit(k) == IF k <= 1 THEN (IF \A a \in 1..Len(ps) : flags[a] # -1 /\ Bit(flags[a], k) = 1 THEN 1 ELSE 0)
                                 ELSE (IF \E a \in 1..Len(ps) : flags[a] # -1 /\ Bit(flags[a], k) = 1 THEN 1 ELSE 0)
         IN bit(0) + 2 * bit(1) + 4 * bit(2) + 8 * bit(3) + 16 * bit(4) + 32 * bit(5) + 64 * bit(6) + 128 * bit(7)
\* what the Combiner owes: for conflict-free operands of one transaction, exactly the union (and the computed flags)
CombineOK(ps, result) ==
  /\ Len(result) = NMaps(ps)
  /\ \A j \in 1..NMaps(ps) : Plain(result, j) = Union(ps, j) /\ NoDupKeys(result[j])
  /\ ModFlags(result) = CombinedModifiable(ps)

\* ---- a signer's answer -----------------------------------------------------
SignatureTypes == {2, 19, 20, 27, 28}      \* partial sig, tap key sig, tap script sig, musig2 pub nonce, musig2 partial sig
\* the answer is the request with signature pairs added to inputs, nothing else touched; tx_modifiable may only tighten
AnswerShapeOK(req, ans) ==
  /\ Len(req) = Len(ans)
  /\ \A j \in 1..Len(req) :
       /\ Plain(req, j) \subseteq Plain(ans, j)
       /\ \A q \in Plain(ans, j) \ Plain(req, j) : Scope(req, j) = "input" /\ TypeOf(q[1]) \in SignatureTypes
       /\ NoDupKeys(ans[j])
  /\ ModFlags(ans) = CombinedModifiable(<<req, ans>>)

\* ---- the transaction a PSBT describes (BIP174: the global unsigned tx; BIP370: assembled from the maps) ----
ValOf(m, t) == (CHOOSE q \in KV(m) : q[1] = <<t>>)[2]
HasT(m, t) == \E q \in KV(m) : q[1] = <<t>>
LEN(b) == BFromBytesLE(b)
ComputedLockTime(p) ==
  LET ins == [k \in 1..NIn(p) |-> p[1 + k]]
      needs == {k \in 1..NIn(p) : HasT(ins[k], 17) \/ HasT(ins[k], 18)}
      heightOK == \A k \in needs : HasT(ins[k], 18)
      timeOK == \A k \in needs : HasT(ins[k], 17)
      maxOf(S) == CHOOSE x \in S : \A y \in S : BGe(x, y)
  IN IF needs = {} THEN (IF HasT(p[1], 3) THEN LEN(ValOf(p[1], 3)) ELSE BZero)
     ELSE IF heightOK THEN maxOf({LEN(ValOf(ins[k], 18)) : k \in {k \in needs : HasT(ins[k], 18)}})
     ELSE IF timeOK THEN maxOf({LEN(ValOf(ins[k], 17)) : k \in {k \in needs : HasT(ins[k], 17)}})
     ELSE BZero
TxOfMaps(p) ==
  IF VersionOf(p) = 2
    THEN LET nin == NIn(p)  nout == ValOf(p[1], 5)[1] IN
      [version |-> LEN(ValOf(p[1], 2)),
       vin |-> [k \in 1..nin |-> LET m == p[1 + k] IN
                  [txid |-> ValOf(m, 14), vout |-> LEN(ValOf(m, 15)), script |-> << >>,
                   sequence |-> IF HasT(m, 16) THEN LEN(ValOf(m, 16)) ELSE BFromBytes(<<255, 255, 255, 255>>), witness |-> << >>]],
       vout |-> [k \in 1..nout |-> LET m == p[1 + nin + k] IN [value |-> LEN(ValOf(m, 3)), spk |-> ValOf(m, 4)]],
       locktime |-> ComputedLockTime(p)]
    ELSE PTx(ValOf(p[1], 0)).v
=============================================================================
