---------------------------- MODULE WalletCalls -----------------------------
(***************************************************************************)
(* The stateful part of a ranged wallet (btclib.wallet.RangedWallet and    *)
(* its three kinds): a ledger of the positions whose address was handed    *)
(* out, in the order of the first hand-out, and per branch how far the     *)
(* wallet has been asked.  Everything else a wallet answers is a function  *)
(* of its source (Descriptor.tla); this module is what it remembers.       *)
(*                                                                         *)
(*   Address(b, i)     hands out the address at a position: recorded once, *)
(*                     the branch's cursor moved past it                   *)
(*   NextAddress(b)    hands out the position at the cursor                *)
(*   observations      Len, Contains, the order of `addresses`, and        *)
(*                     PositionOf(b, i, bound), which reads nothing of the *)
(*                     state                                               *)
(*                                                                         *)
(* WalletLedger.tla is the same ledger written as a generator of call      *)
(* histories (refusals, key wallets) that C20 replays into the code; this  *)
(* module adds the search bound of a lookup and is the form that recorded  *)
(* histories are validated against (WalletTrace.tla).                      *)
(***************************************************************************)
EXTENDS Naturals, Sequences, FiniteSets
CONSTANTS Branches, MaxIndex
VARIABLES handed, next
vars == <<handed, next>>

Range(s) == {s[k] : k \in 1..Len(s)}
Max(a, b) == IF a >= b THEN a ELSE b

Init == handed = << >> /\ next = [b \in Branches |-> 0]

HandOut(b, i) ==
    /\ handed' = IF <<b, i>> \in Range(handed) THEN handed ELSE Append(handed, <<b, i>>)
    /\ next' = [next EXCEPT ![b] = Max(@, i + 1)]
Address(b, i) == b \in Branches /\ i \in 0..MaxIndex /\ HandOut(b, i)
NextAddress(b) == b \in Branches /\ next[b] <= MaxIndex /\ HandOut(b, next[b])
Next == \E b \in Branches : NextAddress(b) \/ \E i \in 0..MaxIndex : Address(b, i)
Spec == Init /\ [][Next]_vars

\* ---- observations ----
Count == Len(handed)
Contains(b, i) == <<b, i>> \in Range(handed)
\* which position pays to the script of position (b, i), looked for up to `bound` in every branch: the ledger is not read
PositionOf(b, i, bound) == IF i <= bound THEN <<b, i>> ELSE <<>>

\* ---- properties ----
TypeOK == handed \in Seq(Branches \X (0..MaxIndex)) /\ next \in [Branches -> 0..MaxIndex + 1]
\* the address next_address is about to hand out was never handed out before (no address reuse)
FreshNext == \A b \in Branches : ~Contains(b, next[b])
\* the cursor of a branch is past every position of it that was handed out, and is exactly one past the furthest
CursorPast == \A b \in Branches : next[b] = (IF \E k \in 1..Len(handed) : handed[k][1] = b
                                                 THEN 1 + CHOOSE m \in 0..MaxIndex : (\E k \in 1..Len(handed) : handed[k] = <<b, m>>)
                                                                                      /\ (\A k \in 1..Len(handed) : handed[k][1] = b => handed[k][2] <= m)
                                                 ELSE 0)
NoDuplicates == \A j, k \in 1..Len(handed) : j # k => handed[j] # handed[k]
\* the ledger only grows, and keeps its order
AppendOnly == [][Len(handed') >= Len(handed) /\ SubSeq(handed', 1, Len(handed)) = handed]_vars
\* vacuity probe: must be VIOLATED (the ledger does fill)
NeverFull == Len(handed) < Cardinality(Branches) * (MaxIndex + 1)
CursorMonotone == [][\A b \in Branches : next'[b] >= next[b]]_vars
=============================================================================
