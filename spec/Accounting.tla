------------------------------ MODULE Accounting ------------------------------
(***************************************************************************)
(* C18: sizes, fees and amounts as exact integer accounting.               *)
(* Definitions only.  Money is a BigNat (satoshi; 21e14 does not fit TLC's *)
(* 32-bit integers), sizes are TLC integers.                               *)
(*                                                                         *)
(*  - sizes: Size / StrippedSize / Weight / VSize are module Wire's, read  *)
(*    off the serialization the grammar defines;                           *)
(*  - fee = ceil(rate x vsize / 1000), rate in sat/kvB (Core's             *)
(*    CFeeRate::GetFee rounded up);                                        *)
(*  - decimal quotes: a decimal number is sign, digits d, exponent e       *)
(*    (value = d x 10^e); BTC -> sat multiplies by 10^8 and sat/vB ->      *)
(*    sat/kvB by 10^3, each defined only when the product is whole;        *)
(*  - dust: Core's GetDustThreshold;                                       *)
(*  - funding: the change-or-fee decision of a funded transaction;         *)
(*  - the analytic size of a signed input per script type (ECDSA           *)
(*    signature at most 72 bytes with its sighash byte: module DER).       *)
(***************************************************************************)
EXTENDS Wire, BigNat, Integers, Sequences, SequencesExt

MaxMoney == BMul(B(21000000), B(100000000))
BCeilDiv(a, b) == IF BIsZero(BMod(a, b)) THEN BDiv(a, b) ELSE BAdd(BDiv(a, b), BOne)
Fee(vsize, rate) == BCeilDiv(BMul(rate, B(vsize)), B(1000))
\* child pays for parent
PackageFee(vsize, rate, avsize, afee) ==
  LET own == Fee(vsize, rate)  pkg == Fee(vsize + avsize, rate) IN
    IF BGe(afee, pkg) THEN own ELSE IF BGe(own, BSub(pkg, afee)) THEN own ELSE BSub(pkg, afee)

RECURSIVE Pow10(_)
Pow10(k) == IF k = 0 THEN BOne ELSE BMul(B(10), Pow10(k - 1))
\* digits x 10^(exp + shift) as a whole number: <<TRUE, n>> or <<FALSE, 0>>
Scaled(digits, exp, shift) ==
  LET e == exp + shift IN
    IF e >= 0 THEN <<TRUE, BMul(digits, Pow10(e))>>
    ELSE LET p == Pow10(-e) IN IF BIsZero(BMod(digits, p)) THEN <<TRUE, BDiv(digits, p)>> ELSE <<FALSE, BZero>>
\* BTC quote -> satoshi: refused when negative (and not zero), fractional in satoshi, or above the money range
SatsFromBtc(neg, digits, exp) ==
  LET s == Scaled(digits, exp, 8) IN
    IF ~s[1] \/ (neg /\ ~BIsZero(digits)) \/ BGt(s[2], MaxMoney) THEN <<"refused">> ELSE <<"ok", s[2]>>
\* sat/vB quote -> sat/kvB: refused when negative or finer than a millisatoshi per vbyte
RateFromSatsPerVb(neg, digits, exp) ==
  LET s == Scaled(digits, exp, 3) IN IF ~s[1] \/ (neg /\ ~BIsZero(digits)) THEN <<"refused">> ELSE <<"ok", s[2]>>

\* Core's IsWitnessProgram / GetDustThreshold
IsWitnessProgram(spk) == /\ Len(spk) >= 4 /\ Len(spk) <= 42
                         /\ (spk[1] = 0 \/ (spk[1] >= 81 /\ spk[1] <= 96))
                         /\ spk[2] + 2 = Len(spk)
Unspendable(spk) == (Len(spk) > 0 /\ spk[1] = 106) \/ Len(spk) > 10000
DustThreshold(spk, rate) ==
  IF Unspendable(spk) THEN BZero
  ELSE Fee(8 + Len(CompactSize(Len(spk))) + Len(spk) + (IF IsWitnessProgram(spk) THEN 32 + 4 + 1 + (107 \div 4) + 4 ELSE 32 + 4 + 1 + 107 + 4), rate)

(* Funding.  totalIn, totalOut: satoshi; vsWith / vsWithout: the (estimated) virtual size of the transaction with and
   without the change output; dust: the dust threshold of the change script; nPay: number of payment outputs.
   Result: <<"refused">> or <<"ok", fee, change, whether there is a change output>>.                                *)
Fund(totalIn, totalOut, rate, hasChange, vsWith, vsWithout, dust, nPay) ==
  IF BLt(totalIn, totalOut) THEN <<"refused">>
  ELSE LET rem == BSub(totalIn, totalOut)  fw == Fee(vsWith, rate)  fo == Fee(vsWithout, rate) IN
    IF hasChange /\ BGe(rem, fw) /\ BGe(BSub(rem, fw), dust) THEN <<"ok", fw, BSub(rem, fw), TRUE>>
    ELSE IF nPay = 0 THEN <<"refused">>
    ELSE IF BLt(rem, fo) THEN <<"refused">>
    ELSE <<"ok", rem, BZero, FALSE>>
\* what a funded transaction owes its user, whatever procedure produced it
Conserves(totalIn, totalOut, r) == r[1] = "ok" => totalIn = BAdd(BAdd(totalOut, r[2]), r[3])
PaysRate(rate, r, vsWith, vsWithout) == r[1] = "ok" => BGe(r[2], Fee(IF r[4] THEN vsWith ELSE vsWithout, rate))
NoDustChange(r, dust)            == r[1] = "ok" => (IF r[4] THEN BGe(r[3], dust) ELSE BIsZero(r[3]))
RefusesOnlyUncoverable(totalIn, totalOut, rate, vsWithout, nPay, r) ==
  r[1] = "refused" => (nPay = 0 \/ BLt(totalIn, BAdd(totalOut, Fee(vsWithout, rate))))

(* The analytic size of what satisfies an input, per script type: <<scriptSig size, witness stack item sizes>>.
   An ECDSA signature with its sighash byte is at most 72 bytes (DER, low s), a compressed key 33, an x-only
   signature 64 (65 with a non-default sighash byte).  PushSize(n) = the script push of n bytes.                   *)
PushSize(n) == IF n = 0 THEN 1 ELSE IF n <= 75 THEN 1 + n ELSE IF n <= 255 THEN 2 + n ELSE IF n <= 65535 THEN 3 + n ELSE 5 + n
SumSeq(s) == FoldLeft(LAMBDA a, x : a + x, 0, s)
Pushes(sizes) == SumSeq([j \in 1..Len(sizes) |-> PushSize(sizes[j])])
RepN(x, n) == [j \in 1..n |-> x]
SpendSizes(t) ==
  CASE t.type = "p2pkh"       -> <<Pushes(<<72, t.keylen>>), << >>>>
    [] t.type = "p2pk"        -> <<Pushes(<<72>>), << >>>>
    [] t.type = "p2wpkh"      -> <<0, <<72, 33>>>>
    [] t.type = "p2sh-p2wpkh" -> <<PushSize(22), <<72, 33>>>>
    [] t.type = "p2tr"        -> <<0, <<IF t.sighash = 0 THEN 64 ELSE 65>>>>
    [] t.type = "p2ms"        -> <<Pushes(<<0>> \o RepN(72, t.m)), << >>>>
    [] t.type = "p2sh-p2ms"   -> <<Pushes(<<0>> \o RepN(72, t.m) \o <<t.scriptlen>>), << >>>>
    [] t.type = "p2wsh-p2ms"  -> <<0, <<0>> \o RepN(72, t.m) \o <<t.scriptlen>>>>
    [] t.type = "p2sh-p2wsh-p2ms" -> <<PushSize(34), <<0>> \o RepN(72, t.m) \o <<t.scriptlen>>>>
ZeroBytes(n) == [j \in 1..n |-> 0]
\* the unsigned transaction with placeholders of those sizes in place
Placeholder(tx, types) ==
  [tx EXCEPT !.vin = [j \in 1..Len(tx.vin) |->
      LET s == SpendSizes(types[j]) IN
        [tx.vin[j] EXCEPT !.script = ZeroBytes(s[1]), !.witness = [k \in 1..Len(s[2]) |-> ZeroBytes(s[2][k])]]]]
EstimatedWeight(tx, types) == Weight(Placeholder(tx, types))
=============================================================================
