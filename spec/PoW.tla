---------------------------------- MODULE PoW ----------------------------------
(***************************************************************************)
(* C17: proof-of-work arithmetic, after Bitcoin Core's arith_uint256.      *)
(* Definitions only; numbers are BigNat, `bits` a sequence of 4 bytes      *)
(* <<exponent, s1, s2, s3>>.                                               *)
(*  SetCompact: value = significand(23 bits) * 256^(exponent-3), the 24th  *)
(*  bit a sign; overflow when the value does not fit 256 bits.             *)
(*  GetCompact: the three most significant bytes, rounded DOWN, moved one  *)
(*  byte up when the top bit would read as a sign.                         *)
(***************************************************************************)
EXTENDS BigNat, Integers, Sequences

Two256 == BShl(BOne, 256)
Significand(bits) == BFromBytes(<<bits[2] % 128, bits[3], bits[4]>>)
SignBit(bits) == bits[2] >= 128
ValueOf(bits) == IF bits[1] < 3 THEN BShr(Significand(bits), 8 * (3 - bits[1])) ELSE BShl(Significand(bits), 8 * (bits[1] - 3))
Overflows(bits) == BGe(ValueOf(bits), Two256)
IsNegative(bits) == SignBit(bits) /\ ~BIsZero(ValueOf(bits))
\* <<"ok", 32 bytes>> | <<"refused">>
TargetFromBits(bits) == IF Overflows(bits) THEN <<"refused">> ELSE <<"ok", BToBytes(ValueOf(bits), 32)>>

ByteLen(v) == (BBitLen(v) + 7) \div 8
BitsFromValue(v) ==
  LET e == ByteLen(v)
      s == IF e <= 3 THEN BShl(v, 8 * (3 - e)) ELSE BShr(v, 8 * (e - 3))
      hi == BGe(s, B(8388608))          \* 0x800000: would read as the sign
      s2 == IF hi THEN BShr(s, 8) ELSE s
      e2 == IF hi THEN e + 1 ELSE e
  IN <<e2>> \o BToBytes(s2, 3)
\* canonical: what GetCompact writes for the value it denotes
Canonical(bits) == ~Overflows(bits) /\ ~SignBit(bits) /\ BitsFromValue(ValueOf(bits)) = bits

TargetTimespan == 1209600
Clamp(t) == IF t < TargetTimespan \div 4 THEN TargetTimespan \div 4 ELSE IF t > TargetTimespan * 4 THEN TargetTimespan * 4 ELSE t
\* CalculateNextWorkRequired: multiplication wraps at 256 bits as arith_uint256 does
NextBits(bits, timespan, limitBits) ==
  LET t == BDiv(BMod(BMul(ValueOf(bits), B(Clamp(timespan))), Two256), B(TargetTimespan))
      lim == ValueOf(limitBits)
  IN BitsFromValue(IF BGt(t, lim) THEN lim ELSE t)
\* GetBlockProof: floor(2^256 / (target + 1))
Work(bits) == BDiv(Two256, BAdd(ValueOf(bits), BOne))
=============================================================================
