------------------------------- MODULE ECGroup -------------------------------
(***************************************************************************)
(* The group of points of a short Weierstrass curve  y^2 = x^3 + a x + b   *)
(* over F_p, in affine coordinates, BY DEFINITION: chord and tangent, the  *)
(* point at infinity as identity.  Nothing of btclib's algorithms          *)
(* (Jacobian coordinates, wNAF, fixed-base tables, GLV, Bos-Coster) is in  *)
(* here: this is the oracle they are compared with.                        *)
(*                                                                         *)
(* The field is a parameter (operator constants taking the modulus), so    *)
(* the same definitions are instantiated twice:                            *)
(*   ECToy   field elements are TLC integers        (every curve p <= 31)  *)
(*   ECReal  field elements are BigNat byte strings (secp256k1, P-256 ...) *)
(* A curve is a record [p, a, b]; a point is [inf, x, y].                  *)
(***************************************************************************)
EXTENDS Integers, Sequences, SequencesExt

CONSTANTS FAdd(_, _, _), FSub(_, _, _), FMul(_, _, _), FInv(_, _),   \* modulo the last argument
          FNum(_)                                                     \* a small integer as a field element

Inf == [inf |-> TRUE, x |-> FNum(0), y |-> FNum(0)]
Pt(x, y) == [inf |-> FALSE, x |-> x, y |-> y]

Rhs(c, x) == FAdd(FAdd(FMul(FMul(x, x, c.p), x, c.p), FMul(c.a, x, c.p), c.p), c.b, c.p)
OnCurve(c, P) == P.inf \/ FMul(P.y, P.y, c.p) = Rhs(c, P.x)

\* 4a^3 + 27b^2 /= 0
Discriminant(c) == FAdd(FMul(FNum(4), FMul(FMul(c.a, c.a, c.p), c.a, c.p), c.p),
                        FMul(FNum(27), FMul(c.b, c.b, c.p), c.p), c.p)
NonSingular(c) == Discriminant(c) # FNum(0)

Neg(c, P) == IF P.inf THEN P ELSE Pt(P.x, FSub(FNum(0), P.y, c.p))

Add(c, P, Q) ==
    IF P.inf THEN Q
    ELSE IF Q.inf THEN P
    ELSE IF P.x = Q.x /\ P.y # Q.y THEN Inf                 \* Q = -P (y = 0 is its own negative: next line)
    ELSE IF P.x = Q.x /\ P.y = FNum(0) THEN Inf            \* doubling a point of order 2
    ELSE LET lam == IF P.x = Q.x
                    THEN FMul(FAdd(FMul(FNum(3), FMul(P.x, P.x, c.p), c.p), c.a, c.p),
                              FInv(FMul(FNum(2), P.y, c.p), c.p), c.p)
                    ELSE FMul(FSub(Q.y, P.y, c.p), FInv(FSub(Q.x, P.x, c.p), c.p), c.p)
             x3  == FSub(FSub(FMul(lam, lam, c.p), P.x, c.p), Q.x, c.p)
             y3  == FSub(FMul(lam, FSub(P.x, x3, c.p), c.p), P.y, c.p)
         IN Pt(x3, y3)

Dbl(c, P) == Add(c, P, P)

\* scalar multiplication from the bits of the scalar, most significant first (double and add)
MulBits(c, bits, P) ==
    LET Step(acc, bit) == IF bit = 1 THEN Add(c, Dbl(c, acc), P) ELSE Dbl(c, acc)
    IN FoldLeft(Step, Inf, bits)

\* sum of a sequence of points
Sum(c, Ps) == LET Step(acc, P) == Add(c, acc, P) IN FoldLeft(Step, Inf, Ps)
=============================================================================
