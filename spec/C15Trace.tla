------------------------------ MODULE C15Trace -------------------------------
(***************************************************************************)
(* Code -> specification for C15.  Events recorded from btclib:            *)
(*  compile {ast, script, size, reads_back, reparses}                      *)
(*      the compiled script and its predicted size; whether the script     *)
(*      reads back to an expression compiling to the same script and the   *)
(*      text re-parses to the same expression                              *)
(*  type {ast, ctx, valid, base, mods[]}  the library's typing of an        *)
(*      expression, well typed or not                                      *)
(*  sat {ast, script, tx, prevouts[], idx, flags[], sigs[], pre[],         *)
(*       produced, stack[], max_ops, max_items, max_size}                  *)
(*      a satisfaction asked for with some signatures, preimages and lock  *)
(*      times: produced only when the spending condition holds; when       *)
(*      produced, the specification's own engine accepts the spend and the *)
(*      witness stays within the predicted bounds.  With ctx "tapscript"   *)
(*      the script is a tapleaf (x-only keys, multi_a), the spend a taproot *)
(*      script path and the signatures BIP340's                            *)
(***************************************************************************)
EXTENDS Miniscript, ScriptSigs, WireMore, EvBase
PrevOf(e) == [k \in 1..Len(e.prevouts) |-> [value |-> WN(e.prevouts[k].value), spk |-> FromHex(e.prevouts[k].spk)]]
FlagsOf(j) == {j[k] : k \in 1..Len(j)}
Verdict(e) == VerifyInput(PTx(FromHex(e.tx)).v, e.idx + 1, PrevOf(e), FlagsOf(e.flags))
AvOf(e) == LET tx == PTx(FromHex(e.tx)).v IN
   [sigs |-> {e.sigs[k] : k \in 1..Len(e.sigs)}, pre |-> {e.pre[k] : k \in 1..Len(e.pre)}, version |-> tx.version, locktime |-> tx.locktime,
    sequence |-> tx.vin[e.idx + 1].sequence]
SumLen(st) == FoldLeft(LAMBDA a, x : a + Len(x), 0, st)
ExecutedOps(e) ==
  LET tx == PTx(FromHex(e.tx)).v  w == tx.vin[e.idx + 1].witness
      ctx == [tx |-> tx, idx |-> e.idx + 1, prevouts |-> PrevOf(e), version |-> tx.version, locktime |-> tx.locktime, sequence |-> tx.vin[e.idx + 1].sequence]
  IN VM!Eval(w[Len(w)], SubSeq(w, 1, Len(w) - 1), Env(FlagsOf(e.flags), "v0", ctx), 0).ops
Check(e) ==
  CASE e.op = "compile" -> /\ FromHex(e.script) = Script(e.ast) /\ e.size = Len(Script(e.ast)) /\ e.reads_back /\ e.reparses
    [] e.op = "sat" ->
         /\ FromHex(e.script) = Script(e.ast)
         /\ e.produced => Holds(e.ast, AvOf(e))
         /\ e.produced => /\ Verdict(e) = ""
                          /\ Len(e.stack) <= e.max_items
                          /\ SumLen([k \in 1..Len(e.stack) |-> FromHex(e.stack[k])]) <= e.max_size
                          /\ ("ctx" \in DOMAIN e /\ e.ctx = "tapscript") \/ ExecutedOps(e) <= e.max_ops     \* (BIP342 has no opcode count)
    \* the type the library gives an expression (base type and the modifiers z o n d u), or its refusal of an ill-typed one
    [] e.op = "type" -> LET ok == WellTyped(e.ast, e.ctx)  t == TypeOf(e.ast, e.ctx) IN
                          /\ e.valid = (ok /\ t.t = "B")          \* (a whole expression is a "B": parse refuses the others)
                          /\ e.valid => (t.t = e.base /\ t.m = {e.mods[k] : k \in 1..Len(e.mods)})
    [] e.op = "verify" -> LET v == Verdict(e) IN v = "UNMODELLED" \/ e.ok = (v = "")
    [] e.op = "holds" -> e.ok
    [] e.op = "fails" -> ~e.ok
EventOK == i > 0 => Check(Trace[i])
Diag == i > 0 => PrintT(<<"DIAG", i, <<Trace[i].op,
     CASE Trace[i].op = "compile" -> ToHex(Script(Trace[i].ast))
       [] Trace[i].op = "sat" -> <<ToHex(Script(Trace[i].ast)), Holds(Trace[i].ast, AvOf(Trace[i])),
                                   IF Trace[i].produced THEN <<Verdict(Trace[i]), IF "ctx" \in DOMAIN Trace[i] THEN 0 ELSE ExecutedOps(Trace[i])>> ELSE <<"-", 0>>>>
       [] Trace[i].op = "type" -> <<WellTyped(Trace[i].ast, Trace[i].ctx), TypeOf(Trace[i].ast, Trace[i].ctx)>>
       [] OTHER -> "-">>>>)
=============================================================================
