------------------------------ MODULE C10Trace -------------------------------
(***************************************************************************)
(* Code -> specification for C10 (and for the signature opcodes of C08 and *)
(* the satisfactions of C15): a transaction, the outputs it spends, an     *)
(* input index and the flags, with the library engine's verdict; TLC       *)
(* judges the same input with module ScriptSigs.                           *)
(*  verify {tx, prevouts[{value, spk}], idx, flags[], ok}                  *)
(*  holds / fails {what, ok}   message signatures and the like             *)
(***************************************************************************)
EXTENDS ScriptSigs, WireMore, EvBase
PrevOf(e) == [k \in 1..Len(e.prevouts) |-> [value |-> WN(e.prevouts[k].value), spk |-> FromHex(e.prevouts[k].spk)]]
FlagsOf(j) == {j[k] : k \in 1..Len(j)}
Verdict(e) == VerifyInput(PTx(FromHex(e.tx)).v, e.idx + 1, PrevOf(e), FlagsOf(e.flags))
Check(e) ==
  CASE e.op = "verify" -> LET v == Verdict(e) IN v = "UNMODELLED" \/ e.ok = (v = "")
    [] e.op = "holds" -> e.ok
    [] e.op = "fails" -> ~e.ok
EventOK == i > 0 => Check(Trace[i])
Diag == i > 0 => PrintT(<<"DIAG", i, <<Trace[i].op, IF Trace[i].op = "verify" THEN Verdict(Trace[i]) ELSE "-">>>>)
=============================================================================
