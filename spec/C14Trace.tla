------------------------------ MODULE C14Trace -------------------------------
(***************************************************************************)
(* Code -> specification for C14.  Events:                                 *)
(*  scripts  {ast, index, net, out[], addrs[]}   Descriptor / wallet       *)
(*           script_pub_keys and addresses at an index                     *)
(*  reveal   {ast, index, redeem, witness}       redeem / witness script   *)
(*  checksum {text, out}                         descriptors.checksum      *)
(*  parse    {text, accepted}                    parse of a string with a  *)
(*           checksum (an intact one, or one character changed)            *)
(*  agree    {what, a, b}                        two answers that must be  *)
(*           equal (round trips, expansions, positions)                    *)
(***************************************************************************)
EXTENDS Descriptor, EvBase
HX(s) == FromHex(s)
NetOf(n) == IF n = "mainnet" THEN "main" ELSE IF n = "regtest" THEN "regtest" ELSE "test"
AddrOf(spk, net) == LET a == AddressEncode(spk, NetOf(net)) IN a
Check(e) ==
  CASE e.op = "scripts" -> LET exp == ScriptsAt(e.ast, e.index) IN
         /\ [j \in 1..Len(e.out) |-> HX(e.out[j])] = exp
         /\ Len(e.addrs) = Len(exp)
         /\ \A j \in 1..Len(exp) : HX(e.addrs[j]) = AddrOf(exp[j], e.net)       \* "" where the script has no address
    [] e.op = "reveal" -> HX(e.redeem) = RedeemScriptAt(e.ast, e.index) /\ HX(e.witness) = WitnessScriptAt(e.ast, e.index)
    [] e.op = "checksum" -> LET c == DescChecksum(HX(e.text)) IN IF c[1] = "refused" THEN e.out = "refused" ELSE HX(e.out) = c[2]
    [] e.op = "parse" -> IF e.intact THEN e.accepted /\ ChecksummedOK(HX(e.text)) ELSE (e.accepted => ChecksummedOK(HX(e.text)))
    [] e.op = "agree" -> e.a = e.b
EventOK == i > 0 => Check(Trace[i])
Diag == i > 0 => PrintT(<<"DIAG", i, <<Trace[i].op,
           CASE Trace[i].op = "scripts" -> LET exp == ScriptsAt(Trace[i].ast, Trace[i].index) IN
                    <<[j \in 1..Len(exp) |-> ToHex(exp[j])], [j \in 1..Len(exp) |-> AddrOf(exp[j], Trace[i].net)]>>
             [] Trace[i].op = "reveal" -> <<ToHex(RedeemScriptAt(Trace[i].ast, Trace[i].index)), ToHex(WitnessScriptAt(Trace[i].ast, Trace[i].index))>>
             [] Trace[i].op = "checksum" -> DescChecksum(HX(Trace[i].text))
             [] Trace[i].op = "parse" -> ChecksummedOK(HX(Trace[i].text))
             [] OTHER -> "-">>>>)
=============================================================================
