------------------------------ MODULE ScriptVerify -----------------------------
(***************************************************************************)
(* Bitcoin Core's VerifyScript / VerifyWitnessProgram /                     *)
(* ExecuteWitnessScript (DESIGN appendix A.3) over the ScriptVM machine.   *)
(* This instantiation is signature-free: a CHECKSIG-family opcode that is  *)
(* actually executed yields the error "SIGOP_UNMODELLED", and the drivers  *)
(* bound to it generate programs that do not execute one (module           *)
(* ScriptSigs adds the signature checks).                                  *)
(* A spend is [scriptSig, spk, witness (sequence of byte strings)]; the    *)
(* verdict is "" (accepted) or Core's error name.                          *)
(***************************************************************************)
EXTENDS Integers, Sequences, SequencesExt, BigNat, Hash, ScriptBytes, Taproot

NoSig(sig, key, script, st, env, opts) == [err |-> "SIGOP_UNMODELLED", ok |-> FALSE, budget |-> st.budget]
NoMulti(st, script, env, verifyAfter, opIndex) == [st EXCEPT !.err = "SIGOP_UNMODELLED"]
VM == INSTANCE ScriptVM WITH CheckSig <- NoSig, CheckMultiSig <- NoMulti

RECURSIVE PushOnlyFrom(_, _)
PushOnlyFrom(s, pc) == IF pc > Len(s) THEN TRUE
                       ELSE LET op == GetOp(s, pc) IN op.ok /\ op.code <= 96 /\ PushOnlyFrom(s, op.next)
PushOnly(s) == PushOnlyFrom(s, 1)

IsP2SH(s) == Len(s) = 23 /\ s[1] = 169 /\ s[2] = 20 /\ s[23] = 135
IsWitnessProgram(s) == Len(s) >= 4 /\ Len(s) <= 42 /\ (s[1] = 0 \/ (s[1] >= 81 /\ s[1] <= 96)) /\ s[2] + 2 = Len(s)
WitVer(s) == IF s[1] = 0 THEN 0 ELSE s[1] - 80
WitProg(s) == SubSeq(s, 3, Len(s))
\* the single push of x that a P2SH-wrapped witness spend must have as its whole scriptSig
SinglePush(x) == <<Len(x)>> \o x

Env(flags, sv, ctx) == [flags |-> flags, sv |-> sv, ctx |-> ctx]

ExecuteWitnessScript(stack, script, sv, flags, ctx, budget) ==
    IF sv = "tap" /\ Len(stack) > VM!MaxStack THEN "STACK_SIZE"
    ELSE IF \E j \in 1..Len(stack) : Len(stack[j]) > VM!MaxElementSize THEN "PUSH_SIZE"
    ELSE LET r == VM!Eval(script, stack, Env(flags, sv, ctx), budget) IN
         IF r.err # "" THEN r.err
         ELSE IF Len(r.stack) # 1 THEN "CLEANSTACK"
         ELSE IF ~VM!CastToBool(r.stack[1]) THEN "EVAL_FALSE" ELSE ""

\* ---- taproot (BIP341/342) ---------------------------------------------------------------------
OpSuccess(c) == c = 80 \/ c = 98 \/ (c >= 126 /\ c <= 129) \/ (c >= 131 /\ c <= 134) \/ c = 137 \/ c = 138 \/ c = 141 \/ c = 142
                \/ (c >= 149 /\ c <= 153) \/ (c >= 187 /\ c <= 254)
\* the pre-scan of a tapscript: "bad" (an unreadable push), "success" (an OP_SUCCESSx met first) or "none"
RECURSIVE PreScan(_, _)
PreScan(s, pc) == IF pc > Len(s) THEN "none"
                  ELSE LET op == GetOp(s, pc) IN
                       IF ~op.ok THEN "bad" ELSE IF OpSuccess(op.code) THEN "success" ELSE PreScan(s, op.next)
VerifyTaproot(witness, prog, flags, ctx) ==
    IF witness = << >> THEN "WITNESS_PROGRAM_WITNESS_EMPTY" ELSE
    LET hasAnnex == Len(witness) >= 2 /\ witness[Len(witness)] # << >> /\ witness[Len(witness)][1] = 80
        st == IF hasAnnex THEN SubSeq(witness, 1, Len(witness) - 1) ELSE witness
    IN IF Len(st) = 1 THEN "TAPROOT_KEYPATH_UNMODELLED" ELSE
    LET control == st[Len(st)]  script == st[Len(st) - 1]  stack == SubSeq(st, 1, Len(st) - 2) IN
    IF Len(control) < 33 \/ Len(control) > 33 + 32 * 128 \/ (Len(control) - 33) % 32 # 0 THEN "TAPROOT_WRONG_CONTROL_SIZE"
    ELSE IF ~VerifyControl(prog, script, control) THEN "WITNESS_PROGRAM_MISMATCH"
    ELSE IF (control[1] \div 2) * 2 = 192 THEN
        LET scan == PreScan(script, 1) IN
        IF scan = "bad" THEN "BAD_OPCODE"
        ELSE IF scan = "success" THEN (IF "DISCOURAGE_OP_SUCCESS" \in flags THEN "DISCOURAGE_OP_SUCCESS" ELSE "")
        ELSE ExecuteWitnessScript(stack, script, "tap", flags, ctx, 0)
    ELSE IF "DISCOURAGE_UPGRADABLE_TAPROOT_VERSION" \in flags THEN "DISCOURAGE_UPGRADABLE_TAPROOT_VERSION" ELSE ""

\* versions 0 (script hash), 1 (taproot) and the upgradable rest
VerifyWitnessProgram(witness, ver, prog, flags, ctx, isP2SH) ==
    IF ver = 0 /\ Len(prog) = 32 THEN
        IF witness = << >> THEN "WITNESS_PROGRAM_WITNESS_EMPTY"
        ELSE LET script == witness[Len(witness)] IN
             IF SHA256(script) # prog THEN "WITNESS_PROGRAM_MISMATCH"
             ELSE ExecuteWitnessScript(SubSeq(witness, 1, Len(witness) - 1), script, "v0", flags, ctx, 0)
    ELSE IF ver = 0 /\ Len(prog) = 20 THEN
        IF Len(witness) # 2 THEN "WITNESS_PROGRAM_MISMATCH" ELSE "SIGOP_UNMODELLED"
    ELSE IF ver = 0 THEN "WITNESS_PROGRAM_WRONG_LENGTH"
    ELSE IF ver = 1 /\ Len(prog) = 32 /\ ~isP2SH THEN
        IF "TAPROOT" \notin flags THEN "" ELSE VerifyTaproot(witness, prog, flags, ctx)
    ELSE IF ~isP2SH /\ ver = 1 /\ prog = <<78, 115>> THEN ""                    \* pay-to-anchor
    ELSE IF "DISCOURAGE_UPGRADABLE_WITNESS_PROGRAM" \in flags THEN "DISCOURAGE_UPGRADABLE_WITNESS_PROGRAM" ELSE ""

VerifyScript(scriptSig, spk, witness, flags, ctx) ==
    IF "SIGPUSHONLY" \in flags /\ ~PushOnly(scriptSig) THEN "SIG_PUSHONLY" ELSE
    LET r1 == VM!Eval(scriptSig, << >>, Env(flags, "base", ctx), 0) IN
    IF r1.err # "" THEN r1.err ELSE
    LET r2 == VM!Eval(spk, r1.stack, Env(flags, "base", ctx), 0) IN
    IF r2.err # "" THEN r2.err ELSE
    IF r2.stack = << >> \/ ~VM!CastToBool(r2.stack[Len(r2.stack)]) THEN "EVAL_FALSE" ELSE
    LET bare == "WITNESS" \in flags /\ IsWitnessProgram(spk) IN
    IF bare /\ scriptSig # << >> THEN "WITNESS_MALLEATED" ELSE
    LET w1 == IF bare THEN VerifyWitnessProgram(witness, WitVer(spk), WitProg(spk), flags, ctx, FALSE) ELSE "" IN
    IF w1 # "" THEN w1 ELSE
    LET stack3 == IF bare THEN <<r2.stack[Len(r2.stack)]>> ELSE r2.stack
        p2sh == "P2SH" \in flags /\ IsP2SH(spk)
    IN
    IF p2sh /\ ~PushOnly(scriptSig) THEN "SIG_PUSHONLY" ELSE
    LET redeem == IF p2sh THEN r1.stack[Len(r1.stack)] ELSE << >>
        r3 == IF p2sh THEN VM!Eval(redeem, SubSeq(r1.stack, 1, Len(r1.stack) - 1), Env(flags, "base", ctx), 0) ELSE r2
    IN
    IF p2sh /\ r3.err # "" THEN r3.err ELSE
    IF p2sh /\ (r3.stack = << >> \/ ~VM!CastToBool(r3.stack[Len(r3.stack)])) THEN "EVAL_FALSE" ELSE
    LET wrapped == p2sh /\ "WITNESS" \in flags /\ IsWitnessProgram(redeem) IN
    IF wrapped /\ scriptSig # SinglePush(redeem) THEN "WITNESS_MALLEATED_P2SH" ELSE
    LET w2 == IF wrapped THEN VerifyWitnessProgram(witness, WitVer(redeem), WitProg(redeem), flags, ctx, TRUE) ELSE "" IN
    IF w2 # "" THEN w2 ELSE
    LET stack4 == IF wrapped THEN <<r3.stack[Len(r3.stack)]>> ELSE IF p2sh THEN r3.stack ELSE stack3 IN
    IF "CLEANSTACK" \in flags /\ Len(stack4) # 1 THEN "CLEANSTACK" ELSE
    IF "WITNESS" \in flags /\ ~bare /\ ~wrapped /\ witness # << >> THEN "WITNESS_UNEXPECTED" ELSE ""
=============================================================================
