------------------------------ MODULE C16Trace -------------------------------
(***************************************************************************)
(* Code -> specification for C16 (secp256k1).  Events:                     *)
(*  musig  {pks[], tweaks[{t,x}], pubnonces[{r1,r2}], msg, adaptor ("" or  *)
(*          secret), psigs[], verifies[], aggpk, r, s, valid, adapted_s,   *)
(*          adapted_valid, extracted}                                      *)
(*  dh     {c: curve, d, q: point, size, info, hf, out}  diffie_hellman    *)
(*  bie1   {d, q: point, iv, ke, km}               ecies.derive_keys       *)
(*  agree  {what, a, b}   two parties' results that must be equal          *)
(*  holds  {what, ok}     a round trip that must succeed (ok = TRUE)       *)
(*  fails  {what, ok}     an altered statement that must not (ok = FALSE)  *)
(*  dleq   {a, b, c, g: points, msg, proof, out}   verify_proof            *)
(*  spsend {inputs[{d,taproot}], outpoints[], rs[{scan,spend}], outs[]}    *)
(*  spscan {bscan, bspend, labels[], inputs pub sum a: point, outpoints[], *)
(*          outs[], found[{o,t}]}                                          *)
(*  psbtmusig {way: output|internal|derived|leaf, pks[], agg, internal,     *)
(*          root, path[int], spent_key, pubnonces[], psigs[], verifies[],   *)
(*          msg, r, s, accepted}   a BIP373 session run over a psbt: how    *)
(*          the aggregate key reaches the key being spent is re-derived     *)
(*          here from what the psbt says (BIP341 tweak, BIP328 derivation)  *)
(*  ring   {msg, rings[[sec]], e0, s[[nat]], out}   borromean.verify         *)
(*  commit {r, v, out: point | refused: bool}   pedersen.commit             *)
(*  secondgen {out: point}                      pedersen.second_generator   *)
(*  ellswift {c: curve, ell, out: point}        ellswift.decode_var         *)
(*  xdh    {c, ella, ellb, q, party, out}       ellswift.xdh                *)
(***************************************************************************)
EXTENDS TwoParty, RingSig, EllSwift, EvBase

HX(s) == FromHex(s)
Tweaks(e) == [j \in 1..Len(e.tweaks) |-> <<N(e.tweaks[j].t), e.tweaks[j].x>>]
Nonces(e) == [j \in 1..Len(e.pubnonces) |-> <<HX(e.pubnonces[j].r1), HX(e.pubnonces[j].r2)>>]
Pks(e) == [j \in 1..Len(e.pks) |-> HX(e.pks[j])]
SesOf(e) == Session(K1, S256, Pks(e), Tweaks(e), NonceAgg(K1, Nonces(e)), IF e.adaptor = "" THEN ECR!Inf ELSE RMulG(K1, N(e.adaptor)), HX(e.msg))
MusigOK(e) ==
  LET ses == SesOf(e)  psigs == [j \in 1..Len(e.psigs) |-> N(e.psigs[j])]  agg == PartialAgg(K1, ses, psigs) IN
    /\ ses.ok /\ XBytes(K1, ses.Q.x) = HX(e.aggpk)
    /\ \A j \in 1..Len(psigs) : PartialVerify(K1, S256, Pks(e), ses, psigs[j], Nonces(e)[j], Pks(e)[j]) /\ e.verifies[j]
    /\ agg[1] = N(e.r) /\ agg[2] = N(e.s)
    /\ IF e.adaptor = "" THEN Verify(K1, S256, ses.Q.x, HX(e.msg), agg[1], agg[2]) /\ e.valid
       ELSE LET s2 == Adapt(K1, ses, agg[2], N(e.adaptor)) IN
              /\ s2 = N(e.adapted_s) /\ Verify(K1, S256, ses.Q.x, HX(e.msg), agg[1], s2) /\ e.adapted_valid
              /\ Extract(K1, ses, s2, agg[2]) = N(e.adaptor) /\ N(e.extracted) = N(e.adaptor)
\* BIP328: the aggregate key is the public key of a synthetic xpub with a fixed chain code; each unhardened step adds IL*G
Bip328Chain == FromHex("868087ca02a6f974c4598924c36b57762d32cb45717167e300622c7167e38965")
RECURSIVE Bip328Tweaks(_, _, _, _)
Bip328Tweaks(K, chain, path, j) ==
  IF j > Len(path) THEN << >>
  ELSE LET I == HMAC(HF("sha512"), chain, CBytes(K1, K) \o BToBytes(BFromInt(path[j]), 4))
           il == BFromBytes(SubSeq(I, 1, 32)) IN
         <<<<il, FALSE>>>> \o Bip328Tweaks(ECR!Add(K1, K, RMulG(K1, il)), SubSeq(I, 33, 64), path, j + 1)
PsbtTweaks(e) ==
  LET agg == KeyAgg(K1, S256, Pks(e)).Q
      tap(x) == <<BFromBytes(TaggedHash("TapTweak", x \o HX(e.root))), TRUE>> IN
  CASE e.way = "output" -> << >>
    [] e.way = "leaf" -> << >>
    [] e.way = "internal" -> <<tap(XBytes(K1, agg.x))>>
    [] e.way = "derived" -> Bip328Tweaks(agg, Bip328Chain, e.path, 1) \o <<tap(HX(e.internal))>>
PsbtSes(e) == Session(K1, S256, Pks(e), PsbtTweaks(e), NonceAgg(K1, Nonces(e)), ECR!Inf, HX(e.msg))
PsbtMusigOK(e) ==
  LET ses == PsbtSes(e)  psigs == [j \in 1..Len(e.psigs) |-> N(e.psigs[j])]  agg == PartialAgg(K1, ses, psigs) IN
    /\ CBytes(K1, KeyAgg(K1, S256, Pks(e)).Q) = HX(e.agg)
    /\ ses.ok /\ XBytes(K1, ses.Q.x) = HX(e.spent_key)
    /\ e.way = "derived" => LET tw == PsbtTweaks(e)  ctx == KeyAggTweaked(K1, S256, Pks(e), SubSeq(tw, 1, Len(tw) - 1)) IN XBytes(K1, ctx.Q.x) = HX(e.internal)
    /\ \A j \in 1..Len(psigs) : PartialVerify(K1, S256, Pks(e), ses, psigs[j], Nonces(e)[j], Pks(e)[j]) /\ e.verifies[j]
    /\ agg[1] = N(e.r) /\ agg[2] = N(e.s)
    /\ Verify(K1, S256, ses.Q.x, HX(e.msg), agg[1], agg[2])
    /\ e.accepted
RingsOf(e) == [a \in 1..Len(e.rings) |-> [b \in 1..Len(e.rings[a]) |-> PointOf(HX(e.rings[a][b]))]]
RingOut(e) == Verify1(K1, S256, HX(e.msg), HX(e.e0), [a \in 1..Len(e.s) |-> [b \in 1..Len(e.s[a]) |-> N(e.s[a][b])]], RingsOf(e))
RsOf(e) == [j \in 1..Len(e.rs) |-> [scan |-> PointOf(HX(e.rs[j].scan)), spend |-> PointOf(HX(e.rs[j].spend))]]
Check(e) ==
  CASE e.op = "musig" -> MusigOK(e)
    [] e.op = "psbtmusig" -> PsbtMusigOK(e)
    [] e.op = "ring" -> e.out = RingOut(e)
    [] e.op = "ellswift" -> LET c == CurveOf(e.c)  b == HX(e.ell)  size == PLen(c) IN
                              EllDecode(c, BFromBytes(SubSeq(b, 1, size)), BFromBytes(SubSeq(b, size + 1, 2 * size))) = PtOf(e.out)
    [] e.op = "xdh" -> ToHex(XdhSecret(CurveOf(e.c), HX(e.ella), HX(e.ellb), N(e.q), e.party)) = e.out
    [] e.op = "commit" -> LET cm == Commit(K1, S256, N(e.r), N(e.v)) IN IF e.refused THEN ~cm.ok ELSE cm.ok /\ cm.Q = PtOf(e.out)
    [] e.op = "secondgen" -> SecondGenerator(K1, S256) = PtOf(e.out)
    [] e.op = "dh" -> LET r == DhKey(CurveOf(e.c), HF(e.hf), N(e.d), PtOf(e.q), e.size, HX(e.info)) IN
                        IF r[1] = "refused" THEN e.out = "refused" ELSE e.out = ToHex(r[2])
    [] e.op = "bie1" -> Bie1Keys(N(e.d), PtOf(e.q)) = <<HX(e.iv), HX(e.ke), HX(e.km)>>
    [] e.op = "agree" -> e.a = e.b /\ e.a # "refused"
    [] e.op = "holds" -> e.ok
    [] e.op = "fails" -> ~e.ok
    [] e.op = "dleq" -> e.out = DleqVerify(PtOf(e.a), PtOf(e.b), PtOf(e.c), HX(e.proof), PtOf(e.g), HX(e.msg))
    [] e.op = "spsend" -> LET ins == [j \in 1..Len(e.inputs) |-> [d |-> N(e.inputs[j].d), taproot |-> e.inputs[j].taproot]]
                              exp == SenderOutputs(ins, [j \in 1..Len(e.outpoints) |-> HX(e.outpoints[j])], RsOf(e)) IN
                            [j \in 1..Len(e.outs) |-> HX(e.outs[j])] = exp
    [] e.op = "spinput" -> LET k == SpInputKey(FromHex(e.spk), FromHex(e.sig), [j \in 1..Len(e.wit) |-> FromHex(e.wit[j])]) IN
          IF k.none THEN e.out = [none |-> TRUE] ELSE e.out = [none |-> FALSE, x |-> ToHex(BToBytes(k.x, 32)), y |-> ToHex(BToBytes(k.y, 32))]
    [] e.op = "spscan" -> LET found == Scan(N(e.bscan), RMulG(K1, N(e.bspend)), {LabelTweak(N(e.bscan), e.labels[j]) : j \in 1..Len(e.labels)},
                                            PtOf(e.a), [j \in 1..Len(e.outpoints) |-> HX(e.outpoints[j])], {HX(e.outs[j]) : j \in 1..Len(e.outs)}) IN
                            /\ [j \in 1..Len(e.found) |-> <<HX(e.found[j].o), N(e.found[j].t)>>] = found
                            /\ \A j \in 1..Len(found) : SpendKeyOpens(N(e.bspend), found[j][2], found[j][1])
EventOK == i > 0 => Check(Trace[i])
Diag == i > 0 => PrintT(<<"DIAG", i, <<Trace[i].op,
            CASE Trace[i].op = "musig" -> LET e == Trace[i]  ses == SesOf(e)  psigs == [j \in 1..Len(e.psigs) |-> N(e.psigs[j])] IN
                     <<ses.ok, ToHex(XBytes(K1, ses.Q.x)), [j \in 1..Len(psigs) |-> PartialVerify(K1, S256, Pks(e), ses, psigs[j], Nonces(e)[j], Pks(e)[j])],
                       PartialAgg(K1, ses, psigs)>>
              [] Trace[i].op = "psbtmusig" -> LET e == Trace[i]  ses == PsbtSes(e)  psigs == [j \in 1..Len(e.psigs) |-> N(e.psigs[j])] IN
                     <<ToHex(CBytes(K1, KeyAgg(K1, S256, Pks(e)).Q)), ses.ok, ToHex(XBytes(K1, ses.Q.x)),
                       [j \in 1..Len(psigs) |-> PartialVerify(K1, S256, Pks(e), ses, psigs[j], Nonces(e)[j], Pks(e)[j])], PartialAgg(K1, ses, psigs)>>
              [] Trace[i].op = "spinput" -> LET e == Trace[i] IN SpInputKey(FromHex(e.spk), FromHex(e.sig), [j \in 1..Len(e.wit) |-> FromHex(e.wit[j])])
              [] Trace[i].op = "ring" -> RingOut(Trace[i])
              [] Trace[i].op = "ellswift" -> LET e == Trace[i]  c == CurveOf(e.c)  b == HX(e.ell)  size == PLen(c) IN
                              EllDecode(c, BFromBytes(SubSeq(b, 1, size)), BFromBytes(SubSeq(b, size + 1, 2 * size)))
              [] Trace[i].op = "xdh" -> ToHex(XdhSecret(CurveOf(Trace[i].c), HX(Trace[i].ella), HX(Trace[i].ellb), N(Trace[i].q), Trace[i].party))
              [] Trace[i].op = "commit" -> Commit(K1, S256, N(Trace[i].r), N(Trace[i].v))
              [] Trace[i].op = "spsend" -> LET e == Trace[i] IN
                     [j \in 1..Len(e.rs) |-> ToHex(SenderOutputs([q \in 1..Len(e.inputs) |-> [d |-> N(e.inputs[q].d), taproot |-> e.inputs[q].taproot]],
                                                                  [q \in 1..Len(e.outpoints) |-> HX(e.outpoints[q])], RsOf(e))[j])]
              [] Trace[i].op = "dh" -> DhKey(CurveOf(Trace[i].c), HF(Trace[i].hf), N(Trace[i].d), PtOf(Trace[i].q), Trace[i].size, HX(Trace[i].info))
              [] Trace[i].op = "dleq" -> DleqVerify(PtOf(Trace[i].a), PtOf(Trace[i].b), PtOf(Trace[i].c), HX(Trace[i].proof), PtOf(Trace[i].g), HX(Trace[i].msg))
              [] OTHER -> "-">>>>)
=============================================================================
