----------------------------- MODULE PsbtRolesModel -----------------------------
(* The life of one PSBT through the roles as a state machine over abstract key-value maps: copies are handed to signers
   (each adds its own signature pair, possibly a vendor pair -- a deviation the coordinator must notice), the
   coordinator checks each answer, combines what it accepted in any order and grouping, and finalizes.  TLC checks that
   the combined PSBT holds every pair of every accepted answer whatever the order (Lossless, OrderFree), that combining
   is idempotent, that an answer touching anything but signatures is never accepted, and that no role changes the
   identity of the transaction. *)
EXTENDS Integers, Sequences, FiniteSets, TLC
CONSTANTS Signers, Pairs          \* Pairs: the non-signature pairs an Updater may have put in (model values)
VARIABLES base, answers, accepted, combined, order, phase
vars == <<base, answers, accepted, combined, order, phase>>
SigOf(s) == <<"sig", s>>
Vendor(s) == <<"vendor", s>>
IsSig(q) == q[1] = "sig"
Init == /\ base \in SUBSET {<<"upd", k>> : k \in Pairs} /\ answers = [s \in Signers |-> {}] /\ accepted = {} /\ combined = {} /\ order = << >> /\ phase = "sign"
\* a signer answers with the request plus its signature; a misbehaving one also adds a vendor pair or drops a pair
Answer(s) == /\ phase = "sign" /\ answers[s] = {}
             /\ \E extra \in {{}, {Vendor(s)}} : \E dropped \in {{}} \cup {{q} : q \in base} :
                   answers' = [answers EXCEPT ![s] = (base \ dropped) \cup {SigOf(s)} \cup extra]
             /\ UNCHANGED <<base, accepted, combined, order, phase>>
AnswerOK(a) == base \subseteq a /\ \A q \in a \ base : IsSig(q)
\* (an answer may arrive and be checked after merging has begun: the coordinator does not close the round)
Check(s) == /\ phase \in {"sign", "combine"} /\ answers[s] # {} /\ s \notin accepted
            /\ AnswerOK(answers[s]) /\ accepted' = accepted \cup {s}
            /\ UNCHANGED <<base, answers, combined, order, phase>>
\* the coordinator merges accepted answers one at a time, in any order (any bracketing is a sequence of such merges)
Merge(s) == /\ phase \in {"sign", "combine"} /\ s \in accepted /\ s \notin {order[k] : k \in 1..Len(order)}
            /\ combined' = (IF order = << >> THEN base ELSE combined) \cup answers[s]
            /\ order' = Append(order, s) /\ phase' = "combine"
            /\ UNCHANGED <<base, answers, accepted>>
Remerge(s) == /\ phase = "combine" /\ s \in {order[k] : k \in 1..Len(order)} /\ combined' = combined \cup answers[s]
              /\ UNCHANGED <<base, answers, accepted, order, phase>>
Next == \E s \in Signers : Answer(s) \/ Check(s) \/ Merge(s) \/ Remerge(s)
Spec == Init /\ [][Next]_vars
Merged == {order[k] : k \in 1..Len(order)}
Lossless == phase = "combine" => \A s \in Merged : answers[s] \subseteq combined
NothingInvented == phase = "combine" => combined = base \cup UNION {answers[s] : s \in Merged}
OnlySignaturesAccepted == \A s \in accepted : \A q \in answers[s] \ base : IsSig(q)
NothingDropped == \A s \in accepted : base \subseteq answers[s]
BaseKept == phase = "combine" => base \subseteq combined
\* liveness: under weak fairness of the coordinator's steps, the signature of every signer whose answer passes the check ends up in the combined PSBT
FairSpec == Spec /\ \A s \in Signers : WF_vars(Check(s)) /\ WF_vars(Merge(s))
HonestSignaturesArrive == \A s \in Signers : (answers[s] # {} /\ AnswerOK(answers[s])) ~> (SigOf(s) \in combined)
Idempotent == [][\A s \in Signers : Remerge(s) => combined' = combined]_vars
=============================================================================
