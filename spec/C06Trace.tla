------------------------------ MODULE C06Trace -------------------------------
(***************************************************************************)
(* Code -> specification for C06: every recorded decode / encode of a      *)
(* Base58Check, Bech32(m), segwit address, WIF or address<->script call is *)
(* recomputed with the reference algorithms of the BIPs.                   *)
(***************************************************************************)
EXTENDS Bip21, EvBase

Refusal == [refused |-> TRUE]
NatHex(n) == ToHex(BToBytes(n, (BBitLen(n) + 7) \div 8))
UriOut(u) == [refused |-> FALSE, address |-> ToHex(u.address), has_amount |-> u.amount.has, sats |-> IF u.amount.has THEN NatHex(u.amount.v) ELSE "",
              has_label |-> u.label.has, label |-> ToHex(u.label.v), has_message |-> u.message.has, message |-> ToHex(u.message.v),
              others |-> [k \in 1..Len(u.others) |-> <<ToHex(u.others[k][1]), ToHex(u.others[k][2])>>]]
Expected(e) ==
    CASE e.op = "b58check_decode" -> LET d == DecodeCheck58(FromHex(e.s)) IN IF d.ok THEN [refused |-> FALSE, v |-> ToHex(d.v)] ELSE Refusal
      [] e.op = "b58check_encode" -> [refused |-> FALSE, v |-> ToHex(Check58(FromHex(e.payload)))]
      [] e.op = "segwit_decode" ->
            LET w == SegwitDecode(FromHex(e.s)) IN
            IF w.ok /\ NetOfHrp(w.hrp) # "none" THEN [refused |-> FALSE, ver |-> w.ver, prog |-> ToHex(w.prog), net |-> NetOfHrp(w.hrp)] ELSE Refusal
      [] e.op = "segwit_encode" ->
            IF ProgramOK(e.ver, FromHex(e.prog)) THEN [refused |-> FALSE, v |-> ToHex(SegwitEncode(Hrp(e.net), e.ver, FromHex(e.prog)))] ELSE Refusal
      [] e.op = "bech32_decode" ->
            LET d == Decode(FromHex(e.s)) IN
            IF d.ok /\ d.const = e.m THEN [refused |-> FALSE, hrp |-> ToHex(d.hrp), data |-> d.data] ELSE Refusal
      [] e.op = "address_decode" ->
            LET a == AddressDecode(FromHex(e.s)) IN IF a.ok THEN [refused |-> FALSE, spk |-> ToHex(a.spk), net |-> a.net] ELSE Refusal
      [] e.op = "address_encode" -> [refused |-> FALSE, v |-> ToHex(AddressEncode(FromHex(e.spk), e.net))]
      \* a hash written as a Base58Check address: 21 octets, a version and a 20-octet hash -- a payload of another size is no address (what is written is read back)
      [] e.op = "b58_address" ->
            IF Len(FromHex(e.payload)) # 20 THEN Refusal
            ELSE [refused |-> FALSE, v |-> ToHex(Check58(<<IF e.type = "p2pkh" THEN P2PKHVersion(e.net) ELSE P2SHVersion(e.net)>> \o FromHex(e.payload)))]
      [] e.op = "wif_decode" ->
            LET w == WIFDecode(FromHex(e.s)) IN
            IF w.ok THEN [refused |-> FALSE, key |-> ToHex(w.key), compressed |-> w.compressed, net |-> w.net] ELSE Refusal
      [] e.op = "wif_encode" -> [refused |-> FALSE, v |-> ToHex(WIFEncode(FromHex(e.key), e.compressed, e.net))]
      \* a key string (WIF, xprv, xpub incl. SLIP132) read with or without a declared network
      [] e.op = "keyinfo" -> LET k == KeyNetwork(e.kind, FromHex(e.prefix), e.declared) IN IF k.ok THEN [refused |-> FALSE, net |-> k.net] ELSE Refusal
      \* the address of a key on a named network: the key is e.sec whatever spelling it was passed in
      \* (kind "sec": bare octets, no prefix to disagree with the network)
      \* (a witness v0 key hash commits to a compressed key: an uncompressed one has no p2wpkh address, native or wrapped)
      [] e.op = "keyaddr" -> IF e.kind # "sec" /\ ~KeyNetwork(e.kind, FromHex(e.prefix), e.net).ok THEN Refusal
                             ELSE IF e.fn \in {"p2wpkh", "p2wpkh_p2sh"} /\ Len(FromHex(e.sec)) # 33 THEN Refusal
                             ELSE [refused |-> FALSE, v |-> ToHex(AddressEncode(SpkOfKey(e.fn, FromHex(e.sec)), ClassOf(e.net)))]
      \* several keys in one script: every key that names a network type names the same one, and the declared one when a network is declared
      [] e.op = "multikey" -> LET types == {PrefixType(e.keys[k].kind, FromHex(e.keys[k].prefix)) : k \in {j \in 1..Len(e.keys) : e.keys[j].kind # "sec"}}
                                  \* the first key sets the network where none is declared, and a key that names none is a mainnet key (the library's default)
                                  eff == IF e.declared # "" THEN TypeOfNet(e.declared)
                                         ELSE IF e.keys[1].kind = "sec" THEN "main" ELSE PrefixType(e.keys[1].kind, FromHex(e.keys[1].prefix)) IN
                                [refused |-> \E t \in types : t # eff]
      \* a ScriptPubKey built by a constructor for a named network: it remembers that network and its address is that network's
      [] e.op = "ctor" -> [refused |-> FALSE, v |-> ToHex(AddressEncode(FromHex(e.spk), ClassOf(e.net))), net |-> e.net]
      \* BIP21 payment URIs: the text (UTF-8) parsed, and a request written
      [] e.op = "bip21_parse" -> LET u == UriParse(FromHex(e.s)) IN IF ~u.ok THEN Refusal ELSE UriOut(u)
      [] e.op = "bip21_serialize" ->
            [refused |-> FALSE, v |-> ToHex(UriSerialize([address |-> FromHex(e.address), amount |-> [has |-> e.has_amount, v |-> BFromBytes(FromHex(e.sats))],
                                      label |-> [has |-> e.has_label, v |-> FromHex(e.label)], message |-> [has |-> e.has_message, v |-> FromHex(e.message)],
                                      others |-> [k \in 1..Len(e.others) |-> <<FromHex(e.others[k][1]), FromHex(e.others[k][2])>>]]))]

EventOK == i > 0 => Expected(Trace[i]) = Trace[i].out
Diag == i > 0 => PrintT(<<"DIAG", i, Expected(Trace[i])>>)
=============================================================================
