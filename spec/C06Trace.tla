------------------------------ MODULE C06Trace -------------------------------
(***************************************************************************)
(* Code -> specification for C06: every recorded decode / encode of a      *)
(* Base58Check, Bech32(m), segwit address, WIF or address<->script call is *)
(* recomputed with the reference algorithms of the BIPs.                   *)
(***************************************************************************)
EXTENDS Address, EvBase

Refusal == [refused |-> TRUE]
Expected(e) ==
    CASE e.op = "b58check_decode" -> LET d == DecodeCheck58(FromHex(e.s)) IN IF d.ok THEN [refused |-> FALSE, v |-> ToHex(d.v)] ELSE Refusal
      [] e.op = "b58check_encode" -> [refused |-> FALSE, v |-> ToHex(Check58(FromHex(e.payload)))]
      [] e.op = "segwit_decode" ->
            LET w == SegwitDecode(FromHex(e.s)) IN
            IF w.ok /\ NetOfHrp(w.hrp) # "none" THEN [refused |-> FALSE, ver |-> w.ver, prog |-> ToHex(w.prog), net |-> NetOfHrp(w.hrp)] ELSE Refusal
      [] e.op = "segwit_encode" ->
            IF ProgramOK(e.ver, FromHex(e.prog)) THEN [refused |-> FALSE, v |-> ToHex(SegwitEncode(Hrp(e.net), e.ver, FromHex(e.prog)))] ELSE Refusal
      [] e.op = "bech32_decode" ->
            LET d == Decode(FromHex(e.s)) IN
            IF d.ok /\ d.const = e.m THEN [refused |-> FALSE, hrp |-> ToHex(d.hrp), data |-> d.data] ELSE Refusal
      [] e.op = "address_decode" ->
            LET a == AddressDecode(FromHex(e.s)) IN IF a.ok THEN [refused |-> FALSE, spk |-> ToHex(a.spk), net |-> a.net] ELSE Refusal
      [] e.op = "address_encode" -> [refused |-> FALSE, v |-> ToHex(AddressEncode(FromHex(e.spk), e.net))]
      [] e.op = "wif_decode" ->
            LET w == WIFDecode(FromHex(e.s)) IN
            IF w.ok THEN [refused |-> FALSE, key |-> ToHex(w.key), compressed |-> w.compressed, net |-> w.net] ELSE Refusal
      [] e.op = "wif_encode" -> [refused |-> FALSE, v |-> ToHex(WIFEncode(FromHex(e.key), e.compressed, e.net))]

EventOK == i > 0 => Expected(Trace[i]) = Trace[i].out
Diag == i > 0 => PrintT(<<"DIAG", i, Expected(Trace[i])>>)
=============================================================================
