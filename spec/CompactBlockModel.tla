--------------------------- MODULE CompactBlockModel ---------------------------
(* The relay of one block as a state machine: a sender announces it (choosing which positions to prefill), the receiver
   reconstructs against its pool, asks for what is missing, is answered, and fills.  Short ids come from a small range so
   that collisions -- inside the block, and between the block and foreign pool transactions -- all occur.  TLC checks:
   a reconstruction that is not refused never needs more than the missing transactions to give back exactly the block
   when the pool holds no foreign collision-winner; a position is filled only by a transaction carrying the announced
   short id; with the whole block in the pool every filled position is right; equal short ids inside a block refuse. *)
EXTENDS CompactBlock, TLC
CONSTANTS Txs, SidRange, MaxBlock
VARIABLES phase, block, sid, pre, pool, slots, result
vars == <<phase, block, sid, pre, pool, slots, result>>

Seqs(S, n) == UNION {[1..k -> S] : k \in 0..n}
Distinct(s) == \A a, b \in 1..Len(s) : a # b => s[a] # s[b]
Init == /\ phase = "announce" /\ sid \in [Txs -> SidRange]
        /\ block \in {s \in Seqs(Txs, MaxBlock) : Len(s) >= 1 /\ Distinct(s)}
        /\ pre = << >> /\ pool = << >> /\ slots = << >> /\ result = << >>
\* the sender prefills any subset of positions that includes the coinbase (position 1); the receiver's pool is any
\* sequence of transactions (repeats allowed)
Announce == /\ phase = "announce"
            /\ \E ps \in SUBSET (1..Len(block)) : 1 \in ps /\ pre' = [i \in ps |-> block[i]]
            /\ pool' \in Seqs(Txs, 3)
            /\ phase' = "reconstruct" /\ UNCHANGED <<block, sid, slots, result>>
Sids == LET free == FreePositions(Len(block), pre) IN [k \in 1..Len(free) |-> sid[block[free[k]]]]
PoolS == [j \in 1..Len(pool) |-> <<pool[j], sid[pool[j]]>>]
DoReconstruct == /\ phase = "reconstruct"
                 /\ LET r == Reconstruct(Len(block), pre, Sids, PoolS) IN
                      IF r[1] = "refused" THEN phase' = "rerequest" /\ slots' = << >> ELSE phase' = "fill" /\ slots' = r[2]
                 /\ UNCHANGED <<block, sid, pre, pool, result>>
\* the sender answers getblocktxn honestly
DoFill == /\ phase = "fill"
          /\ LET m == Missing(slots) IN result' = Fill(slots, [k \in 1..Len(m) |-> block[m[k]]])
          /\ phase' = "done" /\ UNCHANGED <<block, sid, pre, pool, slots>>
Next == Announce \/ DoReconstruct \/ DoFill \/ (phase \in {"done", "rerequest"} /\ UNCHANGED vars)
Spec == Init /\ [][Next]_vars

\* a slot is filled only by a prefilled transaction or one carrying the announced short id
OnlyAnnounced == phase \in {"fill", "done"} => \A i \in 1..Len(slots) :
                   slots[i][1] = "tx" => (i \in DOMAIN pre /\ slots[i][2] = block[i]) \/ sid[slots[i][2]] = sid[block[i]]
\* with every block transaction in the pool, whatever else is there, every filled slot is right
PoolHasBlock == \A i \in 1..Len(block) : \E j \in 1..Len(pool) : pool[j] = block[i]
RightWhenPoolComplete == (phase \in {"fill", "done"} /\ PoolHasBlock) => \A i \in 1..Len(slots) : slots[i][1] = "tx" => slots[i][2] = block[i]
\* the filled block is the block unless a foreign transaction won a short id (which the merkle root then exposes)
ForeignWinner == \E i \in 1..Len(slots) : slots[i][1] = "tx" /\ slots[i][2] # block[i]
ExactUnlessForeign == phase = "done" => result[1] = "ok" /\ (ForeignWinner \/ result[2] = block)
\* refused exactly when two announced positions share a short id
RefusedIffInternalCollision == phase = "rerequest" <=>
     (phase \notin {"announce", "reconstruct", "fill", "done"} /\ \E a, b \in 1..Len(Sids) : a # b /\ Sids[a] = Sids[b])
\* never ask for a transaction the pool could have supplied unambiguously
NoNeedlessRequest == phase \in {"fill", "done"} => \A i \in 1..Len(slots) :
     slots[i][1] = "missing" => Cardinality(Candidates(PoolS, sid[block[i]])) # 1
=============================================================================
