-------------------------------- MODULE Backend --------------------------------
(***************************************************************************)
(* C04: every operation served by the libsecp256k1 bindings when they are  *)
(* enabled and by the Python arithmetic when they are not gives the same   *)
(* observable result either way.  The design: a process-wide flag          *)
(* `serving`, an environment that flips it at any time, and calls whose    *)
(* outcome -- the returned value, or the class of the exception raised --  *)
(* is F[op, args] for one function F that does not mention the flag.       *)
(* Binding: recorded calls (each made on both arms, flips in between) are  *)
(* validated by PurityTrace, where F is not logged and TLC infers it: a    *)
(* trace is accepted iff one F explains the outcomes seen on both arms.    *)
(***************************************************************************)
EXTENDS Integers, Sequences, TLC

CONSTANTS Calls           \* abstract (op, args) pairs
F(c) == <<"outcome-of", c>>

VARIABLES serving, seen   \* seen: set of <<call, arm, outcome>>
bvars == <<serving, seen>>
BInit == serving \in BOOLEAN /\ seen = {}
Flip == serving' = ~serving /\ UNCHANGED seen
Call(c) == seen' = seen \cup {<<c, serving, F(c)>>} /\ UNCHANGED serving
BNext == Flip \/ \E c \in Calls : Call(c)
BSpec == BInit /\ [][BNext]_bvars

ArmIndependent == \A x, y \in seen : x[1] = y[1] => x[3] = y[3]
BothArmsReached == ~(\E c \in Calls : {<<c, TRUE, F(c)>>, <<c, FALSE, F(c)>>} \subseteq seen)   \* (violated = reachable)
=============================================================================
