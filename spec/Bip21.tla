-------------------------------- MODULE Bip21 ---------------------------------
(***************************************************************************)
(* BIP21 payment URIs on bytes (the UTF-8 of the text):                    *)
(*   bitcoin:<address>[?amount=<btc>&label=<text>&message=<text>&k=v...]   *)
(* The rules that carry the scheme: the scheme name is case-insensitive;   *)
(* a fragment (#...) ends the query; parameters are split at '&' and at    *)
(* the first '='; names and values are percent-decoded ('+' is a plus) and *)
(* a malformed escape or an escape that is not UTF-8 refuses the URI; a    *)
(* repeated name refuses it; `amount` is decimal BTC in BIP21's own grammar*)
(* (digits with an optional fraction, no sign, no exponent), at most the   *)
(* supply and a whole number of satoshi; an unknown name starting with     *)
(* req- (any case) refuses it and any other unknown name is kept.          *)
(***************************************************************************)
EXTENDS Address

Ch(s) == Utf8(s)[1]
IndexOf(b, c) == IF \E k \in 1..Len(b) : b[k] = c THEN CHOOSE k \in 1..Len(b) : b[k] = c /\ \A j \in 1..(k - 1) : b[j] # c ELSE 0
Before(b, c) == LET k == IndexOf(b, c) IN IF k = 0 THEN b ELSE SubSeq(b, 1, k - 1)
After(b, c) == LET k == IndexOf(b, c) IN IF k = 0 THEN << >> ELSE SubSeq(b, k + 1, Len(b))
RECURSIVE SplitAt(_, _)
SplitAt(b, c) == IF IndexOf(b, c) = 0 THEN <<b>> ELSE <<Before(b, c)>> \o SplitAt(After(b, c), c)
LowerAscii(b) == [k \in 1..Len(b) |-> IF b[k] \in 65..90 THEN b[k] + 32 ELSE b[k]]
IsDigit(x) == x \in 48..57
IsHex(x) == x \in 48..57 \/ x \in 65..70 \/ x \in 97..102
HexVal(x) == IF x \in 48..57 THEN x - 48 ELSE IF x \in 65..70 THEN x - 55 ELSE x - 87

\* strict UTF-8 (no overlong forms, no surrogates, nothing above U+10FFFF)
RECURSIVE ValidUtf8(_, _)
ValidUtf8(b, k) ==
  IF k > Len(b) THEN TRUE
  ELSE LET x == b[k]  cont(j, lo, hi) == k + j <= Len(b) /\ b[k + j] \in lo..hi IN
    IF x <= 127 THEN ValidUtf8(b, k + 1)
    ELSE IF x \in 194..223 THEN cont(1, 128, 191) /\ ValidUtf8(b, k + 2)
    ELSE IF x = 224 THEN cont(1, 160, 191) /\ cont(2, 128, 191) /\ ValidUtf8(b, k + 3)
    ELSE IF x \in 225..236 \/ x \in 238..239 THEN cont(1, 128, 191) /\ cont(2, 128, 191) /\ ValidUtf8(b, k + 3)
    ELSE IF x = 237 THEN cont(1, 128, 159) /\ cont(2, 128, 191) /\ ValidUtf8(b, k + 3)
    ELSE IF x = 240 THEN cont(1, 144, 191) /\ cont(2, 128, 191) /\ cont(3, 128, 191) /\ ValidUtf8(b, k + 4)
    ELSE IF x \in 241..243 THEN cont(1, 128, 191) /\ cont(2, 128, 191) /\ cont(3, 128, 191) /\ ValidUtf8(b, k + 4)
    ELSE IF x = 244 THEN cont(1, 128, 143) /\ cont(2, 128, 191) /\ cont(3, 128, 191) /\ ValidUtf8(b, k + 4)
    ELSE FALSE
\* percent-decoding: [ok, v]
RECURSIVE Unescape(_, _)
Unescape(b, k) ==
  IF k > Len(b) THEN [ok |-> TRUE, v |-> << >>]
  ELSE IF b[k] # 37 THEN LET r == Unescape(b, k + 1) IN [ok |-> r.ok, v |-> <<b[k]>> \o r.v]
  ELSE IF k + 2 <= Len(b) /\ IsHex(b[k + 1]) /\ IsHex(b[k + 2])
       THEN LET r == Unescape(b, k + 3) IN [ok |-> r.ok, v |-> <<16 * HexVal(b[k + 1]) + HexVal(b[k + 2])>> \o r.v]
       ELSE [ok |-> FALSE, v |-> << >>]
PctDecode(b) == LET r == Unescape(b, 1) IN IF r.ok /\ ValidUtf8(r.v, 1) THEN r ELSE [ok |-> FALSE, v |-> << >>]
\* percent-encoding as the serializer writes it: unreserved characters and / : @ ! $ ' ( ) * + , ; stay
Stays(x) == x \in 48..57 \/ x \in 65..90 \/ x \in 97..122 \/ x \in {Ch("_"), Ch("."), Ch("-"), Ch("~"), Ch("/"), Ch(":"), Ch("@"), Ch("!"), Ch("$"), Ch("'"), Ch("("), Ch(")"), Ch("*"), Ch("+"), Ch(","), Ch(";")}
HexDigit(v) == IF v < 10 THEN 48 + v ELSE 55 + v
Escape(b) == FoldLeft(LAMBDA a, x : a \o (IF Stays(x) THEN <<x>> ELSE <<37, HexDigit(x \div 16), HexDigit(x % 16)>>), << >>, b)

\* the amount: digits [. digits] or . digits ; its value in satoshi, refused above 21 million BTC or with a fraction of a satoshi
AllDigits(b) == \A k \in 1..Len(b) : IsDigit(b[k])
DecNat(b) == FoldLeft(LAMBDA a, x : BAdd(BMul(a, B(10)), B(x - 48)), BZero, b)
MaxSats == BMul(B(21000000), B(100000000))
AmountOf(b) ==
  LET int == Before(b, Ch("."))  hasDot == IndexOf(b, Ch(".")) # 0  frac == After(b, Ch(".")) IN
  IF ~(AllDigits(int) /\ AllDigits(frac) /\ (IF hasDot THEN Len(int) + Len(frac) > 0 ELSE Len(int) > 0)) THEN [ok |-> FALSE, sats |-> BZero]
  ELSE LET f8 == [k \in 1..8 |-> IF k <= Len(frac) THEN frac[k] ELSE 48]
           restZero == \A k \in 9..Len(frac) : frac[k] = 48
           sats == BAdd(BMul(DecNat(int), B(100000000)), DecNat(f8)) IN
       IF restZero /\ BLe(sats, MaxSats) THEN [ok |-> TRUE, sats |-> sats] ELSE [ok |-> FALSE, sats |-> BZero]

\* named deviation (the library's convention for every address reader, b32.witness_from_address and b58.h160_from_address): white space around an
\* address is not part of it.  The URI keeps the text as written; it is the address inside that is read.
IsSpace(x) == x \in {9, 10, 11, 12, 13, 28, 29, 30, 31, 32}
RECURSIVE Strip(_)
Strip(b) == IF b # << >> /\ IsSpace(b[1]) THEN Strip(Tail(b)) ELSE IF b # << >> /\ IsSpace(b[Len(b)]) THEN Strip(SubSeq(b, 1, Len(b) - 1)) ELSE b
UriRefused == [ok |-> FALSE]
None == [has |-> FALSE, v |-> << >>]
Some(v) == [has |-> TRUE, v |-> v]
\* fold the parameters, left to right
Param(st, el) ==
  IF ~st.ok \/ el = << >> THEN st
  ELSE LET key == PctDecode(Before(el, Ch("=")))  raw == After(el, Ch("=")) IN
    IF ~key.ok \/ key.v \in st.seen THEN UriRefused
    ELSE LET st2 == [st EXCEPT !.seen = @ \cup {key.v}] IN
      IF key.v = Utf8("amount") THEN LET a == AmountOf(raw) IN IF a.ok THEN [st2 EXCEPT !.amount = Some(a.sats)] ELSE UriRefused
      ELSE LET val == PctDecode(raw) IN
        IF ~val.ok THEN UriRefused
        ELSE IF key.v = Utf8("label") THEN [st2 EXCEPT !.label = Some(val.v)]
        ELSE IF key.v = Utf8("message") THEN [st2 EXCEPT !.message = Some(val.v)]
        ELSE IF key.v = << >> \/ (Len(key.v) >= 4 /\ LowerAscii(SubSeq(key.v, 1, 4)) = Utf8("req-")) THEN UriRefused
        ELSE [st2 EXCEPT !.others = Append(@, <<key.v, val.v>>)]
UriParse(uri) ==
  LET scheme == Before(uri, Ch(":"))  rest == After(uri, Ch(":")) IN
  IF IndexOf(uri, Ch(":")) = 0 \/ LowerAscii(scheme) # Utf8("bitcoin") THEN UriRefused
  ELSE LET address == Before(rest, Ch("?"))
           query == Before(After(rest, Ch("?")), Ch("#"))
           st == FoldLeft(Param, [ok |-> TRUE, seen |-> {}, amount |-> None, label |-> None, message |-> None, others |-> << >>], SplitAt(query, Ch("&"))) IN
       IF ~st.ok \/ ~AddressDecode(Strip(address)).ok THEN UriRefused
       ELSE [ok |-> TRUE, address |-> address, amount |-> st.amount, label |-> st.label, message |-> st.message, others |-> st.others]
\* the serializer: the amount in BTC without trailing zeros
RECURSIVE DecDigits(_)
DecDigits(n) == IF BLt(n, B(10)) THEN <<48 + BToInt(n)>> ELSE DecDigits(BDiv(n, B(10))) \o <<48 + BToInt(BMod(n, B(10)))>>
RECURSIVE StripZeros(_)
StripZeros(b) == IF b # << >> /\ b[Len(b)] = 48 THEN StripZeros(SubSeq(b, 1, Len(b) - 1)) ELSE b
AmountText(sats) ==
  LET int == DecDigits(BDiv(sats, B(100000000)))
      f == DecDigits(BMod(sats, B(100000000)))
      frac == StripZeros([k \in 1..(8 - Len(f)) |-> 48] \o f) IN
    IF frac = << >> THEN int ELSE int \o <<Ch(".")>> \o frac
UriSerialize(u) ==
  LET params == (IF u.amount.has THEN <<Utf8("amount=") \o AmountText(u.amount.v)>> ELSE << >>)
             \o (IF u.label.has THEN <<Utf8("label=") \o Escape(u.label.v)>> ELSE << >>)
             \o (IF u.message.has THEN <<Utf8("message=") \o Escape(u.message.v)>> ELSE << >>)
             \o [k \in 1..Len(u.others) |-> Escape(u.others[k][1]) \o <<Ch("=")>> \o Escape(u.others[k][2])]
      joined == FoldLeft(LAMBDA a, p : IF a = << >> THEN p ELSE a \o <<Ch("&")>> \o p, << >>, params) IN
    Utf8("bitcoin:") \o u.address \o (IF params = << >> THEN << >> ELSE <<Ch("?")>> \o joined)
=============================================================================
