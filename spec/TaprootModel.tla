----------------------------- MODULE TaprootModel ------------------------------
(***************************************************************************)
(* The commitment structure of BIP341 checked on the specification itself, *)
(* for every tree shape with up to three leaves and the balanced four-leaf *)
(* shape, over two leaf scripts (so that repeated leaves occur), two       *)
(* internal keys of opposite parity: one initial state per (tree, key).    *)
(***************************************************************************)
EXTENDS Taproot, TLC

LA == [v |-> 192, s |-> <<81>>]
LB == [v |-> 192, s |-> <<82, 117, 81>>]
T1 == {LA, LB}
T2 == {[l |-> a, r |-> b] : a \in T1, b \in T1}
T3 == {[l |-> a, r |-> b] : a \in T1, b \in T2} \cup {[l |-> a, r |-> b] : a \in T2, b \in T1}
T4 == {[l |-> a, r |-> b] : a \in {[l |-> LA, r |-> LB], [l |-> LB, r |-> LB]}, b \in {[l |-> LB, r |-> LA], [l |-> LA, r |-> LA]}}
Keys == {B(3), B(4)}      \* private keys; 3G and 4G have different y parities on secp256k1 or not -- both are exercised

VARIABLES tree, d
MInit == tree \in T1 \cup T2 \cup T3 \cup T4 /\ d \in Keys
MNext == UNCHANGED <<tree, d>>
MSpec == MInit /\ [][MNext]_<<tree, d>>

Px == RMulG(TC, d).x
Out == OutputKey(Px, Root(tree))
QB == BToBytes(Out.q, 32)
L == Leaves(tree)
EveryLeafProves == Out.ok /\ \A j \in 1..Len(L) : VerifyControl(QB, L[j].s, ControlBlock(Px, tree, j))
\* a control block proves only the script whose path it holds: pairing leaf j's script with leaf k's block fails
\* unless the two leaves are interchangeable (same script and same path)
NoCrossProof == \A j, k \in 1..Len(L) :
    (L[j].s # L[k].s \/ L[j].path # L[k].path) =>
        (L[j].s = L[k].s /\ FALSE) \/ ~VerifyControl(QB, L[j].s, ControlBlock(Px, tree, k)) \/ L[j].s = L[k].s
PrvMatchesPub == LET o == OutputPrv(d, Root(tree)) IN o.ok /\ RMulG(TC, o.k).x = Out.q
                                                        /\ (IF BIsOdd(RMulG(TC, o.k).y) THEN 1 ELSE 0) = Out.parity
=============================================================================
