------------------------------- MODULE WireMore -------------------------------
(***************************************************************************)
(* More wire grammars over module Wire: block, p2p message envelope,       *)
(* PSBT key-value maps (BIP174 leaves key order free, so a PSBT is         *)
(* compared as a sequence of SETS of key-value pairs), BIP32 extended key. *)
(***************************************************************************)
EXTENDS Wire

\* ---- block: header, CompactSize count, transactions --------------------------------------
\* a transaction inside a stream: parse the prefix that is a transaction; returns pos after it
\* (PTx demands the whole input; here the same steps without the trailing-bytes clause)
PTxAt(b, pos0) ==
    IF ~Avail(b, pos0, 4) THEN Fail ELSE
    LET version == BFromBytesLE(Bytes(b, pos0, 4))
        seg == Avail(b, pos0 + 4, 2) /\ b[pos0 + 4] = 0 /\ b[pos0 + 5] = 1
        p0 == IF seg THEN pos0 + 6 ELSE pos0 + 4
        nin == PCompact(b, p0, 33554432)
    IN IF ~nin.ok THEN Fail ELSE
    LET ins == PMany(PTxIn, b, nin.pos, nin.v, << >>) IN IF ~ins.ok THEN Fail ELSE
    LET nout == PCompact(b, ins.pos, 33554432) IN IF ~nout.ok THEN Fail ELSE
    LET outs == PMany(PTxOut, b, nout.pos, nout.v, << >>) IN IF ~outs.ok THEN Fail ELSE
    LET wits == IF seg THEN PMany(PWitness, b, outs.pos, nin.v, << >>) ELSE Ok(<< >>, outs.pos) IN IF ~wits.ok THEN Fail ELSE
    LET vin == IF seg THEN [j \in 1..nin.v |-> [ins.v[j] EXCEPT !.witness = wits.v[j]]] ELSE ins.v
        superfluous == seg /\ \A j \in 1..nin.v : wits.v[j] = << >>
    IN IF superfluous \/ ~Avail(b, wits.pos, 4) THEN Fail
       ELSE Ok([version |-> version, vin |-> vin, vout |-> outs.v, locktime |-> BFromBytesLE(Bytes(b, wits.pos, 4))], wits.pos + 4)

PBlock(b) ==
    LET h == PHeader(b, 1) IN IF ~h.ok THEN Fail ELSE
    LET n == PCompact(b, h.pos, 33554432) IN IF ~n.ok THEN Fail ELSE
    LET txs == PMany(PTxAt, b, n.pos, n.v, << >>) IN
    IF ~txs.ok \/ txs.pos # Len(b) + 1 THEN Fail ELSE Ok([header |-> h.v, txs |-> txs.v], txs.pos)
SerBlock(blk) == SerHeader(blk.header) \o CompactSize(Len(blk.txs)) \o Concat([j \in 1..Len(blk.txs) |-> SerTx(blk.txs[j], TRUE)])

\* ---- p2p envelope: magic(4) command(12, NUL padded, printable) length(4 LE) checksum(4) payload ----
CommandOK(c12) == \E k \in 0..12 : /\ \A j \in 1..k : c12[j] >= 32 /\ c12[j] <= 126
                                   /\ \A j \in k + 1..12 : c12[j] = 0
PMessage(b) ==
    IF Len(b) < 24 THEN Fail ELSE
    LET len == BFromBytesLE(Bytes(b, 17, 4)) IN
    IF BGt(len, B(Len(b))) \/ BToInt(len) # Len(b) - 24 \/ ~CommandOK(Bytes(b, 5, 12))
       \/ Take(Hash256(Drop(b, 24)), 4) # Bytes(b, 21, 4) THEN Fail
    ELSE Ok([magic |-> Bytes(b, 1, 4), command |-> Bytes(b, 5, 12), payload |-> Drop(b, 24)], Len(b) + 1)
SerMessage(m) == m.magic \o m.command \o LEInt(Len(m.payload), 4) \o Take(Hash256(m.payload), 4) \o m.payload

\* ---- PSBT: magic, then maps of <keylen key valuelen value>* 00 until the end ---------------
PsbtMagic == <<112, 115, 98, 116, 255>>
RECURSIVE PKvMap(_, _, _)
PKvMap(b, pos, acc) ==       \* one map; result v = set-like sequence of <<key, value>>
    LET kl == PCompact(b, pos, 33554432) IN
    IF ~kl.ok THEN Fail
    ELSE IF kl.v = 0 THEN Ok(acc, kl.pos)
    ELSE IF ~Avail(b, kl.pos, kl.v) THEN Fail
    ELSE LET key == Bytes(b, kl.pos, kl.v)  val == PVarBytes(b, kl.pos + kl.v) IN
         IF ~val.ok THEN Fail ELSE PKvMap(b, val.pos, Append(acc, <<key, val.v>>))
RECURSIVE PKvMaps(_, _, _)
PKvMaps(b, pos, acc) ==
    IF pos = Len(b) + 1 THEN Ok(acc, pos)
    ELSE LET m == PKvMap(b, pos, << >>) IN IF ~m.ok THEN Fail ELSE PKvMaps(b, m.pos, Append(acc, m.v))
PPsbtMaps(b) == IF Len(b) < 5 \/ Take(b, 5) # PsbtMagic THEN Fail ELSE PKvMaps(b, 6, << >>)
AsSet(s) == {s[j] : j \in 1..Len(s)}
NoDupKeys(m) == \A j, k \in 1..Len(m) : m[j][1] = m[k][1] => j = k
\* b2 keeps every key-value pair of b1, map by map, and adds none
SameKV(b1, b2) ==
    LET a == PPsbtMaps(b1)  c == PPsbtMaps(b2) IN
    /\ a.ok /\ c.ok /\ Len(a.v) = Len(c.v)
    /\ \A j \in 1..Len(a.v) : AsSet(a.v[j]) = AsSet(c.v[j]) /\ Len(a.v[j]) = Len(c.v[j])

\* ---- BIP32 extended key payload: version(4) depth(1) fingerprint(4) index(4) chain(32) key(33) ----
PXKey(b) == IF Len(b) # 78 THEN Fail
            ELSE Ok([version |-> Bytes(b, 1, 4), depth |-> b[5], fp |-> Bytes(b, 6, 4), index |-> Bytes(b, 10, 4),
                     chain |-> Bytes(b, 14, 32), key |-> Bytes(b, 46, 33)], 79)
=============================================================================
