-------------------------------- MODULE Totality -------------------------------
(***************************************************************************)
(* C19: handed arbitrary bytes, text or JSON, every parser either returns  *)
(* an object or raises one of the library's own exceptions, and reads no   *)
(* more than it needs from a caller's stream; every boolean verifier       *)
(* answers TRUE or FALSE.  The outcome alphabet of a call:                 *)
(*    parser     "returned" | "refused"                                    *)
(*    predicate  "true" | "false"                                          *)
(*    consumer   "returned" | "refused"   (an accepted object handed on)   *)
(*    variant    "returned" | "refused"   (a valid call, its octets given   *)
(*               in another spelling: and the answer is the same)          *)
(* "leaked:<class>" (a foreign exception) and "timeout" are not in it.     *)
(* For a parse off a caller's stream the event carries how far the stream  *)
(* was read and the length of what the object serializes to.               *)
(***************************************************************************)
EXTENDS Integers, Sequences

Allowed(kind) == CASE kind = "parser"    -> {"returned", "refused"}
                   [] kind = "variant"   -> {"returned", "refused"}
                   [] kind = "predicate" -> {"true", "false"}
                   [] kind = "consumer"  -> {"returned", "refused"}
OutcomeOK(e) == e.outcome \in Allowed(e.kind)
\* a parse off a stream leaves it on the byte after the object
\* the same octets spelled as bytes, a bytearray or a memoryview (the library's Octets) are one argument: the call gives one answer
SpellingOK(e) == ("same" \in DOMAIN e) => e.same
StreamOK(e) == ("consumed" \in DOMAIN e /\ e.outcome = "returned") => e.consumed = e.needed
=============================================================================
