------------------------------ MODULE C09Trace -------------------------------
(***************************************************************************)
(* Code -> specification for C09: digests recorded from                    *)
(* btclib.script.sig_hash (legacy / segwit_v0 / taproot / from_tx, with    *)
(* and without PrecomputedTxData), from psbt.ecdsa_sig_hash /              *)
(* taproot_sig_hash and from PsbtView are recomputed from the preimages.   *)
(*   {op, tx, idx, code, ht, amount?, prevouts?, extflag?, annex?, ext?,   *)
(*    out: digest hex | "refused"}                                         *)
(***************************************************************************)
EXTENDS SigHash, EvBase

PrevoutsOf(e) == [k \in 1..Len(e.prevouts) |-> TxOutOf(e.prevouts[k])]
Expected(e) ==
    LET tx == TxOf(e.tx)  idx == e.idx + 1 IN
    CASE e.op = "legacy" -> ToHex(Legacy(tx, idx, FromHex(e.code), WN(e.ht)))
      [] e.op = "segwit_v0" -> ToHex(BIP143(tx, idx, FromHex(e.code), WN(e.amount), WN(e.ht)))
      [] e.op = "taproot" ->
            IF TapRefused(tx, idx, e.ht) THEN "refused"
            ELSE ToHex(BIP341(tx, idx, PrevoutsOf(e), e.ht, e.extflag, FromHex(e.annex), FromHex(e.ext)))
      [] e.op = "from_tx" ->
            LET d == FromTx(tx, idx, PrevoutsOf(e), WN(e.ht), e.codesep) IN IF d = <<"refused">> THEN "refused" ELSE ToHex(d)
      [] e.op = "ser" -> ToHex(SerTx(tx, FALSE))
      [] e.op = "tapleaf" -> ToHex(TapExt(TapLeafHash(e.version, FromHex(e.script)), <<255, 255, 255, 255>>))

EventOK == i > 0 => Expected(Trace[i]) = Trace[i].out
Diag == i > 0 => PrintT(<<"DIAG", i, Expected(Trace[i])>>)
=============================================================================
