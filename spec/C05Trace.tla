------------------------------ MODULE C05Trace -------------------------------
(***************************************************************************)
(* Code -> specification for C05.  Events:                                 *)
(*  {op:"parse", cls, b, strict, accepted, reser, meta}                    *)
(*      cls with a transcribed grammar: with strict = FALSE the code       *)
(*      accepts exactly what the grammar accepts; an accepted string       *)
(*      re-serializes to itself and the reported numbers are the bytes'.   *)
(*      With strict = TRUE (check_validity) the code may refuse more       *)
(*      (semantic validity) but never accepts what the grammar refuses.    *)
(*  {op:"rt", cls, b, accepted, reser}   any class: canonical round trip   *)
(*  {op:"obj", cls, b, same, reser}      parse(serialize(x)) == x          *)
(*  {op:"json", cls, a, b}               from_dict(json(to_dict(x)))       *)
(*  {op:"big", cls, what, n, built, parsed, same}  count boundaries        *)
(*  {op:"psbt", b, accepted, reser, reser2}  fixed point keeping every kv  *)
(***************************************************************************)
EXTENDS WireMore, EvBase

\* [ok, ser, used]: does the grammar accept, what does the parsed value serialize to, how many bytes were read.
\* var_int and var_bytes are the library's stream primitives: they read a prefix also off octets (a caller
\* reads the height push off a coinbase script with them), so for them trailing bytes are left alone.
\* Every other class is one whole object: octets with anything after the object are refused.
Whole(r, b, ser) == [ok |-> r.ok /\ r.pos = Len(b) + 1, ser |-> IF r.ok THEN ser ELSE << >>, used |-> Len(b)]
Grammar(cls, b) ==
    CASE cls = "var_int"   -> LET r == PCompactBig(b, 1, BSub(BPow2(64), BOne)) IN [ok |-> r.ok, ser |-> IF r.ok THEN CompactSizeBig(r.v) ELSE << >>, used |-> r.pos - 1]
      [] cls = "var_bytes" -> LET r == PVarBytes(b, 1) IN [ok |-> r.ok, ser |-> IF r.ok THEN VarBytes(r.v) ELSE << >>, used |-> r.pos - 1]
      [] cls = "OutPoint"  -> LET r == POutPoint(b, 1) IN Whole(r, b, IF r.ok THEN SerOutPoint(r.v) ELSE << >>)
      [] cls = "TxIn"      -> LET r == PTxIn(b, 1) IN Whole(r, b, IF r.ok THEN SerTxIn(r.v) ELSE << >>)
      [] cls = "TxOut"     -> LET r == PTxOut(b, 1) IN Whole(r, b, IF r.ok THEN SerTxOut(r.v) ELSE << >>)
      [] cls = "Witness"   -> LET r == PWitness(b, 1) IN Whole(r, b, IF r.ok THEN SerWitness(r.v) ELSE << >>)
      [] cls = "Tx"        -> LET r == PTx(b) IN Whole(r, b, IF r.ok THEN SerTx(r.v, TRUE) ELSE << >>)
      [] cls = "BlockHeader" -> LET r == PHeader(b, 1) IN Whole(r, b, IF r.ok THEN SerHeader(r.v) ELSE << >>)
      [] cls = "Block"     -> LET r == PBlock(b) IN Whole(r, b, IF r.ok THEN SerBlock(r.v) ELSE << >>)
      [] cls = "Message"   -> LET r == PMessage(b) IN Whole(r, b, IF r.ok THEN SerMessage(r.v) ELSE << >>)

TxMetaOK(b, m) ==
    LET tx == PTx(b).v IN
    /\ m.size = Size(tx) /\ m.weight = Weight(tx) /\ m.vsize = VSize(tx)
    /\ m.id = ToHex(Txid(tx)) /\ m.wid = ToHex(Wtxid(tx)) /\ m.size = Len(b)

Verdict(e) ==
    CASE e.op = "parse" ->
            LET b == FromHex(e.b)  g == Grammar(e.cls, b) IN
            [accept |-> IF e.strict THEN (e.accepted => g.ok) ELSE e.accepted = g.ok,
             canon  |-> e.accepted => (FromHex(e.reser) = g.ser /\ g.ser = Take(b, g.used)),
             \* (measures are those of the grammar's object: where the grammar has none, the accept clause has already failed)
             meta   |-> (e.accepted /\ e.cls = "Tx" /\ g.ok) => TxMetaOK(b, e.meta),
             grammar |-> g.ok]
      [] e.op = "rt"   -> [canon |-> e.accepted => e.reser = e.b]
      [] e.op = "obj"  -> [same |-> e.same, canon |-> e.reser = e.b]
      [] e.op = "json" -> [same |-> e.a = e.b]
      \* an object at a count boundary (too large to carry as bytes): what was built and written parses back to an equal object
      [] e.op = "big"  -> [parses |-> e.built => e.parsed, same |-> e.built => e.same]
      [] e.op = "psbt" -> [keeps |-> e.accepted => SameKV(FromHex(e.b), FromHex(e.reser)),
                           fixed |-> e.accepted => e.reser2 = e.reser]

AllTrue(r) == \A k \in DOMAIN r : k = "grammar" \/ r[k]
EventOK == i > 0 => AllTrue(Verdict(Trace[i]))
Diag == i > 0 => PrintT(<<"DIAG", i, Verdict(Trace[i])>>)
=============================================================================
