------------------------------- MODULE BIP340 --------------------------------
(***************************************************************************)
(* BIP340 Schnorr signatures, transcribed from the BIP's "Default          *)
(* Signing", "Verification" and "Batch Verification" sections, over a      *)
(* curve record of ECReal (secp256k1 for the byte-exact claims; the same   *)
(* equations, with field elements written on plen bytes, for the other     *)
(* curves btclib offers the scheme on).                                    *)
(***************************************************************************)
EXTENDS ECReal, RFC6979

XBytes(c, x) == BToBytes(x, PLen(c))
HasEvenY(P) == ~P.inf /\ BIsEven(P.y)
\* lift_x: the point with abscissa x and even y, or Inf when x is not an abscissa (or >= p)
SqrtP(c, v) == \* any square root of v modulo p, or "none": p = 3 mod 4 uses the exponent (p+1)/4, otherwise search is not needed here
    LET r == BPowMod(v, BShr(BAdd(c.p, BOne), 2), c.p) IN IF BMulMod(r, r, c.p) = v THEN r ELSE BZero
LiftX(c, x) ==
    IF BGe(x, c.p) THEN ECR!Inf
    ELSE LET y2 == ECR!Rhs(c, x)  y == SqrtP(c, y2)
         IN IF BIsZero(y) THEN ECR!Inf            \* no root (or y = 0: not a point of a prime-order group)
            ELSE ECR!Pt(x, IF BIsEven(y) THEN y ELSE BSub(c.p, y))
P3Mod4(c) == BMod(c.p, B(4)) = B(3)

HashInt(hf, tag, m, n) == BFromBytes(LET t == H(hf, Utf8(tag)) IN H(hf, t \o t \o m))
ChallengeE(c, hf, xR, xP, m) == BMod(Bits2Int(LET t == H(hf, Utf8("BIP0340/challenge"))
                                                IN H(hf, t \o t \o XBytes(c, xR) \o XBytes(c, xP) \o m), c.n), c.n)

NSize32(c) == (BBitLen(c.n) + 7) \div 8

\* BIP340 takes int(rand) mod n.  On secp256k1 that differs from the candidate itself only when the hash
\* lands in [n, 2^256), probability 2^-128.  For the other curves -- where the BIP defines nothing and a
\* reduction would be biased -- btclib's documented generalisation is rejection sampling: the leftmost nlen
\* bits of the hash are the candidate, and an out-of-range candidate is hashed again (named deviation).
RECURSIVE NonceFrom(_, _, _)
NonceFrom(hf, rand, n) ==
    LET k == Bits2Int(rand, n) IN
    IF ~BIsZero(k) /\ BLt(k, n) THEN k
    ELSE NonceFrom(hf, LET t == H(hf, Utf8("BIP0340/nonce")) IN H(hf, t \o t \o rand), n)

\* Default Signing with auxiliary data a (hf.size bytes); secp256k1: byte for byte the BIP
Sign(c, hf, sk, m, a) ==
    LET P   == RMulG(c, sk)
        d   == IF HasEvenY(P) THEN sk ELSE BSub(c.n, sk)
        w   == IF hf.size > NSize32(c) THEN hf.size ELSE NSize32(c)
        taux == LET t == H(hf, Utf8("BIP0340/aux")) IN H(hf, t \o t \o a)
        tb  == BToBytes(BXor(d, BFromBytes(taux)), w)
        rand == LET t == H(hf, Utf8("BIP0340/nonce")) IN H(hf, t \o t \o tb \o XBytes(c, P.x) \o m)
        k0  == NonceFrom(hf, rand, c.n)
        R   == RMulG(c, k0)
        k   == IF HasEvenY(R) THEN k0 ELSE BSub(c.n, k0)
        e   == ChallengeE(c, hf, R.x, P.x, m)
    IN [ok |-> ~BIsZero(sk) /\ BLt(sk, c.n) /\ ~BIsZero(k0),
        r |-> R.x, s |-> BAddMod(k, BMulMod(e, d, c.n), c.n), e |-> e, k0 |-> k0]

\* Sign-to-contract (btclib's own scheme and tags; ssa.py / commit_nonce.py state it): the committed value is hashed into the auxiliary data, the nonce
\* BIP340 derives from that -- normalised to its even-y point R, the receipt -- is moved by the tweak T = hash(R || value), taken as the nonce derivation
\* takes a candidate: the leftmost nlen bits, hashed again while out of 1..n-1; the signature is BIP340's over the moved nonce
S2CHash(hf, tag, m) == LET t == H(hf, Utf8(tag)) IN H(hf, t \o t \o m)
RECURSIVE S2CTweakFrom(_, _, _)
S2CTweakFrom(hf, t, n) == LET v == Bits2Int(t, n) IN IF ~BIsZero(v) /\ BLt(v, n) THEN v ELSE S2CTweakFrom(hf, S2CHash(hf, "s2c/bip340/point", t), n)
S2CTweak(c, hf, R, value) == S2CTweakFrom(hf, S2CHash(hf, "s2c/bip340/point", SecCompressed(c, R) \o value), c.n)
S2CSign(c, hf, sk, m, a, value) ==
    LET base == Sign(c, hf, sk, m, S2CHash(hf, "s2c/bip340/data", a \o value))
        P    == RMulG(c, sk)
        d    == IF HasEvenY(P) THEN sk ELSE BSub(c.n, sk)
        R0   == RMulG(c, base.k0)
        kn   == IF HasEvenY(R0) THEN base.k0 ELSE BSub(c.n, base.k0)
        R    == RMulG(c, kn)                          \* the receipt
        k1   == BAddMod(kn, S2CTweak(c, hf, R, value), c.n)
        W    == RMulG(c, k1)
        k    == IF HasEvenY(W) THEN k1 ELSE BSub(c.n, k1)
        e    == ChallengeE(c, hf, W.x, P.x, m)
    IN [ok |-> base.ok /\ ~BIsZero(k1), r |-> W.x, s |-> BAddMod(k, BMulMod(e, d, c.n), c.n), receipt |-> R]
\* the opening: W = R + T G has the signature's r as its abscissa
S2COpens(c, hf, r, R, value) == LET W == ECR!Add(c, R, RMulG(c, S2CTweak(c, hf, R, value))) IN ~W.inf /\ W.x = r

\* Verification of (r, s) for the x-only key x and message m
Verify(c, hf, x, m, r, s) ==
    LET P == LiftX(c, x) IN
    /\ ~P.inf /\ BLt(r, c.p) /\ BLt(s, c.n)
    /\ LET e == ChallengeE(c, hf, r, x, m)
           R == ECR!Add(c, RMulG(c, s), RMul(c, BSub(c.n, e), P))
       IN ~R.inf /\ HasEvenY(R) /\ R.x = r

SigBytes(c, sg) == XBytes(c, sg.r) \o BToBytes(sg.s, NSize32(c))
=============================================================================
