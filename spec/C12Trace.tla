------------------------------ MODULE C12Trace -------------------------------
(***************************************************************************)
(* Code -> specification for C12.  tree is a JSON tree of {v, s} leaves    *)
(* and {l, r} branches ("" for no tree).                                   *)
(*  {op:"output_pubkey", px, tree, out:{q, parity} | "refused"}            *)
(*  {op:"output_prvkey", d, tree, out: k | "refused"}                      *)
(*  {op:"control", px, tree, j, out: control block}                        *)
(*  {op:"check", q, script, control, out: TRUE iff it verifies}            *)
(***************************************************************************)
EXTENDS Taproot, EvBase

RECURSIVE TreeOf(_)
TreeOf(j) == IF "s" \in DOMAIN j THEN [v |-> j.v, s |-> FromHex(j.s)] ELSE [l |-> TreeOf(j.l), r |-> TreeOf(j.r)]
RootOf(e) == IF "none" \in DOMAIN e.tree THEN << >> ELSE Root(TreeOf(e.tree))

Expected(e) ==
    CASE e.op = "output_pubkey" ->
            LET o == OutputKey(N(e.px), RootOf(e)) IN IF o.ok THEN [q |-> ToHex(BToBytes(o.q, 32)), parity |-> o.parity] ELSE [refused |-> TRUE]
      [] e.op = "output_prvkey" ->
            LET o == OutputPrv(N(e.d), RootOf(e)) IN IF o.ok THEN [k |-> ToHex(BToBytes(o.k, 32))] ELSE [refused |-> TRUE]
      [] e.op = "control" -> [c |-> ToHex(ControlBlock(N(e.px), TreeOf(e.tree), e.j + 1)), s |-> ToHex(Leaves(TreeOf(e.tree))[e.j + 1].s)]
      [] e.op = "check" -> [ok |-> VerifyControl(FromHex(e.q), FromHex(e.script), FromHex(e.control))]

EventOK == i > 0 => Expected(Trace[i]) = Trace[i].out
Diag == i > 0 => PrintT(<<"DIAG", i, Expected(Trace[i])>>)
=============================================================================
