------------------------------ MODULE C03Trace -------------------------------
(***************************************************************************)
(* Code -> specification for C03: events from btclib.ecc.ssa recomputed.   *)
(*  {op:"sign",   c, hf, sk, m, aux, out}      64-byte signature           *)
(*  {op:"verify", c, hf, x, m, r, s, out}      BIP340 verification verdict *)
(*  {op:"s2c", c, hf, sk, m, aux, value, out, receipt}  a signature that    *)
(*        commits to a value, and the receipt that opens it                 *)
(*  {op:"batch",  c, hf, items:[{x,m,r,s}], out}                           *)
(*        Batch verification answers TRUE exactly when every member        *)
(*        verifies (at real size a lucky coefficient has probability       *)
(*        2^-128, so the relation is written as an equality)               *)
(***************************************************************************)
EXTENDS BIP340, EvBase

Expected(e) ==
    LET c == CurveOf(e.c)  hf == HF(e.hf) IN
    CASE e.op = "sign" ->
            LET sg == Sign(c, hf, N(e.sk), FromHex(e.m), FromHex(e.aux))
            IN [ok |-> sg.ok /\ ToHex(SigBytes(c, sg)) = e.out, want |-> ToHex(SigBytes(c, sg))]
      [] e.op = "s2c" ->
            LET sg == S2CSign(c, hf, N(e.sk), FromHex(e.m), FromHex(e.aux), FromHex(e.value))
            IN [ok |-> sg.ok /\ ToHex(SigBytes(c, sg)) = e.out /\ sg.receipt = PtOf(e.receipt) /\ S2COpens(c, hf, sg.r, sg.receipt, FromHex(e.value)),
                want |-> <<ToHex(SigBytes(c, sg)), sg.receipt>>]
      [] e.op = "verify" ->
            LET v == Verify(c, hf, N(e.x), FromHex(e.m), N(e.r), N(e.s)) IN [ok |-> v = e.out, want |-> v]
      [] e.op = "batch" ->
            LET v == \A j \in 1..Len(e.items) :
                        Verify(c, hf, N(e.items[j].x), FromHex(e.items[j].m), N(e.items[j].r), N(e.items[j].s))
            IN [ok |-> v = e.out, want |-> v]

EventOK == i > 0 => Expected(Trace[i]).ok
Diag == i > 0 => PrintT(<<"DIAG", i, Expected(Trace[i])>>)
=============================================================================
