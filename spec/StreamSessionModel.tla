------------------------ MODULE StreamSessionModel --------------------------
(* The reader loop of module StreamSession as a state machine, checked for: every object delivered exactly once, in
   order (FIFO), the position always on an object boundary, and progress needing no more than `missing` octets. *)
EXTENDS StreamSession, TLC
CONSTANTS Objs, MaxChunk
VARIABLES avail, pos, delivered, want
ObjsConst == << <<4, 0>>, <<4, 3>>, <<0, 5>>, <<4, 9>> >>
vars == <<avail, pos, delivered, want>>

Init == avail = 0 /\ pos = 0 /\ delivered = 0 /\ want = 0
Arrive(n) == /\ avail < Total(Objs) /\ n \in 1..MaxChunk /\ avail + n <= Total(Objs)
             /\ avail' = avail + n /\ UNCHANGED <<pos, delivered, want>>
Parse == /\ delivered < Len(Objs)
         /\ LET a == Answer(Objs, delivered + 1, pos, avail) IN
              IF a[1] = "object" THEN pos' = a[2] /\ delivered' = delivered + 1 /\ want' = 0 /\ UNCHANGED avail
              ELSE want' = avail + a[2] /\ UNCHANGED <<avail, pos, delivered>>
Next == Parse \/ \E n \in 1..MaxChunk : Arrive(n)
Spec == Init /\ [][Next]_vars /\ WF_vars(Next)

OnBoundary == pos = StartOf(Objs, delivered + 1)
NeverAhead == pos <= avail
\* `missing` is exact: with that many more octets the very next phase completes, with one fewer it does not
MissingExact == want > 0 => /\ want <= Total(Objs)
                            /\ Answer(Objs, delivered + 1, pos, want - 1)[1] = "incomplete"
                            /\ \/ Answer(Objs, delivered + 1, pos, want)[1] = "object"
                               \/ Answer(Objs, delivered + 1, pos, want)[2] = Objs[delivered + 1][2]
AllDelivered == <>(delivered = Len(Objs))
=============================================================================
