------------------------------ MODULE FaultEncoder -----------------------------
(***************************************************************************)
(* The generative half of C19: a transaction is ENCODED field by field and *)
(* at every field the encoder may inject one fault -- a count or length    *)
(* field set to a boundary value (0, one more, one less, 0xfc, the same    *)
(* value written on 3 or 5 bytes, 0xffff.., 2^32-1), a marker/flag edit,   *)
(* a truncation here, extra bytes, a duplicated field.  At most MaxFaults  *)
(* faults per encoding.  TLC's reachable final states are the corpus; the  *)
(* specification's own parser (Wire!PTx) labels each output must-accept /  *)
(* must-refuse, so the corpus is also a check of C05's grammar on hostile  *)
(* inputs.                                                                 *)
(***************************************************************************)
EXTENDS Wire, TLC

CONSTANTS MaxFaults, Witnessed       \* Witnessed: does the base transaction carry a witness

In0 == [txid |-> Rep(17, 32), vout |-> B(1), script |-> <<81, 82>>, sequence |-> <<255, 255, 255, 254>>,
        witness |-> IF Witnessed THEN <<<<1, 2, 3>>, << >>>> ELSE << >>]
Out0 == [value |-> B(5000), spk |-> <<0, 2, 170, 187>>]
Tx0 == [version |-> B(2), vin |-> <<In0>>, vout |-> <<Out0, Out0>>, locktime |-> B(7)]

\* the honest fields, in order
Fields ==
    <<[name |-> "version", bytes |-> LE(Tx0.version, 4), kind |-> "fixed"]>>
    \o (IF Witnessed THEN <<[name |-> "marker", bytes |-> <<0, 1>>, kind |-> "marker"]>> ELSE << >>)
    \o <<[name |-> "nin", bytes |-> <<1>>, kind |-> "count"],
         [name |-> "outpoint", bytes |-> SerOutPoint(In0), kind |-> "fixed"],
         [name |-> "scriptlen", bytes |-> <<2>>, kind |-> "count"],
         [name |-> "script", bytes |-> In0.script, kind |-> "fixed"],
         [name |-> "sequence", bytes |-> LE(In0.sequence, 4), kind |-> "fixed"],
         [name |-> "nout", bytes |-> <<2>>, kind |-> "count"],
         [name |-> "out1", bytes |-> SerTxOut(Out0), kind |-> "fixed"],
         [name |-> "out2value", bytes |-> LE(Out0.value, 8), kind |-> "fixed"],
         [name |-> "out2len", bytes |-> <<4>>, kind |-> "count"],
         [name |-> "out2spk", bytes |-> Out0.spk, kind |-> "fixed"]>>
    \o (IF Witnessed THEN <<[name |-> "nwit", bytes |-> <<2>>, kind |-> "count"],
                            [name |-> "wit1len", bytes |-> <<3>>, kind |-> "count"],
                            [name |-> "wit1", bytes |-> <<1, 2, 3>>, kind |-> "fixed"],
                            [name |-> "wit2len", bytes |-> <<0>>, kind |-> "count"]>> ELSE << >>)
    \o <<[name |-> "locktime", bytes |-> LE(Tx0.locktime, 4), kind |-> "fixed"]>>

\* what a fault may write instead of field f
Faulty(f) ==
    IF f.kind = "count" THEN
        LET v == f.bytes[1] IN
        (({<<0>>, <<v + 1>>, <<252>>, <<253, v, 0>>, <<254, v, 0, 0, 0>>, <<255, v, 0, 0, 0, 0, 0, 0, 0>>, <<253, 255, 255>>,
           <<254, 255, 255, 255, 255>>, <<255, 255, 255, 255, 255, 255, 255, 255, 255>>, <<253>>} \ {f.bytes})
         \cup (IF v > 0 THEN {<<v - 1>>} ELSE {}))
    ELSE IF f.kind = "marker" THEN {<<0, 0>>, <<0, 2>>, <<1, 1>>, <<0>>, << >>, <<0, 1, 0, 1>>}
    ELSE {SubSeq(f.bytes, 1, Len(f.bytes) - 1), f.bytes \o <<0>>, f.bytes \o f.bytes, << >>}

VARIABLES out, k, faults, stopped
evars == <<out, k, faults, stopped>>
EInit == out = << >> /\ k = 1 /\ faults = 0 /\ stopped = FALSE
EmitField == /\ ~stopped /\ k <= Len(Fields)
             /\ out' = out \o Fields[k].bytes /\ k' = k + 1 /\ UNCHANGED <<faults, stopped>>
EmitFault == /\ ~stopped /\ k <= Len(Fields) /\ faults < MaxFaults
             /\ \E b \in Faulty(Fields[k]) : out' = out \o b
             /\ k' = k + 1 /\ faults' = faults + 1 /\ UNCHANGED stopped
Truncate  == /\ ~stopped /\ k <= Len(Fields) /\ faults < MaxFaults /\ k > 1
             /\ stopped' = TRUE /\ faults' = faults + 1 /\ UNCHANGED <<out, k>>
ENext == EmitField \/ EmitFault \/ Truncate
ESpec == EInit /\ [][ENext]_evars

Done == stopped \/ k > Len(Fields)
\* the grammar's verdict on every finished encoding: the honest one is accepted and round-trips
HonestAccepted == (Done /\ faults = 0) => PTx(out).ok /\ SerTx(PTx(out).v, TRUE) = out
Canonical == (Done /\ PTx(out).ok) => SerTx(PTx(out).v, TRUE) = out
Emit == Done => PrintT(<<"ENC", out, PTx(out).ok, faults>>)
=============================================================================
