---------------------------- MODULE WalletTrace -----------------------------
(***************************************************************************)
(* Code -> specification: histories of calls on real wallets (key wallet,  *)
(* script wallet, descriptor wallet) against WalletCalls.  Lines:         *)
(*   {ev:"open", branches:[..]}                       a fresh wallet       *)
(*   {ev:"address", b, i, pos:[b,i]}                  address(b, i); pos = *)
(*        the position address_info reports for what was returned          *)
(*   {ev:"next", b, pos:[b,i]}                        next_address(b)      *)
(*   {ev:"observe", count, order:[[b,i]..]}           len(), addresses     *)
(*   {ev:"contains", b, i, out}                       address(b,i) in w,   *)
(*        asked with an address computed by a second wallet of the source  *)
(*   {ev:"position_of", b, i, bound, out:[b,i] | []}  position_of of the   *)
(*        script at (b, i)                                                 *)
(* A line the specification cannot explain is collected in `rejected`; the *)
(* state follows the specification, so the rest of the history is checked. *)
(***************************************************************************)
EXTENDS Naturals, Sequences, FiniteSets, Json, IOUtils, TLC
Trace == ndJsonDeserialize(IOEnv.TRACE_FILE)
VARIABLES l, handed, next, branches, rejected
tvars == <<l, handed, next, branches, rejected>>

Range(s) == {s[k] : k \in 1..Len(s)}
Max(a, b) == IF a >= b THEN a ELSE b
Cursor(b) == IF b \in DOMAIN next THEN next[b] ELSE 0
HandOut(b, i) ==
    /\ handed' = IF <<b, i>> \in Range(handed) THEN handed ELSE Append(handed, <<b, i>>)
    /\ next' = [x \in DOMAIN next \cup {b} |-> IF x = b THEN Max(Cursor(b), i + 1) ELSE next[x]]

TInit == l = 1 /\ handed = << >> /\ next = << >> /\ branches = {} /\ rejected = {}
IsEv(e) == l <= Len(Trace) /\ Trace[l].ev = e /\ l' = l + 1
Note(ok) == rejected' = IF ok THEN rejected ELSE rejected \cup {l}

TOpen == IsEv("open") /\ handed' = << >> /\ next' = << >> /\ branches' = Range(Trace[l].branches) /\ UNCHANGED rejected
TAddress == /\ IsEv("address")
            /\ LET e == Trace[l] IN HandOut(e.b, e.i) /\ Note(e.pos = <<e.b, e.i>>)
            /\ UNCHANGED branches
TNextAddr == /\ IsEv("next")
             /\ LET e == Trace[l] IN HandOut(e.b, Cursor(e.b)) /\ Note(e.pos = <<e.b, Cursor(e.b)>> /\ <<e.b, Cursor(e.b)>> \notin Range(handed))
             /\ UNCHANGED branches
TObserve == /\ IsEv("observe")
            /\ LET e == Trace[l] IN Note(e.count = Len(handed) /\ e.order = handed)
            /\ UNCHANGED <<handed, next, branches>>
TContains == /\ IsEv("contains")
             /\ LET e == Trace[l] IN Note(e.out = (<<e.b, e.i>> \in Range(handed)))
             /\ UNCHANGED <<handed, next, branches>>
TPositionOf == /\ IsEv("position_of")
               /\ LET e == Trace[l] IN Note(e.out = (IF e.i <= e.bound /\ e.b \in branches THEN <<e.b, e.i>> ELSE << >>))
               /\ UNCHANGED <<handed, next, branches>>
TDone == l > Len(Trace) /\ UNCHANGED tvars
TNext == TOpen \/ TAddress \/ TNextAddr \/ TObserve \/ TContains \/ TPositionOf \/ TDone
TSpec == TInit /\ [][TNext]_tvars
Consumed == l <= Len(Trace) + 1
Report == l = Len(Trace) + 1 => PrintT(<<"REJECTED", rejected>>)
=============================================================================
