------------------------------ MODULE C07Trace -------------------------------
(***************************************************************************)
(* Code -> specification for C07: every extended key btclib derives is     *)
(* recomputed field by field from the BIP's equations.                     *)
(*  {op:"master", seed, version, out}                                      *)
(*  {op:"derive", xkey (78 bytes), path [index hex...], out (78 bytes) | "refused"} *)
(*  {op:"neuter", xkey, pubversion, out}   {op:"fingerprint", xkey, out}   *)
(***************************************************************************)
EXTENDS BIP32, EvBase
H31 == BPow2(31)
Hd(k) == BAdd(B(k), H31)
RECURSIVE TweaksOf(_, _, _)
TweaksOf(node, path, j) ==
  IF j > Len(path) THEN <<"ok", << >>>>
  ELSE IF Hardened(path[j]) THEN <<"refused">>
  ELSE LET I == HMAC(HF("sha512"), node.chain, SerP(PubPoint(node)) \o Ser32(path[j]))
           c == CKDpubWith(node, path[j], I) IN
       IF ~c.ok THEN <<"refused">>
       ELSE LET rest == TweaksOf(c, path, j + 1) IN IF rest[1] = "refused" THEN rest ELSE <<"ok", <<Take(I, 32)>> \o rest[2]>>
PrvVersions == {FromHex("0488ade4"), FromHex("049d7878"), FromHex("0295b005"), FromHex("04b2430c"), FromHex("02aa7a99"),
                FromHex("04358394"), FromHex("044a4e28"), FromHex("024285b5"), FromHex("045f18bc"), FromHex("02575048")}
\* BIP85: m/83696968'/app'/..., and for BIP39 sentences (app 39') the language numbers of the BIP's table
Bip85Lang(l) == CASE l = "en" -> 0 [] l = "ja" -> 1 [] l = "ko" -> 2 [] l = "es" -> 3 [] l = "zh" -> 4 [] l = "zh_tw" -> 5 [] l = "fr" -> 6 [] l = "it" -> 7 [] l = "cs" -> 8 [] l = "pt" -> 9
Bip85Path(e) == CASE e.app = "mnemonic" -> <<Hd(83696968), Hd(39), Hd(Bip85Lang(e.lang)), Hd(e.words), Hd(e.index)>>
                  [] e.app = "wif" -> <<Hd(83696968), Hd(2), Hd(e.index)>>
                  [] e.app = "xprv" -> <<Hd(83696968), Hd(32), Hd(e.index)>>

Res(n) == IF n.ok THEN ToHex(Ser(n)) ELSE "refused"
Expected(e) ==
    CASE e.op = "master" -> Res(Master(FromHex(e.seed), FromHex(e.version)))
      [] e.op = "derive" -> Res(Derive(NodeOf(FromHex(e.xkey)), [j \in 1..Len(e.path) |-> N(e.path[j])]))
      [] e.op = "derive_forced" ->      \* one step with a dictated HMAC output
            LET node == NodeOf(FromHex(e.xkey)) IN
            Res(IF IsPrv(node) THEN CKDprivWith(node, N(e.index), FromHex(e.I)) ELSE CKDpubWith(node, N(e.index), FromHex(e.I)))
      [] e.op = "slip132" ->            \* derive, then the SLIP132 version of the purpose, network and key kind
            LET node == NodeOf(FromHex(e.xkey))
                d == Derive(node, [j \in 1..Len(e.path) |-> N(e.path[j])])
            IN Res(IF d.ok THEN [d EXCEPT !.version = Slip132(e.kind, node.version \in TestVersions, IsPrv(node))] ELSE d)
      \* BIP44: a key partway down a five-level path stands for the rest of it only when it sits on it -- its depth within the path and, below the master
      \* key, its own index the path's index at that depth; what is answered is then the key at the end of the path
      [] e.op = "bip44" ->
            LET node == NodeOf(FromHex(e.xkey))
                path == [j \in 1..Len(e.path) |-> N(e.path[j])]
                onpath == node.depth <= Len(path) /\ (node.depth > 0 => node.index = Ser32(path[node.depth]))
                d == Derive(node, SubSeq(path, node.depth + 1, Len(path)))
            IN IF ~onpath \/ ~d.ok THEN "refused" ELSE ToHex(d.key)
      [] e.op = "neuter" -> Res(Neuter(NodeOf(FromHex(e.xkey)), FromHex(e.pubversion)))
      [] e.op = "fingerprint" -> ToHex(Fingerprint(NodeOf(FromHex(e.xkey))))
      \* the tweaks a public derivation adds step by step (BIP328 / BIP373 apply them to an aggregate key): IL of every unhardened step, refused at a hardened one
      [] e.op = "tweaks" -> LET r == TweaksOf([ok |-> TRUE, version |-> FromHex("0488b21e"), depth |-> 0, fp |-> Zeros(4), index |-> Zeros(4), chain |-> FromHex(e.chain), key |-> FromHex(e.key)],
                                                [j \in 1..Len(e.path) |-> N(e.path[j])], 1) IN
                               IF r[1] = "refused" THEN <<"refused">> ELSE <<"ok", [j \in 1..Len(r[2]) |-> ToHex(r[2][j])]>>
      \* the master key as an object: a version that is not a private one is refused
      [] e.op = "master_obj" -> IF FromHex(e.version) \notin PrvVersions THEN "refused" ELSE Res(Master(FromHex(e.seed), FromHex(e.version)))
      \* BIP85 applications: the entropy is that of the path the BIP gives the application (its own language numbers for 39')
      [] e.op = "bip85" -> ToHex(SubSeq(HMAC(HF("sha512"), Utf8("bip-entropy-from-k"), Drop(Derive(NodeOf(FromHex(e.xkey)), Bip85Path(e)).key, 1)), 1, e.take))
      [] e.op = "hmac512" -> ToHex(HMAC(HF("sha512"), FromHex(e.key), FromHex(e.msg)))

EventOK == i > 0 => Expected(Trace[i]) = Trace[i].out
Diag == i > 0 => PrintT(<<"DIAG", i, Expected(Trace[i])>>)
=============================================================================
