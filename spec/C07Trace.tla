------------------------------ MODULE C07Trace -------------------------------
(***************************************************************************)
(* Code -> specification for C07: every extended key btclib derives is     *)
(* recomputed field by field from the BIP's equations.                     *)
(*  {op:"master", seed, version, out}                                      *)
(*  {op:"derive", xkey (78 bytes), path [index hex...], out (78 bytes) | "refused"} *)
(*  {op:"neuter", xkey, pubversion, out}   {op:"fingerprint", xkey, out}   *)
(***************************************************************************)
EXTENDS BIP32, EvBase

Res(n) == IF n.ok THEN ToHex(Ser(n)) ELSE "refused"
Expected(e) ==
    CASE e.op = "master" -> Res(Master(FromHex(e.seed), FromHex(e.version)))
      [] e.op = "derive" -> Res(Derive(NodeOf(FromHex(e.xkey)), [j \in 1..Len(e.path) |-> N(e.path[j])]))
      [] e.op = "neuter" -> Res(Neuter(NodeOf(FromHex(e.xkey)), FromHex(e.pubversion)))
      [] e.op = "fingerprint" -> ToHex(Fingerprint(NodeOf(FromHex(e.xkey))))
      [] e.op = "hmac512" -> ToHex(HMAC(HF("sha512"), FromHex(e.key), FromHex(e.msg)))

EventOK == i > 0 => Expected(Trace[i]) = Trace[i].out
Diag == i > 0 => PrintT(<<"DIAG", i, Expected(Trace[i])>>)
=============================================================================
