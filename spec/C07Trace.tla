------------------------------ MODULE C07Trace -------------------------------
(***************************************************************************)
(* Code -> specification for C07: every extended key btclib derives is     *)
(* recomputed field by field from the BIP's equations.                     *)
(*  {op:"master", seed, version, out}                                      *)
(*  {op:"derive", xkey (78 bytes), path [index hex...], out (78 bytes) | "refused"} *)
(*  {op:"neuter", xkey, pubversion, out}   {op:"fingerprint", xkey, out}   *)
(***************************************************************************)
EXTENDS BIP32, EvBase

Res(n) == IF n.ok THEN ToHex(Ser(n)) ELSE "refused"
Expected(e) ==
    CASE e.op = "master" -> Res(Master(FromHex(e.seed), FromHex(e.version)))
      [] e.op = "derive" -> Res(Derive(NodeOf(FromHex(e.xkey)), [j \in 1..Len(e.path) |-> N(e.path[j])]))
      [] e.op = "derive_forced" ->      \* one step with a dictated HMAC output
            LET node == NodeOf(FromHex(e.xkey)) IN
            Res(IF IsPrv(node) THEN CKDprivWith(node, N(e.index), FromHex(e.I)) ELSE CKDpubWith(node, N(e.index), FromHex(e.I)))
      [] e.op = "slip132" ->            \* derive, then the SLIP132 version of the purpose, network and key kind
            LET node == NodeOf(FromHex(e.xkey))
                d == Derive(node, [j \in 1..Len(e.path) |-> N(e.path[j])])
            IN Res(IF d.ok THEN [d EXCEPT !.version = Slip132(e.kind, node.version \in TestVersions, IsPrv(node))] ELSE d)
      [] e.op = "neuter" -> Res(Neuter(NodeOf(FromHex(e.xkey)), FromHex(e.pubversion)))
      [] e.op = "fingerprint" -> ToHex(Fingerprint(NodeOf(FromHex(e.xkey))))
      [] e.op = "hmac512" -> ToHex(HMAC(HF("sha512"), FromHex(e.key), FromHex(e.msg)))

EventOK == i > 0 => Expected(Trace[i]) = Trace[i].out
Diag == i > 0 => PrintT(<<"DIAG", i, Expected(Trace[i])>>)
=============================================================================
