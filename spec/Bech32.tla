-------------------------------- MODULE Bech32 --------------------------------
(***************************************************************************)
(* Bech32 / Bech32m (BIP173, BIP350) and segwit addresses, transcribed     *)
(* from the BIPs' reference decoder.  Strings are sequences of ASCII       *)
(* codes; the polymod runs on TLC integers (every intermediate value is    *)
(* below 2^30).  The constants are the BIPs', carried here so that a       *)
(* changed constant in btclib is a disagreement and not a shared mistake.  *)
(***************************************************************************)
EXTENDS Integers, Sequences, SequencesExt, Bitwise, Hash

Charset == Utf8("qpzry9x8gf2tvdw0s3jn54khce6mua7l")
GEN == <<996825010, 642813549, 513874426, 1027748829, 705979059>>   \* 3b6a57b2 26508e6d 1ea119fa 3d4233dd 2a1462b3
Bech32Const  == 1
Bech32mConst == 734539939                                            \* 2bc830a3

PolyStep(chk, v) ==
    LET top == shiftR(chk, 25)
        c0  == ((chk & 33554431) * 32) ^^ v
    IN FoldLeft(LAMBDA acc, j : IF (shiftR(top, j - 1) & 1) = 1 THEN acc ^^ GEN[j] ELSE acc, c0, <<1, 2, 3, 4, 5>>)
Polymod(values) == FoldLeft(PolyStep, 1, values)

Lower(c) == IF c >= 65 /\ c <= 90 THEN c + 32 ELSE c
Upper(c) == IF c >= 97 /\ c <= 122 THEN c - 32 ELSE c
HrpExpand(hrp) == [j \in 1..Len(hrp) |-> shiftR(hrp[j], 5)] \o <<0>> \o [j \in 1..Len(hrp) |-> hrp[j] & 31]
CharIndex(c) == LET S == {j \in 1..32 : Charset[j] = c} IN IF S = {} THEN -1 ELSE (CHOOSE j \in S : TRUE) - 1

LastOne(s) == LET S == {j \in 1..Len(s) : s[j] = 49} IN IF S = {} THEN 0 ELSE CHOOSE j \in S : \A k \in S : k <= j

\* bech32_decode of the BIPs: [ok, hrp, data (5-bit values without the checksum), const]
Decode(s) ==
    LET pos == LastOne(s)
        lower == [j \in 1..Len(s) |-> Lower(s[j])]
        mixed == (\E j \in 1..Len(s) : s[j] # Lower(s[j])) /\ (\E j \in 1..Len(s) : s[j] # Upper(s[j]))
        okChars == \A j \in 1..Len(s) : s[j] >= 33 /\ s[j] <= 126
    IN IF ~okChars \/ mixed \/ pos < 2 \/ pos + 6 > Len(s) \/ Len(s) > 90
       THEN [ok |-> FALSE, hrp |-> << >>, data |-> << >>, const |-> 0]
       ELSE LET hrp == SubSeq(lower, 1, pos - 1)
                vals == [j \in 1..Len(s) - pos |-> CharIndex(lower[pos + j])]
            IN IF \E j \in 1..Len(vals) : vals[j] = -1
               THEN [ok |-> FALSE, hrp |-> << >>, data |-> << >>, const |-> 0]
               ELSE [ok |-> TRUE, hrp |-> hrp, data |-> SubSeq(vals, 1, Len(vals) - 6),
                     const |-> Polymod(HrpExpand(hrp) \o vals)]

Checksum(hrp, data, const) ==
    LET pm == Polymod(HrpExpand(hrp) \o data \o <<0, 0, 0, 0, 0, 0>>) ^^ const
    IN [j \in 1..6 |-> shiftR(pm, 5 * (6 - j)) & 31]
Encode(hrp, data, const) ==
    hrp \o <<49>> \o [j \in 1..Len(data) + 6 |-> Charset[(data \o Checksum(hrp, data, const))[j] + 1]]

\* convertbits of the BIPs, 5 -> 8 without padding (decoding) and 8 -> 5 with padding (encoding)
From5To8(data) ==
    LET st == FoldLeft(LAMBDA a, v : LET acc == (a.acc * 32 + v)  bits == a.bits + 5 IN
                            IF bits >= 8 THEN [acc |-> acc % (2 ^ (bits - 8)), bits |-> bits - 8,
                                               out |-> Append(a.out, acc \div (2 ^ (bits - 8)))]
                            ELSE [acc |-> acc, bits |-> bits, out |-> a.out],
                       [acc |-> 0, bits |-> 0, out |-> << >>], data)
    IN [ok |-> st.bits < 5 /\ st.acc = 0, out |-> st.out]       \* at most 4 bits of padding, all zero
From8To5(bytes) ==
    LET st == FoldLeft(LAMBDA a, v : LET acc == a.acc * 256 + v  bits == a.bits + 8 IN
                            IF bits >= 10 THEN [acc |-> acc % (2 ^ (bits - 10)), bits |-> bits - 10,
                                                out |-> a.out \o <<acc \div (2 ^ (bits - 5)), (acc \div (2 ^ (bits - 10))) % 32>>]
                            ELSE [acc |-> acc % (2 ^ (bits - 5)), bits |-> bits - 5, out |-> Append(a.out, acc \div (2 ^ (bits - 5)))],
                       [acc |-> 0, bits |-> 0, out |-> << >>], bytes)
    IN IF st.bits > 0 THEN Append(st.out, st.acc * (2 ^ (5 - st.bits))) ELSE st.out

\* BIP350 segwit address: [ok, hrp, ver, prog]
ProgramOK(ver, prog) == ver \in 0..16 /\ Len(prog) \in 2..40 /\ (ver = 0 => Len(prog) \in {20, 32})
SegwitDecode(s) ==
    LET d == Decode(s) IN
    IF ~d.ok \/ Len(d.data) < 1 THEN [ok |-> FALSE, hrp |-> << >>, ver |-> 0, prog |-> << >>]
    ELSE LET ver == d.data[1]  cv == From5To8(Tail(d.data)) IN
         [ok |-> cv.ok /\ ProgramOK(ver, cv.out) /\ d.const = (IF ver = 0 THEN Bech32Const ELSE Bech32mConst),
          hrp |-> d.hrp, ver |-> ver, prog |-> cv.out]
SegwitEncode(hrp, ver, prog) == Encode(hrp, <<ver>> \o From8To5(prog), IF ver = 0 THEN Bech32Const ELSE Bech32mConst)
=============================================================================
