----------------------------- MODULE RingSigModel -----------------------------
(* Borromean ring signatures and Pedersen commitments on the toy curve (31 points, toy hash): TLC signs with EVERY
   choice of ring shape (1-2 rings of 1-3 keys), signer position in every ring, private key, and several nonces and
   forged values, and checks that what a signer produces verifies whenever signing completes (a zero challenge or an infinite
   commitment -- one in 31 here, 2^-256 on secp256k1 -- fails the signing, as in the implementation), that a signature of another shape is refused, and that
   a commitment opens to what was committed and adds up homomorphically. *)
EXTENDS RingSig, TLC
CONSTANTS Shapes, KeyVals, NonceVals, ForgedVals
C == [p |-> B(43), a |-> BZero, b |-> B(7), gx |-> B(2), gy |-> B(12), n |-> B(31), h |-> BOne]
HFT == HF("toy")
ShapesC == {<<1>>, <<2>>, <<3>>, <<1, 2>>, <<3, 2>>, <<2, 3>>, <<3, 3>>}
Msg == <<1, 2, 3>>
VARIABLES shape, at, keys, nonces, forged, others, sig
vars == <<shape, at, keys, nonces, forged, others, sig>>
\* a ring: the signer's key at its position, the other positions hold keys from `others`
Rings == [i \in 1..Len(shape) |-> [j \in 1..shape[i] |-> RMulG(C, B(IF j = at[i] THEN keys[i] ELSE others[((i + j) % Len(others)) + 1]))]]
Init == /\ shape \in Shapes
        /\ at \in [1..Len(shape) -> 1..3] /\ \A i \in 1..Len(shape) : at[i] <= shape[i]
        /\ keys \in [1..Len(shape) -> KeyVals] /\ nonces \in [1..Len(shape) -> NonceVals]
        /\ forged \in ForgedVals /\ others \in {<<5, 9, 20>>, <<1, 1, 30>>}
        /\ sig = [ok |-> FALSE]
DoSign == /\ ~("e0" \in DOMAIN sig)
        /\ sig' = SignRing(C, HFT, Msg, [i \in 1..Len(shape) |-> B(nonces[i])], at, [i \in 1..Len(shape) |-> B(keys[i])],
                           [i \in 1..Len(shape) |-> [j \in 1..shape[i] |-> B((forged * (i + 2 * j)) % 31)]], Rings)
        /\ UNCHANGED <<shape, at, keys, nonces, forged, others>>
Next == DoSign \/ ("e0" \in DOMAIN sig /\ UNCHANGED vars)
Spec == Init /\ [][Next]_vars
Signed == "e0" \in DOMAIN sig /\ sig.ok
\* vacuity probes: both must be VIOLATED (some signing completes, some fails on the 31-point curve)
NeverSigned == ~Signed
NeverFails == "e0" \in DOMAIN sig => sig.ok
SignedVerifies == Signed => Verify1(C, HFT, Msg, sig.e0, sig.s, Rings)
ShapeMismatchFails == Signed => ~Verify1(C, HFT, Msg, sig.e0, Tail(sig.s), Rings) /\ ~Verify1(C, HFT, Msg, sig.e0, [sig.s EXCEPT ![1] = Tail(@)], Rings)
\* Pedersen
CommitOpens == \A r \in {0, 1, 7, 30}, v \in {0, 1, 13, 30} : LET cm == Commit(C, HFT, B(r), B(v)) IN cm.ok => Opens(C, HFT, B(r), B(v), cm.Q)
CommitAdds == \A r1 \in {1, 7}, v1 \in {2, 13}, r2 \in {3, 30}, v2 \in {5, 29} :
     LET a == Commit(C, HFT, B(r1), B(v1))  b == Commit(C, HFT, B(r2), B(v2))  ab == Commit(C, HFT, B((r1 + r2) % 31), B((v1 + v2) % 31)) IN
       (a.ok /\ b.ok /\ ab.ok) => ECR!Add(C, a.Q, b.Q) = ab.Q
SecondGeneratorOnCurve == LET Hh == SecondGenerator(C, HFT) IN ~Hh.inf /\ ECR!OnCurve(C, Hh) /\ Hh # G(C)
=============================================================================
