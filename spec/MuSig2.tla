--------------------------------- MODULE MuSig2 ---------------------------------
(***************************************************************************)
(* C16: BIP327 MuSig2 over a curve record c and a hash descriptor hf       *)
(* (secp256k1 / SHA256 is the BIP byte for byte; a toy curve and hash let  *)
(* TLC run every key).  Definitions only.  Scalars and coordinates are     *)
(* BigNat, points ECR points, keys 33-byte compressed encodings.           *)
(***************************************************************************)
EXTENDS BIP340, SequencesExt

TH(hf, tag, m) == LET t == H(hf, Utf8(tag)) IN H(hf, t \o t \o m)
CBytes(c, P) == <<IF BIsEven(P.y) THEN 2 ELSE 3>> \o BToBytes(P.x, PLen(c))
CBytesExt(c, P) == IF P.inf THEN [j \in 1..(PLen(c) + 1) |-> 0] ELSE CBytes(c, P)
\* the point a compressed encoding names (Inf when it names none)
CPoint(c, b) == IF Len(b) # PLen(c) + 1 \/ b[1] \notin {2, 3} THEN ECR!Inf
                ELSE LET P == LiftX(c, BFromBytes(SubSeq(b, 2, Len(b)))) IN
                       IF P.inf THEN P ELSE IF b[1] = 2 THEN P ELSE ECR!Neg(c, P)
Neg(c, k) == BMod(BSub(c.n, BMod(k, c.n)), c.n)
Sum(c, pts) == FoldLeft(LAMBDA a, P : ECR!Add(c, a, P), ECR!Inf, pts)

\* ---- key aggregation ----
HashKeys(hf, pks) == TH(hf, "KeyAgg list", FoldLeft(LAMBDA a, k : a \o k, << >>, pks))
SecondKey(c, pks) == LET rest == SelectSeq(pks, LAMBDA k : k # pks[1]) IN IF rest = << >> THEN [j \in 1..(PLen(c) + 1) |-> 0] ELSE rest[1]
Coeff(c, hf, pks, pk) == IF pk = SecondKey(c, pks) THEN BOne ELSE BMod(BFromBytes(TH(hf, "KeyAgg coefficient", HashKeys(hf, pks) \o pk)), c.n)
KeyAgg(c, hf, pks) == [Q |-> Sum(c, [j \in 1..Len(pks) |-> RMul(c, Coeff(c, hf, pks, pks[j]), CPoint(c, pks[j]))]), gacc |-> BOne, tacc |-> BZero]
\* a tweak: <<t, isXonly>>; refused (ok = FALSE) when the result is the point at infinity or t is out of range
ApplyTweak(c, ctx, t, xonly) ==
  LET g == IF xonly /\ ~HasEvenY(ctx.Q) THEN BSub(c.n, BOne) ELSE BOne
      Q2 == ECR!Add(c, IF g = BOne THEN ctx.Q ELSE ECR!Neg(c, ctx.Q), RMulG(c, t))
  IN [Q |-> Q2, gacc |-> BMulMod(g, ctx.gacc, c.n), tacc |-> BAddMod(t, BMulMod(g, ctx.tacc, c.n), c.n), ok |-> ~Q2.inf /\ BLt(t, c.n)]
KeyAggTweaked(c, hf, pks, tweaks) ==
  FoldLeft(LAMBDA ctx, tw : IF ~ctx.ok THEN ctx ELSE ApplyTweak(c, ctx, tw[1], tw[2]), LET k == KeyAgg(c, hf, pks) IN [Q |-> k.Q, gacc |-> k.gacc, tacc |-> k.tacc, ok |-> ~k.Q.inf], tweaks)

\* ---- nonces and the session ----
\* pubnonces: sequence of <<R1 bytes, R2 bytes>>
NonceAgg(c, pubnonces) == <<Sum(c, [j \in 1..Len(pubnonces) |-> CPoint(c, pubnonces[j][1])]), Sum(c, [j \in 1..Len(pubnonces) |-> CPoint(c, pubnonces[j][2])])>>
\* adaptor: a point or Inf for none
Session(c, hf, pks, tweaks, aggnonce, adaptor, msg) ==
  LET ctx == KeyAggTweaked(c, hf, pks, tweaks)
      R1 == ECR!Add(c, aggnonce[1], adaptor)
      b == BMod(BFromBytes(TH(hf, "MuSig/noncecoef", CBytesExt(c, R1) \o CBytesExt(c, aggnonce[2]) \o XBytes(c, ctx.Q.x) \o msg)), c.n)
      R0 == ECR!Add(c, R1, RMul(c, b, aggnonce[2]))
      R == IF R0.inf THEN G(c) ELSE R0
  IN [Q |-> ctx.Q, gacc |-> ctx.gacc, tacc |-> ctx.tacc, ok |-> ctx.ok, b |-> b, R |-> R, e |-> ChallengeE(c, hf, R.x, ctx.Q.x, msg),
      degenerate |-> R0.inf]     \* the final nonce is the point at infinity: BIP327 substitutes G and the signature will not verify
GSign(c, ses) == IF HasEvenY(ses.Q) THEN BOne ELSE BSub(c.n, BOne)
\* the partial signature of the signer holding d with secret nonces k1, k2
PartialSign(c, hf, pks, ses, d, k1, k2) ==
  LET odd == ~HasEvenY(ses.R)
      k1e == IF odd THEN Neg(c, k1) ELSE k1   k2e == IF odd THEN Neg(c, k2) ELSE k2
      a == Coeff(c, hf, pks, CBytes(c, RMulG(c, d)))
      de == BMulMod(BMulMod(GSign(c, ses), ses.gacc, c.n), d, c.n)
  IN BAddMod(BAddMod(k1e, BMulMod(ses.b, k2e, c.n), c.n), BMulMod(BMulMod(ses.e, a, c.n), de, c.n), c.n)
PartialVerify(c, hf, pks, ses, s, pubnonce, pk) ==
  LET Re0 == ECR!Add(c, CPoint(c, pubnonce[1]), RMul(c, ses.b, CPoint(c, pubnonce[2])))
      Re == IF HasEvenY(ses.R) THEN Re0 ELSE ECR!Neg(c, Re0)
      a == Coeff(c, hf, pks, pk)
      g == BMulMod(GSign(c, ses), ses.gacc, c.n)
  IN BLt(s, c.n) /\ RMulG(c, s) = ECR!Add(c, Re, RMul(c, BMulMod(BMulMod(ses.e, a, c.n), g, c.n), CPoint(c, pk)))
\* <<x(R), s>>
PartialAgg(c, ses, psigs) ==
  <<ses.R.x, BAddMod(FoldLeft(LAMBDA a, s : BAddMod(a, s, c.n), BZero, psigs), BMulMod(BMulMod(ses.e, GSign(c, ses), c.n), ses.tacc, c.n), c.n)>>
\* adaptor: completing a pre-signature with the secret t, and reading t back
Adapt(c, ses, spre, t) == BAddMod(spre, IF HasEvenY(ses.R) THEN t ELSE Neg(c, t), c.n)
Extract(c, ses, s, spre) == LET d == BSubMod(s, spre, c.n) IN IF HasEvenY(ses.R) THEN d ELSE Neg(c, d)
=============================================================================
