-------------------------------- MODULE Mnemonic --------------------------------
(***************************************************************************)
(* C13: BIP39 and Electrum mnemonics.  Definitions only.                   *)
(* A sentence is a sequence of word indexes into a 2048-word list (which   *)
(* word a list gives an index is data, not behaviour: the harness maps     *)
(* words to indexes with the vendored lists) plus, for the seed, the UTF-8 *)
(* text of the sentence.                                                   *)
(***************************************************************************)
EXTENDS Hash, BigNat, Integers, Sequences, SequencesExt

BitsOfBytes(b) == [j \in 1..(8 * Len(b)) |-> (b[(j + 7) \div 8] \div (2 ^ (7 - ((j - 1) % 8)))) % 2]
IntOfBits(bits) == FoldLeft(LAMBDA a, x : 2 * a + x, 0, bits)
BytesOfBits(bits) == [k \in 1..(Len(bits) \div 8) |-> IntOfBits(SubSeq(bits, 8 * k - 7, 8 * k))]

\* ---- BIP39 ----
EntSizes == {16, 20, 24, 28, 32}
Bip39Indexes(entropy) ==
  LET cs == Len(entropy) \div 4  bits == BitsOfBytes(entropy) \o SubSeq(BitsOfBytes(SHA256(entropy)), 1, cs) IN
    [k \in 1..(Len(bits) \div 11) |-> IntOfBits(SubSeq(bits, 11 * k - 10, 11 * k))]
\* <<"ok", entropy>> | <<"refused">>
Bip39Entropy(indexes) ==
  LET n == Len(indexes) IN
    IF n \notin {12, 15, 18, 21, 24} THEN <<"refused">>
    ELSE LET bits == FoldLeft(LAMBDA a, x : a \o [j \in 1..11 |-> (x \div (2 ^ (11 - j))) % 2], << >>, indexes)
             ent == (n * 11 * 32) \div 33
             e == BytesOfBits(SubSeq(bits, 1, ent))
         IN IF SubSeq(bits, ent + 1, Len(bits)) = SubSeq(BitsOfBytes(SHA256(e)), 1, ent \div 32) THEN <<"ok", e>> ELSE <<"refused">>
Bip39Seed(textUtf8, passUtf8) == PBKDF2Blocks(HF("sha512"), NFKD(textUtf8), Utf8("mnemonic") \o NFKD(passUtf8), 2048, 1, 1)

\* ---- Electrum (2.0+) ----
\* the first word is the least significant base-2048 digit
ElectrumInt(indexes, base) == FoldLeft(LAMBDA a, x : BAdd(BMul(a, B(base)), B(x)), BZero, Reverse(indexes))
ElectrumVersionHex(normUtf8) == ToHex(HMAC(HF("sha512"), Utf8("Seed version"), normUtf8))
\* the version a sentence carries, from the hex of HMAC-SHA512("Seed version", normalized sentence): 01 standard, 100 segwit,
\* 101 2fa (only with 12 words, or 20 and more, as typed), 102 2fa_segwit; otherwise none
ElectrumVersion(normUtf8, nwords) ==
  LET d == HMAC(HF("sha512"), Utf8("Seed version"), normUtf8)  h1 == d[1] \div 16  h2 == d[1] % 16  h3 == d[2] \div 16 IN
    IF h1 = 0 /\ h2 = 1 THEN "standard"
    ELSE IF h1 = 1 /\ h2 = 0 /\ h3 = 0 THEN "segwit"
    ELSE IF h1 = 1 /\ h2 = 0 /\ h3 = 1 /\ (nwords = 12 \/ nwords >= 20) THEN "2fa"
    ELSE IF h1 = 1 /\ h2 = 0 /\ h3 = 2 THEN "2fa_segwit"
    ELSE "none"
ElectrumSeed(normTextUtf8, normPassUtf8) == PBKDF2Blocks(HF("sha512"), normTextUtf8, Utf8("electrum") \o normPassUtf8, 2048, 1, 1)
=============================================================================
