------------------------------ MODULE WireModel ------------------------------
(***************************************************************************)
(* The small wire grammars over ALL byte strings on a boundary alphabet up *)
(* to a length: the environment appends one byte at a time, and in every   *)
(* state each parser that accepts the string read so far must give a value *)
(* whose serialization is that very string (so the accepted language is in *)
(* bijection with the values: canonical).  The reachable states are also   *)
(* the test corpus replayed into btclib's parsers (Emit).                  *)
(***************************************************************************)
EXTENDS Wire, TLC

CONSTANTS Alphabet, MaxLen
VARIABLE input
MInit == input = << >>
MNext == Len(input) < MaxLen /\ \E b \in Alphabet : input' = Append(input, b)
MSpec == MInit /\ [][MNext]_input

Whole(r) == r.ok /\ r.pos = Len(input) + 1
CompactCanonical == LET r == PCompactBig(input, 1, BSub(BPow2(64), BOne)) IN Whole(r) => CompactSizeBig(r.v) = input
VarBytesCanonical == LET r == PVarBytes(input, 1) IN Whole(r) => VarBytes(r.v) = input
OutPointCanonical == LET r == PWitness(input, 1) IN Whole(r) => SerWitness(r.v) = input
TxOutCanonical == LET r == PTxOut(input, 1) IN Whole(r) => SerTxOut(r.v) = input /\ PTxOut(SerTxOut(r.v), 1).v = r.v
Emit == PrintT(<<"W", input>>)
=============================================================================
