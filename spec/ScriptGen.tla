------------------------------- MODULE ScriptGen -------------------------------
(***************************************************************************)
(* Specification -> code for C08: the program is built one chunk at a      *)
(* time (a chunk is an opcode with its push data), the ScriptVM machine     *)
(* runs along, and every reachable state is a test case: the program so     *)
(* far, the verdict EvalScript would give if the script ended here, and     *)
(* the final stack.  TLC's state graph is the set of programs over the      *)
(* alphabet up to MaxChunks.                                                *)
(***************************************************************************)
EXTENDS ScriptVerify, TLC

CONSTANTS Family,        \* which alphabet of chunks (cfg files cannot hold tuples)
          MaxChunks, Flags, SV

Ops(S) == {<<c>> : c \in S}
Chunks ==
    CASE Family = "cond"  -> Ops({0, 81, 99, 100, 101, 103, 104, 105, 117, 118, 115}) \cup {<<1, 128>>, <<1, 2>>}
      [] Family = "arith" -> {<<0>>, <<79>>, <<81>>, <<82>>, <<4, 255, 255, 255, 127>>, <<4, 255, 255, 255, 255>>, <<5, 0, 0, 0, 128, 0>>,
                              <<1, 128>>, <<2, 0, 128>>, <<1, 0>>, <<2, 255, 0>>}
                             \cup Ops({139, 140, 143, 144, 145, 146, 147, 148, 154, 155, 156, 157, 158, 159, 160, 161, 162, 163, 164, 165})
      [] Family = "stack" -> Ops({81, 82, 83, 0, 107, 108, 109, 110, 111, 112, 113, 114, 115, 116, 117, 118, 119, 120, 121, 122, 123, 124, 125, 130, 135, 136})
      [] Family = "push"  -> {<<1, 1>>, <<1, 17>>, <<1, 16>>, <<76, 1, 5>>, <<77, 1, 0, 5>>, <<78, 1, 0, 0, 0, 5>>, <<1, 129>>, <<0>>, <<76, 0>>,
                              <<2, 1, 2>>, <<75>>, <<76>>, <<77, 1>>, <<78, 255, 255, 255, 255>>, <<135>>, <<117>>, <<81>>, <<99>>, <<104>>}
      [] Family = "misc"  -> Ops({81, 0, 97, 80, 98, 106, 126, 131, 141, 171, 176, 177, 178, 179, 185, 186, 255, 187, 166, 167, 168, 169, 170, 130, 99, 104})
                             \cup {<<1, 100>>, <<1, 101>>, <<1, 5>>, <<4, 0, 0, 64, 0>>, <<5, 0, 0, 0, 0, 1>>, <<1, 129>>}
InitStack == IF Family = "stack" THEN <<<<1>>, <<2>>, <<3>>, <<4>>, <<5>>, <<6>>>> ELSE << >>

Ctx0 == [version |-> B(2), locktime |-> B(100), sequence |-> B(5)]
Env0 == Env(Flags, SV, Ctx0)

VARIABLES prog, st, n
gvars == <<prog, st, n>>
GInit == prog = << >> /\ st = VM!Start(InitStack, 0) /\ n = 0
\* a chunk may be a truncated push: then the machine stops with BAD_OPCODE at it, as Core does
RECURSIVE RunTo(_, _, _, _)
RunTo(s, script, idx, stop) == IF s.err # "" \/ s.pc > stop THEN s ELSE RunTo(VM!StepOp(s, Env0, script, idx), script, idx + 1, stop)
GNext == /\ n < MaxChunks /\ st.err = ""
         /\ \E c \in Chunks :
               /\ prog' = prog \o c
               /\ st' = RunTo(st, prog', n, Len(prog'))
               /\ n' = n + 1
GSpec == GInit /\ [][GNext]_gvars

Final(s) == IF s.err # "" THEN s.err ELSE IF s.vf # << >> THEN "UNBALANCED_CONDITIONAL" ELSE ""
\* design-level invariants of the machine
StackBound == st.err = "" => Len(st.stack) + Len(st.alt) <= VM!MaxStack
OpBound == st.err = "" => st.ops <= VM!MaxOps
\* an unexecuted branch changes no stack: checked as "the stack is unchanged while some vf is false" by the action property
Frozen == [][(st.err = "" /\ st'.err = "" /\ ~VM!Exec(st) /\ ~VM!Exec(st')) => st'.stack = st.stack /\ st'.alt = st.alt]_gvars
Emit == PrintT(<<"PROG", prog, Final(st), IF Final(st) = "" THEN st.stack ELSE << >>>>)
=============================================================================
