------------------------- MODULE WalletCallsModel --------------------------
(* The ledger on two branches and four indexes: every history of hand-outs. *)
EXTENDS WalletCalls
=============================================================================
