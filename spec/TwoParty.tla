-------------------------------- MODULE TwoParty --------------------------------
(***************************************************************************)
(* C16: the two-party schemes on secp256k1.  Definitions only.             *)
(*  - ECDH with ANSI-X9.63-KDF (SEC 1 6.1 / 3.6.1);                         *)
(*  - BIE1 (ECIES) key derivation: sha512 of the compressed shared point,  *)
(*    cut 16 | 16 | 32;                                                    *)
(*  - BIP374 discrete-log-equality proofs;                                 *)
(*  - BIP352 silent payments: sender outputs, labels, scanning, spend key. *)
(***************************************************************************)
EXTENDS MuSig2

K1 == Secp256k1
S256 == HF("sha256")
Tagged(tag, m) == TH(S256, tag, m)
PointOf(sec) == CPoint(K1, sec)
Ser32(k) == BToBytes(B(k), 4)

\* ---- ECDH ----
RECURSIVE X963(_, _, _, _, _)
X963(hf, z, size, info, counter) ==
  LET blk == H(hf, z \o BToBytes(B(counter), 4) \o info) IN
    IF size <= hf.size THEN SubSeq(blk, 1, size) ELSE blk \o X963(hf, z, size - hf.size, info, counter + 1)
DhKey(c, hf, d, Q, size, info) == LET P == RMul(c, d, Q) IN IF P.inf THEN <<"refused">> ELSE <<"ok", X963(hf, XBytes(c, P.x), size, info, 1)>>
Bie1Keys(d, Q) == LET dg == SHA512(CBytes(K1, RMul(K1, d, Q))) IN <<SubSeq(dg, 1, 16), SubSeq(dg, 17, 32), SubSeq(dg, 33, 64)>>

\* ---- BIP374 ----
DleqChallenge(A, Bp, Cp, R1, R2, Gp, m) ==
  BFromBytes(Tagged("BIP0374/challenge", CBytes(K1, A) \o CBytes(K1, Bp) \o CBytes(K1, Cp) \o CBytes(K1, Gp) \o CBytes(K1, R1) \o CBytes(K1, R2) \o m))
DleqVerify(A, Bp, Cp, proof, Gp, m) ==
  /\ Len(proof) = 64 /\ ~A.inf /\ ~Bp.inf /\ ~Cp.inf /\ ~Gp.inf
  /\ LET e == BFromBytes(SubSeq(proof, 1, 32))  s == BFromBytes(SubSeq(proof, 33, 64))
         ne == Neg(K1, e)
         R1 == ECR!Add(K1, RMul(K1, s, Gp), RMul(K1, ne, A))
         R2 == ECR!Add(K1, RMul(K1, s, Bp), RMul(K1, ne, Cp))
     IN BLt(s, K1.n) /\ ~R1.inf /\ ~R2.inf /\ e = DleqChallenge(A, Bp, Cp, R1, R2, Gp, m)

\* ---- BIP352 ----
ScalarOf(h) == BFromBytes(h)                         \* (a hash that is 0 or >= n fails: probability 2^-128, not modelled)
\* inputs: sequence of [d |-> private key, taproot |-> BOOLEAN]: a taproot key with odd y is negated
PrvSum(inputs) == FoldLeft(LAMBDA a, inp : BAddMod(a, IF inp.taproot /\ ~HasEvenY(RMulG(K1, inp.d)) THEN Neg(K1, inp.d) ELSE inp.d, K1.n), BZero, inputs)
LexLess(x, y) == \E j \in 1..Len(x) : SubSeq(x, 1, j - 1) = SubSeq(y, 1, j - 1) /\ x[j] < y[j]
Lowest(outpoints) == CHOOSE o \in {outpoints[j] : j \in 1..Len(outpoints)} : \A o2 \in {outpoints[j] : j \in 1..Len(outpoints)} : o2 = o \/ LexLess(o, o2)
InputHash(outpoints, A) == ScalarOf(Tagged("BIP0352/Inputs", Lowest(outpoints) \o CBytes(K1, A)))
OutputTweak(secret, k) == ScalarOf(Tagged("BIP0352/SharedSecret", CBytes(K1, secret) \o Ser32(k)))
LabelTweak(bscan, m) == ScalarOf(Tagged("BIP0352/Label", BToBytes(bscan, 32) \o Ser32(m)))
\* recipients: sequence of [scan |-> point, spend |-> point (label already applied)]; the k of a recipient is its rank among
\* the earlier recipients with the same scan key.  Result: one x-only key per recipient, in the order given.
RankOf(rs, j) == Cardinality({q \in 1..(j - 1) : rs[q].scan = rs[j].scan})
SenderOutputs(inputs, outpoints, rs) ==
  LET a == PrvSum(inputs)  A == RMulG(K1, a)  h == InputHash(outpoints, A) IN
    [j \in 1..Len(rs) |-> LET secret == RMul(K1, BMulMod(h, a, K1.n), rs[j].scan) IN
       XBytes(K1, ECR!Add(K1, rs[j].spend, RMulG(K1, OutputTweak(secret, RankOf(rs, j)))).x)]
\* scanning: walk k upwards; an output matches P_k itself or P_k plus the point of a label; stop at the first k matching nothing
\* found: sequence of <<x-only output, tweak>>
RECURSIVE ScanFrom(_, _, _, _, _, _)
ScanFrom(secret, Bspend, labelTweaks, outs, k, acc) ==
  LET tk == OutputTweak(secret, k)  Pk == ECR!Add(K1, Bspend, RMulG(K1, tk))
      direct == XBytes(K1, Pk.x)
      viaLabel == {lt \in labelTweaks : XBytes(K1, ECR!Add(K1, Pk, RMulG(K1, lt)).x) \in outs}
  IN IF k >= 20 THEN acc
     ELSE IF direct \in outs THEN ScanFrom(secret, Bspend, labelTweaks, outs \ {direct}, k + 1, Append(acc, <<direct, tk>>))
     ELSE IF viaLabel # {} THEN LET lt == CHOOSE x \in viaLabel : TRUE  o == XBytes(K1, ECR!Add(K1, Pk, RMulG(K1, lt)).x) IN
            ScanFrom(secret, Bspend, labelTweaks, outs \ {o}, k + 1, Append(acc, <<o, BAddMod(tk, lt, K1.n)>>))
     ELSE acc
Scan(bscan, Bspend, labelTweaks, A, outpoints, outs) ==
  ScanFrom(RMul(K1, bscan, RMul(K1, InputHash(outpoints, A), A)), Bspend, labelTweaks, outs, 0, << >>)
SpendKeyOpens(bspend, tweak, output) == XBytes(K1, RMulG(K1, BAddMod(bspend, tweak, K1.n)).x) = output
\* ---- BIP352: the public key an input contributes, or none (the input is skipped) ----
\* p2tr: the OUTPUT key, lifted to even y, whether the spend was a key path or a script path; the annex -- a last witness item that STARTS with 0x50, of
\* whatever length, when there are at least two items -- is not part of the spend; a script path whose internal key is BIP341's NUMS point is skipped.
\* p2wpkh and p2sh-p2wpkh: the last witness item when it is a compressed key; p2pkh: the last 33-octet window of the scriptSig that hashes to the
\* output's key hash and is a compressed key.  Anything else is skipped.
SpNums == FromHex("50929b74c1a04954b78b4b6035e97a5e078a5a0f28ec96d547bfee9ace803ac0")
SpNone == [none |-> TRUE]
SpKey(P) == IF P.inf THEN SpNone ELSE [none |-> FALSE, x |-> P.x, y |-> P.y]
SpCompressed(b) == IF Len(b) = 33 /\ b[1] \in {2, 3} THEN SpKey(LET P == LiftX(K1, BFromBytes(SubSeq(b, 2, 33))) IN IF P.inf \/ b[1] = 2 THEN P ELSE ECR!Neg(K1, P)) ELSE SpNone
RECURSIVE SpP2pkhFrom(_, _, _)
SpP2pkhFrom(h, sig, end) == IF end < 33 THEN SpNone
                            ELSE LET cand == SubSeq(sig, end - 32, end)  k == IF Hash160(cand) = h THEN SpCompressed(cand) ELSE SpNone IN
                                 IF ~k.none THEN k ELSE SpP2pkhFrom(h, sig, end - 1)
SpInputKey(spk, sig, wit) ==
  IF Len(spk) = 34 /\ spk[1] = 81 /\ spk[2] = 32 THEN
       LET st == IF Len(wit) > 1 /\ Len(wit[Len(wit)]) >= 1 /\ wit[Len(wit)][1] = 80 THEN SubSeq(wit, 1, Len(wit) - 1) ELSE wit IN
       IF Len(st) = 0 THEN SpNone
       ELSE IF Len(st) > 1 /\ Len(st[Len(st)]) >= 33 /\ SubSeq(st[Len(st)], 2, 33) = SpNums THEN SpNone
       ELSE SpKey(LiftX(K1, BFromBytes(SubSeq(spk, 3, 34))))
  ELSE IF Len(spk) = 22 /\ spk[1] = 0 /\ spk[2] = 20 THEN (IF Len(wit) = 0 THEN SpNone ELSE SpCompressed(wit[Len(wit)]))
  ELSE IF Len(spk) = 23 /\ spk[1] = 169 /\ spk[2] = 20 /\ spk[23] = 135 THEN
       (IF Len(sig) = 23 /\ sig[1] = 22 /\ sig[2] = 0 /\ sig[3] = 20 /\ Len(wit) > 0 THEN SpCompressed(wit[Len(wit)]) ELSE SpNone)
  ELSE IF Len(spk) = 25 /\ SubSeq(spk, 1, 3) = <<118, 169, 20>> /\ SubSeq(spk, 24, 25) = <<136, 172>> THEN SpP2pkhFrom(SubSeq(spk, 4, 23), sig, Len(sig))
  ELSE SpNone
=============================================================================
