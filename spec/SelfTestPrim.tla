---------------------------- MODULE SelfTestPrim ----------------------------
(* Self-validation of the primitive layer: overrides vs published vectors   *)
(* and vs TLC's own integer arithmetic on all small operands.               *)
EXTENDS Hash, TLC

ASSUME ToHex(SHA256(Utf8("abc"))) = "ba7816bf8f01cfea414140de5dae2223b00361a396177a9cb410ff61f20015ad"
ASSUME ToHex(SHA256(<< >>)) = "e3b0c44298fc1c149afbf4c8996fb92427ae41e4649b934ca495991b7852b855"
ASSUME ToHex(SHA1(Utf8("abc"))) = "a9993e364706816aba3e25717850c26c9cd0d89d"
ASSUME ToHex(SHA512(Utf8("abc"))) = "ddaf35a193617abacc417349ae20413112e6fa4e89a97ea20a9eeee64b55d39a2192992a274fc1a836ba3c23a3feebbd454d4423643ce80e2a9ac94fa54ca49f"
ASSUME ToHex(RIPEMD160(<< >>)) = "9c1185a5c5e9fc54612808977ee8f548b2258d31"
ASSUME ToHex(RIPEMD160(Utf8("abc"))) = "8eb208f7e05d987a9b044a8e98c6b087f15a0bfc"
ASSUME ToHex(RIPEMD160(Utf8("message digest"))) = "5d0689ef49d2fae572b881b123a85ffa21595f36"
ASSUME ToHex(RIPEMD160(Utf8("abcdbcdecdefdefgefghfghighijhijkijkljklmklmnlmnomnopnopq"))) = "12a053384a9c0c88e405a06c27dcf49ada62eb2b"
ASSUME ToHex(RIPEMD160(Utf8("12345678901234567890123456789012345678901234567890123456789012345678901234567890"))) = "9b752e45573d4b39f4dbd3323cab82bf63326bfb"
\* RFC 4231 test case 2
ASSUME ToHex(HMAC(HF("sha256"), Utf8("Jefe"), Utf8("what do ya want for nothing?")))
         = "5bdcc146bf60754e6a042426089575c75a003f089d2739839dec58b964ec3843"
ASSUME ToHex(HMAC(HF("sha512"), Utf8("Jefe"), Utf8("what do ya want for nothing?")))
         = "164b7a7bfcf819e2e395fbe73b56e0a387bd64222e831fd610270cd7ea2505549758bf75c05a994a6d034f65f8f0e6fdcaeab1a34d4a6b4b636e070a38bce737"
\* RFC 4231 test case 6 (key longer than the block)
ASSUME ToHex(HMAC(HF("sha256"), Rep(170, 131), Utf8("Test Using Larger Than Block-Size Key - Hash Key First")))
         = "60e431591ee0b67f0d8a26aacbf5b77f8e0bc6213728c5140546040f0ee37f54"
\* RFC 6070
ASSUME ToHex(PBKDF2(HF("sha1"), Utf8("password"), Utf8("salt"), 2, 20)) = "ea6c014dc72d6f8ccd1ed92ace1d41f0d8de8957"
ASSUME ToHex(PBKDF2(HF("sha1"), Utf8("passwordPASSWORDpassword"), Utf8("saltSALTsaltSALTsaltSALTsaltSALTsalt"), 4096, 25))
         = "3d2eec4fe41c849b80c8d83662c0e44a8b291a964cf2f07038"
\* RFC 5869 test case 1
ASSUME LET prk == HKDFExtract(HF("sha256"), FromHex("000102030405060708090a0b0c"), Rep(11, 22))
       IN /\ ToHex(prk) = "077709362c2e32df0ddc3f0dc47bba6390b6c73bb50f9c3122ec844ad7c2b3e5"
          /\ ToHex(HKDFExpand(HF("sha256"), prk, FromHex("f0f1f2f3f4f5f6f7f8f9"), 42))
               = "3cb25f25faacd57a90434f64d0362f2a2d2d0a90cf1a5a4c5db02d56ecc4c5bf34007208d5b887185865"
ASSUME ToHex(TaggedHash("BIP0340/challenge", << >>)) = ToHex(SHA256(SHA256(Utf8("BIP0340/challenge")) \o SHA256(Utf8("BIP0340/challenge"))))
ASSUME FromHex("00ff10") = <<0, 255, 16>> /\ ToHex(<<0, 255, 16>>) = "00ff10"
\* NFKD: U+00E9 -> e + U+0301 ; U+FB01 (fi ligature) -> "fi"
ASSUME NFKD(FromHex("c3a9")) = FromHex("65cc81") /\ NFKD(FromHex("efac81")) = Utf8("fi")

-----------------------------------------------------------------------------
\* BigNat overrides against TLC's integers on every pair of small operands
S == 0..70
ASSUME \A a \in S : BToInt(B(a)) = a /\ (a = 0 <=> B(a) = << >>)
ASSUME B(255) = <<255>> /\ B(256) = <<1, 0>> /\ B(65536) = <<1, 0, 0>>
ASSUME \A a, b \in S : /\ BToInt(BAdd(B(a), B(b))) = a + b
                       /\ BToInt(BMul(B(a), B(b))) = a * b
                       /\ (a >= b => BToInt(BSub(B(a), B(b))) = a - b)
                       /\ (b > 0 => BToInt(BDiv(B(a), B(b))) = a \div b /\ BToInt(BMod(B(a), B(b))) = a % b)
                       /\ BCmp(B(a), B(b)) = (IF a < b THEN -1 ELSE IF a = b THEN 0 ELSE 1)
                       /\ BToInt(BAnd(B(a), B(b))) = a & b
                       /\ BToInt(BOr(B(a), B(b))) = a | b
                       /\ BToInt(BXor(B(a), B(b))) = a ^^ b
ASSUME \A a, b \in 0..40, m \in 1..40 :
          /\ BToInt(BAddMod(B(a), B(b), B(m))) = (a + b) % m
          /\ BToInt(BSubMod(B(a), B(b), B(m))) = (a + 40 * m - b) % m
          /\ BToInt(BMulMod(B(a), B(b), B(m))) = (a * b) % m
ASSUME \A a \in 1..12, e \in 0..5, m \in 1..30 : BToInt(BPowMod(B(a), B(e), B(m))) = (a ^ e) % m
ASSUME \A a \in 1..60, m \in 2..60 :
          BGcd(B(a), B(m)) = BOne => (BToInt(BInvMod(B(a), B(m))) * a) % m = 1 /\ BToInt(BInvMod(B(a), B(m))) < m
ASSUME \A a, b \in 1..60 : LET g == BToInt(BGcd(B(a), B(b))) IN
          a % g = 0 /\ b % g = 0 /\ \A d \in g + 1..60 : ~(a % d = 0 /\ b % d = 0)
ASSUME \A a \in 0..300 : /\ (BBitLen(B(a)) = 0 <=> a = 0)
                         /\ (a > 0 => 2 ^ (BBitLen(B(a)) - 1) <= a /\ a < 2 ^ BBitLen(B(a)))
                         /\ \A i \in 0..9 : BBit(B(a), i) = (a \div 2 ^ i) % 2
                         /\ \A k \in 0..5 : BToInt(BShl(B(a), k)) = a * 2 ^ k /\ BToInt(BShr(B(a), k)) = a \div 2 ^ k
                         /\ LET r == BToInt(BSqrtFloor(B(a))) IN r * r <= a /\ (r + 1) * (r + 1) > a
                         /\ BIsOdd(B(a)) = (a % 2 = 1)
ASSUME \A a \in 2..400 : BIsProbablePrime(B(a)) = (\A d \in 2..a - 1 : a % d # 0)
ASSUME BFromBytes(<<0, 0, 1, 2>>) = <<1, 2>> /\ BToBytes(<<1, 2>>, 4) = <<0, 0, 1, 2>> /\ BToBytes(<< >>, 2) = <<0, 0>>
ASSUME BToBytesLE(<<1, 2>>, 4) = <<2, 1, 0, 0>> /\ BFromBytesLE(<<2, 1, 0, 0>>) = <<1, 2>>
\* large operands: algebraic identities on 256- and 521-bit values
P256 == FromHex("fffffffffffffffffffffffffffffffffffffffffffffffffffffffefffffc2f")
X1 == SHA256(Utf8("x1"))
X2 == BFromBytes(SHA512(Utf8("x2")))
ASSUME BMod(BMul(BInvMod(X1, P256), X1), P256) = BOne
ASSUME BSub(BAdd(X1, X2), X2) = BFromBytes(X1)
ASSUME BAdd(BMul(BDiv(X2, P256), P256), BMod(X2, P256)) = X2
ASSUME BPowMod(X1, BSub(P256, BOne), P256) = BOne   \* Fermat
ASSUME BIsProbablePrime(P256) /\ ~BIsProbablePrime(BAdd(P256, BTwo))
=============================================================================
