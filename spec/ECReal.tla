------------------------------- MODULE ECReal --------------------------------
(***************************************************************************)
(* ECGroup over BigNat field elements: the same chord-and-tangent          *)
(* definitions as ECToy, at the size of the catalogued curves.             *)
(* A curve here is a record [p, a, b, gx, gy, n, h] of BigNat values       *)
(* (all BigNat).                                                      *)
(***************************************************************************)
EXTENDS Integers, Sequences, BigNat, Hash

RInv(a, p) == BInvMod(a, p)
ECR == INSTANCE ECGroup WITH FAdd <- BAddMod, FSub <- BSubMod, FMul <- BMulMod, FInv <- RInv, FNum <- BFromInt

BitsOf(k) == [i \in 1..BBitLen(k) |-> BBit(k, BBitLen(k) - i)]
G(c) == ECR!Pt(c.gx, c.gy)
\* k*P for a natural k (any size: the group has order n, so k is reduced first)
RMul(c, k, P) == ECR!MulBits(c, BitsOf(BMod(k, c.n)), P)
RMulG(c, k) == RMul(c, k, G(c))

\* SEC 1 v2 3.1.1.2.1, elliptic curve domain parameter validation over F_p
\* (MOV and anomalous conditions are separate predicates)
ValidCurve(c) ==
    /\ BIsProbablePrime(c.p) /\ BLt(c.a, c.p) /\ BLt(c.b, c.p)
    /\ ECR!NonSingular(c)
    /\ BLt(c.gx, c.p) /\ BLt(c.gy, c.p) /\ ECR!OnCurve(c, G(c))
    /\ BIsProbablePrime(c.n)
    /\ ECR!MulBits(c, BitsOf(c.n), G(c)) = ECR!Inf
    /\ c.h = BDiv(BAdd(BAdd(c.p, BOne), BSqrtFloor(BMul(B(4), c.p))), c.n)
    /\ c.n # c.p

Secp256k1 == [p  |-> FromHex("fffffffffffffffffffffffffffffffffffffffffffffffffffffffefffffc2f"),
              a  |-> BZero, b |-> B(7),
              gx |-> FromHex("79be667ef9dcbbac55a06295ce870b07029bfcdb2dce28d959f2815b16f81798"),
              gy |-> FromHex("483ada7726a3c4655da4fbfc0e1108a8fd17b448a68554199c47d08ffb10d4b8"),
              n  |-> FromHex("fffffffffffffffffffffffffffffffebaaedce6af48a03bbfd25e8cd0364141"),
              h  |-> BOne]
\* NIST P-256 (FIPS 186-4 D.1.2.3)
Secp256r1 == [p  |-> FromHex("ffffffff00000001000000000000000000000000ffffffffffffffffffffffff"),
              a  |-> FromHex("ffffffff00000001000000000000000000000000fffffffffffffffffffffffc"),
              b  |-> FromHex("5ac635d8aa3a93e7b3ebbd55769886bc651d06b0cc53b0f63bce3c3e27d2604b"),
              gx |-> FromHex("6b17d1f2e12c4247f8bce6e563a440f277037d812deb33a0f4a13945d898c296"),
              gy |-> FromHex("4fe342e2fe1a7f9b8ee7eb4a7c0f9e162bce33576b315ececbb6406837bf51f5"),
              n  |-> FromHex("ffffffff00000000ffffffffffffffffbce6faada7179e84f3b9cac2fc632551"),
              h  |-> BOne]

\* points in traces: {"inf": 1} or {"x": hex, "y": hex}
PtOf(j) == IF "inf" \in DOMAIN j THEN ECR!Inf ELSE ECR!Pt(BFromBytes(FromHex(j.x)), BFromBytes(FromHex(j.y)))
N(hexs) == BFromBytes(FromHex(hexs))
CurveOf(j) == [p |-> N(j.p), a |-> N(j.a), b |-> N(j.b), gx |-> N(j.gx), gy |-> N(j.gy), n |-> N(j.n), h |-> N(j.h)]

\* SEC 1 2.3.3 / 2.3.4 octet string <-> point, over a field of byte length plen
PLen(c) == (BBitLen(c.p) + 7) \div 8
SecCompressed(c, P)   == <<IF BIsOdd(P.y) THEN 3 ELSE 2>> \o BToBytes(P.x, PLen(c))
SecUncompressed(c, P) == <<4>> \o BToBytes(P.x, PLen(c)) \o BToBytes(P.y, PLen(c))
=============================================================================
