------------------------------ MODULE DERModel -------------------------------
(* The model over module DER (see its header): the environment feeds the strict parser bytes. *)
EXTENDS DER

\* ---- the model ---------------------------------------------------------------------------
CONSTANTS Alphabet, MaxLen
VARIABLES input, pst
dvars == <<input, pst>>
\* states that can no longer reach acceptance within MaxLen are not extended (they are still checked)
Feasible == pst.stage = "bad" \/ (pst.seqleft <= MaxLen - Len(input) /\ pst.left <= MaxLen - Len(input))
DInit == input = << >> /\ pst = PInit
DNext == /\ pst.stage # "bad" /\ Len(input) < MaxLen /\ Feasible
         /\ \E b \in Alphabet : input' = Append(input, b) /\ pst' = Step(pst, b)
DSpec == DInit /\ [][DNext]_dvars

\* an accepted string is THE encoding of the value parsed from it
Canonical == Accepting(pst) => DerSig(pst.r, pst.s) = input
\* the machine and the one-shot function agree
Agree == pst = Parse(input)
\* the serializer's image is accepted (checked on the values the model reaches)
RoundTrip == Accepting(pst) => LET st2 == Parse(DerSig(pst.r, pst.s)) IN Accepting(st2) /\ st2.r = pst.r /\ st2.s = pst.s
Emit == PrintT(<<"DER", input, Accepting(pst)>>)
=============================================================================
