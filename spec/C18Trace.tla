------------------------------ MODULE C18Trace -------------------------------
(***************************************************************************)
(* Code -> specification for C18.  Events recorded from btclib:            *)
(*  size     {hex, size, weight, vsize}                    Tx              *)
(*  block    {hex, size, stripped, weight, vsize}          Block           *)
(*  inweight {script, witness[], weight}                   input_weight    *)
(*  fee      {vsize, rate, out}                            fee_from_vsize  *)
(*  package  {vsize, rate, avsize, afee, out}              package_fee     *)
(*  btc      {neg, digits, exp, out: sats | "refused"}     sats_from_btc   *)
(*  rate     {neg, digits, exp, out: sat/kvB | "refused"}  FeeRate.from_.. *)
(*  nonnumber {fn, out}  a quote that spells no decimal number: refused   *)
(*  tobtc    {sats, digits, exp}                           btc_from_sats   *)
(*  torate   {rate, digits, exp}                           sats_per_vbyte  *)
(*  dust     {spk, rate, out}                              dust_threshold  *)
(*  estimate {tx, types[], weight, vsize}                  Psbt estimates  *)
(*  signed   {tx, est_weight, in_total, rate, fee}         sign+finalize   *)
(*  fund     {tx (payments only, unsigned), types[], in_total, rate,       *)
(*            dust_rate, change_spk | "", outcome, fee, change, index,     *)
(*            final (unsigned hex of what was built)}      build_psbt      *)
(*  total    {ctx, values[], accepted}   Tx / Psbt v0 / v2 / build_psbt   *)
(* Numbers are hex naturals (WN), byte strings hex (FromHex).              *)
(***************************************************************************)
EXTENDS Accounting, WireMore, EvBase

TxOK(b) == PTx(b).ok /\ SerTx(PTx(b).v, TRUE) = b
SerBlockStripped(blk) == SerHeader(blk.header) \o CompactSize(Len(blk.txs)) \o Concat([j \in 1..Len(blk.txs) |-> SerTx(blk.txs[j], FALSE)])
Dec(e) == <<e.neg, WN(e.digits), e.exp>>
Sum3(tx) == FoldLeft(LAMBDA a, o : BAdd(a, o.value), BZero, tx.vout)
WithChange(tx, spk) == [tx EXCEPT !.vout = Append(tx.vout, [value |-> BZero, spk |-> spk])]
VS(w) == (w + 3) \div 4

FundExpected(e) ==
  LET tx == PTx(FromHex(e.tx)).v  spk == FromHex(e.change_spk)  has == e.has_change
      vsWithout == VS(EstimatedWeight(tx, e.types))
      vsWith == IF has THEN VS(EstimatedWeight(WithChange(tx, spk), e.types)) ELSE vsWithout
  IN Fund(WN(e.in_total), Sum3(tx), WN(e.rate), has, vsWith, vsWithout, DustThreshold(spk, WN(e.dust_rate)), Len(tx.vout))
FundLogged(e) == IF e.outcome = "refused" THEN <<"refused">> ELSE <<"ok", WN(e.fee), WN(e.change), e.index >= 0>>
\* independent of the decision procedure: what was built conserves value and is the payments plus (maybe) the change
FundBuilt(e) ==
  e.outcome = "ok" =>
    LET tx == PTx(FromHex(e.tx)).v  f == PTx(FromHex(e.final)).v IN
      /\ WN(e.in_total) = BAdd(Sum3(f), WN(e.fee))
      /\ IF e.index >= 0 THEN /\ Len(f.vout) = Len(tx.vout) + 1 /\ f.vout[e.index + 1].value = WN(e.change)
                              /\ f.vout[e.index + 1].spk = FromHex(e.change_spk)
                              /\ SubSeq(f.vout, 1, Len(tx.vout)) = tx.vout
                         ELSE f.vout = tx.vout /\ WN(e.change) = BZero
      /\ f.vin = tx.vin

Check(e) ==
  CASE e.op = "size" -> LET b == FromHex(e.hex) IN
         /\ TxOK(b) /\ e.size = Len(b)
         /\ e.weight = 3 * StrippedSize(PTx(b).v) + Len(b) /\ e.vsize = VS(e.weight)
    [] e.op = "block" -> LET b == FromHex(e.hex)  blk == PBlock(b) IN
         /\ blk.ok /\ e.size = Len(b) /\ e.stripped = Len(SerBlockStripped(blk.v))
         /\ e.weight = 3 * e.stripped + e.size /\ e.vsize = VS(e.weight)
    [] e.op = "inweight" -> e.weight = 4 * (36 + Len(VarBytes(FromHex(e.script))) + 4)
                                        + Len(SerWitness([k \in 1..Len(e.witness) |-> FromHex(e.witness[k])]))
    [] e.op = "fee" -> WN(e.out) = Fee(e.vsize, WN(e.rate))
    [] e.op = "package" -> WN(e.out) = PackageFee(e.vsize, WN(e.rate), e.avsize, WN(e.afee))
    [] e.op = "btc" -> LET r == SatsFromBtc(e.neg, WN(e.digits), e.exp) IN
                          IF r[1] = "refused" THEN e.out = "refused" ELSE e.out \notin {"refused", "foreign"} /\ WN(e.out) = r[2]
    [] e.op = "rate" -> LET r == RateFromSatsPerVb(e.neg, WN(e.digits), e.exp) IN
                          IF r[1] = "refused" THEN e.out = "refused" ELSE e.out \notin {"refused", "foreign"} /\ WN(e.out) = r[2]
    [] e.op = "nonnumber" -> e.out = "refused"     \* what spells no number, or a number outside the money range
    [] e.op = "tobtc" -> Scaled(WN(e.digits), e.exp, 8) = <<TRUE, WN(e.sats)>>
    [] e.op = "torate" -> Scaled(WN(e.digits), e.exp, 3) = <<TRUE, WN(e.rate)>>
    [] e.op = "dust" -> WN(e.out) = DustThreshold(FromHex(e.spk), WN(e.rate))
    [] e.op = "estimate" -> LET tx == PTx(FromHex(e.tx)).v IN
         /\ e.weight = EstimatedWeight(tx, e.types) /\ e.vsize = VS(e.weight)
    [] e.op = "signed" -> LET b == FromHex(e.tx)  tx == PTx(b).v IN
         /\ TxOK(b) /\ Weight(tx) <= e.est_weight
         /\ WN(e.in_total) = BAdd(Sum3(tx), WN(e.fee))
         /\ BGe(WN(e.fee), Fee(VSize(tx), WN(e.rate)))
    [] e.op = "fund" -> FundExpected(e) = FundLogged(e) /\ FundBuilt(e)
    \* output amounts handed to a transaction, to a psbt of either version or to the builder: accepted exactly when each is in the money range and so is their sum
    [] e.op = "total" -> LET vs == [j \in 1..Len(e.values) |-> WN(e.values[j])] IN
         e.accepted = ((\A j \in 1..Len(vs) : BLe(vs[j], MaxMoney)) /\ BLe(FoldLeft(LAMBDA a, x : BAdd(a, x), BZero, vs), MaxMoney))
EventOK == i > 0 => Check(Trace[i])
Diag == i > 0 => PrintT(<<"DIAG", i, <<Trace[i].op,
                  CASE Trace[i].op = "fund" -> <<FundExpected(Trace[i]), FundLogged(Trace[i]), FundBuilt(Trace[i])>>
                    [] Trace[i].op = "estimate" -> EstimatedWeight(PTx(FromHex(Trace[i].tx)).v, Trace[i].types)
                    [] Trace[i].op = "fee" -> Fee(Trace[i].vsize, WN(Trace[i].rate))
                    [] Trace[i].op = "dust" -> DustThreshold(FromHex(Trace[i].spk), WN(Trace[i].rate))
                    [] Trace[i].op = "btc" -> SatsFromBtc(Trace[i].neg, WN(Trace[i].digits), Trace[i].exp)
                    [] Trace[i].op = "rate" -> RateFromSatsPerVb(Trace[i].neg, WN(Trace[i].digits), Trace[i].exp)
                    [] Trace[i].op = "size" -> <<PTx(FromHex(Trace[i].hex)).ok, Len(FromHex(Trace[i].hex))>>
                    [] OTHER -> "-">>>>)
=============================================================================
