---------------------------- MODULE NumberTheory ----------------------------
(***************************************************************************)
(* Modular arithmetic on TLC integers, by definition (CHOOSE / \E), for    *)
(* the toy instantiation and for checking btclib.number_theory on every    *)
(* small operand and modulus.                                              *)
(***************************************************************************)
EXTENDS Integers, FiniteSets

Mod(a, m) == a % m                       \* TLC's % is the mathematical one for m > 0 (result in 0..m-1)
IsPrime(n) == n > 1 /\ \A d \in 2..n - 1 : d * d > n \/ n % d # 0
Divides(d, n) == n % d = 0
Gcd(a, b) == CHOOSE g \in 1..(IF a > b THEN a ELSE b) + 1 :
                /\ (a = 0 \/ Divides(g, a)) /\ (b = 0 \/ Divides(g, b)) /\ (a # 0 \/ b # 0)
                /\ \A h \in g + 1..(IF a > b THEN a ELSE b) : ~((a = 0 \/ Divides(h, a)) /\ (b = 0 \/ Divides(h, b)))
HasInv(a, m) == \E x \in 0..m - 1 : (Mod(a, m) * x) % m = 1 % m
Inv(a, m) == CHOOSE x \in 0..m - 1 : (Mod(a, m) * x) % m = 1 % m
Sqrts(a, p) == {x \in 0..p - 1 : (x * x) % p = Mod(a, p)}
IsSquare(a, p) == Sqrts(a, p) # {}
\* Legendre symbol for an odd prime p
Legendre(a, p) == IF Mod(a, p) = 0 THEN 0 ELSE IF IsSquare(a, p) THEN 1 ELSE -1
=============================================================================
