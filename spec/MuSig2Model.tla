------------------------------ MODULE MuSig2Model ------------------------------
(* A MuSig2 session as a state machine on a toy curve (y^2 = x^3 + 7 over F_43, prime order 31) with a toy hash, so
   that TLC runs EVERY choice of private keys (duplicates included), every tweak sequence of up to MaxTweaks plain and
   x-only tweaks, and several secret nonces: each signer publishes its nonce, the nonces are aggregated, each signer
   signs, everybody verifies every partial signature, the coordinator aggregates (with an adaptor or not).
   Invariants: honest parties always agree -- every partial signature verifies and the aggregate is a valid BIP340
   signature for the tweaked aggregate key; an adapted pre-signature is valid and reveals the adaptor secret.
   The parity bookkeeping (gacc, tacc, negated nonces and keys) is thereby checked for every key, not a sample. *)
EXTENDS MuSig2, TLC
CONSTANTS NSigners, MaxTweaks, TweakVals, NonceVals, AdaptorVals
C == [p |-> B(43), a |-> BZero, b |-> B(7), gx |-> B(2), gy |-> B(12), n |-> B(31), h |-> BOne]
HFT == HF("toy")
Msg == <<1, 2, 3>>
VARIABLES keys, tweaks, k1, k2, adaptor, phase, pubnonces, psigs, final
vars == <<keys, tweaks, k1, k2, adaptor, phase, pubnonces, psigs, final>>
TweakSeqs == UNION {[1..m -> TweakVals \X BOOLEAN] : m \in 0..MaxTweaks}
Init == /\ keys \in [1..NSigners -> 1..30] /\ tweaks \in TweakSeqs
        /\ k1 \in [1..NSigners -> NonceVals] /\ k2 \in [1..NSigners -> NonceVals] /\ adaptor \in AdaptorVals
        /\ phase = "nonces" /\ pubnonces = << >> /\ psigs = << >> /\ final = << >>
Pks == [j \in 1..NSigners |-> CBytes(C, RMulG(C, B(keys[j])))]
Tw == [j \in 1..Len(tweaks) |-> <<B(tweaks[j][1]), tweaks[j][2]>>]
AdaptorPt == IF adaptor = 0 THEN ECR!Inf ELSE RMulG(C, B(adaptor))
Ses == Session(C, HFT, Pks, Tw, NonceAgg(C, pubnonces), AdaptorPt, Msg)
Round1 == /\ phase = "nonces"
          /\ pubnonces' = [j \in 1..NSigners |-> <<CBytes(C, RMulG(C, B(k1[j]))), CBytes(C, RMulG(C, B(k2[j])))>>]
          /\ phase' = "sign" /\ UNCHANGED <<keys, tweaks, k1, k2, adaptor, psigs, final>>
\* a session whose tweaked key is the point at infinity does not assemble (refused), and ends there
Round2 == /\ phase = "sign"
          /\ IF ~Ses.ok THEN phase' = "refused" /\ UNCHANGED psigs
             ELSE /\ psigs' = [j \in 1..NSigners |-> PartialSign(C, HFT, Pks, Ses, B(keys[j]), B(k1[j]), B(k2[j]))]
                  /\ phase' = "aggregate"
          /\ UNCHANGED <<keys, tweaks, k1, k2, adaptor, pubnonces, final>>
Aggregate == /\ phase = "aggregate"
             /\ final' = PartialAgg(C, Ses, psigs) /\ phase' = "done"
             /\ UNCHANGED <<keys, tweaks, k1, k2, adaptor, pubnonces, psigs>>
Next == Round1 \/ Round2 \/ Aggregate \/ (phase \in {"done", "refused"} /\ UNCHANGED vars)
Spec == Init /\ [][Next]_vars
\* liveness: when every party takes its step (weak fairness), the session ends: it is done, or refused as BIP327 allows
FairSpec == Spec /\ WF_vars(Round1) /\ WF_vars(Round2) /\ WF_vars(Aggregate)
Completes == <>(phase \in {"done", "refused"})
\* (on 31 points the honest nonces sum to infinity now and then -- probability 2^-256 on secp256k1 -- and BIP327 lets that session fail)
EveryPartialVerifies == (phase \in {"aggregate", "done"} /\ ~Ses.degenerate) =>
      \A j \in 1..NSigners : PartialVerify(C, HFT, Pks, Ses, psigs[j], pubnonces[j], Pks[j])
AggregateIsValid == (phase = "done" /\ adaptor = 0 /\ ~Ses.degenerate) => Verify(C, HFT, Ses.Q.x, Msg, final[1], final[2])
\* with an adaptor the pre-signature does not verify until adapted, then it does, and the secret can be read back
AdaptorCompletes == (phase = "done" /\ adaptor # 0 /\ ~Ses.degenerate) =>
      LET s == Adapt(C, Ses, final[2], B(adaptor)) IN
        /\ Verify(C, HFT, Ses.Q.x, Msg, final[1], s)
        /\ Extract(C, Ses, s, final[2]) = B(adaptor)
\* the aggregate key does not depend on anything but the keys, their order and the tweaks (it is what key_agg answers)
KeyIsTweakedSum == phase = "done" => ~Ses.Q.inf
=============================================================================
