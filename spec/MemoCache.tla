----------------------------- MODULE MemoCache ------------------------------
(***************************************************************************)
(* "Every pure function of the library returns the same answer regardless  *)
(* of what was computed before, of cache contents, of the backend having   *)
(* been switched back and forth, and of other threads" (C20, last clause). *)
(*                                                                         *)
(* Design model of a memoized, backend-dispatching function: threads call  *)
(* with a key; a call is a lookup (Hit, or Miss followed later by Compute  *)
(* and Store, other threads running in between), the cache is an LRU of    *)
(* capacity Cap, the environment may clear it or flip the backend at any   *)
(* time.  F is the function being memoized: the property is that every     *)
(* value ever returned for k is F[k].                                      *)
(***************************************************************************)
EXTENDS Integers, Sequences, FiniteSets, TLC

CONSTANTS Threads, Keys, Cap

F(k) == <<"value-of", k>>     \* the memoized function (any injective stand-in)

VARIABLES cache,     \* sequence of <<key, value>>, most recently used last
          pc,        \* thread -> "idle" | "miss" | "computed"
          arg, val,  \* per thread: key being served, value computed
          serving,   \* backend flag
          returned   \* set of <<key, value>> ever returned to a caller
vars == <<cache, pc, arg, val, serving, returned>>

Init == /\ cache = << >> /\ pc = [t \in Threads |-> "idle"]
        /\ arg = [t \in Threads |-> CHOOSE k \in Keys : TRUE]
        /\ val = [t \in Threads |-> <<"none">>]
        /\ serving \in BOOLEAN /\ returned = {}

Pos(k) == {j \in 1..Len(cache) : cache[j][1] = k}
Without(j) == SubSeq(cache, 1, j - 1) \o SubSeq(cache, j + 1, Len(cache))

Hit(t, k) ==
    /\ pc[t] = "idle" /\ Pos(k) # {}
    /\ LET j == CHOOSE x \in Pos(k) : TRUE IN
          /\ cache' = Append(Without(j), cache[j])
          /\ returned' = returned \cup {<<k, cache[j][2]>>}
    /\ UNCHANGED <<pc, arg, val, serving>>

Miss(t, k) ==
    /\ pc[t] = "idle" /\ Pos(k) = {}
    /\ pc' = [pc EXCEPT ![t] = "miss"] /\ arg' = [arg EXCEPT ![t] = k]
    /\ UNCHANGED <<cache, val, serving, returned>>

\* the computation reads the backend flag, and answers F either way
Compute(t) ==
    /\ pc[t] = "miss"
    /\ val' = [val EXCEPT ![t] = F(arg[t])] /\ pc' = [pc EXCEPT ![t] = "computed"]
    /\ UNCHANGED <<cache, arg, serving, returned>>

Store(t) ==
    /\ pc[t] = "computed"
    /\ LET k == arg[t]
           base == IF Pos(k) # {} THEN Without(CHOOSE x \in Pos(k) : TRUE) ELSE cache
           kept == IF Len(base) >= Cap THEN Tail(base) ELSE base
       IN cache' = Append(kept, <<k, val[t]>>)
    /\ returned' = returned \cup {<<arg[t], val[t]>>}
    /\ pc' = [pc EXCEPT ![t] = "idle"]
    /\ UNCHANGED <<arg, val, serving>>

Clear == cache' = << >> /\ UNCHANGED <<pc, arg, val, serving, returned>>
Flip  == serving' = ~serving /\ UNCHANGED <<cache, pc, arg, val, returned>>

Next == \/ \E t \in Threads, k \in Keys : Hit(t, k) \/ Miss(t, k)
        \/ \E t \in Threads : Compute(t) \/ Store(t)
        \/ Clear \/ Flip
Spec == Init /\ [][Next]_vars

Pure == \A r \in returned : r[2] = F(r[1])
CacheSound == \A j \in 1..Len(cache) : cache[j][2] = F(cache[j][1])
CacheBounded == Len(cache) <= Cap /\ \A j, k \in 1..Len(cache) : cache[j][1] = cache[k][1] => j = k
=============================================================================
