-------------------------------- MODULE Miniscript --------------------------------
(***************************************************************************)
(* C15: miniscript (BIP379).  Definitions only.                            *)
(* An expression is a tree (records, as JSON gives them): {f, subs[], ...} *)
(*   leaves:  {f:"0"} {f:"1"} {f:"pk_k", key} {f:"pk_h", key}              *)
(*            {f:"older", n} {f:"after", n} (n a hex natural)              *)
(*            {f:"sha256"|"hash256"|"ripemd160"|"hash160", h}              *)
(*            {f:"multi"|"multi_a", k, keys[]}                             *)
(*   inner:   and_v and_b or_b or_c or_d or_i (2 subs) andor (3 subs)      *)
(*            thresh {k, subs[]}                                           *)
(*   wrappers a s c t d v j n l u as nodes {f:"w:a", subs[X]} ...          *)
(* (pk(K) = c:pk_k(K), pkh(K) = c:pk_h(K), and_n(X,Y) = andor(X,Y,0) are   *)
(*  expanded by whoever writes the tree.)                                  *)
(*  Script(e): the script the expression compiles to (BIP379's table).     *)
(*  Holds(e, av): the spending condition, for what is available:           *)
(*     av = [sigs: set of keys, pre: set of digests, version, locktime,    *)
(*           sequence]                                                     *)
(***************************************************************************)
EXTENDS ScriptBytes, Hash, BigNat

\* ---- pushes ----
NumBytes(n) ==             \* minimal script number of a BigNat (non-negative)
  IF BIsZero(n) THEN << >>
  ELSE LET len == (BBitLen(n) + 7) \div 8  le == BToBytesLE(n, len) IN IF le[len] >= 128 THEN Append(le, 0) ELSE le
PushData(b) == IF Len(b) <= 75 THEN <<Len(b)>> \o b ELSE IF Len(b) <= 255 THEN <<76, Len(b)>> \o b ELSE <<77, Len(b) % 256, Len(b) \div 256>> \o b
PushNum(n) == IF BIsZero(n) THEN <<0>> ELSE IF BLe(n, B(16)) THEN <<80 + BToInt(n)>> ELSE PushData(NumBytes(n))
NatH(h) == BFromBytes(FromHex(h))

\* the position of the last opcode of a script
RECURSIVE LastOpFrom(_, _, _)
LastOpFrom(s, pc, last) == IF pc > Len(s) THEN last ELSE LastOpFrom(s, GetOp(s, pc).next, pc)
LastOpPos(s) == LastOpFrom(s, 1, 0)
\* v: the VERIFY form of a trailing EQUAL / NUMEQUAL / CHECKSIG / CHECKMULTISIG, a separate OP_VERIFY otherwise
Verified(s) ==
  LET p == LastOpPos(s)  c == IF p = 0 THEN -1 ELSE s[p] IN
    IF p > 0 /\ p = Len(s) /\ c \in {135, 156, 172, 174} THEN SubSeq(s, 1, Len(s) - 1) \o <<c + 1>> ELSE s \o <<105>>

HashScript(op, size, h) == <<130>> \o PushNum(B(32)) \o <<136>> \o <<op>> \o PushData(h) \o <<135>>
RECURSIVE Script(_)
Script(e) ==
  LET f == e.f  S(j) == Script(e.subs[j]) IN
  CASE f = "0" -> <<0>>
    [] f = "1" -> <<81>>
    [] f = "pk_k" -> PushData(FromHex(e.key))
    [] f = "pk_h" -> <<118, 169>> \o PushData(Hash160(FromHex(e.key))) \o <<136>>
    [] f = "older" -> PushNum(NatH(e.n)) \o <<178>>
    [] f = "after" -> PushNum(NatH(e.n)) \o <<177>>
    [] f = "sha256" -> HashScript(168, 32, FromHex(e.h))
    [] f = "hash256" -> HashScript(170, 32, FromHex(e.h))
    [] f = "ripemd160" -> HashScript(166, 20, FromHex(e.h))
    [] f = "hash160" -> HashScript(169, 20, FromHex(e.h))
    [] f = "multi" -> PushNum(B(e.k)) \o FoldLeft(LAMBDA a, k : a \o PushData(FromHex(k)), << >>, e.keys) \o PushNum(B(Len(e.keys))) \o <<174>>
    [] f = "multi_a" -> PushData(FromHex(e.keys[1])) \o <<172>> \o FoldLeft(LAMBDA a, k : a \o PushData(FromHex(k)) \o <<186>>, << >>, Tail(e.keys)) \o PushNum(B(e.k)) \o <<156>>
    [] f = "andor" -> S(1) \o <<100>> \o S(3) \o <<103>> \o S(2) \o <<104>>
    [] f = "and_v" -> S(1) \o S(2)
    [] f = "and_b" -> S(1) \o S(2) \o <<154>>
    [] f = "or_b" -> S(1) \o S(2) \o <<155>>
    [] f = "or_c" -> S(1) \o <<100>> \o S(2) \o <<104>>
    [] f = "or_d" -> S(1) \o <<115, 100>> \o S(2) \o <<104>>
    [] f = "or_i" -> <<99>> \o S(1) \o <<103>> \o S(2) \o <<104>>
    [] f = "thresh" -> S(1) \o FoldLeft(LAMBDA a, j : a \o Script(e.subs[j]) \o <<147>>, << >>, [j \in 1..(Len(e.subs) - 1) |-> j + 1]) \o PushNum(B(e.k)) \o <<135>>
    [] f = "w:a" -> <<107>> \o S(1) \o <<108>>
    [] f = "w:s" -> <<124>> \o S(1)
    [] f = "w:c" -> S(1) \o <<172>>
    [] f = "w:t" -> S(1) \o <<81>>
    [] f = "w:d" -> <<118, 99>> \o S(1) \o <<104>>
    [] f = "w:v" -> Verified(S(1))
    [] f = "w:j" -> <<130, 146, 99>> \o S(1) \o <<104>>
    [] f = "w:n" -> S(1) \o <<146>>
    [] f = "w:l" -> <<99, 0, 103>> \o S(1) \o <<104>>
    [] f = "w:u" -> <<99>> \o S(1) \o <<103, 0, 104>>

\* ---- the spending condition ----
\* BIP65 / BIP112 as the interpreter enforces them on the transaction being built
T5e8 == B(500000000)
AfterOK(n, av) == (BLt(n, T5e8) = BLt(av.locktime, T5e8)) /\ BLe(n, av.locktime) /\ av.sequence # BSub(BPow2(32), BOne)
OlderOK(n, av) == /\ BGe(av.version, B(2)) /\ BAnd(av.sequence, BPow2(31)) = BZero
                  /\ LET mask == BOr(BPow2(22), B(65535))  a == BAnd(n, mask)  b == BAnd(av.sequence, mask) IN
                       (BLt(a, BPow2(22)) = BLt(b, BPow2(22))) /\ BLe(a, b)
Count(S) == FoldLeft(LAMBDA a, x : a + (IF x THEN 1 ELSE 0), 0, S)
RECURSIVE Holds(_, _)
Holds(e, av) ==
  LET f == e.f  X(j) == Holds(e.subs[j], av) IN
  CASE f = "0" -> FALSE
    [] f = "1" -> TRUE
    [] f \in {"pk_k", "pk_h"} -> e.key \in av.sigs
    [] f = "older" -> OlderOK(NatH(e.n), av)
    [] f = "after" -> AfterOK(NatH(e.n), av)
    [] f \in {"sha256", "hash256", "ripemd160", "hash160"} -> e.h \in av.pre
    [] f \in {"multi", "multi_a"} -> Count([j \in 1..Len(e.keys) |-> e.keys[j] \in av.sigs]) >= e.k
    [] f = "andor" -> (X(1) /\ X(2)) \/ X(3)
    [] f \in {"and_v", "and_b"} -> X(1) /\ X(2)
    [] f \in {"or_b", "or_c", "or_d", "or_i"} -> X(1) \/ X(2)
    [] f = "thresh" -> Count([j \in 1..Len(e.subs) |-> Holds(e.subs[j], av)]) >= e.k
    [] OTHER -> X(1)                                  \* every wrapper keeps the condition of what it wraps

\* ---- the type system, correctness half (BIP379's table: base type B / V / K / W and the modifiers z o n d u) ----
\* T(t, mods): a type; Bad: the expression is not well typed.  ctx: "P2WSH" | "tapscript" (d: has u only in tapscript)
T(t, mods) == [t |-> t, m |-> mods]
BadType == [t |-> "X", m |-> {}]
Is(x, t, need) == x.t = t /\ need \subseteq x.m
If(c, S) == IF c THEN S ELSE {}
RECURSIVE TypeOf(_, _)
TypeOf(e, ctx) ==
  LET f == e.f  X(j) == TypeOf(e.subs[j], ctx)  has(x, c) == c \in x.m IN
  CASE f = "0" -> T("B", {"z", "u", "d"})
    [] f = "1" -> T("B", {"z", "u"})
    [] f = "pk_k" -> T("K", {"o", "n", "d", "u"})
    [] f = "pk_h" -> T("K", {"n", "d", "u"})
    [] f \in {"older", "after"} -> T("B", {"z"})
    [] f \in {"sha256", "hash256", "ripemd160", "hash160"} -> T("B", {"o", "n", "d", "u"})
    [] f = "multi" -> IF ctx = "P2WSH" /\ e.k >= 1 /\ e.k <= Len(e.keys) /\ Len(e.keys) <= 20 THEN T("B", {"n", "d", "u"}) ELSE BadType
    [] f = "multi_a" -> IF ctx = "tapscript" /\ e.k >= 1 /\ e.k <= Len(e.keys) THEN T("B", {"d", "u"}) ELSE BadType
    [] f = "andor" -> LET x == X(1)  y == X(2)  z == X(3) IN
         IF Is(x, "B", {"d", "u"}) /\ y.t = z.t /\ y.t \in {"B", "K", "V"}
           THEN T(y.t, If(has(x, "z") /\ has(y, "z") /\ has(z, "z"), {"z"})
                       \cup If((has(x, "z") /\ has(y, "o") /\ has(z, "o")) \/ (has(x, "o") /\ has(y, "z") /\ has(z, "z")), {"o"})
                       \cup If(has(y, "u") /\ has(z, "u"), {"u"}) \cup If(has(z, "d"), {"d"}))
           ELSE BadType
    [] f = "and_v" -> LET x == X(1)  y == X(2) IN
         IF x.t = "V" /\ y.t \in {"B", "K", "V"}
           THEN T(y.t, If(has(x, "z") /\ has(y, "z"), {"z"}) \cup If((has(x, "z") /\ has(y, "o")) \/ (has(y, "z") /\ has(x, "o")), {"o"})
                       \cup If(has(x, "n") \/ (has(x, "z") /\ has(y, "n")), {"n"}) \cup If(has(y, "u"), {"u"}))
           ELSE BadType
    [] f = "and_b" -> LET x == X(1)  y == X(2) IN
         IF x.t = "B" /\ y.t = "W"
           THEN T("B", If(has(x, "z") /\ has(y, "z"), {"z"}) \cup If((has(x, "z") /\ has(y, "o")) \/ (has(y, "z") /\ has(x, "o")), {"o"})
                       \cup If(has(x, "n") \/ (has(x, "z") /\ has(y, "n")), {"n"}) \cup If(has(x, "d") /\ has(y, "d"), {"d"}) \cup {"u"})
           ELSE BadType
    [] f = "or_b" -> LET x == X(1)  z == X(2) IN
         IF Is(x, "B", {"d"}) /\ Is(z, "W", {"d"})
           THEN T("B", If(has(x, "z") /\ has(z, "z"), {"z"}) \cup If((has(x, "z") /\ has(z, "o")) \/ (has(z, "z") /\ has(x, "o")), {"o"}) \cup {"d", "u"})
           ELSE BadType
    [] f = "or_c" -> LET x == X(1)  z == X(2) IN
         IF Is(x, "B", {"d", "u"}) /\ z.t = "V" THEN T("V", If(has(x, "z") /\ has(z, "z"), {"z"}) \cup If(has(x, "o") /\ has(z, "z"), {"o"})) ELSE BadType
    [] f = "or_d" -> LET x == X(1)  z == X(2) IN
         IF Is(x, "B", {"d", "u"}) /\ z.t = "B"
           THEN T("B", If(has(x, "z") /\ has(z, "z"), {"z"}) \cup If(has(x, "o") /\ has(z, "z"), {"o"}) \cup If(has(z, "d"), {"d"}) \cup If(has(z, "u"), {"u"}))
           ELSE BadType
    [] f = "or_i" -> LET x == X(1)  z == X(2) IN
         IF x.t = z.t /\ x.t \in {"B", "K", "V"}
           THEN T(x.t, If(has(x, "z") /\ has(z, "z"), {"o"}) \cup If(has(x, "u") /\ has(z, "u"), {"u"}) \cup If(has(x, "d") \/ has(z, "d"), {"d"}))
           ELSE BadType
    [] f = "thresh" -> LET n == Len(e.subs)  ts == [j \in 1..n |-> TypeOf(e.subs[j], ctx)] IN
         IF e.k >= 1 /\ e.k <= n /\ Is(ts[1], "B", {"d", "u"}) /\ \A j \in 2..n : Is(ts[j], "W", {"d", "u"})
           THEN LET nz == Count([j \in 1..n |-> "z" \in ts[j].m])  no == Count([j \in 1..n |-> "o" \in ts[j].m]) IN
                T("B", If(nz = n, {"z"}) \cup If(nz = n - 1 /\ no = 1, {"o"}) \cup {"d", "u"})
           ELSE BadType
    [] f = "w:a" -> LET x == X(1) IN IF x.t = "B" THEN T("W", x.m \cap {"d", "u"}) ELSE BadType
    [] f = "w:s" -> LET x == X(1) IN IF Is(x, "B", {"o"}) THEN T("W", x.m \cap {"d", "u"}) ELSE BadType
    [] f = "w:c" -> LET x == X(1) IN IF x.t = "K" THEN T("B", (x.m \cap {"o", "n", "d"}) \cup {"u"}) ELSE BadType
    [] f = "w:d" -> LET x == X(1) IN IF Is(x, "V", {"z"}) THEN T("B", {"o", "n", "d"} \cup If(ctx = "tapscript", {"u"})) ELSE BadType
    [] f = "w:v" -> LET x == X(1) IN IF x.t = "B" THEN T("V", x.m \cap {"z", "o", "n"}) ELSE BadType
    [] f = "w:j" -> LET x == X(1) IN IF Is(x, "B", {"n"}) THEN T("B", (x.m \cap {"o", "u"}) \cup {"n", "d"}) ELSE BadType
    [] f = "w:n" -> LET x == X(1) IN IF x.t = "B" THEN T("B", (x.m \cap {"z", "o", "n", "d"}) \cup {"u"}) ELSE BadType
    \* t:X = and_v(X,1); l:X = or_i(0,X); u:X = or_i(X,0)
    [] f = "w:t" -> TypeOf([f |-> "and_v", subs |-> <<e.subs[1], [f |-> "1"]>>], ctx)
    [] f = "w:l" -> TypeOf([f |-> "or_i", subs |-> <<[f |-> "0"], e.subs[1]>>], ctx)
    [] f = "w:u" -> TypeOf([f |-> "or_i", subs |-> <<e.subs[1], [f |-> "0"]>>], ctx)
\* a type error anywhere below makes the whole expression ill typed
RECURSIVE WellTyped(_, _)
WellTyped(e, ctx) == TypeOf(e, ctx).t # "X" /\ ("subs" \in DOMAIN e => \A j \in 1..Len(e.subs) : WellTyped(e.subs[j], ctx))
=============================================================================
