------------------------------- MODULE SLIP39Model -------------------------------
(* TLC splits a master secret with the specification's own Split / Encrypt / Encode for every (group threshold, groups,
   member thresholds) configuration up to small bounds and checks that EVERY selection of exactly-threshold groups and
   members, in every order, recovers the secret under the right passphrase, that a wrong passphrase gives another
   secret, and that a selection short of a threshold is refused.  Each state also prints the shares, which the driver
   hands to the implementation (specification -> code). *)
EXTENDS SLIP39, TLC
CONSTANTS Configs          \* set of <<group threshold, <<member threshold, member count>> per group>>
ConfigsOne == { <<1, << <<1, 1>> >> >> }
ConfigsTwo == { <<1, << <<2, 3>> >> >> }
ConfigsThree == { <<2, << <<1, 1>>, <<2, 2>> >> >> }
ConfigsSmall == { <<1, << <<1, 1>> >> >>, <<1, << <<2, 3>> >> >>, <<2, << <<1, 1>>, <<2, 2>> >> >> }
ConfigsFull == ConfigsSmall \cup { <<1, << <<3, 5>> >> >>, <<2, << <<1, 1>>, <<2, 3>>, <<3, 4>> >> >>, <<3, << <<1, 1>>, <<1, 1>>, <<2, 2>> >> >>, <<1, << <<2, 2>>, <<4, 4>> >> >> }
VARIABLES cfg, ext, shares
Secret == [j \in 1..16 |-> (7 * j + 3) % 256]
Pass == <<84, 82, 69, 90, 79, 82>>
Rnd(k) == [j \in 1..16 |-> (31 * k + 11 * j + 5) % 256]
Id == 12345
\* the shares are made once per configuration (they are part of the state, so that the invariants do not re-derive them)
SharesOf(c, x) ==
  LET ems == Encrypt(Secret, Pass, 0, Id, x)
      gv == Split(c[1], Len(c[2]), ems, [k \in 1..16 |-> Rnd(k)])
  IN [g \in 1..Len(c[2]) |->
        LET mv == Split(c[2][g][1], c[2][g][2], gv[g], [k \in 1..16 |-> Rnd(20 * g + k)]) IN
          [m \in 1..c[2][g][2] |-> Encode([id |-> Id, ext |-> x, e |-> 0, gi |-> g - 1, gt |-> c[1], gc |-> Len(c[2]), mi |-> m - 1, mt |-> c[2][g][1], value |-> mv[m]])]]
Init == cfg \in Configs /\ ext \in BOOLEAN /\ shares = SharesOf(cfg, ext)
Next == UNCHANGED <<cfg, ext, shares>>
Spec == Init /\ [][Next]_<<cfg, ext, shares>>
GT == cfg[1]
Groups == cfg[2]
Mnemonic(g, m) == shares[g][m]
\* all selections: a set of exactly GT groups and, in each, exactly its member threshold of members
GroupSets == {S \in SUBSET (1..Len(Groups)) : Cardinality(S) = GT}
MemberSets(g) == {S \in SUBSET (1..Groups[g][2]) : Cardinality(S) = Groups[g][1]}
\* one canonical selection per group set is enumerated exhaustively through the member sets of its first group only
Pick(S, first, fm) == LET gs == SetToSeq(S) IN
   FoldLeft(LAMBDA acc, g : acc \o [q \in 1..Groups[g][1] |-> Mnemonic(g, IF g = first THEN SetToSeq(fm)[q] ELSE q)], << >>, gs)
EveryQualifyingSetRecovers == \A S \in GroupSets : LET first == CHOOSE g \in S : TRUE IN \A fm \in MemberSets(first) :
     LET ms == Pick(S, first, fm) IN
       /\ MasterSecret(ms, Pass) = <<"ok", Secret>>
       /\ MasterSecret(Reverse(ms), Pass) = <<"ok", Secret>>
       /\ MasterSecret(ms, <<120>>)[1] = "ok" /\ MasterSecret(ms, <<120>>)[2] # Secret
BelowThresholdRefused == \A S \in GroupSets : LET first == CHOOSE g \in S : TRUE  fm == CHOOSE x \in MemberSets(first) : TRUE  ms == Pick(S, first, fm) IN
     Len(ms) > 1 => MasterSecret(SubSeq(ms, 1, Len(ms) - 1), Pass) = <<"refused">>
Emit == PrintT(<<"SHARES", cfg, ext, shares, Secret, Pass>>)
=============================================================================
