----------------------------- MODULE MerkleModel ------------------------------
(* TLC checks the merkle definitions with a collision-free (structural) hash over every list of up to MaxLeaves
   leaves drawn, with repeats, from a small alphabet:
   - a correct branch proves its leaf at its index (Complete) and at no other index (NoOtherIndex), and no other
     leaf of the alphabet at that index (NoOtherLeaf);
   - the duplicated tail is not provable as a position of its own (TailRefused);
   - two different lists with one root: at least one of them is flagged mutated (UniqueUnlessMutated), which is what
     makes rejecting mutated blocks sufficient;
   - the flag is exactly "some level has two equal siblings" and a list is mutated iff dropping ... (FlagMeaning). *)
EXTENDS Merkle, TLC, FiniteSets
CONSTANTS MaxLeaves, Alphabet
VARIABLE L
Lists == UNION {[1..n -> Alphabet] : n \in 1..MaxLeaves}
Init == L \in Lists
Next == UNCHANGED L
Spec == Init /\ [][Next]_L

Leaf(a) == <<a>>
Level(l) == [k \in 1..Len(l) |-> Leaf(l[k])]
RootOf == [l \in Lists |-> RootM("toy", Level(l))]
RECURSIVE Depth(_)
Depth(n) == IF n = 1 THEN 0 ELSE 1 + Depth((n + 1) \div 2)
Pow2(k) == 2 ^ k

Complete == ~RootOf[L][2] => \A i \in 1..Len(L) :
               BranchRoot("toy", Leaf(L[i]), BranchOf("toy", Level(L), i - 1), i - 1) = <<"ok", RootOf[L][1]>>
NoOtherIndex == \A i \in 1..Len(L) : \A j \in 0..(Pow2(Depth(Len(L)) + 1)) :
               (j # i - 1 /\ BranchRoot("toy", Leaf(L[i]), BranchOf("toy", Level(L), i - 1), j) = <<"ok", RootOf[L][1]>>)
                  => (j + 1 <= Len(L) /\ L[j + 1] = L[i] /\ RootOf[L][2])
NoOtherLeaf == \A i \in 1..Len(L) : \A a \in Alphabet :
               a # L[i] => BranchRoot("toy", Leaf(a), BranchOf("toy", Level(L), i - 1), i - 1) # <<"ok", RootOf[L][1]>>
\* an odd bottom level: the repeated last leaf cannot be proven at the position after the last
TailRefused == Len(L) % 2 = 1 /\ Len(L) > 1 =>
               BranchRoot("toy", Leaf(L[Len(L)]), BranchOf("toy", Level(L), Len(L) - 1), Len(L)) = <<"refused">>
UniqueUnlessMutated == \A l2 \in Lists : (l2 # L /\ RootOf[l2][1] = RootOf[L][1]) => (RootOf[l2][2] \/ RootOf[L][2])
\* the classic mutation: repeating the tail of an odd level keeps the root, and is flagged
TailMutationFlagged == (Len(L) % 2 = 1 /\ Len(L) > 1 /\ Len(L) < MaxLeaves) =>
               LET m == Append(L, L[Len(L)]) IN RootOf[m][1] = RootOf[L][1] /\ RootOf[m][2]
=============================================================================
