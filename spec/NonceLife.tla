----------------------------- MODULE NonceLife ------------------------------
(***************************************************************************)
(* Life cycle of a MuSig2 secret nonce (BIP327 secnonce, btclib            *)
(* ecc.musig2.sign / psbt.musig2 partial signing).                         *)
(*                                                                         *)
(* One nonce object; the environment calls Sign with one of several        *)
(* sessions and keys, any number of times, with unrelated calls between.   *)
(* Each critical section of the code's observable behaviour is one action: *)
(*   SignOK            session assembles, nonce fresh, key matches:        *)
(*                     a partial signature is returned, the nonce is spent *)
(*   SignSessionBad    the session does not assemble (a pubnonce that is   *)
(*                     no point, a tweak out of range): refused BEFORE the *)
(*                     nonce is read -- the nonce keeps its state.  This   *)
(*                     is BIP327's and btclib's documented order.          *)
(*   SignKeyMismatch   session assembles, nonce fresh, wrong private key:  *)
(*                     refused, and the nonce is spent (it is zeroed when  *)
(*                     read, before the key is compared)                   *)
(*   SignSpent         session assembles, nonce spent: refused             *)
(*   Other             any call that does not take the nonce               *)
(***************************************************************************)
EXTENDS Integers, Sequences, TLC

CONSTANTS Sessions,      \* set of sessions that assemble (the first is the one the nonce was made for)
          MaxLen         \* bound on the length of a history (model checking / generation only)

VARIABLES st,            \* "fresh" | "spent"      -- projection: first 64 bytes of the bytearray non-zero / zero
          signed,        \* number of partial signatures ever returned for this nonce
          last,          \* outcome of the last call: "sig" | "refused" | "none"
          h              \* history of calls (generation payload; hidden from the fingerprint in M runs)

vars == <<st, signed, last, h>>

Init == st = "fresh" /\ signed = 0 /\ last = "none" /\ h = << >>

SignOK(s) ==
    /\ st = "fresh"
    /\ st' = "spent" /\ signed' = signed + 1 /\ last' = "sig"
    /\ h' = Append(h, <<"sign", s, "rightkey", last', st'>>)

SignSessionBad ==
    /\ UNCHANGED <<st, signed>> /\ last' = "refused"
    /\ h' = Append(h, <<"sign", "bad", "rightkey", last', st'>>)

SignKeyMismatch(s) ==
    /\ st = "fresh"
    /\ st' = "spent" /\ UNCHANGED signed /\ last' = "refused"
    /\ h' = Append(h, <<"sign", s, "wrongkey", last', st'>>)

SignSpent(s, k) ==
    /\ st = "spent"
    /\ UNCHANGED <<st, signed>> /\ last' = "refused"
    /\ h' = Append(h, <<"sign", s, k, last', st'>>)

Other ==
    /\ UNCHANGED <<st, signed>> /\ last' = "none"
    /\ h' = Append(h, <<"other", "-", "-", last', st'>>)

Next == \/ \E s \in Sessions : SignOK(s) \/ SignKeyMismatch(s)
        \/ \E s \in Sessions, k \in {"rightkey", "wrongkey"} : SignSpent(s, k)
        \/ SignSessionBad
        \/ Other

Spec == Init /\ [][Next]_vars

-----------------------------------------------------------------------------
TypeOK == st \in {"fresh", "spent"} /\ signed \in Nat /\ last \in {"sig", "refused", "none"}

\* C20: a secret nonce signs at most once, whatever calls come in between
AtMostOnce == signed <= 1
\* a signature is only ever returned from a fresh nonce, and spends it
SigSpends == [][last' = "sig" => st = "fresh" /\ st' = "spent"]_vars
\* spent is absorbing
SpentForever == [][st = "spent" => st' = "spent"]_vars
\* the one documented deviation: a refusal leaves a fresh nonce fresh only when the session was bad
FreshKept == [][(st = "fresh" /\ st' = "fresh" /\ last' = "refused") => h'[Len(h')][2] = "bad"]_vars

Bound == Len(h) <= MaxLen
View == <<st, signed, last>>
\* generation: print every maximal history together with the projection the code must show
Emit == Len(h) = MaxLen => PrintT(<<"BEH", h>>)
=============================================================================
