------------------------------- MODULE RFC6979 -------------------------------
(***************************************************************************)
(* RFC 6979 section 3.2: deterministic generation of the ECDSA nonce k,    *)
(* with the optional additional data of section 3.6, for any group order   *)
(* n (a BigNat) and any hash function descriptor hf (module Hash).         *)
(* h1 is the message digest (already hashed), x the private key.           *)
(***************************************************************************)
EXTENDS Integers, Sequences, BigNat, Hash

QLen(n) == BBitLen(n)
RLen(n) == (QLen(n) + 7) \div 8
\* 2.3.2
Bits2Int(b, n) == LET v == BFromBytes(b)  blen == 8 * Len(b)
                  IN IF blen > QLen(n) THEN BShr(v, blen - QLen(n)) ELSE v
\* 2.3.3 / 2.3.4
Int2Octets(x, n) == BToBytes(x, RLen(n))
Bits2Octets(b, n) == Int2Octets(BMod(Bits2Int(b, n), n), n)

\* the ECDSA challenge of SEC 1 4.1.3 step 5: the leftmost nlen bits of the digest, reduced
Challenge(h1, n) == BMod(Bits2Int(h1, n), n)

RECURSIVE GenT(_, _, _, _, _)
GenT(hf, K, V, T, n) ==      \* step h.2: extend T until it has qlen bits; returns <<T, V>>
    IF 8 * Len(T) >= QLen(n) THEN <<T, V>>
    ELSE LET V2 == HMAC(hf, K, V) IN GenT(hf, K, V2, T \o V2, n)
RECURSIVE Loop(_, _, _, _)
Loop(hf, K, V, n) ==         \* step h
    LET tv == GenT(hf, K, V, << >>, n)
        k  == Bits2Int(tv[1], n)
    IN IF ~BIsZero(k) /\ BLt(k, n) THEN k
       ELSE LET K2 == HMAC(hf, K, tv[2] \o <<0>>) IN Loop(hf, K2, HMAC(hf, K2, tv[2]), n)

Nonce(hf, x, h1, n, extra) ==
    LET seedm == Int2Octets(x, n) \o Bits2Octets(h1, n) \o extra
        V0 == Rep(1, hf.size)                       \* b
        K0 == Zeros(hf.size)                        \* c
        K1 == HMAC(hf, K0, V0 \o <<0>> \o seedm)    \* d
        V1 == HMAC(hf, K1, V0)                      \* e
        K2 == HMAC(hf, K1, V1 \o <<1>> \o seedm)    \* f
        V2 == HMAC(hf, K2, V1)                      \* g
    IN Loop(hf, K2, V2, n)
=============================================================================
