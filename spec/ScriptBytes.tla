------------------------------ MODULE ScriptBytes ----------------------------
(***************************************************************************)
(* Reading a script as Bitcoin Core's GetOp does: one opcode at a time off *)
(* the raw bytes.  op = [ok, code, data, next]: next is the position after *)
(* the opcode (1-based); ok is FALSE when a push runs past the end.        *)
(***************************************************************************)
EXTENDS Integers, Sequences, SequencesExt

GetOp(s, pc) ==
    LET code == s[pc]
        have(k) == pc + k <= Len(s)          \* k more bytes after pc
    IN IF code <= 75 THEN
            IF have(code) THEN [ok |-> TRUE, code |-> code, data |-> SubSeq(s, pc + 1, pc + code), next |-> pc + 1 + code]
            ELSE [ok |-> FALSE, code |-> code, data |-> << >>, next |-> Len(s) + 1]
       ELSE IF code \in {76, 77, 78} THEN
            LET w == IF code = 76 THEN 1 ELSE IF code = 77 THEN 2 ELSE 4 IN
            IF ~have(w) THEN [ok |-> FALSE, code |-> code, data |-> << >>, next |-> Len(s) + 1]
            ELSE LET n == IF w = 1 THEN s[pc + 1]
                          ELSE IF w = 2 THEN s[pc + 1] + 256 * s[pc + 2]
                          ELSE IF s[pc + 4] >= 128 THEN 2147483647      \* beyond any script: unreadable
                          ELSE s[pc + 1] + 256 * s[pc + 2] + 65536 * s[pc + 3] + 16777216 * s[pc + 4]
                 IN IF n <= Len(s) /\ pc + w + n <= Len(s)
                    THEN [ok |-> TRUE, code |-> code, data |-> SubSeq(s, pc + w + 1, pc + w + n), next |-> pc + w + n + 1]
                    ELSE [ok |-> FALSE, code |-> code, data |-> << >>, next |-> Len(s) + 1]
       ELSE [ok |-> TRUE, code |-> code, data |-> << >>, next |-> pc + 1]

\* the legacy serializer's script code: every parsed OP_CODESEPARATOR (0xab) dropped; the scan stops at
\* the first unreadable push and the tail is copied raw
RECURSIVE StripCodeSepFrom(_, _)
StripCodeSepFrom(s, pc) ==
    IF pc > Len(s) THEN << >>
    ELSE LET op == GetOp(s, pc) IN
         IF ~op.ok THEN SubSeq(s, pc, Len(s))
         ELSE (IF op.code = 171 THEN << >> ELSE SubSeq(s, pc, op.next - 1)) \o StripCodeSepFrom(s, op.next)
StripCodeSep(s) == StripCodeSepFrom(s, 1)

\* the script from just past the k-th OP_CODESEPARATOR occurrence (k = 0: the whole script); <<-1>> where the script has fewer
RECURSIVE AfterCodeSepFrom(_, _, _)
AfterCodeSepFrom(s, pc, k) ==
    IF k = 0 THEN SubSeq(s, pc, Len(s))
    ELSE IF pc > Len(s) THEN <<-1>>
    ELSE LET op == GetOp(s, pc) IN
         IF ~op.ok THEN <<-1>>
         ELSE AfterCodeSepFrom(s, op.next, IF op.code = 171 THEN k - 1 ELSE k)
=============================================================================
