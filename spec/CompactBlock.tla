------------------------------ MODULE CompactBlock ------------------------------
(***************************************************************************)
(* C17: BIP152 compact block reconstruction.  Definitions only.            *)
(* A compact block announces `count` transactions: some prefilled at       *)
(* absolute positions, the others by a 6-byte short id, in block order.    *)
(* Reconstruction looks every short id up in a pool:                       *)
(*   exactly one pool transaction (by wtxid) answers it -> it takes the    *)
(*   position; none, or two different ones -> the position stays missing   *)
(*   and is asked for (getblocktxn); two positions announcing one short id *)
(*   -> refused (re-request the block).                                    *)
(* The operators are parametric in the short-id function so that the model *)
(* can force collisions; the real one is SipHash-2-4 keyed by              *)
(* SHA256(header || nonce).                                                *)
(***************************************************************************)
EXTENDS SipHash, Hash, Integers, Sequences, SequencesExt, FiniteSets

\* ---- the real short id ----
KeyFrom(header80, nonceLE8) == LET d == SHA256(header80 \o nonceLE8) IN <<WordLE(SubSeq(d, 1, 8)), WordLE(SubSeq(d, 9, 16))>>
ShortIdOf(key, wtxidDisplay) == BMod(SipHash24(key[1], key[2], Reverse(wtxidDisplay)), BShl(BOne, 48))

\* ---- reconstruction over abstract transactions ----
\* prefilled: a function position -> tx on a subset of 1..count; sids: the announced short ids, in order;
\* pool: a sequence of <<tx, its short id>>.   Result: <<"refused">> | <<"ok", slots>> with slots[i] = <<"tx", t>> | <<"missing">>
FreePositions(count, prefilled) == SelectSeq([i \in 1..count |-> i], LAMBDA i : i \notin DOMAIN prefilled)
Candidates(pool, sid) == {pool[j][1] : j \in {k \in 1..Len(pool) : pool[k][2] = sid}}
Reconstruct(count, prefilled, sids, pool) ==
  LET free == FreePositions(count, prefilled) IN
  IF count = 0 \/ Len(free) # Len(sids) \/ \E a, b \in 1..Len(sids) : a # b /\ sids[a] = sids[b] THEN <<"refused">>
  ELSE <<"ok", [i \in 1..count |->
          IF i \in DOMAIN prefilled THEN <<"tx", prefilled[i]>>
          ELSE LET k == CHOOSE k \in 1..Len(free) : free[k] = i  c == Candidates(pool, sids[k]) IN
                 IF Cardinality(c) = 1 THEN <<"tx", CHOOSE t \in c : TRUE>> ELSE <<"missing">>]>>
Missing(slots) == SelectSeq([i \in 1..Len(slots) |-> i], LAMBDA i : slots[i] = <<"missing">>)
\* <<"refused">> | <<"ok", transactions>>
Fill(slots, supplied) ==
  LET m == Missing(slots) IN
    IF Len(supplied) # Len(m) THEN <<"refused">>
    ELSE <<"ok", [i \in 1..Len(slots) |-> IF slots[i] = <<"missing">> THEN supplied[CHOOSE k \in 1..Len(m) : m[k] = i] ELSE slots[i][2]]>>
=============================================================================
