------------------------------ MODULE C13Trace -------------------------------
(***************************************************************************)
(* Code -> specification for C13.  Sentences are sequences of word indexes *)
(* (the harness maps words to indexes with the vendored word-lists).       *)
(*  bip39enc {entropy, indexes[]}            bip39.mnemonic_from_entropy   *)
(*  bip39dec {indexes[], out}                bip39.entropy_from_mnemonic   *)
(*  bip39seed {text, pass, out}              bip39.seed_from_mnemonic      *)
(*  elver    {norm, nwords, out}             electrum.version_from_mnemonic*)
(*  elint    {indexes[], base, out}          electrum.entropy_from_mnemonic*)
(*  elseed   {norm, normpass, out}           electrum seed                 *)
(*  slip39   {mnemonics[[..]], pass, refused, out}  slip39.master_secret_..*)
(*  slip39own {mnemonics, pass, secret, refused, out}  an honest selection  *)
(*  hmac512  {key, msg, out}                 bip85 entropy                 *)
(*  seedtypes {lang, in_list, idx[], slip_idx[], norm, nwords, out[],      *)
(*             first}                        mnemonic.dispatch            *)
(***************************************************************************)
EXTENDS SLIP39, EvBase
HX(s) == FromHex(s)
N(h) == BFromBytes(FromHex(h))
SeedTypes(e) ==
  (IF e.slip_idx # << >> /\ Decode(e.slip_idx)[1] = "ok" THEN <<"slip39">> ELSE << >>)
  \o (LET v == ElectrumVersion(HX(e.norm), e.nwords) IN IF v = "none" THEN << >> ELSE <<"electrum_" \o v>>)
  \o (IF ~e.in_list THEN << >> ELSE IF Bip39Entropy(e.idx)[1] = "ok" THEN <<"bip39">> ELSE <<"bip39_wordlist">>)
Check(e) ==
  CASE e.op = "bip39enc" -> e.indexes = Bip39Indexes(HX(e.entropy))
    [] e.op = "bip39dec" -> LET r == Bip39Entropy(e.indexes) IN IF r[1] = "refused" THEN e.out = "refused" ELSE e.out = ToHex(r[2])
    [] e.op = "bip39seed" -> e.out = ToHex(Bip39Seed(HX(e.text), HX(e.pass)))
    [] e.op = "elver" -> e.out = ElectrumVersion(HX(e.norm), e.nwords)
    \* which schemes claim a sentence (mnemonic.dispatch), SLIP-0039 first, then Electrum's version, then BIP39 in the language named
    [] e.op = "seedtypes" -> LET want == SeedTypes(e) IN e.out = want /\ e.first = (IF want = << >> THEN "" ELSE want[1])
    [] e.op = "elint" -> N(e.out) = ElectrumInt(e.indexes, e.base)
    [] e.op = "elseed" -> e.out = ToHex(ElectrumSeed(HX(e.norm), HX(e.normpass)))
    [] e.op = "slip39" -> LET r == MasterSecret(e.mnemonics, HX(e.pass)) IN
                            IF r[1] = "refused" THEN e.refused ELSE ~e.refused /\ e.out = ToHex(r[2])
    \* a qualifying selection of shares made for a known secret (by the library or by the specification): it must recover it
    \* a share read back field by field: every value of every field (identifier, extendable flag, the 16 iteration exponents, group and member indexes, thresholds, counts)
    [] e.op = "slip39share" -> LET d == Decode(e.indexes) IN
          IF d[1] = "refused" THEN e.refused
          ELSE ~e.refused /\ e.fields = <<d[2].id, IF d[2].ext THEN 1 ELSE 0, d[2].e, d[2].gi, d[2].gt, d[2].gc, d[2].mi, d[2].mt>> /\ HX(e.value) = d[2].value /\ e.back = e.indexes
    [] e.op = "slip39own" -> ~e.refused /\ e.out = e.secret /\ MasterSecret(e.mnemonics, HX(e.pass)) = <<"ok", HX(e.secret)>>
    [] e.op = "hmac512" -> e.out = ToHex(HMAC(HF("sha512"), HX(e.key), HX(e.msg)))
EventOK == i > 0 => Check(Trace[i])
Diag == i > 0 => PrintT(<<"DIAG", i, <<Trace[i].op,
           CASE Trace[i].op = "bip39enc" -> Bip39Indexes(HX(Trace[i].entropy))
             [] Trace[i].op = "bip39dec" -> Bip39Entropy(Trace[i].indexes)
             [] Trace[i].op = "seedtypes" -> SeedTypes(Trace[i])
             [] Trace[i].op = "elver" -> ElectrumVersion(HX(Trace[i].norm), Trace[i].nwords)
             [] Trace[i].op = "slip39" -> MasterSecret(Trace[i].mnemonics, HX(Trace[i].pass))
             [] Trace[i].op = "hmac512" -> ToHex(HMAC(HF("sha512"), HX(Trace[i].key), HX(Trace[i].msg)))
             [] OTHER -> "-">>>>)
=============================================================================
