------------------------------- MODULE Descriptor -------------------------------
(***************************************************************************)
(* C14: output descriptors (BIP380-386).  Definitions only.                *)
(* A descriptor is an abstract syntax tree (records, as JSON gives them):  *)
(*   {f: "pk"|"pkh"|"wpkh"|"rawtr"|"combo", k: key}                        *)
(*   {f: "sh"|"wsh", sub: tree}                                            *)
(*   {f: "multi", m: threshold, keys: [key..], sorted: bool}               *)
(*   {f: "tr", k: key, tree: {none: 1} | taptree}                          *)
(*   {f: "addr"|"raw", spk: hex}                                           *)
(*   taptree: {s: leaf tree} | {l: taptree, r: taptree};                   *)
(*   leaf tree: {f: "pk", k} | {f: "multi_a", m, keys, sorted}             *)
(*   key: {sec: hex} | {node: hex of the 78-byte extended key, path: [hex  *)
(*        index..], wild: 0 none | 1 /* | 2 /*h}                           *)
(*        | {musig: [key..], path: [hex index..], wild: 0 | 1}  (BIP390)   *)
(* ScriptsAt(d, i) is the list of output scripts at index i, assembled     *)
(* from the BIP32 derivation of every key and the standard templates.      *)
(* The checksum is BIP380's.                                               *)
(***************************************************************************)
EXTENDS BIP32, Address, Taproot, MuSig2, FiniteSets

\* ---- BIP380 checksum ----
InputCharset == Utf8("0123456789()[],'/*abcdefgh@:$%{}IJKLMNOPQRSTUVWXYZ&+-.;<=>?!^_|~ijklmnopqrstuvwxyzABCDEFGH`#") \o <<34, 92, 32>>
ChecksumCharset == Utf8("qpzry9x8gf2tvdw0s3jn54khce6mua7l")
DGen == <<FromHex("f5dee51989"), FromHex("a9fdca3312"), FromHex("1bab10e32d"), FromHex("3706b1677a"), FromHex("644d626ffd")>>
DPolyStep(c, v) ==
  LET c0 == BToInt(BShr(c, 35))
      c1 == BXor(BShl(BAnd(c, FromHex("07ffffffff")), 5), B(v))
  IN FoldLeft(LAMBDA acc, k : IF (c0 \div (2 ^ (k - 1))) % 2 = 1 THEN BXor(acc, BFromBytes(DGen[k])) ELSE acc, c1, <<1, 2, 3, 4, 5>>)
PosOf(ch) == LET S == {j \in 1..Len(InputCharset) : InputCharset[j] = ch} IN IF S = {} THEN -1 ELSE (CHOOSE j \in S : TRUE) - 1
\* <<"ok", 8 characters>> | <<"refused">> (a character outside the input charset)
DescChecksum(text) ==
  IF \E j \in 1..Len(text) : PosOf(text[j]) = -1 THEN <<"refused">>
  ELSE LET step(st, ch) ==
             LET pos == PosOf(ch)  c1 == DPolyStep(st.c, pos % 32)  cls == st.cls * 3 + pos \div 32 IN
               IF st.n = 2 THEN [c |-> DPolyStep(c1, cls), cls |-> 0, n |-> 0] ELSE [c |-> c1, cls |-> cls, n |-> st.n + 1]
           st1 == FoldLeft(step, [c |-> BOne, cls |-> 0, n |-> 0], text)
           c2 == IF st1.n > 0 THEN DPolyStep(st1.c, st1.cls) ELSE st1.c
           c3 == BXor(FoldLeft(LAMBDA c, k : DPolyStep(c, 0), c2, <<1, 2, 3, 4, 5, 6, 7, 8>>), BOne)
       IN <<"ok", [j \in 1..8 |-> ChecksumCharset[BToInt(BAnd(BShr(c3, 5 * (8 - j)), B(31))) + 1]]>>
\* a descriptor string with "#checksum": accepted exactly when the eight characters are the checksum of what precedes them
HashPos(text) == {j \in 1..Len(text) : text[j] = 35}
ChecksummedOK(text) ==
  LET hp == HashPos(text) IN
    IF Cardinality(hp) # 1 THEN FALSE
    ELSE LET p == CHOOSE j \in hp : TRUE  body == SubSeq(text, 1, p - 1)  given == SubSeq(text, p + 1, Len(text))  c == DescChecksum(body) IN
           c[1] = "ok" /\ c[2] = given

\* ---- keys ----
IdxOf(h) == BFromBytes(FromHex(h))
H31 == BPow2(31)
\* the compressed public key of a key expression at index i (a TLC integer < 2^31); <<>> when the derivation fails
\* BIP390 musig(K1,..,Kn)[/path][/*]: the participants (each at index i when it is itself ranged) are sorted as BIP327's KeySort
\* sorts them and aggregated; a path after the parenthesis is BIP328's: the aggregate key is the key of a synthetic extended public
\* key with a fixed chain code, derived along unhardened steps
Bip328ChainCode == FromHex("868087ca02a6f974c4598924c36b57762d32cb45717167e300622c7167e38965")
RECURSIVE KeyAt(_, _)
KeyAt(k, i) ==
  IF "sec" \in DOMAIN k THEN FromHex(k.sec)
  ELSE IF "musig" \in DOMAIN k THEN
       LET parts == [j \in 1..Len(k.musig) |-> KeyAt(k.musig[j], i)] IN
       IF \E j \in 1..Len(parts) : parts[j] = << >> THEN << >>
       ELSE LET agg == KeyAgg(C1, HF("sha256"), SortSeq(parts, LAMBDA a, b : BLt(BFromBytes(a), BFromBytes(b)))).Q
                path == [j \in 1..Len(k.path) |-> IdxOf(k.path[j])] \o (IF k.wild = 0 THEN << >> ELSE <<B(i)>>) IN
            IF agg.inf THEN << >>
            ELSE IF path = << >> THEN SerP(agg)
            ELSE LET node == Derive([ok |-> TRUE, version |-> FromHex("0488b21e"), depth |-> 0, fp |-> <<0, 0, 0, 0>>, index |-> <<0, 0, 0, 0>>,
                                     chain |-> Bip328ChainCode, key |-> SerP(agg)], path) IN
                 IF node.ok THEN SerP(PubPoint(node)) ELSE << >>
  ELSE LET path == [j \in 1..Len(k.path) |-> IdxOf(k.path[j])] \o (IF k.wild = 0 THEN << >> ELSE IF k.wild = 1 THEN <<B(i)>> ELSE <<BAdd(B(i), H31)>>)
           node == Derive(NodeOf(FromHex(k.node)), path)
       IN IF node.ok THEN SerP(PubPoint(node)) ELSE << >>
XOnly(sec) == SubSeq(sec, 2, 33)

\* ---- script templates ----
Push(b) == IF Len(b) <= 75 THEN <<Len(b)>> \o b ELSE IF Len(b) <= 255 THEN <<76, Len(b)>> \o b ELSE <<77, Len(b) % 256, Len(b) \div 256>> \o b
OpN(n) == IF n = 0 THEN <<0>> ELSE IF n <= 16 THEN <<80 + n>> ELSE Push(IF n < 128 THEN <<n>> ELSE <<n % 256, n \div 256>>)
PkScript(sec) == Push(sec) \o <<172>>
PkhScript(sec) == SpkP2PKH(Hash160(sec))
WpkhScript(sec) == <<0, 20>> \o Hash160(sec)
ShScript(script) == <<169, 20>> \o Hash160(script) \o <<135>>
WshScript(script) == <<0, 32>> \o SHA256(script)
BytesLess(a, b) == \E j \in 1..Len(a) : j <= Len(b) /\ SubSeq(a, 1, j - 1) = SubSeq(b, 1, j - 1) /\ a[j] < b[j]
SortKeys(keys) == SortSeq(keys, BytesLess)
MultiScript(m, keys, sorted) == LET ks == IF sorted THEN SortKeys(keys) ELSE keys IN
   OpN(m) \o FoldLeft(LAMBDA a, k : a \o Push(k), << >>, ks) \o OpN(Len(ks)) \o <<174>>
MultiAScript(m, keys, sorted) == LET ks == IF sorted THEN SortKeys(keys) ELSE keys IN
   Push(ks[1]) \o <<172>> \o FoldLeft(LAMBDA a, k : a \o Push(k) \o <<186>>, << >>, Tail(ks)) \o OpN(m) \o <<156>>

\* the one script of an inner expression (what sh() / wsh() wrap, and tapscript leaves)
RECURSIVE InnerScript(_, _)
InnerScript(d, i) ==
  CASE d.f = "pk" -> PkScript(KeyAt(d.k, i))
    [] d.f = "pkh" -> PkhScript(KeyAt(d.k, i))
    [] d.f = "wpkh" -> WpkhScript(KeyAt(d.k, i))
    [] d.f = "multi" -> MultiScript(d.m, [j \in 1..Len(d.keys) |-> KeyAt(d.keys[j], i)], d.sorted)
    [] d.f = "wsh" -> WshScript(InnerScript(d.sub, i))
    [] d.f = "sh" -> ShScript(InnerScript(d.sub, i))
LeafScript(d, i) ==
  CASE d.f = "pk" -> Push(XOnly(KeyAt(d.k, i))) \o <<172>>
    [] d.f = "multi_a" -> MultiAScript(d.m, [j \in 1..Len(d.keys) |-> XOnly(KeyAt(d.keys[j], i))], d.sorted)
RECURSIVE TapTree(_, _)
TapTree(t, i) == IF "s" \in DOMAIN t THEN [s |-> LeafScript(t.s, i), v |-> 192] ELSE [l |-> TapTree(t.l, i), r |-> TapTree(t.r, i)]
TrScript(d, i) ==
  LET px == BFromBytes(XOnly(KeyAt(d.k, i)))
      h == IF "none" \in DOMAIN d.tree THEN << >> ELSE Root(TapTree(d.tree, i))
      q == OutputKey(px, h)
  IN IF q.ok THEN <<81, 32>> \o BToBytes(q.q, 32) ELSE << >>
\* every output script the descriptor has at index i, in the order the library lists them
ScriptsAt(d, i) ==
  CASE d.f = "tr" -> <<TrScript(d, i)>>
    [] d.f = "rawtr" -> <<<<81, 32>> \o XOnly(KeyAt(d.k, i))>>
    [] d.f \in {"addr", "raw"} -> <<FromHex(d.spk)>>
    [] d.f = "combo" -> LET sec == KeyAt(d.k, i) IN
         IF Len(sec) = 33 THEN <<PkScript(sec), PkhScript(sec), WpkhScript(sec), ShScript(WpkhScript(sec))>> ELSE <<PkScript(sec), PkhScript(sec)>>
    [] OTHER -> <<InnerScript(d, i)>>
\* what sh() and wsh() reveal when spending
RedeemScriptAt(d, i) == IF d.f = "sh" THEN InnerScript(d.sub, i) ELSE << >>
WitnessScriptAt(d, i) == IF d.f = "wsh" THEN InnerScript(d.sub, i) ELSE IF d.f = "sh" /\ d.sub.f = "wsh" THEN InnerScript(d.sub.sub, i) ELSE << >>
=============================================================================
