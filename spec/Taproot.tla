-------------------------------- MODULE Taproot --------------------------------
(***************************************************************************)
(* BIP341 output construction and script-path commitment: leaf and branch  *)
(* hashes (children sorted lexicographically), the tweak, the output key   *)
(* with its parity, the tweaked private key, the control block of every    *)
(* leaf and its verification.  A tree is a record: a leaf [v, s] (leaf     *)
(* version, script bytes) or a branch [l, r].                              *)
(***************************************************************************)
EXTENDS BIP340

TC == Secp256k1
VarBytesT(b) == (IF Len(b) < 253 THEN <<Len(b)>> ELSE <<253, Len(b) % 256, Len(b) \div 256>>) \o b
LeafHash(ver, script) == TaggedHash("TapLeaf", <<ver>> \o VarBytesT(script))
LexLess(a, b) == BLt(BFromBytes(a), BFromBytes(b))      \* both 32 bytes
BranchHash(a, b) == IF LexLess(b, a) THEN TaggedHash("TapBranch", b \o a) ELSE TaggedHash("TapBranch", a \o b)
IsLeaf(t) == "s" \in DOMAIN t
RECURSIVE Root(_)
Root(t) == IF IsLeaf(t) THEN LeafHash((t.v \div 2) * 2, t.s) ELSE BranchHash(Root(t.l), Root(t.r))
\* leaves in tree order, each with its merkle path (sibling hashes from the leaf up)
RECURSIVE Leaves(_)
Leaves(t) == IF IsLeaf(t) THEN <<[v |-> (t.v \div 2) * 2, s |-> t.s, path |-> << >>]>>
             ELSE LET L == Leaves(t.l)  R == Leaves(t.r)  hl == Root(t.l)  hr == Root(t.r) IN
                  [j \in 1..Len(L) |-> [L[j] EXCEPT !.path = @ \o hr]] \o [j \in 1..Len(R) |-> [R[j] EXCEPT !.path = @ \o hl]]

\* tweak: [ok, t]; refused when the hash is not below the order
Tweak(px, h) == LET t == BFromBytes(TaggedHash("TapTweak", BToBytes(px, 32) \o h)) IN [ok |-> BLt(t, TC.n), t |-> t]
\* output key from an x-only internal key px and a merkle root h (<<>> for no tree): [ok, q, parity]
OutputKey(px, h) ==
    LET P == LiftX(TC, px)  tw == Tweak(px, h) IN
    IF P.inf \/ ~tw.ok THEN [ok |-> FALSE, q |-> BZero, parity |-> 0]
    ELSE LET Q == ECR!Add(TC, P, RMulG(TC, tw.t)) IN
         IF Q.inf THEN [ok |-> FALSE, q |-> BZero, parity |-> 0] ELSE [ok |-> TRUE, q |-> Q.x, parity |-> IF BIsOdd(Q.y) THEN 1 ELSE 0]
\* tweaked private key for a private key d
OutputPrv(d, h) ==
    LET P == RMulG(TC, d)
        d0 == IF HasEvenY(P) THEN d ELSE BSub(TC.n, d)
        tw == Tweak(P.x, h)
    IN [ok |-> tw.ok /\ ~BIsZero(d) /\ BLt(d, TC.n), k |-> BAddMod(d0, tw.t, TC.n)]

ControlBlock(px, tree, j) ==
    LET lf == Leaves(tree)[j]  ok == OutputKey(px, Root(tree)) IN <<lf.v + ok.parity>> \o BToBytes(px, 32) \o lf.path

\* BIP341 script-path validation of (q, script, control): does the control block prove the script against q
RECURSIVE Fold(_, _, _)
Fold(k, c, pos) == IF pos > Len(c) THEN k ELSE Fold(BranchHash(k, SubSeq(c, pos, pos + 31)), c, pos + 32)
ControlSizeOK(c) == Len(c) >= 33 /\ (Len(c) - 33) % 32 = 0 /\ (Len(c) - 33) \div 32 <= 128
VerifyControl(q, script, c) ==
    /\ ControlSizeOK(c) /\ Len(q) = 32
    /\ LET k == Fold(LeafHash((c[1] \div 2) * 2, script), c, 34)
           px == BFromBytes(SubSeq(c, 2, 33))
           o == OutputKey(px, k)
       IN o.ok /\ BToBytes(o.q, 32) = q /\ o.parity = c[1] % 2
=============================================================================
