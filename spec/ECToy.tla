-------------------------------- MODULE ECToy --------------------------------
(* The walk model over ECToyDefs: see that module for the definitions. *)
EXTENDS ECToyDefs

VARIABLES c, g, k, acc
vars == <<c, g, k, acc>>

Init == /\ c \in Curves
        /\ g \in Points(c) \ {EC!Inf}
        /\ k = 0 /\ acc = EC!Inf
Next == /\ ~(k > 0 /\ acc = EC!Inf)
        /\ k' = k + 1 /\ acc' = EC!Add(c, acc, g) /\ UNCHANGED <<c, g>>
Spec == Init /\ [][Next]_vars

\* ---- invariants of the walk ----
Closure     == EC!OnCurve(c, acc)
MulIsRepAdd == acc = Mul(c, k, g)
HasseBound  == k <= c.p + 1 + 2 * c.p           \* crude; the real check is OrderDivides

\* ---- group laws, checked once per curve (at the start of each walk with the least g) ----
First == k = 0 /\ g = CHOOSE q \in Points(c) \ {EC!Inf} : TRUE
Laws == First =>
    LET Ps == Points(c) IN
      /\ \A P \in Ps : /\ EC!Add(c, P, EC!Inf) = P /\ EC!Add(c, EC!Inf, P) = P
                      /\ EC!Add(c, P, EC!Neg(c, P)) = EC!Inf
                      /\ EC!OnCurve(c, EC!Neg(c, P))
      /\ \A P, Q \in Ps : /\ EC!Add(c, P, Q) \in Ps
                         /\ EC!Add(c, P, Q) = EC!Add(c, Q, P)
      /\ \A P \in Ps : Cardinality(Ps) % Order(c, P) = 0          \* Lagrange
      /\ Cardinality(Ps) <= c.p + 1 + 2 * c.p
      /\ (c.p + 1 - Cardinality(Ps)) * (c.p + 1 - Cardinality(Ps)) <= 4 * c.p     \* Hasse
Assoc == (First /\ c.p <= AssocP) =>
    \A P, Q, R \in Points(c) : EC!Add(c, EC!Add(c, P, Q), R) = EC!Add(c, P, EC!Add(c, Q, R))
Distrib == First =>
    \A P \in Points(c) : \A i, j \in 0..5 : Mul(c, i + j, P) = EC!Add(c, Mul(c, i, P), Mul(c, j, P))
=============================================================================
