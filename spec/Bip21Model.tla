------------------------------ MODULE Bip21Model ------------------------------
(* Every payment request over a small but hostile alphabet (the characters the grammar itself uses: % & = # ? + : space,
   a two-byte UTF-8 character, a letter) survives serialize-then-parse unchanged; amounts at the boundaries are written and
   read exactly; a req- parameter nobody knows refuses the URI while any other unknown parameter is kept. *)
EXTENDS Bip21, TLC
CONSTANTS MaxLen
Alphabet == {<<Ch("a")>>, <<Ch("%")>>, <<Ch("&")>>, <<Ch("=")>>, <<Ch("#")>>, <<Ch("?")>>, <<Ch("+")>>, <<Ch(" ")>>, <<Ch(":")>>, <<195, 169>>, <<Ch("R")>>}
RECURSIVE Texts(_)
Texts(n) == IF n = 0 THEN {<< >>} ELSE Texts(n - 1) \cup {t \o a : t \in Texts(n - 1), a \in Alphabet}
Addr == Utf8("bc1qw508d6qejxtdg4y5r3zarvary0c5xw7kv8f3t4")
Amounts == {BZero, BOne, B(10), B(100000000), B(123456789), B(150000000), MaxSats, BSub(MaxSats, BOne)}
VARIABLES u
Init == \E t1 \in Texts(MaxLen), t2 \in Texts(1), am \in {None} \cup {Some(a) : a \in Amounts}, lab \in BOOLEAN, oth \in BOOLEAN :
          u = [ok |-> TRUE, address |-> Addr, amount |-> am, label |-> IF lab THEN Some(t1) ELSE None, message |-> IF lab THEN None ELSE Some(t2 \o t1),
               others |-> IF oth THEN <<<<Utf8("x") \o t2, t1>>>> ELSE << >>]
Next == UNCHANGED u
Spec == Init /\ [][Next]_u
KeyOK == \A k \in 1..Len(u.others) : LET key == u.others[k][1] IN
            key \notin {Utf8("amount"), Utf8("label"), Utf8("message")} /\ ~(Len(key) >= 4 /\ LowerAscii(SubSeq(key, 1, 4)) = Utf8("req-"))
RoundTrip == KeyOK => UriParse(UriSerialize(u)) = u
AmountExact == \A a \in Amounts : AmountOf(AmountText(a)) = [ok |-> TRUE, sats |-> a]
AmountRefusals == /\ ~AmountOf(Utf8("21000000.00000001")).ok /\ ~AmountOf(Utf8("0.000000001")).ok /\ AmountOf(Utf8("0.000000010")).ok
                  /\ ~AmountOf(Utf8("")).ok /\ ~AmountOf(Utf8(".")).ok /\ AmountOf(Utf8("5.")).ok /\ AmountOf(Utf8(".5")).ok
                  /\ ~AmountOf(Utf8("1e3")).ok /\ ~AmountOf(Utf8("+1")).ok /\ ~AmountOf(Utf8("-0")).ok /\ ~AmountOf(Utf8("1,5")).ok /\ ~AmountOf(Utf8("1.2.3")).ok
ReqRule == /\ ~UriParse(Utf8("bitcoin:") \o Addr \o Utf8("?req-foo=1")).ok /\ ~UriParse(Utf8("bitcoin:") \o Addr \o Utf8("?REQ-foo=1")).ok
           /\ ~UriParse(Utf8("bitcoin:") \o Addr \o Utf8("?%72eq-foo=1")).ok
           /\ UriParse(Utf8("BitCoin:") \o Addr \o Utf8("?foo=1&&bar")).ok /\ ~UriParse(Utf8("bitcoin:") \o Addr \o Utf8("?foo=1&foo=2")).ok
           /\ ~UriParse(Utf8("bitcoin:") \o Addr \o Utf8("?label=%zz")).ok /\ ~UriParse(Utf8("bitcoin:") \o Addr \o Utf8("?label=%c3")).ok
           /\ ~UriParse(Utf8("bitcoin:") \o Addr \o Utf8("?=1")).ok /\ ~UriParse(Utf8("bitcoinx:") \o Addr).ok /\ ~UriParse(Addr).ok
           /\ UriParse(Utf8("bitcoin:") \o Addr \o Utf8("?label=a#&req-x=1")).ok
=============================================================================
