------------------------------ MODULE C11Trace -------------------------------
(***************************************************************************)
(* Code -> specification for C11.  Events recorded from btclib (PSBTs as   *)
(* the hex of their serialization):                                        *)
(*  combine {operands[], outcome: "ok"|"refused", result}                  *)
(*  answer  {request, answer, sigs_valid, accepted}  assert_signatures_only*)
(*  role    {role, before, after, args_before[], args_after[], shared,     *)
(*           check_tx}                                                     *)
(*          sign / finalize / to_v0 / to_v2 / combine / request_signatures *)
(*          (shared = mutable objects the result shares with an argument)  *)
(*  view    {psbt, view_maps[], object_maps[], view_tx, object_tx,         *)
(*           view_lock, object_lock}      PsbtView against Psbt            *)
(***************************************************************************)
EXTENDS PsbtRoles, EvBase

M(hexs) == PPsbtMaps(FromHex(hexs)).v
Ms(l) == [k \in 1..Len(l) |-> M(l[k])]
SameVersion(ps) == \A a, b \in 1..Len(ps) : VersionOf(ps[a]) = VersionOf(ps[b])
\* what makes two PSBTs the same transaction: version 0 carries the unsigned transaction and it is the identity; version 2's identity is BIP370's,
\* the transaction its fields build with every sequence set to zero (a sequence is a field a Signer or Updater may still move)
IdOf(p) == LET tx == TxOfMaps(p) IN
  IF VersionOf(p) = 0 THEN tx ELSE [tx EXCEPT !.vin = [j \in 1..Len(tx.vin) |-> [tx.vin[j] EXCEPT !.sequence = BZero]]]
SameId(ps) == \A a, b \in 1..Len(ps) : IdOf(ps[a]) = IdOf(ps[b])
Check(e) ==
  CASE e.op = "combine" ->
         LET ps == Ms(e.operands) IN
           IF ~SameVersion(ps) THEN e.outcome = "refused"
           ELSE IF ~SameId(ps) THEN e.outcome = "refused"            \* PSBTs of different transactions are refused
           ELSE IF SameTransaction(ps) /\ ~Conflict(ps) THEN e.outcome = "ok" /\ CombineOK(ps, M(e.result))
           ELSE TRUE
    [] e.op = "answer" ->
         LET req == M(e.request)  ans == M(e.answer) IN
           e.accepted = (VersionOf(req) = VersionOf(ans) /\ AnswerShapeOK(req, ans) /\ e.sigs_valid)
    [] e.op = "role" ->
         /\ e.args_after = e.args_before                               \* the PSBTs handed in are left as they were
         /\ e.shared = 0                                                \* and the result is a fresh object
         /\ (e.check_tx => TxOfMaps(M(e.after)) = TxOfMaps(M(e.before)))  \* signing, finalizing, converting: the unsigned transaction stays
    \* the streamed read-only view and the parsed object give one answer: the same maps, the same transaction (re-derived here too)
    [] e.op = "view" -> /\ e.view_maps = e.object_maps /\ e.view_tx = e.object_tx /\ e.view_lock = e.object_lock
                        /\ ToHex(SerTx(TxOfMaps(M(e.psbt)), FALSE)) = e.view_tx
EventOK == i > 0 => Check(Trace[i])
Diag == i > 0 => PrintT(<<"DIAG", i, <<Trace[i].op,
           CASE Trace[i].op = "combine" -> LET ps == Ms(Trace[i].operands) IN
                  <<SameVersion(ps), SameVersion(ps) /\ SameId(ps), SameTransaction(ps), Conflict(ps),
                    IF Trace[i].outcome = "ok" THEN [j \in 1..NMaps(ps) |-> <<Union(ps, j) \ Plain(M(Trace[i].result), j), Plain(M(Trace[i].result), j) \ Union(ps, j)>>] ELSE << >>,
                    CombinedModifiable(ps)>>
             [] Trace[i].op = "answer" -> <<AnswerShapeOK(M(Trace[i].request), M(Trace[i].answer)), Trace[i].sigs_valid>>
             [] Trace[i].op = "role" -> <<Trace[i].args_after = Trace[i].args_before, Trace[i].shared,
                                          TxOfMaps(M(Trace[i].after)) = TxOfMaps(M(Trace[i].before))>>
             [] OTHER -> "-">>>>)
=============================================================================
