------------------------------ MODULE ECDSAToy -------------------------------
(***************************************************************************)
(* ECDSA (SEC 1 v2 4.1.3 sign, 4.1.4 verify, 4.1.6 recover) on the toy     *)
(* curves of ECToyDefs, as a three-step machine                            *)
(*     idle --Sign(c,q,k)--> signed | failed --Verify--> verified          *)
(* and as exhaustive tables for replay into btclib.ecc.dsa.                *)
(* A group is a record [cv, G, n] with G of prime order n on curve cv.     *)
(* c is the challenge (bits2int of the digest, reduced mod n).             *)
(***************************************************************************)
EXTENDS ECToyDefs, SequencesExt

CONSTANTS GP, GA, GB, GX, GY, GN      \* one group per run (set by the cfg)
Grp == [cv |-> [p |-> GP, a |-> GA, b |-> GB], G |-> EC!Pt(GX, GY), n |-> GN]
\* constant-level tables, evaluated once by TLC: the point set, k |-> kG, a |-> 1/a mod n
GPts == Points(Grp.cv)
GT   == [kk \in 0..GN |-> MulRep(Grp.cv, kk, Grp.G)]
InvT == [a \in 1..GN - 1 |-> Inv(a, GN)]
MulG(kk) == GT[kk % GN]

ScInv(a, n) == InvT[a % n]
XModN(P, n) == P.x % n

\* 4.1.3; lowS folds s into 1..n\div 2 (BIP62/BIP146), flipping the parity bit of the key id
SignRaw(grp, c, q, k) ==
    LET K == MulG(k)
        r == XModN(K, grp.n)
        s == (ScInv(k, grp.n) * (c + r * q)) % grp.n
        id == (IF K.y % 2 = 1 THEN 1 ELSE 0) + 2 * (K.x \div grp.n)
    IN [ok |-> r # 0 /\ s # 0, r |-> r, s |-> s, id |-> id]
Sign(grp, c, q, k, lowS) ==
    LET raw == SignRaw(grp, c, q, k) IN
    IF raw.ok /\ lowS /\ 2 * raw.s > grp.n
    THEN [raw EXCEPT !.s = grp.n - raw.s, !.id = IF raw.id % 2 = 1 THEN raw.id - 1 ELSE raw.id + 1]
    ELSE raw

\* 4.1.4
Verify(grp, c, Q, r, s) ==
    /\ r \in 1..grp.n - 1 /\ s \in 1..grp.n - 1
    /\ LET w == ScInv(s, grp.n)
           R == EC!Add(grp.cv, MulG((c * w) % grp.n), MulRep(grp.cv, (r * w) % grp.n, Q))
       IN ~R.inf /\ XModN(R, grp.n) = r

\* 4.1.6 with the key id naming the candidate: bit 0 = parity of y_R, bit 1 = x_R = r + n
\* (step 1.4 of 4.1.6: a candidate R with nR # O is not a candidate -- it matters when the cofactor is > 1)
Lift(cv, x, odd) == LET S == {P \in GPts : ~P.inf /\ P.x = x /\ P.y % 2 = odd /\ MulRep(cv, GN, P) = EC!Inf} IN
                    IF x >= cv.p \/ S = {} THEN EC!Inf ELSE CHOOSE P \in S : TRUE
Recover(grp, id, c, r, s) ==
    LET R == Lift(grp.cv, r + (id \div 2) * grp.n, id % 2)
    IN IF R.inf \/ r \notin 1..grp.n - 1 \/ s \notin 1..grp.n - 1 THEN EC!Inf
       ELSE LET ri == ScInv(r, grp.n)
            IN EC!Add(grp.cv, MulRep(grp.cv, (s * ri) % grp.n, R),
                      EC!Neg(grp.cv, MulG((c * ri) % grp.n)))
\* more candidates exist when the cofactor is > 1 (x_R = r + j n for j up to the cofactor): the set of all
RecoverAll(grp, c, r, s) ==
    {Q \in {LET R == Lift(grp.cv, r + j * grp.n, odd)
                ri == ScInv(r, grp.n)
            IN IF R.inf THEN EC!Inf
               ELSE EC!Add(grp.cv, MulRep(grp.cv, (s * ri) % grp.n, R), EC!Neg(grp.cv, MulG((c * ri) % grp.n)))
            : j \in 0..(grp.cv.p \div grp.n), odd \in {0, 1}} : ~Q.inf}

-----------------------------------------------------------------------------
\* the machine
VARIABLES stage, c, q, k, low, sig, verdict
mvars == <<stage, c, q, k, low, sig, verdict>>
MInit == /\ stage = "idle" /\ c \in 0..GN - 1 /\ q \in 1..GN - 1 /\ k \in 1..GN - 1 /\ low \in BOOLEAN
         /\ sig = [ok |-> FALSE, r |-> 0, s |-> 0, id |-> 0] /\ verdict = FALSE
DoSign == /\ stage = "idle" /\ sig' = Sign(Grp, c, q, k, low)
          /\ stage' = (IF sig'.ok THEN "signed" ELSE "failed")
          /\ UNCHANGED <<c, q, k, low, verdict>>
DoVerify == /\ stage = "signed" /\ verdict' = Verify(Grp, c, MulG(q), sig.r, sig.s)
            /\ stage' = "verified" /\ UNCHANGED <<c, q, k, low, sig>>
MNext == DoSign \/ DoVerify
MSpec == MInit /\ [][MNext]_mvars

\* C02 at the level of the design
SignedVerifies == stage = "verified" => verdict
LowS == (stage \in {"signed", "verified"} /\ low) => 2 * sig.s <= GN
RangeOK == stage \in {"signed", "verified"} => sig.r \in 1..GN - 1 /\ sig.s \in 1..GN - 1
RecoversSigner == stage = "signed" => Recover(Grp, sig.id, c, sig.r, sig.s) = MulG(q)
RecoverAllHasSigner == stage = "signed" => MulG(q) \in RecoverAll(Grp, c, sig.r, sig.s)
\* soundness: Verify is true for no (r, s) outside the SEC 1 equation -- checked over ALL pairs incl. 0, n, n+1
Sound == (stage = "idle" /\ k = 1 /\ low = FALSE) =>
    \A r \in 0..GN + 1, s \in 0..GN + 1 :
        Verify(Grp, c, MulG(q), r, s) =>
            /\ r \in 1..GN - 1 /\ s \in 1..GN - 1
            /\ \E kk \in 1..GN - 1 : LET raw == SignRaw(Grp, c, q, kk) IN raw.ok /\ raw.r = r /\ (raw.s = s)

-----------------------------------------------------------------------------
\* tables for replay (evaluated in the initial states with the least c/q/k/low only)
XY(P) == IF P.inf THEN <<-1, -1>> ELSE <<P.x, P.y>>
Table ==
    [sign   |-> [cc \in 0..GN - 1 |-> [qq \in 1..GN - 1 |-> [kk \in 1..GN - 1 |->
                    LET a == Sign(Grp, cc, qq, kk, FALSE)  b == Sign(Grp, cc, qq, kk, TRUE)
                    IN <<IF a.ok THEN 1 ELSE 0, a.r, a.s, a.id, b.s, b.id>>]]],
     verify |-> [cc \in 0..GN - 1 |-> [qq \in 1..GN - 1 |->
                    SetToSeq({<<r, s>> \in (0..GN + 1) \X (0..GN + 1) : Verify(Grp, cc, MulG(qq), r, s)})]],
     recover |-> [cc \in 0..GN - 1 |-> [r \in 1..GN - 1 |-> [s \in 1..GN - 1 |->
                    SetToSeq({XY(P) : P \in RecoverAll(Grp, cc, r, s)})]]]]
EmitTable == (stage = "idle" /\ c = 0 /\ q = 1 /\ k = 1 /\ low = FALSE) => PrintT(<<"ECDSA", Table>>)
=============================================================================
