-------------------------------- MODULE ScriptVM -------------------------------
(***************************************************************************)
(* Bitcoin Core's EvalScript (script/interpreter.cpp) at byte level: one   *)
(* step per opcode read by GetOp, the checks in Core's order (DESIGN       *)
(* appendix A.1).  Stack elements are byte strings; numbers are            *)
(* CScriptNum, little-endian sign-magnitude, kept as [neg, mag] with a     *)
(* BigNat magnitude so that 5-byte results and the 4-byte operand limit    *)
(* are exact.                                                              *)
(*                                                                         *)
(* A machine state is [pc, stack, alt, vf, ops, codesep, err]; err = ""    *)
(* while running.  sv is the signature version: "base", "v0", "tap".       *)
(* flags is a set of Core's SCRIPT_VERIFY_* names.  ctx carries what the   *)
(* locktime opcodes and signature checks read from the transaction.        *)
(* CHECKSIG-family opcodes call CheckSig / CheckMultiSig of the module     *)
(* that instantiates this one (ScriptSigs), so that this module stays      *)
(* signature-free.                                                         *)
(***************************************************************************)
EXTENDS Integers, Sequences, SequencesExt, BigNat, Hash, ScriptBytes

\* ---- script numbers --------------------------------------------------------------------
Num(neg, mag) == [neg |-> neg /\ ~BIsZero(mag), mag |-> mag]
NumInt(i) == IF i < 0 THEN Num(TRUE, B(0 - i)) ELSE Num(FALSE, B(i))
\* decode without size or minimality checks
NumDecode(b) ==
    IF b = << >> THEN Num(FALSE, BZero)
    ELSE LET last == b[Len(b)]
             body == [j \in 1..Len(b) |-> IF j = Len(b) THEN last % 128 ELSE b[j]]
         IN Num(last >= 128, BFromBytesLE(body))
\* minimal encoding
NumEncode(n) ==
    IF BIsZero(n.mag) THEN << >>
    ELSE LET len == (BBitLen(n.mag) + 7) \div 8
             le == BToBytesLE(n.mag, len)
         IN IF le[len] >= 128 THEN Append(le, IF n.neg THEN 128 ELSE 0)
            ELSE [j \in 1..len |-> IF j = len /\ n.neg THEN le[j] + 128 ELSE le[j]]
\* fRequireMinimal check of CScriptNum
NumMinimal(b) == b = << >> \/ ~(b[Len(b)] % 128 = 0 /\ (Len(b) = 1 \/ b[Len(b) - 1] < 128))
NumOK(b, maxlen, minimal) == Len(b) <= maxlen /\ (minimal => NumMinimal(b))
NumNeg(n) == Num(~n.neg, n.mag)
NumAdd(a, b) == IF a.neg = b.neg THEN Num(a.neg, BAdd(a.mag, b.mag))
                ELSE IF BGe(a.mag, b.mag) THEN Num(a.neg, BSub(a.mag, b.mag)) ELSE Num(b.neg, BSub(b.mag, a.mag))
NumSub(a, b) == NumAdd(a, NumNeg(b))
NumLt(a, b) == IF a.neg /\ ~b.neg THEN TRUE ELSE IF ~a.neg /\ b.neg THEN FALSE
               ELSE IF a.neg THEN BGt(a.mag, b.mag) ELSE BLt(a.mag, b.mag)
NumEq(a, b) == a = b
NumLe(a, b) == NumLt(a, b) \/ NumEq(a, b)
NumIsZero(n) == BIsZero(n.mag)
\* a small script number as a TLC integer (only used where Core casts to int after a range check)
NumToInt(n) == IF BGe(n.mag, BPow2(30)) THEN (IF n.neg THEN -1073741824 ELSE 1073741824)
               ELSE IF n.neg THEN 0 - BToInt(n.mag) ELSE BToInt(n.mag)
BoolBytes(t) == IF t THEN <<1>> ELSE << >>
CastToBool(b) == \E j \in 1..Len(b) : b[j] # 0 /\ ~(j = Len(b) /\ b[j] = 128)

\* ---- limits ------------------------------------------------------------------------------
MaxScriptSize == 10000
MaxElementSize == 520
MaxOps == 201
MaxStack == 1000
Disabled == {126, 127, 128, 129, 131, 132, 133, 134, 141, 142, 149, 150, 151, 152, 153}

\* BIP62 rule 3/4: is the push opcode the shortest that can push data
MinimalPush(data, code) ==
    IF Len(data) = 0 THEN code = 0
    ELSE IF Len(data) = 1 /\ data[1] >= 1 /\ data[1] <= 16 THEN FALSE
    ELSE IF Len(data) = 1 /\ data[1] = 129 THEN FALSE
    ELSE IF Len(data) <= 75 THEN code = Len(data)
    ELSE IF Len(data) <= 255 THEN code = 76
    ELSE IF Len(data) <= 65535 THEN code = 77
    ELSE TRUE

\* ---- stack helpers (top of the stack is the END of the sequence) ----------------------------
Top(s, k) == s[Len(s) - k + 1]                      \* k = 1: top
Pop(s, k) == SubSeq(s, 1, Len(s) - k)
Push(s, x) == Append(s, x)

Err(st, e) == [st EXCEPT !.err = e]
Exec(st) == \A j \in 1..Len(st.vf) : st.vf[j]

\* locktime checks against the transaction context (A.1 CLTV / CSV)
LockTimeThreshold == B(500000000)
CheckLockTime(n, ctx) ==
    /\ (BLt(ctx.locktime, LockTimeThreshold) = BLt(n.mag, LockTimeThreshold))
    /\ BLe(n.mag, ctx.locktime)
    /\ ctx.sequence # BSub(BPow2(32), BOne)
SeqDisable == BPow2(31)
SeqTypeFlag == BPow2(22)
SeqMask == BOr(SeqTypeFlag, B(65535))
CheckSequence(n, ctx) ==
    /\ BGe(ctx.version, B(2))
    /\ BAnd(ctx.sequence, SeqDisable) = BZero
    /\ LET a == BAnd(n.mag, SeqMask)  b == BAnd(ctx.sequence, SeqMask) IN
         /\ (BLt(a, SeqTypeFlag) = BLt(b, SeqTypeFlag))
         /\ BLe(a, b)

\* ---- the signature interface, provided by the instantiating module -------------------------
CONSTANTS CheckSig(_, _, _, _, _, _),        \* (sig, key, script, st, flags/sv/ctx record, opts) -> [err, ok, budget]
          CheckMultiSig(_, _, _, _, _)       \* (sigs, keys, script, st, env) -> [err, ok]

\* env = [flags, sv, ctx]
HasF(env, f) == f \in env.flags

\* ---- one opcode -------------------------------------------------------------------------------
Unary(st, env, F(_)) ==
    IF Len(st.stack) < 1 THEN Err(st, "INVALID_STACK_OPERATION")
    ELSE LET b == Top(st.stack, 1) IN
         IF ~NumOK(b, 4, HasF(env, "MINIMALDATA")) THEN Err(st, "SCRIPTNUM")
         ELSE [st EXCEPT !.stack = Push(Pop(st.stack, 1), NumEncode(F(NumDecode(b))))]
Binary(st, env, F(_, _)) ==       \* F returns the bytes to push
    IF Len(st.stack) < 2 THEN Err(st, "INVALID_STACK_OPERATION")
    ELSE LET a == Top(st.stack, 2)  b == Top(st.stack, 1) IN
         IF ~NumOK(a, 4, HasF(env, "MINIMALDATA")) \/ ~NumOK(b, 4, HasF(env, "MINIMALDATA")) THEN Err(st, "SCRIPTNUM")
         ELSE [st EXCEPT !.stack = Push(Pop(st.stack, 2), F(NumDecode(a), NumDecode(b)))]
VerifyTop(st, e) ==                \* OP_VERIFY applied to the current top
    IF Len(st.stack) < 1 THEN Err(st, "INVALID_STACK_OPERATION")
    ELSE IF CastToBool(Top(st.stack, 1)) THEN [st EXCEPT !.stack = Pop(st.stack, 1)] ELSE Err(st, e)
Need(st, k, Do) == IF Len(st.stack) < k THEN Err(st, "INVALID_STACK_OPERATION") ELSE Do

HashOp(st, F(_)) == Need(st, 1, [st EXCEPT !.stack = Push(Pop(st.stack, 1), F(Top(st.stack, 1)))])

Dispatch(st, env, op, script, opIndex) ==
    LET s == st.stack  c == op.code  min == HasF(env, "MINIMALDATA") IN
    CASE c = 79 -> [st EXCEPT !.stack = Push(s, <<129>>)]
      [] c >= 81 /\ c <= 96 -> [st EXCEPT !.stack = Push(s, <<c - 80>>)]
      [] c = 97 -> st
      [] c = 177 ->       \* CHECKLOCKTIMEVERIFY
            IF ~HasF(env, "CHECKLOCKTIMEVERIFY") THEN st
            ELSE IF Len(s) < 1 THEN Err(st, "INVALID_STACK_OPERATION")
            ELSE IF ~NumOK(Top(s, 1), 5, min) THEN Err(st, "SCRIPTNUM")
            ELSE LET n == NumDecode(Top(s, 1)) IN
                 IF n.neg THEN Err(st, "NEGATIVE_LOCKTIME")
                 ELSE IF ~CheckLockTime(n, env.ctx) THEN Err(st, "UNSATISFIED_LOCKTIME") ELSE st
      [] c = 178 ->       \* CHECKSEQUENCEVERIFY
            IF ~HasF(env, "CHECKSEQUENCEVERIFY") THEN st
            ELSE IF Len(s) < 1 THEN Err(st, "INVALID_STACK_OPERATION")
            ELSE IF ~NumOK(Top(s, 1), 5, min) THEN Err(st, "SCRIPTNUM")
            ELSE LET n == NumDecode(Top(s, 1)) IN
                 IF n.neg THEN Err(st, "NEGATIVE_LOCKTIME")
                 ELSE IF BAnd(n.mag, SeqDisable) # BZero THEN st
                 ELSE IF ~CheckSequence(n, env.ctx) THEN Err(st, "UNSATISFIED_LOCKTIME") ELSE st
      [] c = 176 \/ (c >= 179 /\ c <= 185) ->
            IF HasF(env, "DISCOURAGE_UPGRADABLE_NOPS") THEN Err(st, "DISCOURAGE_UPGRADABLE_NOPS") ELSE st
      [] c = 105 -> VerifyTop(st, "VERIFY")
      [] c = 106 -> Err(st, "OP_RETURN")
      [] c = 107 -> Need(st, 1, [st EXCEPT !.stack = Pop(s, 1), !.alt = Push(st.alt, Top(s, 1))])
      [] c = 108 -> IF Len(st.alt) < 1 THEN Err(st, "INVALID_ALTSTACK_OPERATION")
                    ELSE [st EXCEPT !.stack = Push(s, Top(st.alt, 1)), !.alt = Pop(st.alt, 1)]
      [] c = 109 -> Need(st, 2, [st EXCEPT !.stack = Pop(s, 2)])
      [] c = 110 -> Need(st, 2, [st EXCEPT !.stack = s \o <<Top(s, 2), Top(s, 1)>>])
      [] c = 111 -> Need(st, 3, [st EXCEPT !.stack = s \o <<Top(s, 3), Top(s, 2), Top(s, 1)>>])
      [] c = 112 -> Need(st, 4, [st EXCEPT !.stack = s \o <<Top(s, 4), Top(s, 3)>>])
      [] c = 113 -> Need(st, 6, [st EXCEPT !.stack = Pop(s, 6) \o <<Top(s, 4), Top(s, 3), Top(s, 2), Top(s, 1), Top(s, 6), Top(s, 5)>>])
      [] c = 114 -> Need(st, 4, [st EXCEPT !.stack = Pop(s, 4) \o <<Top(s, 2), Top(s, 1), Top(s, 4), Top(s, 3)>>])
      [] c = 115 -> Need(st, 1, IF CastToBool(Top(s, 1)) THEN [st EXCEPT !.stack = Push(s, Top(s, 1))] ELSE st)
      [] c = 116 -> [st EXCEPT !.stack = Push(s, NumEncode(NumInt(Len(s))))]
      [] c = 117 -> Need(st, 1, [st EXCEPT !.stack = Pop(s, 1)])
      [] c = 118 -> Need(st, 1, [st EXCEPT !.stack = Push(s, Top(s, 1))])
      [] c = 119 -> Need(st, 2, [st EXCEPT !.stack = Push(Pop(s, 2), Top(s, 1))])
      [] c = 120 -> Need(st, 2, [st EXCEPT !.stack = Push(s, Top(s, 2))])
      [] c = 121 \/ c = 122 ->      \* PICK, ROLL
            IF Len(s) < 2 THEN Err(st, "INVALID_STACK_OPERATION")
            ELSE IF ~NumOK(Top(s, 1), 4, min) THEN Err(st, "SCRIPTNUM")
            ELSE LET n == NumDecode(Top(s, 1))  rest == Pop(s, 1) IN
                 IF n.neg \/ BGe(n.mag, B(Len(rest))) THEN Err(st, "INVALID_STACK_OPERATION")
                 ELSE LET k == BToInt(n.mag)  x == Top(rest, k + 1) IN
                      IF c = 121 THEN [st EXCEPT !.stack = Push(rest, x)]
                      ELSE [st EXCEPT !.stack = Push(SubSeq(rest, 1, Len(rest) - k - 1) \o SubSeq(rest, Len(rest) - k + 1, Len(rest)), x)]
      [] c = 123 -> Need(st, 3, [st EXCEPT !.stack = Pop(s, 3) \o <<Top(s, 2), Top(s, 1), Top(s, 3)>>])
      [] c = 124 -> Need(st, 2, [st EXCEPT !.stack = Pop(s, 2) \o <<Top(s, 1), Top(s, 2)>>])
      [] c = 125 -> Need(st, 2, [st EXCEPT !.stack = Pop(s, 2) \o <<Top(s, 1), Top(s, 2), Top(s, 1)>>])
      [] c = 130 -> Need(st, 1, [st EXCEPT !.stack = Push(s, NumEncode(NumInt(Len(Top(s, 1)))))])
      [] c = 135 -> Need(st, 2, [st EXCEPT !.stack = Push(Pop(s, 2), BoolBytes(Top(s, 1) = Top(s, 2)))])
      [] c = 136 -> Need(st, 2, IF Top(s, 1) = Top(s, 2) THEN [st EXCEPT !.stack = Pop(s, 2)] ELSE Err(st, "EQUALVERIFY"))
      [] c = 139 -> Unary(st, env, LAMBDA n : NumAdd(n, NumInt(1)))
      [] c = 140 -> Unary(st, env, LAMBDA n : NumSub(n, NumInt(1)))
      [] c = 143 -> Unary(st, env, NumNeg)
      [] c = 144 -> Unary(st, env, LAMBDA n : Num(FALSE, n.mag))
      [] c = 145 -> Unary(st, env, LAMBDA n : NumInt(IF NumIsZero(n) THEN 1 ELSE 0))
      [] c = 146 -> Unary(st, env, LAMBDA n : NumInt(IF NumIsZero(n) THEN 0 ELSE 1))
      [] c = 147 -> Binary(st, env, LAMBDA a, b : NumEncode(NumAdd(a, b)))
      [] c = 148 -> Binary(st, env, LAMBDA a, b : NumEncode(NumSub(a, b)))
      [] c = 154 -> Binary(st, env, LAMBDA a, b : BoolBytes(~NumIsZero(a) /\ ~NumIsZero(b)))
      [] c = 155 -> Binary(st, env, LAMBDA a, b : BoolBytes(~NumIsZero(a) \/ ~NumIsZero(b)))
      [] c = 156 -> Binary(st, env, LAMBDA a, b : BoolBytes(NumEq(a, b)))
      [] c = 157 -> LET r == Binary(st, env, LAMBDA a, b : BoolBytes(NumEq(a, b))) IN
                    IF r.err # "" THEN r ELSE VerifyTop(r, "NUMEQUALVERIFY")
      [] c = 158 -> Binary(st, env, LAMBDA a, b : BoolBytes(~NumEq(a, b)))
      [] c = 159 -> Binary(st, env, LAMBDA a, b : BoolBytes(NumLt(a, b)))
      [] c = 160 -> Binary(st, env, LAMBDA a, b : BoolBytes(NumLt(b, a)))
      [] c = 161 -> Binary(st, env, LAMBDA a, b : BoolBytes(NumLe(a, b)))
      [] c = 162 -> Binary(st, env, LAMBDA a, b : BoolBytes(NumLe(b, a)))
      [] c = 163 -> Binary(st, env, LAMBDA a, b : NumEncode(IF NumLt(a, b) THEN a ELSE b))
      [] c = 164 -> Binary(st, env, LAMBDA a, b : NumEncode(IF NumLt(b, a) THEN a ELSE b))
      [] c = 165 ->       \* WITHIN: min <= x < max
            IF Len(s) < 3 THEN Err(st, "INVALID_STACK_OPERATION")
            ELSE IF \E k \in 1..3 : ~NumOK(Top(s, k), 4, min) THEN Err(st, "SCRIPTNUM")
            ELSE LET x == NumDecode(Top(s, 3))  lo == NumDecode(Top(s, 2))  hi == NumDecode(Top(s, 1)) IN
                 [st EXCEPT !.stack = Push(Pop(s, 3), BoolBytes(NumLe(lo, x) /\ NumLt(x, hi)))]
      [] c = 166 -> HashOp(st, RIPEMD160)
      [] c = 167 -> HashOp(st, SHA1)
      [] c = 168 -> HashOp(st, SHA256)
      [] c = 169 -> HashOp(st, Hash160)
      [] c = 170 -> HashOp(st, Hash256)
      [] c = 171 -> [st EXCEPT !.codesep = [pos |-> op.next, index |-> opIndex]]
      [] c = 172 \/ c = 173 ->      \* CHECKSIG, CHECKSIGVERIFY
            IF Len(s) < 2 THEN Err(st, "INVALID_STACK_OPERATION")
            ELSE LET r == CheckSig(Top(s, 2), Top(s, 1), script, st, env, [add |-> FALSE]) IN
                 IF r.err # "" THEN Err(st, r.err)
                 ELSE LET st2 == [st EXCEPT !.stack = Push(Pop(s, 2), BoolBytes(r.ok)), !.budget = r.budget] IN
                      IF c = 173 THEN VerifyTop(st2, "CHECKSIGVERIFY") ELSE st2
      [] c = 186 ->       \* CHECKSIGADD (tapscript only)
            IF env.sv # "tap" THEN Err(st, "BAD_OPCODE")
            ELSE IF Len(s) < 3 THEN Err(st, "INVALID_STACK_OPERATION")
            ELSE IF ~NumOK(Top(s, 2), 4, min) THEN Err(st, "SCRIPTNUM")
            ELSE LET r == CheckSig(Top(s, 3), Top(s, 1), script, st, env, [add |-> TRUE]) IN
                 IF r.err # "" THEN Err(st, r.err)
                 ELSE [st EXCEPT !.stack = Push(Pop(s, 3), NumEncode(NumAdd(NumDecode(Top(s, 2)), NumInt(IF r.ok THEN 1 ELSE 0)))),
                                 !.budget = r.budget]
      [] c = 174 \/ c = 175 ->      \* CHECKMULTISIG(VERIFY)
            IF env.sv = "tap" THEN Err(st, "TAPSCRIPT_CHECKMULTISIG")
            ELSE LET r == CheckMultiSig(st, script, env, c = 175, opIndex) IN r
      [] OTHER -> Err(st, "BAD_OPCODE")

\* one full step of the loop body of EvalScript for the opcode at st.pc
StepOp(st, env, script, opIndex) ==
    LET op == GetOp(script, st.pc)
        fExec == Exec(st)
        metered == env.sv # "tap"
    IN IF ~op.ok THEN Err(st, "BAD_OPCODE")
       ELSE IF Len(op.data) > MaxElementSize THEN Err(st, "PUSH_SIZE")
       ELSE LET ops2 == IF metered /\ op.code > 96 THEN st.ops + 1 ELSE st.ops IN
       IF ops2 > MaxOps THEN Err(st, "OP_COUNT")
       ELSE IF op.code \in Disabled THEN Err(st, "DISABLED_OPCODE")
       ELSE IF op.code = 171 /\ env.sv = "base" /\ HasF(env, "CONST_SCRIPTCODE") THEN Err(st, "OP_CODESEPARATOR")
       ELSE LET st1 == [st EXCEPT !.ops = ops2, !.pc = op.next] IN
       LET st2 ==
          IF fExec /\ op.code <= 78 THEN
              IF HasF(env, "MINIMALDATA") /\ ~MinimalPush(op.data, op.code) THEN Err(st1, "MINIMALDATA")
              ELSE [st1 EXCEPT !.stack = Push(st1.stack, op.data)]
          ELSE IF op.code \in {99, 100} THEN          \* IF, NOTIF
              IF fExec THEN
                  IF Len(st1.stack) < 1 THEN Err(st1, "UNBALANCED_CONDITIONAL")
                  ELSE LET v == Top(st1.stack, 1)
                           mustMin == env.sv = "tap" \/ (env.sv = "v0" /\ HasF(env, "MINIMALIF"))
                       IN IF mustMin /\ ~(v = << >> \/ v = <<1>>) THEN Err(st1, IF env.sv = "tap" THEN "TAPSCRIPT_MINIMALIF" ELSE "MINIMALIF")
                          ELSE [st1 EXCEPT !.stack = Pop(st1.stack, 1),
                                           !.vf = Append(st1.vf, IF op.code = 99 THEN CastToBool(v) ELSE ~CastToBool(v))]
              ELSE [st1 EXCEPT !.vf = Append(st1.vf, FALSE)]
          ELSE IF op.code = 103 THEN                  \* ELSE
              IF st1.vf = << >> THEN Err(st1, "UNBALANCED_CONDITIONAL")
              ELSE [st1 EXCEPT !.vf = [st1.vf EXCEPT ![Len(st1.vf)] = ~@]]
          ELSE IF op.code = 104 THEN                  \* ENDIF
              IF st1.vf = << >> THEN Err(st1, "UNBALANCED_CONDITIONAL") ELSE [st1 EXCEPT !.vf = Pop(st1.vf, 1)]
          ELSE IF op.code \in {101, 102} THEN         \* VERIF, VERNOTIF: invalid even when not executed
              Err(st1, "BAD_OPCODE")
          ELSE IF fExec THEN Dispatch(st1, env, op, script, opIndex)
          ELSE st1
       IN IF st2.err = "" /\ Len(st2.stack) + Len(st2.alt) > MaxStack THEN Err(st2, "STACK_SIZE") ELSE st2

RECURSIVE RunFrom(_, _, _, _)
RunFrom(st, env, script, opIndex) ==
    IF st.err # "" THEN st
    ELSE IF st.pc > Len(script) THEN (IF st.vf # << >> THEN Err(st, "UNBALANCED_CONDITIONAL") ELSE st)
    ELSE RunFrom(StepOp(st, env, script, opIndex), env, script, opIndex + 1)

\* EvalScript: [err, stack]
Start(stack, budget) == [pc |-> 1, stack |-> stack, alt |-> << >>, vf |-> << >>, ops |-> 0,
                         codesep |-> [pos |-> 1, index |-> -1], budget |-> budget, err |-> ""]
Eval(script, stack, env, budget) ==
    IF env.sv # "tap" /\ Len(script) > MaxScriptSize THEN [Start(stack, budget) EXCEPT !.err = "SCRIPT_SIZE"]
    ELSE RunFrom(Start(stack, budget), env, script, 0)
=============================================================================
