------------------------------- MODULE RingSig -------------------------------
(***************************************************************************)
(* Pedersen commitments and Borromean ring signatures (Maxwell, Poelstra), *)
(* generic in curve and hash function as btclib.ecc.pedersen and           *)
(* btclib.ecc.borromean are.  A commitment is rG + vH with H derived from  *)
(* G by hashing (nobody knows log_G H).  A Borromean signature over k      *)
(* rings proves knowledge of one private key in EVERY ring: one challenge  *)
(* e0 closes all the rings at once.  Ring positions are 1-based here and   *)
(* hashed 0-based, as the implementation (and libsecp256k1-zkp) does.      *)
(***************************************************************************)
EXTENDS MuSig2

\* the hash of the uncompressed generator is a candidate abscissa, incremented until it is one
RECURSIVE NextOnCurve(_, _)
NextOnCurve(c, x) == LET P == LiftX(c, x) IN IF ~P.inf THEN P ELSE NextOnCurve(c, BMod(BAdd(x, BOne), c.p))
SecondGenerator(c, hf) == NextOnCurve(c, BMod(Bits2Int(H(hf, SecUncompressed(c, G(c))), c.n), c.n))
\* rG + vH, refused when it is the point at infinity
Commit(c, hf, r, v) == LET Q == ECR!Add(c, RMulG(c, r), RMul(c, v, SecondGenerator(c, hf))) IN [ok |-> ~Q.inf, Q |-> Q]
Opens(c, hf, r, v, Q) == LET cm == Commit(c, hf, r, v) IN cm.ok /\ cm.Q = Q

-----------------------------------------------------------------------------
U32(k) == BToBytes(BFromInt(k), 4)
RingHash(hf, m, R, i0, j0) == H(hf, R \o m \o U32(i0) \o U32(j0))
RingE(c, hf, m, R, i0, j0) == BMod(Bits2Int(RingHash(hf, m, R, i0, j0), c.n), c.n)
\* the message actually signed commits to every ring
MsgFormat(c, hf, msg, rings) == H(hf, msg \o FoldLeft(LAMBDA a, ring : FoldLeft(LAMBDA a2, P : a2 \o CBytes(c, P), a, ring), << >>, rings))
BadWalk == [ok |-> FALSE, r |-> << >>]
\* walk ring i from position j up to (not including) position stop: r is the commitment bytes entering position j;
\* at each position the challenge is hashed from r, and the next r is s*G - e*P.  A zero challenge or an infinite
\* commitment has no encoding and fails the walk.
RECURSIVE Walk(_, _, _, _, _, _, _, _, _)
Walk(c, hf, m, ring, srow, i0, j, stop, r) ==
  IF j >= stop THEN [ok |-> TRUE, r |-> r]
  ELSE LET e == RingE(c, hf, m, r, i0, j - 1) IN
       IF BIsZero(e) THEN BadWalk
       ELSE LET T == ECR!Add(c, RMulG(c, srow[j]), RMul(c, BSub(c.n, e), ring[j])) IN
            IF T.inf THEN BadWalk ELSE Walk(c, hf, m, ring, srow, i0, j + 1, stop, CBytes(c, T))
ShapeOK(rings, s) == Len(s) = Len(rings) /\ Len(rings) > 0 /\ \A i \in 1..Len(rings) : Len(s[i]) = Len(rings[i]) /\ Len(rings[i]) > 0
Verify1(c, hf, msg, e0, s, rings) ==
  /\ ShapeOK(rings, s)
  /\ LET m == MsgFormat(c, hf, msg, rings)
         ws == [i \in 1..Len(rings) |-> Walk(c, hf, m, rings[i], s[i], i - 1, 1, Len(rings[i]) + 1, e0)] IN
       /\ \A i \in 1..Len(rings) : ws[i].ok
       /\ H(hf, FoldLeft(LAMBDA a, w : a \o w.r, m, ws)) = e0
\* the signer of ring i knows q[i], the key at position at[i]; k[i] is its nonce; s holds the forged values of every
\* other position (the value at the signer's own position is ignored and replaced)
SignRing(c, hf, msg, k, at, q, s, rings) ==
  LET m == MsgFormat(c, hf, msg, rings)
      n == Len(rings)
      first == [i \in 1..n |-> LET R == RMulG(c, k[i]) IN IF R.inf THEN BadWalk ELSE Walk(c, hf, m, rings[i], s[i], i - 1, at[i] + 1, Len(rings[i]) + 1, CBytes(c, R))]
      e0 == H(hf, FoldLeft(LAMBDA a, w : a \o w.r, m, first))
      second == [i \in 1..n |-> Walk(c, hf, m, rings[i], s[i], i - 1, 1, at[i], e0)]
      es == [i \in 1..n |-> IF second[i].ok THEN RingE(c, hf, m, second[i].r, i - 1, at[i] - 1) ELSE BZero] IN
    [ok |-> \A i \in 1..n : first[i].ok /\ second[i].ok /\ ~BIsZero(es[i]),
     e0 |-> e0,
     s |-> [i \in 1..n |-> [j \in 1..Len(rings[i]) |-> IF j = at[i] THEN BAddMod(k[i], BMulMod(q[i], es[i], c.n), c.n) ELSE s[i][j]]]]
=============================================================================
