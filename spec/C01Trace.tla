------------------------------ MODULE C01Trace -------------------------------
(***************************************************************************)
(* Code -> specification for C01 at real size.  Events recorded from       *)
(* btclib.curves (mult, double_mult_var, multi_mult_var, PreparedPoint,    *)
(* bytes_from_point / point_from_octets) and from Curve(...) on the        *)
(* catalogue are recomputed with the affine group law of ECReal.           *)
(*   {op:"curve", c}                 the catalogued tuple must be SEC 1    *)
(*                                    valid; secp256k1 / secp256r1 must be *)
(*                                    the constants this spec carries      *)
(*   {op:"curve_accept", c, accepted} a caller-defined tuple is accepted   *)
(*                                    exactly when SEC 1 validates it      *)
(*   {op:"lin", c, ks, ps, out}      out = sum ks[i] * ps[i]               *)
(*   {op:"sec", c, P, comp, out}     octet encoding of a point             *)
(***************************************************************************)
EXTENDS ECReal, EvBase

Expected(e) ==
    LET c == CurveOf(e.c) IN
    CASE e.op = "curve" -> [ok |-> ValidCurve(c)
                                   /\ (e.name = "secp256k1" => c = Secp256k1)
                                   /\ (e.name = "secp256r1" => c = Secp256r1)]
      [] e.op = "curve_accept" -> [ok |-> ValidCurve(c) = e.accepted, want |-> ValidCurve(c)]
      [] e.op = "lin" ->
            \* a term whose point is not on the curve makes the whole sum undefined, whatever its scalar: the call is refused (out = {refused: 1})
            LET named(j) == "g" \in DOMAIN e.ps[j] \/ "inf" \in DOMAIN e.ps[j]
                off == \E j \in 1..Len(e.ps) : ~named(j) /\ ~ECR!OnCurve(c, PtOf(e.ps[j]))
                terms == [j \in 1..Len(e.ks) |-> RMul(c, N(e.ks[j]), IF "g" \in DOMAIN e.ps[j] THEN G(c) ELSE PtOf(e.ps[j]))]
            IN IF off THEN [ok |-> "refused" \in DOMAIN e.out, want |-> "refused"]
               ELSE [ok |-> "refused" \notin DOMAIN e.out /\ ECR!Sum(c, terms) = PtOf(e.out), want |-> ECR!Sum(c, terms)]
      [] e.op = "sec" ->
            LET P == PtOf(e.P)
                enc == IF e.comp THEN SecCompressed(c, P) ELSE SecUncompressed(c, P)
            IN [ok |-> ToHex(enc) = e.out, want |-> ToHex(enc)]

EventOK == i > 0 => Expected(Trace[i]).ok
Diag == i > 0 => PrintT(<<"DIAG", i, Expected(Trace[i])>>)
=============================================================================
