-------------------------------- MODULE NTGen --------------------------------
(***************************************************************************)
(* Specification -> code tables for btclib.number_theory: for every        *)
(* modulus m in Lo..Hi the inverse of every residue (or -1 when there is   *)
(* none), and for prime m the set of square roots and the Legendre symbol  *)
(* of every residue -- all by definition (module NumberTheory).            *)
(***************************************************************************)
EXTENDS NumberTheory, Sequences, SequencesExt, TLC

CONSTANTS Lo, Hi
VARIABLE m
Init == m \in Lo..Hi
Next == UNCHANGED m

Row(mm) == [m |-> mm, prime |-> IsPrime(mm),
            inv |-> [a \in 1..mm |-> IF HasInv(a - 1, mm) THEN Inv(a - 1, mm) ELSE -1],
            roots |-> IF IsPrime(mm) THEN [a \in 1..mm |-> SetToSortSeq(Sqrts(a - 1, mm), <) ] ELSE << >>]
\* the definitions satisfy the laws they are used as oracle for
Laws == \A a \in 0..m - 1 : /\ HasInv(a, m) => (a * Inv(a, m)) % m = 1 % m
                            /\ HasInv(a, m) <=> Gcd(a, m) = 1 \/ m = 1
                            /\ IsPrime(m) /\ m > 2 => (Legendre(a, m) = 1 <=> \E x \in 1..m - 1 : (x * x) % m = a /\ a # 0)
                            /\ IsPrime(m) /\ m > 2 => Cardinality(Sqrts(a, m)) = (IF a = 0 THEN 1 ELSE 1 + Legendre(a, m))
Emit == PrintT(<<"NT", Row(m)>>)
=============================================================================
