----------------------------- MODULE SigHashModel ----------------------------
(***************************************************************************)
(* The commitment matrix of the three signature-hash algorithms, checked   *)
(* on a universe with two values per field: for every algorithm, hash      *)
(* type, signed input and field, the digest changes when the field changes *)
(* EXACTLY when the BIPs say the hash type commits to that field.  This is *)
(* a check of the specification itself (SigHash.tla) before it is used as  *)
(* the oracle for btclib, and the matrix C10's tamper half relies on.      *)
(***************************************************************************)
EXTENDS SigHash, TLC

Id32(k) == Rep(k, 32)
In(k, seq) == [txid |-> Id32(k), vout |-> B(k), script |-> << >>, sequence |-> B(seq), witness |-> << >>]
Out(v, k) == [value |-> B(v), spk |-> <<81, k>>]
Tx0 == [version |-> B(2), locktime |-> B(7), vin |-> <<In(1, 10), In(2, 20)>>, vout |-> <<Out(100, 1), Out(200, 2)>>]
Prev0 == <<Out(1000, 11), Out(2000, 12)>>
Code0 == <<118, 169>>
Annex0 == <<80, 1>>
Ext0 == Rep(9, 32) \o <<0, 255, 255, 255, 255>>

Fields == {"version", "locktime", "outpoint1", "outpoint2", "sequence1", "sequence2", "output1", "output2",
           "amount1", "amount2", "spk1", "spk2", "code", "annex", "ext"}
Algs == {"legacy", "bip143", "bip341"}
HTs(alg) == IF alg = "bip341" THEN {0, 1, 2, 3, 129, 130, 131} ELSE {1, 2, 3, 129, 130, 131, 0, 4, 65, 159}

\* the universe's second value for each field
Flip(f, w) ==
    CASE f = "version"   -> [w EXCEPT !.tx.version = B(3)]
      [] f = "locktime"  -> [w EXCEPT !.tx.locktime = B(8)]
      [] f = "outpoint1" -> [w EXCEPT !.tx.vin[1].vout = B(5)]
      [] f = "outpoint2" -> [w EXCEPT !.tx.vin[2].txid = Id32(9)]
      [] f = "sequence1" -> [w EXCEPT !.tx.vin[1].sequence = B(11)]
      [] f = "sequence2" -> [w EXCEPT !.tx.vin[2].sequence = B(21)]
      [] f = "output1"   -> [w EXCEPT !.tx.vout[1].value = B(101)]
      [] f = "output2"   -> [w EXCEPT !.tx.vout[2].spk = <<81, 3>>]
      [] f = "amount1"   -> [w EXCEPT !.prev[1].value = B(1001)]
      [] f = "amount2"   -> [w EXCEPT !.prev[2].value = B(2001)]
      [] f = "spk1"      -> [w EXCEPT !.prev[1].spk = <<81, 13>>]
      [] f = "spk2"      -> [w EXCEPT !.prev[2].spk = <<81, 14>>]
      [] f = "code"      -> [w EXCEPT !.code = <<118, 170>>]
      [] f = "annex"     -> [w EXCEPT !.annex = <<80, 2>>]
      [] f = "ext"       -> [w EXCEPT !.ext = Rep(8, 32) \o <<0, 255, 255, 255, 255>>]
World0 == [tx |-> Tx0, prev |-> Prev0, code |-> Code0, annex |-> Annex0, ext |-> Ext0]

Digest(alg, w, idx, ht) ==
    CASE alg = "legacy" -> Legacy(w.tx, idx, w.code, B(ht))
      [] alg = "bip143" -> BIP143(w.tx, idx, w.code, w.prev[idx].value, B(ht))
      [] alg = "bip341" -> BIP341(w.tx, idx, w.prev, ht, 1, w.annex, w.ext)

\* ---- the BIPs' commitment rules, stated independently of the preimages ----------------
Num(f) == IF f \in {"outpoint1", "sequence1", "output1", "amount1", "spk1"} THEN 1 ELSE 2
Commits(alg, ht, idx, f) ==
    LET acp == ht >= 128
        base == IF alg = "bip341" THEN ht % 4 ELSE ht % 32
        none == base = 2
        single == base = 3
        mine == Num(f) = idx
    IN CASE f \in {"version", "locktime"} -> TRUE
         [] f \in {"outpoint1", "outpoint2"} -> mine \/ ~acp
         [] f \in {"sequence1", "sequence2"} ->
                mine \/ (~acp /\ (alg = "bip341" \/ ~(none \/ single)))
         [] f \in {"output1", "output2"} -> IF none THEN FALSE ELSE IF single THEN mine ELSE TRUE
         [] f \in {"amount1", "amount2"} -> alg # "legacy" /\ (mine \/ (alg = "bip341" /\ ~acp))
         [] f \in {"spk1", "spk2"} -> alg = "bip341" /\ (mine \/ ~acp)
         [] f = "code" -> alg # "bip341"
         [] f \in {"annex", "ext"} -> alg = "bip341"

VARIABLES alg, ht, idx, f
mvars == <<alg, ht, idx, f>>
MInit == alg \in Algs /\ ht \in HTs(alg) /\ idx \in {1, 2} /\ f \in Fields
MNext == UNCHANGED mvars
MSpec == MInit /\ [][MNext]_mvars

CommitsExactly ==
    (Digest(alg, World0, idx, ht) # Digest(alg, Flip(f, World0), idx, ht)) <=> Commits(alg, ht, idx, f)
\* legacy: SINGLE with no matching output signs the constant one; BIP341 refuses it
OneOut == [World0 EXCEPT !.tx.vout = <<Out(100, 1)>>]
SingleBug == (alg = "legacy" /\ ht % 32 = 3 /\ idx = 2) => Digest(alg, OneOut, idx, ht) = <<1>> \o Zeros(31)
TaprootRefusals == alg = "bip341" =>
    /\ TapRefused(OneOut.tx, 2, 3) /\ TapRefused(OneOut.tx, 2, 131) /\ ~TapRefused(OneOut.tx, 1, 3)
    /\ TapRefused(Tx0, 1, 128) /\ TapRefused(Tx0, 1, 4) /\ ~TapRefused(Tx0, idx, ht)
=============================================================================
