------------------------------- MODULE PoWModel --------------------------------
(* TLC checks the compact codec on every exponent x a boundary set of significands, and on values built around every
   byte boundary: GetCompact(SetCompact(b)) = b on canonical b; GetCompact never rounds up and loses less than one
   unit of its last place; it never writes the sign bit; SetCompact o GetCompact is idempotent; the codec is monotone. *)
EXTENDS PoW, TLC
CONSTANTS Exps, Sigs
VARIABLES e, s
Init == e \in Exps /\ s \in Sigs
Next == UNCHANGED <<e, s>>
Spec == Init /\ [][Next]_<<e, s>>
Bits == <<e, (s \div 65536) % 256, (s \div 256) % 256, s % 256>>
V == ValueOf(Bits)
RoundTripCanonical == Canonical(Bits) => BitsFromValue(V) = Bits
\* for every value this (e, s) denotes (sign ignored) that fits: re-encoding rounds down, by less than one unit in the last place
NeverUp == ~Overflows(Bits) =>
             LET b2 == BitsFromValue(V)  v2 == ValueOf(b2) IN
               /\ BLe(v2, V) /\ ~SignBit(b2) /\ BitsFromValue(v2) = b2 /\ (Canonical(b2) \/ BIsZero(V))
               /\ (b2[1] > 3 => BLt(BSub(V, v2), BShl(BOne, 8 * (b2[1] - 3))))
\* a value one above / below, perturbed in its low bytes: still rounds down and stays monotone
Perturbed == ~Overflows(Bits) /\ e <= 32 =>
             \A d \in {1, 255, 256, 65535} :
               LET w == BAdd(V, B(d)) IN BLt(w, Two256) =>
                 /\ BLe(ValueOf(BitsFromValue(w)), w)
                 /\ BGe(ValueOf(BitsFromValue(w)), ValueOf(BitsFromValue(V)))
NegativeIffSignAndNonZero == IsNegative(Bits) <=> (SignBit(Bits) /\ ~BIsZero(V))
=============================================================================
