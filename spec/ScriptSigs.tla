------------------------------- MODULE ScriptSigs -------------------------------
(***************************************************************************)
(* Bitcoin Core's script verification WITH the signature opcodes: the      *)
(* ScriptVM machine instantiated with EvalChecksig / CHECKMULTISIG of      *)
(* interpreter.cpp over the signature hashes of module SigHash, ECDSA of   *)
(* module ECDSAReal and BIP340 of module BIP340.                           *)
(* ctx = [tx, idx (1-based), prevouts (one [value, spk] per input),        *)
(*        version, locktime, sequence (of the input)].                     *)
(* Two corners are named rather than specified: a signature that is not    *)
(* strict DER where no flag demands it (Core parses it laxly) and a        *)
(* signature that occurs in its own script code (FindAndDelete): both      *)
(* yield the verdict "UNMODELLED".                                         *)
(***************************************************************************)
EXTENDS SigHash, Taproot

EC == INSTANCE ECDSAReal
K == Secp256k1
HasFlag(env, f) == f \in env.flags

\* ---- encodings (interpreter.cpp) ----
SigBody(sig) == SubSeq(sig, 1, Len(sig) - 1)
ValidSigEncoding(sig) == Len(sig) >= 9 /\ Len(sig) <= 73 /\ EC!StrictOK(SigBody(sig))
SigRS(sig) == LET p == EC!Parse(SigBody(sig)) IN [r |-> BFromBytes(p.r), s |-> BFromBytes(p.s)]
LowS(sig) == EC!IsLowS(K, SigRS(sig).s)
DefinedHashType(sig) == LET t == sig[Len(sig)] % 128 IN t >= 1 /\ t <= 3
CompressedOrUncompressed(key) == (Len(key) = 33 /\ key[1] \in {2, 3}) \/ (Len(key) = 65 /\ key[1] = 4)
Compressed(key) == Len(key) = 33 /\ key[1] \in {2, 3}
\* "" or Core's error
SigEncodingError(sig, env) ==
  IF sig = << >> THEN ""
  ELSE IF (HasFlag(env, "DERSIG") \/ HasFlag(env, "LOW_S") \/ HasFlag(env, "STRICTENC")) /\ ~ValidSigEncoding(sig) THEN "SIG_DER"
  ELSE IF HasFlag(env, "LOW_S") /\ ~LowS(sig) THEN "SIG_HIGH_S"
  ELSE IF HasFlag(env, "STRICTENC") /\ ~DefinedHashType(sig) THEN "SIG_HASHTYPE"
  ELSE ""
KeyEncodingError(key, env) ==
  IF HasFlag(env, "STRICTENC") /\ ~CompressedOrUncompressed(key) THEN "PUBKEYTYPE"
  ELSE IF HasFlag(env, "WITNESS_PUBKEYTYPE") /\ env.sv = "v0" /\ ~Compressed(key) THEN "WITNESS_PUBKEYTYPE"
  ELSE ""
\* the point a serialized key names (secp256k1_ec_pubkey_parse: compressed, uncompressed, hybrid)
KeyPoint(key) ==
  IF Len(key) = 33 /\ key[1] \in {2, 3} THEN
       LET P == LiftX(K, BFromBytes(SubSeq(key, 2, 33))) IN IF P.inf THEN P ELSE IF key[1] = 2 THEN P ELSE ECR!Neg(K, P)
  ELSE IF Len(key) = 65 /\ key[1] \in {4, 6, 7} THEN
       LET P == ECR!Pt(BFromBytes(SubSeq(key, 2, 33)), BFromBytes(SubSeq(key, 34, 65))) IN
         IF ~ECR!OnCurve(K, P) \/ BGe(P.x, K.p) \/ BGe(P.y, K.p) THEN ECR!Inf
         ELSE IF key[1] = 6 /\ BIsOdd(P.y) THEN ECR!Inf ELSE IF key[1] = 7 /\ BIsEven(P.y) THEN ECR!Inf ELSE P
  ELSE ECR!Inf

\* ---- the script code of a CHECKSIG: from after the last executed OP_CODESEPARATOR ----
ScriptCode(script, st) == SubSeq(script, st.codesep.pos, Len(script))
PushOf(b) == IF Len(b) <= 75 THEN <<Len(b)>> \o b ELSE IF Len(b) <= 255 THEN <<76, Len(b)>> \o b ELSE <<77, Len(b) % 256, Len(b) \div 256>> \o b
RECURSIVE ContainsOp(_, _, _)
ContainsOp(s, pc, pat) == IF pc > Len(s) THEN FALSE
                          ELSE IF pc + Len(pat) - 1 <= Len(s) /\ SubSeq(s, pc, pc + Len(pat) - 1) = pat THEN TRUE
                          ELSE LET op == GetOp(s, pc) IN IF ~op.ok THEN FALSE ELSE ContainsOp(s, op.next, pat)

\* CheckECDSASignature: "ok" | "fail" | "unmodelled"
EcdsaCheck(sig, key, code, env) ==
  IF sig = << >> THEN "fail"
  ELSE IF ~EC!StrictOK(SigBody(sig)) THEN "unmodelled"
  ELSE LET P == KeyPoint(key)  ht == B(sig[Len(sig)])  rs == SigRS(sig)
           ctx == env.ctx
           digest == IF env.sv = "v0" THEN BIP143(ctx.tx, ctx.idx, code, ctx.prevouts[ctx.idx].value, ht) ELSE Legacy(ctx.tx, ctx.idx, code, ht)
       IN IF P.inf THEN "fail" ELSE IF EC!Verify(K, BMod(BFromBytes(digest), K.n), P, rs.r, rs.s) THEN "ok" ELSE "fail"

\* ---- CHECKSIG / CHECKSIGVERIFY / CHECKSIGADD ----
TapHashTypeOK(ht) == ht \in {0, 1, 2, 3, 129, 130, 131}
SchnorrCheck(sig, key32, env, ext) ==       \* "" (valid) or Core's error
  IF Len(sig) \notin {64, 65} THEN "SCHNORR_SIG_SIZE"
  ELSE LET ht == IF Len(sig) = 65 THEN sig[65] ELSE 0  ctx == env.ctx IN
    IF Len(sig) = 65 /\ ht = 0 THEN "SCHNORR_SIG_HASHTYPE"
    ELSE IF ~TapHashTypeOK(ht) \/ (ht % 4 = 3 /\ ctx.idx > Len(ctx.tx.vout)) THEN "SCHNORR_SIG_HASHTYPE"
    ELSE LET parts == TapWitnessParts(ctx.tx.vin[ctx.idx].witness)
             digest == BIP341(ctx.tx, ctx.idx, ctx.prevouts, ht, IF ext = << >> THEN 0 ELSE 1, parts.annex, ext)
         IN IF Verify(K, HF("sha256"), BFromBytes(key32), digest, BFromBytes(SubSeq(sig, 1, 32)), BFromBytes(SubSeq(sig, 33, 64))) THEN "" ELSE "SCHNORR_SIG"
CodeSepLE(st) == IF st.codesep.index < 0 THEN <<255, 255, 255, 255>> ELSE LEInt(st.codesep.index, 4)
RealCheckSig(sig, key, script, st, env, opts) ==
  IF env.sv = "tap" THEN
       IF sig = << >> THEN (IF Len(key) = 0 THEN [err |-> "PUBKEYTYPE", ok |-> FALSE, budget |-> st.budget]
                            ELSE IF Len(key) # 32 /\ HasFlag(env, "DISCOURAGE_UPGRADABLE_PUBKEYTYPE") THEN [err |-> "DISCOURAGE_UPGRADABLE_PUBKEYTYPE", ok |-> FALSE, budget |-> st.budget]
                            ELSE [err |-> "", ok |-> FALSE, budget |-> st.budget])
       ELSE IF st.budget - 50 < 0 THEN [err |-> "TAPSCRIPT_VALIDATION_WEIGHT", ok |-> FALSE, budget |-> st.budget - 50]
       ELSE IF Len(key) = 0 THEN [err |-> "PUBKEYTYPE", ok |-> FALSE, budget |-> st.budget - 50]
       ELSE IF Len(key) = 32 THEN
              LET leaf == LET w == env.ctx.tx.vin[env.ctx.idx].witness  p == TapWitnessParts(w) IN SubSeq(p.ext, 1, 32)
                  e == SchnorrCheck(sig, key, env, leaf \o <<0>> \o CodeSepLE(st))
              IN [err |-> e, ok |-> e = "", budget |-> st.budget - 50]
       ELSE IF HasFlag(env, "DISCOURAGE_UPGRADABLE_PUBKEYTYPE") THEN [err |-> "DISCOURAGE_UPGRADABLE_PUBKEYTYPE", ok |-> FALSE, budget |-> st.budget - 50]
       ELSE [err |-> "", ok |-> TRUE, budget |-> st.budget - 50]
  ELSE LET code == ScriptCode(script, st)
           fd == env.sv = "base" /\ sig # << >> /\ ContainsOp(code, 1, PushOf(sig))
       IN IF fd THEN [err |-> "UNMODELLED", ok |-> FALSE, budget |-> st.budget]
          ELSE LET e1 == SigEncodingError(sig, env)  e2 == KeyEncodingError(key, env) IN
          IF e1 # "" THEN [err |-> e1, ok |-> FALSE, budget |-> st.budget]
          ELSE IF e2 # "" THEN [err |-> e2, ok |-> FALSE, budget |-> st.budget]
          ELSE LET c == EcdsaCheck(sig, key, code, env) IN
               IF c = "unmodelled" THEN [err |-> "UNMODELLED", ok |-> FALSE, budget |-> st.budget]
               ELSE IF c = "fail" /\ HasFlag(env, "NULLFAIL") /\ sig # << >> THEN [err |-> "SIG_NULLFAIL", ok |-> FALSE, budget |-> st.budget]
               ELSE [err |-> "", ok |-> c = "ok", budget |-> st.budget]

\* ---- CHECKMULTISIG(VERIFY) ----
Err2(st, e) == [st EXCEPT !.err = e]
NumOK2(b, minimal) == Len(b) <= 4 /\ (minimal => (b = << >> \/ ~(b[Len(b)] % 128 = 0 /\ (Len(b) = 1 \/ b[Len(b) - 1] < 128))))
SmallInt(b) == IF b = << >> THEN 0 ELSE LET last == b[Len(b)]  neg == last >= 128
                   mag == FoldLeft(LAMBDA a, j : a + (IF j = Len(b) THEN last % 128 ELSE b[j]) * (256 ^ (j - 1)), 0, [j \in 1..(IF Len(b) > 3 THEN 3 ELSE Len(b)) |-> j])
               IN IF Len(b) > 3 THEN 99999 ELSE IF neg THEN 0 - mag ELSE mag
\* walk the signatures against the keys as Core does: <<error, success>>
RECURSIVE MatchSigs(_, _, _, _, _, _)
MatchSigs(sigs, keys, isig, ikey, code, env) ==       \* sigs, keys in stack order (first pushed first); isig / ikey count from the END
  LET nSigs == Len(sigs) - isig + 1  nKeys == Len(keys) - ikey + 1 IN      \* remaining
  IF nSigs = 0 THEN <<"", TRUE>>
  ELSE IF nSigs > nKeys THEN <<"", FALSE>>
  ELSE LET sig == sigs[Len(sigs) - isig + 1]  key == keys[Len(keys) - ikey + 1]
           e1 == SigEncodingError(sig, env)  e2 == KeyEncodingError(key, env) IN
       IF e1 # "" THEN <<e1, FALSE>> ELSE IF e2 # "" THEN <<e2, FALSE>>
       ELSE LET c == EcdsaCheck(sig, key, code, env) IN
            IF c = "unmodelled" THEN <<"UNMODELLED", FALSE>>
            ELSE IF c = "ok" THEN MatchSigs(sigs, keys, isig + 1, ikey + 1, code, env)
            ELSE MatchSigs(sigs, keys, isig, ikey + 1, code, env)
RealMulti(st, script, env, verifyAfter, opIndex) ==
  LET s == st.stack  min == HasFlag(env, "MINIMALDATA")  top(k) == s[Len(s) - k + 1] IN
  IF Len(s) < 1 THEN Err2(st, "INVALID_STACK_OPERATION")
  ELSE IF ~NumOK2(top(1), min) THEN Err2(st, "SCRIPTNUM")
  ELSE LET n == SmallInt(top(1)) IN
  IF n < 0 \/ n > 20 THEN Err2(st, "PUBKEY_COUNT")
  ELSE IF st.ops + n > 201 THEN Err2(st, "OP_COUNT")
  ELSE IF Len(s) < n + 2 THEN Err2(st, "INVALID_STACK_OPERATION")
  ELSE IF ~NumOK2(top(n + 2), min) THEN Err2(st, "SCRIPTNUM")
  ELSE LET m == SmallInt(top(n + 2)) IN
  IF m < 0 \/ m > n THEN Err2(st, "SIG_COUNT")
  ELSE IF Len(s) < n + m + 3 THEN Err2(st, "INVALID_STACK_OPERATION")
  ELSE LET keys == SubSeq(s, Len(s) - n, Len(s) - 1)                  \* first pushed first
           sigs == SubSeq(s, Len(s) - n - 1 - m, Len(s) - n - 2)
           dummy == s[Len(s) - n - m - 2]
           code == ScriptCode(script, st)
           fd == env.sv = "base" /\ \E j \in 1..m : sigs[j] # << >> /\ ContainsOp(code, 1, PushOf(sigs[j]))
       IN IF fd THEN Err2(st, "UNMODELLED")
          ELSE LET r == MatchSigs(sigs, keys, 1, 1, code, env) IN
          IF r[1] # "" THEN Err2(st, r[1])
          ELSE IF ~r[2] /\ HasFlag(env, "NULLFAIL") /\ \E j \in 1..m : sigs[j] # << >> THEN Err2(st, "SIG_NULLFAIL")
          ELSE IF HasFlag(env, "NULLDUMMY") /\ dummy # << >> THEN Err2(st, "SIG_NULLDUMMY")
          ELSE LET rest == SubSeq(s, 1, Len(s) - n - m - 3)
                   st2 == [st EXCEPT !.stack = Append(rest, IF r[2] THEN <<1>> ELSE << >>), !.ops = st.ops + n] IN
               IF verifyAfter THEN (IF r[2] THEN [st2 EXCEPT !.stack = rest] ELSE Err2(st2, "CHECKMULTISIGVERIFY")) ELSE st2

VM == INSTANCE ScriptVM WITH CheckSig <- RealCheckSig, CheckMultiSig <- RealMulti

\* ---- VerifyScript and friends (as module ScriptVerify, over this machine) ----
RECURSIVE PushOnlyFrom(_, _)
PushOnlyFrom(s, pc) == IF pc > Len(s) THEN TRUE ELSE LET op == GetOp(s, pc) IN op.ok /\ op.code <= 96 /\ PushOnlyFrom(s, op.next)
PushOnly(s) == PushOnlyFrom(s, 1)
IsWitnessProgram(s) == Len(s) >= 4 /\ Len(s) <= 42 /\ (s[1] = 0 \/ (s[1] >= 81 /\ s[1] <= 96)) /\ s[2] + 2 = Len(s)
WitVer(s) == IF s[1] = 0 THEN 0 ELSE s[1] - 80
WitProg(s) == SubSeq(s, 3, Len(s))
SinglePush(x) == <<Len(x)>> \o x
Env(flags, sv, ctx) == [flags |-> flags, sv |-> sv, ctx |-> ctx]
ExecuteWitnessScript(stack, script, sv, flags, ctx, budget) ==
    IF sv = "tap" /\ Len(stack) > VM!MaxStack THEN "STACK_SIZE"
    ELSE IF \E j \in 1..Len(stack) : Len(stack[j]) > VM!MaxElementSize THEN "PUSH_SIZE"
    ELSE LET r == VM!Eval(script, stack, Env(flags, sv, ctx), budget) IN
         IF r.err # "" THEN r.err
         ELSE IF Len(r.stack) # 1 THEN "CLEANSTACK"
         ELSE IF ~VM!CastToBool(r.stack[1]) THEN "EVAL_FALSE" ELSE ""
OpSuccess(c) == c = 80 \/ c = 98 \/ (c >= 126 /\ c <= 129) \/ (c >= 131 /\ c <= 134) \/ c = 137 \/ c = 138 \/ c = 141 \/ c = 142
                \/ (c >= 149 /\ c <= 153) \/ (c >= 187 /\ c <= 254)
RECURSIVE PreScan(_, _)
PreScan(s, pc) == IF pc > Len(s) THEN "none" ELSE LET op == GetOp(s, pc) IN IF ~op.ok THEN "bad" ELSE IF OpSuccess(op.code) THEN "success" ELSE PreScan(s, op.next)
WitnessSize(w) == Len(SerWitness(w))
VerifyTaproot(witness, prog, flags, ctx) ==
    IF witness = << >> THEN "WITNESS_PROGRAM_WITNESS_EMPTY" ELSE
    LET hasAnnex == Len(witness) >= 2 /\ witness[Len(witness)] # << >> /\ witness[Len(witness)][1] = 80
        st == IF hasAnnex THEN SubSeq(witness, 1, Len(witness) - 1) ELSE witness
    IN IF Len(st) = 1 THEN
         LET e == SchnorrCheck(st[1], prog, Env(flags, "taproot", ctx), << >>) IN e
    ELSE
    LET control == st[Len(st)]  script == st[Len(st) - 1]  stack == SubSeq(st, 1, Len(st) - 2) IN
    IF Len(control) < 33 \/ Len(control) > 33 + 32 * 128 \/ (Len(control) - 33) % 32 # 0 THEN "TAPROOT_WRONG_CONTROL_SIZE"
    ELSE IF ~VerifyControl(prog, script, control) THEN "WITNESS_PROGRAM_MISMATCH"
    ELSE IF (control[1] \div 2) * 2 = 192 THEN
        LET scan == PreScan(script, 1) IN
        IF scan = "bad" THEN "BAD_OPCODE"
        ELSE IF scan = "success" THEN (IF "DISCOURAGE_OP_SUCCESS" \in flags THEN "DISCOURAGE_OP_SUCCESS" ELSE "")
        ELSE ExecuteWitnessScript(stack, script, "tap", flags, ctx, WitnessSize(witness) + 50)
    ELSE IF "DISCOURAGE_UPGRADABLE_TAPROOT_VERSION" \in flags THEN "DISCOURAGE_UPGRADABLE_TAPROOT_VERSION" ELSE ""
VerifyWitnessProgram(witness, ver, prog, flags, ctx, isP2SH) ==
    IF ver = 0 /\ Len(prog) = 32 THEN
        IF witness = << >> THEN "WITNESS_PROGRAM_WITNESS_EMPTY"
        ELSE LET script == witness[Len(witness)] IN
             IF SHA256(script) # prog THEN "WITNESS_PROGRAM_MISMATCH"
             ELSE ExecuteWitnessScript(SubSeq(witness, 1, Len(witness) - 1), script, "v0", flags, ctx, 0)
    ELSE IF ver = 0 /\ Len(prog) = 20 THEN
        IF Len(witness) # 2 THEN "WITNESS_PROGRAM_MISMATCH"
        ELSE ExecuteWitnessScript(witness, <<118, 169, 20>> \o prog \o <<136, 172>>, "v0", flags, ctx, 0)
    ELSE IF ver = 0 THEN "WITNESS_PROGRAM_WRONG_LENGTH"
    ELSE IF ver = 1 /\ Len(prog) = 32 /\ ~isP2SH THEN
        IF "TAPROOT" \notin flags THEN "" ELSE VerifyTaproot(witness, prog, flags, ctx)
    ELSE IF ~isP2SH /\ ver = 1 /\ prog = <<78, 115>> THEN ""
    ELSE IF "DISCOURAGE_UPGRADABLE_WITNESS_PROGRAM" \in flags THEN "DISCOURAGE_UPGRADABLE_WITNESS_PROGRAM" ELSE ""
VerifyScript(scriptSig, spk, witness, flags, ctx) ==
    IF "SIGPUSHONLY" \in flags /\ ~PushOnly(scriptSig) THEN "SIG_PUSHONLY" ELSE
    LET r1 == VM!Eval(scriptSig, << >>, Env(flags, "base", ctx), 0) IN
    IF r1.err # "" THEN r1.err ELSE
    LET r2 == VM!Eval(spk, r1.stack, Env(flags, "base", ctx), 0) IN
    IF r2.err # "" THEN r2.err ELSE
    IF r2.stack = << >> \/ ~VM!CastToBool(r2.stack[Len(r2.stack)]) THEN "EVAL_FALSE" ELSE
    LET bare == "WITNESS" \in flags /\ IsWitnessProgram(spk) IN
    IF bare /\ scriptSig # << >> THEN "WITNESS_MALLEATED" ELSE
    LET w1 == IF bare THEN VerifyWitnessProgram(witness, WitVer(spk), WitProg(spk), flags, ctx, FALSE) ELSE "" IN
    IF w1 # "" THEN w1 ELSE
    LET stack3 == IF bare THEN <<r2.stack[Len(r2.stack)]>> ELSE r2.stack
        p2sh == "P2SH" \in flags /\ IsP2SH(spk)
    IN
    IF p2sh /\ ~PushOnly(scriptSig) THEN "SIG_PUSHONLY" ELSE
    LET redeem == IF p2sh THEN r1.stack[Len(r1.stack)] ELSE << >>
        r3 == IF p2sh THEN VM!Eval(redeem, SubSeq(r1.stack, 1, Len(r1.stack) - 1), Env(flags, "base", ctx), 0) ELSE r2
    IN
    IF p2sh /\ r3.err # "" THEN r3.err ELSE
    IF p2sh /\ (r3.stack = << >> \/ ~VM!CastToBool(r3.stack[Len(r3.stack)])) THEN "EVAL_FALSE" ELSE
    LET wrapped == p2sh /\ "WITNESS" \in flags /\ IsWitnessProgram(redeem) IN
    IF wrapped /\ scriptSig # SinglePush(redeem) THEN "WITNESS_MALLEATED_P2SH" ELSE
    LET w2 == IF wrapped THEN VerifyWitnessProgram(witness, WitVer(redeem), WitProg(redeem), flags, ctx, TRUE) ELSE "" IN
    IF w2 # "" THEN w2 ELSE
    LET stack4 == IF wrapped THEN <<r3.stack[Len(r3.stack)]>> ELSE IF p2sh THEN r3.stack ELSE stack3 IN
    IF "CLEANSTACK" \in flags /\ Len(stack4) # 1 THEN "CLEANSTACK" ELSE
    IF "WITNESS" \in flags /\ ~bare /\ ~wrapped /\ witness # << >> THEN "WITNESS_UNEXPECTED" ELSE ""
\* the verdict for input idx of a transaction spending prevouts
VerifyInput(tx, idx, prevouts, flags) ==
    VerifyScript(tx.vin[idx].script, prevouts[idx].spk, tx.vin[idx].witness, flags,
                 [tx |-> tx, idx |-> idx, prevouts |-> prevouts, version |-> tx.version, locktime |-> tx.locktime, sequence |-> tx.vin[idx].sequence])
=============================================================================
