------------------------------ MODULE ECDSAReal ------------------------------
(***************************************************************************)
(* ECDSA at the size of the catalogued curves: the equations of ECDSAToy    *)
(* over ECReal / BigNat, RFC 6979 nonces, Bitcoin Core's low-R grinding,   *)
(* DER.  Scalars are BigNat; a signature is [r, s].                        *)
(***************************************************************************)
EXTENDS ECReal, RFC6979, DER

HalfN(c) == BShr(c.n, 1)
IsLowS(c, s) == BLe(s, HalfN(c))

\* SEC 1 4.1.3 with an explicit nonce k
SignWith(c, e, q, k, lowS) ==
    LET K  == RMulG(c, k)
        r  == BMod(K.x, c.n)
        s0 == BMulMod(BInvMod(k, c.n), BAddMod(e, BMulMod(r, q, c.n), c.n), c.n)
        flip == lowS /\ ~IsLowS(c, s0)
        s  == IF flip THEN BSub(c.n, s0) ELSE s0
        odd == IF BIsOdd(K.y) THEN 1 ELSE 0
        \* (SEC 1 4.1.6: x_K = r + j n with j up to the cofactor; j is 0 or 1 on a curve of cofactor 1 and reaches 3 on secp112r2 / secp128r2)
        id0 == odd + 2 * BToInt(BDiv(K.x, c.n))
        id == IF flip THEN (IF odd = 1 THEN id0 - 1 ELSE id0 + 1) ELSE id0
    IN [ok |-> ~K.inf /\ ~BIsZero(r) /\ ~BIsZero(s0), r |-> r, s |-> s, id |-> id]

\* deterministic signature: RFC 6979 nonce from (key, digest) and optional extra data
SignDet(c, hf, h1, q, lowS, extra) ==
    SignWith(c, Challenge(h1, c.n), q, Nonce(hf, q, h1, c.n, extra), lowS)

\* Bitcoin Core CKey::Sign: counter 0 adds no extra data; counter i > 0 adds i as 32 bytes little-endian;
\* the first signature whose r fits in 8*nsize - 1 bits is the answer
NSize(c) == (BBitLen(c.n) + 7) \div 8
LowR(c, r) == BBitLen(r) < 8 * NSize(c)
RECURSIVE Grind(_, _, _, _, _, _)
Grind(c, hf, h1, q, lowS, counter) ==
    LET extra == IF counter = 0 THEN << >> ELSE BToBytesLE(B(counter), 32)
        sg == SignDet(c, hf, h1, q, lowS, extra)
    IN IF LowR(c, sg.r) THEN sg ELSE Grind(c, hf, h1, q, lowS, counter + 1)

\* SEC 1 4.1.4
Verify(c, e, Q, r, s) ==
    /\ ~BIsZero(r) /\ BLt(r, c.n) /\ ~BIsZero(s) /\ BLt(s, c.n)
    /\ LET w == BInvMod(s, c.n)
           R == ECR!Add(c, RMulG(c, BMulMod(e, w, c.n)), RMul(c, BMulMod(r, w, c.n), Q))
       IN ~R.inf /\ BMod(R.x, c.n) = r

\* is x the abscissa of a point of the curve (Euler's criterion on x^3 + ax + b)
IsX(c, x) == BLt(x, c.p) /\ LET y2 == ECR!Rhs(c, x) IN
                BIsZero(y2) \/ BPowMod(y2, BShr(BSub(c.p, BOne), 1), c.p) = BOne
\* btclib's Sig.assert_valid: r, s in 1..n-1 and r congruent mod n to some abscissa below p
RECURSIVE SomeX(_, _)
SomeX(c, x) == IF BGe(x, c.p) THEN FALSE ELSE IsX(c, x) \/ SomeX(c, BAdd(x, c.n))
SigValid(c, r, s) == ~BIsZero(r) /\ BLt(r, c.n) /\ ~BIsZero(s) /\ BLt(s, c.n) /\ SomeX(c, r)

DerOf(sg) == DerSig(sg.r, sg.s)
=============================================================================
