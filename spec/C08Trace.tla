------------------------------ MODULE C08Trace -------------------------------
(***************************************************************************)
(* Code -> specification for C08.                                          *)
(*  {op:"eval", script, stack, flags, sv, ctx, ok, out}  verify_script run *)
(*       on a signature-free program: accept/refuse and the final stack    *)
(*  {op:"spend", scriptSig, spk, witness, flags, ctx, ok} verify_input     *)
(* ok is the code's verdict (TRUE = accepted).  A program whose execution  *)
(* reaches an unmodelled signature opcode is outside this module's claim   *)
(* (the verdict "SIGOP_UNMODELLED" / "TAPROOT_UNMODELLED" makes the event  *)
(* trivially accepted and it is counted as unchecked by the driver).       *)
(***************************************************************************)
EXTENDS ScriptVerify, EvBase

CtxOf(j) == [version |-> BFromBytes(FromHex(j.version)), locktime |-> BFromBytes(FromHex(j.locktime)), sequence |-> BFromBytes(FromHex(j.sequence))]
FlagsOf(j) == {j[k] : k \in 1..Len(j)}
StackOf(j) == [k \in 1..Len(j) |-> FromHex(j[k])]
Unmodelled(v) == v \in {"SIGOP_UNMODELLED", "TAPROOT_KEYPATH_UNMODELLED"}

Expected(e) ==
    CASE e.op = "eval" ->
            LET r == VM!Eval(FromHex(e.script), StackOf(e.stack), Env(FlagsOf(e.flags), e.sv, CtxOf(e.ctx)), 0) IN
            [verdict |-> r.err, stack |-> IF r.err = "" THEN [k \in 1..Len(r.stack) |-> ToHex(r.stack[k])] ELSE << >>]
      [] e.op = "spend" ->
            [verdict |-> VerifyScript(FromHex(e.scriptSig), FromHex(e.spk), StackOf(e.witness), FlagsOf(e.flags), CtxOf(e.ctx)), stack |-> << >>]

EventOK == i > 0 =>
    LET x == Expected(Trace[i])  e == Trace[i] IN
    \/ Unmodelled(x.verdict)
    \/ /\ e.ok = (x.verdict = "")
       /\ (e.op = "eval" /\ e.ok) => e.out = x.stack
Diag == i > 0 => PrintT(<<"DIAG", i, Expected(Trace[i])>>)
=============================================================================
