--------------------------------- MODULE SLIP39 ---------------------------------
(***************************************************************************)
(* C13: SLIP-0039 Shamir backup.  Definitions only.  A mnemonic is its     *)
(* sequence of 10-bit word indexes.                                        *)
(*  share = id(15) ext(1) e(4) GI(4) Gt-1(4) g-1(4) I(4) t-1(4) | padded   *)
(*          value | RS1024 checksum(30)                                    *)
(*  Shamir over GF(256) (Rijndael polynomial), secret at x = 255, digest   *)
(*  share at x = 254 (HMAC-SHA256(random part, secret)[:4] || random part);*)
(*  two levels (members within a group, groups); the recovered encrypted   *)
(*  master secret is decrypted by a four-round Feistel network whose round *)
(*  function is PBKDF2-HMAC-SHA256 (2500 << e iterations per round).       *)
(***************************************************************************)
EXTENDS Mnemonic, FiniteSets, TLC

\* ---- RS1024 ----
\* SLIP-0039: GEN = E0E040, 1C1C080, 3838100, 7070200, E0E0009, 1C0C2412, 38086C24, 3090FC48, 21B1F890, 3F3F120 (hex)
Gen == <<14737472, 29474944, 58949888, 117899776, 235798537, 470557714, 940076068, 814808136, 565311632, 66318624>>
XorI(a, b) == BToInt(BXor(B(a), B(b)))           \* 30-bit values
PolymodStep(chk, v) ==
  LET top == chk \div 1048576
      c0 == XorI((chk % 1048576) * 1024, v)
  IN FoldLeft(LAMBDA c, k : IF (top \div (2 ^ (k - 1))) % 2 = 1 THEN XorI(c, Gen[k]) ELSE c, c0, <<1, 2, 3, 4, 5, 6, 7, 8, 9, 10>>)
Polymod(values) == FoldLeft(PolymodStep, 1, values)
Custom(ext) == IF ext THEN <<115, 104, 97, 109, 105, 114, 95, 101, 120, 116, 101, 110, 100, 97, 98, 108, 101>> ELSE <<115, 104, 97, 109, 105, 114>>
ChecksumOK(indexes, ext) == Polymod(Custom(ext) \o indexes) = 1

\* ---- share decoding ----
Bits10(indexes) == FoldLeft(LAMBDA a, x : a \o [j \in 1..10 |-> (x \div (2 ^ (10 - j))) % 2], << >>, indexes)
\* <<"ok", share record>> | <<"refused">>
Decode(indexes) ==
  IF Len(indexes) < 20 \/ \E k \in 1..Len(indexes) : indexes[k] < 0 \/ indexes[k] > 1023 THEN <<"refused">>
  ELSE LET bits == Bits10(indexes)  ext == bits[16] = 1
           padded == Len(bits) - 40 - 30  padding == padded % 16
           vbits == SubSeq(bits, 41, Len(bits) - 30) IN
    IF ~ChecksumOK(indexes, ext) \/ padding > 8 \/ \E j \in 1..padding : vbits[j] = 1 THEN <<"refused">>
    ELSE LET f(a, n) == IntOfBits(SubSeq(bits, a, a + n - 1))
             value == BytesOfBits(SubSeq(vbits, padding + 1, Len(vbits)))
             sh == [id |-> f(1, 15), ext |-> ext, e |-> f(17, 4), gi |-> f(21, 4), gt |-> f(25, 4) + 1, gc |-> f(29, 4) + 1,
                    mi |-> f(33, 4), mt |-> f(37, 4) + 1, value |-> value]
         IN IF sh.gc < sh.gt \/ Len(value) < 16 \/ Len(value) % 2 = 1 THEN <<"refused">> ELSE <<"ok", sh>>

\* ---- GF(256) ----
XorB(a, b) == a ^^ b
GfDouble(a) == LET d == 2 * a IN IF d >= 256 THEN XorB(d % 256, 27) ELSE d        \* times x, reduced by x^8 + x^4 + x^3 + x + 1
RECURSIVE GfMul(_, _)
GfMul(a, b) == IF b = 0 THEN 0 ELSE XorB(IF b % 2 = 1 THEN a ELSE 0, GfMul(GfDouble(a), b \div 2))
GfInvTable == [a \in 1..255 |-> CHOOSE x \in 1..255 : GfMul(a, x) = 1]
GfDiv(a, b) == IF a = 0 THEN 0 ELSE GfMul(a, GfInvTable[b])
\* points: sequence of <<x, bytes>>; the value vector of the interpolating polynomial at x
Interpolate(points, x) ==
  LET n == Len(points[1][2])
      basis(i) == FoldLeft(LAMBDA acc, j : IF j = i THEN acc ELSE GfMul(acc, GfDiv(XorB(x, points[j][1]), XorB(points[i][1], points[j][1]))), 1, [j \in 1..Len(points) |-> j])
      bs == TLCEval([i \in 1..Len(points) |-> basis(i)])
      ys == TLCEval([i \in 1..Len(points) |-> points[i][2]])        \* (TLCEval: evaluate once, the arguments may be costly expressions)
  IN [k \in 1..n |-> FoldLeft(LAMBDA acc, i : XorB(acc, GfMul(ys[i][k], bs[i])), 0, [i \in 1..Len(points) |-> i])]
\* <<"ok", secret>> | <<"refused">>
Recover(threshold, points) ==
  IF threshold = 1 THEN <<"ok", points[1][2]>>
  ELSE LET secret == TLCEval(Interpolate(points, 255))  ds == TLCEval(Interpolate(points, 254))
           rnd == SubSeq(ds, 5, Len(ds)) IN
         IF SubSeq(ds, 1, 4) = SubSeq(HMAC(HF("sha256"), rnd, secret), 1, 4) THEN <<"ok", secret>> ELSE <<"refused">>

\* ---- the cipher ----
RoundF(i, pass, e, salt, right) == SubSeq(PBKDF2Blocks(HF("sha256"), <<i>> \o pass, salt \o right, 2500 * (2 ^ e), 1, 1), 1, Len(right))
Feistel(payload, pass, e, id, ext, rounds) ==
  LET salt == IF ext THEN << >> ELSE <<115, 104, 97, 109, 105, 114>> \o <<id \div 256, id % 256>>
      half == Len(payload) \div 2
      st == FoldLeft(LAMBDA lr, i : <<lr[2], XorBytes(lr[1], RoundF(i, pass, e, salt, lr[2]))>>, <<SubSeq(payload, 1, half), SubSeq(payload, half + 1, Len(payload))>>, rounds)
  IN st[2] \o st[1]
Decrypt(ems, pass, e, id, ext) == Feistel(ems, pass, e, id, ext, <<3, 2, 1, 0>>)
Encrypt(ms, pass, e, id, ext) == Feistel(ms, pass, e, id, ext, <<0, 1, 2, 3>>)

\* ---- making shares (the specification's own: TLC hands them to the implementation to recover) ----
Checksum(indexes, ext) == LET pm == XorI(Polymod(Custom(ext) \o indexes \o <<0, 0, 0>>), 1) IN <<pm \div 1048576, (pm \div 1024) % 1024, pm % 1024>>
BitsN(n, w) == [j \in 1..w |-> (n \div (2 ^ (w - j))) % 2]
Encode(sh) ==
  LET vb == 8 * Len(sh.value)  words == (vb + 9) \div 10
      bits == BitsN(sh.id, 15) \o <<IF sh.ext THEN 1 ELSE 0>> \o BitsN(sh.e, 4) \o BitsN(sh.gi, 4) \o BitsN(sh.gt - 1, 4) \o BitsN(sh.gc - 1, 4)
              \o BitsN(sh.mi, 4) \o BitsN(sh.mt - 1, 4) \o [j \in 1..(10 * words - vb) |-> 0] \o BitsOfBytes(sh.value)
      idx == [k \in 1..(Len(bits) \div 10) |-> IntOfBits(SubSeq(bits, 10 * k - 9, 10 * k))]
  IN idx \o Checksum(idx, sh.ext)
\* randoms: a sequence of byte strings of the secret's length (the free coefficients, then the digest padding)
Split(threshold, count, secret, randoms) ==
  IF threshold = 1 THEN [k \in 1..count |-> secret]
  ELSE LET n == Len(secret)
           rp == SubSeq(randoms[threshold - 1], 1, n - 4)
           pts == [k \in 1..(threshold - 2) |-> <<k - 1, randoms[k]>>] \o <<<<254, SubSeq(HMAC(HF("sha256"), rp, secret), 1, 4) \o rp>>, <<255, secret>>>>
       IN [k \in 1..count |-> IF k <= threshold - 2 THEN randoms[k] ELSE Interpolate(pts, k - 1)]

\* ---- recovery from a set of mnemonics (exactly the thresholds, as SLIP-0039's reference requires) ----
AllSame(S) == Cardinality(S) = 1
MasterSecret(mnemonics, pass) ==
  LET dec == TLCEval([k \in 1..Len(mnemonics) |-> Decode(mnemonics[k])]) IN
  IF Len(mnemonics) = 0 \/ \E k \in 1..Len(dec) : dec[k][1] = "refused" \/ \E j \in 1..Len(pass) : pass[j] < 32 \/ pass[j] > 126 THEN <<"refused">>
  ELSE LET sh == TLCEval([k \in 1..Len(dec) |-> dec[k][2]])  K == 1..Len(sh) IN
    IF ~(AllSame({sh[k].id : k \in K}) /\ AllSame({sh[k].ext : k \in K}) /\ AllSame({sh[k].e : k \in K}) /\ AllSame({sh[k].gt : k \in K})
         /\ AllSame({sh[k].gc : k \in K}) /\ AllSame({Len(sh[k].value) : k \in K})) THEN <<"refused">>
    ELSE LET gis == {sh[k].gi : k \in K}
             members(g) == {k \in K : sh[k].gi = g}
             groupOK(g) == /\ AllSame({sh[k].mt : k \in members(g)})
                           /\ Cardinality({sh[k].mi : k \in members(g)}) = Cardinality(members(g))
                           /\ Cardinality(members(g)) = sh[CHOOSE k \in members(g) : TRUE].mt
             groupSecret(g) == LET ks == SetToSeq(members(g)) IN Recover(sh[ks[1]].mt, [q \in 1..Len(ks) |-> <<sh[ks[q]].mi, sh[ks[q]].value>>])
         IN IF (\E g \in gis : ~groupOK(g)) \/ Cardinality(gis) # sh[1].gt THEN <<"refused">>
            ELSE LET gs == SetToSeq(gis)  gsec == TLCEval([q \in 1..Len(gs) |-> groupSecret(gs[q])]) IN
            IF \E q \in 1..Len(gs) : gsec[q][1] = "refused" THEN <<"refused">>
            ELSE LET ems == TLCEval(Recover(sh[1].gt, TLCEval([q \in 1..Len(gs) |-> <<gs[q], gsec[q][2]>>]))) IN
                   IF ems[1] = "refused" THEN <<"refused">> ELSE <<"ok", Decrypt(ems[2], pass, sh[1].e, sh[1].id, sh[1].ext)>>
=============================================================================
