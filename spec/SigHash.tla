-------------------------------- MODULE SigHash -------------------------------
(***************************************************************************)
(* The three signature-hash algorithms, as preimages built from the Wire   *)
(* serializers: Satoshi's legacy SignatureHash (script blanking, NONE /    *)
(* SINGLE / ANYONECANPAY edits, OP_CODESEPARATOR elision, the SINGLE       *)
(* out-of-range constant), BIP143 and BIP341/342.  idx is the 1-based      *)
(* input index; ht the 32-bit hash type word as a BigNat (legacy, BIP143)  *)
(* or a byte 0..255 (BIP341).                                              *)
(***************************************************************************)
EXTENDS Wire, ScriptBytes

Base(ht)   == BToInt(BAnd(ht, B(31)))
IsACP(ht)  == BAnd(ht, B(128)) # BZero
ONE32 == <<1>> \o Zeros(31)
BlankOut == [value |-> BSub(BPow2(64), BOne), spk |-> << >>]       \* nValue = -1, empty script

Legacy(tx, idx, code, ht) ==
    IF Base(ht) = 3 /\ idx > Len(tx.vout) THEN ONE32
    ELSE
    LET sc == StripCodeSep(code)
        others0 == Base(ht) \in {2, 3}
        InFor(j) == [tx.vin[j] EXCEPT !.script = IF j = idx THEN sc ELSE << >>,
                                      !.sequence = IF j # idx /\ others0 THEN BZero ELSE @]
        ins  == IF IsACP(ht) THEN <<InFor(idx)>> ELSE [j \in 1..Len(tx.vin) |-> InFor(j)]
        outs == IF Base(ht) = 2 THEN << >>
                ELSE IF Base(ht) = 3 THEN [j \in 1..idx |-> IF j = idx THEN tx.vout[j] ELSE BlankOut]
                ELSE tx.vout
        pre == LE(tx.version, 4)
               \o CompactSize(Len(ins)) \o Concat([j \in 1..Len(ins) |-> SerTxIn(ins[j])])
               \o CompactSize(Len(outs)) \o Concat([j \in 1..Len(outs) |-> SerTxOut(outs[j])])
               \o LE(tx.locktime, 4) \o LE(ht, 4)
    IN Hash256(pre)

HashPrevouts(tx) == Hash256(Concat([j \in 1..Len(tx.vin) |-> SerOutPoint(tx.vin[j])]))
HashSequence(tx) == Hash256(Concat([j \in 1..Len(tx.vin) |-> LE(tx.vin[j].sequence, 4)]))
HashOutputs(tx)  == Hash256(Concat([j \in 1..Len(tx.vout) |-> SerTxOut(tx.vout[j])]))

BIP143(tx, idx, code, amount, ht) ==
    LET hp == IF IsACP(ht) THEN Zeros(32) ELSE HashPrevouts(tx)
        hs == IF IsACP(ht) \/ Base(ht) \in {2, 3} THEN Zeros(32) ELSE HashSequence(tx)
        ho == IF Base(ht) \notin {2, 3} THEN HashOutputs(tx)
              ELSE IF Base(ht) = 3 /\ idx <= Len(tx.vout) THEN Hash256(SerTxOut(tx.vout[idx]))
              ELSE Zeros(32)
        pre == LE(tx.version, 4) \o hp \o hs \o SerOutPoint(tx.vin[idx]) \o VarBytes(code) \o LE(amount, 8)
               \o LE(tx.vin[idx].sequence, 4) \o ho \o LE(tx.locktime, 4) \o LE(ht, 4)
    IN Hash256(pre)

\* BIP341: prevouts[j] = [value, spk] of the output input j spends; annex = <<>> when absent;
\* ext = the BIP342 extension (tapleaf hash || key version || codesep position) or <<>> for the key path
TapTypes == {0, 1, 2, 3, 129, 130, 131}
TapRefused(tx, idx, ht) == ht \notin TapTypes \/ (ht % 4 = 3 /\ idx > Len(tx.vout))
BIP341(tx, idx, prevouts, ht, extflag, annex, ext) ==
    LET acp == ht >= 128
        outType == ht % 4
        pre == <<0, ht>> \o LE(tx.version, 4) \o LE(tx.locktime, 4)
               \o (IF acp THEN << >> ELSE
                     SHA256(Concat([j \in 1..Len(tx.vin) |-> SerOutPoint(tx.vin[j])]))
                  \o SHA256(Concat([j \in 1..Len(prevouts) |-> LE(prevouts[j].value, 8)]))
                  \o SHA256(Concat([j \in 1..Len(prevouts) |-> VarBytes(prevouts[j].spk)]))
                  \o SHA256(Concat([j \in 1..Len(tx.vin) |-> LE(tx.vin[j].sequence, 4)])))
               \o (IF outType \in {0, 1} THEN SHA256(Concat([j \in 1..Len(tx.vout) |-> SerTxOut(tx.vout[j])])) ELSE << >>)
               \o <<2 * extflag + (IF annex = << >> THEN 0 ELSE 1)>>
               \o (IF acp THEN SerOutPoint(tx.vin[idx]) \o LE(prevouts[idx].value, 8) \o VarBytes(prevouts[idx].spk)
                               \o LE(tx.vin[idx].sequence, 4)
                   ELSE LEInt(idx - 1, 4))
               \o (IF annex = << >> THEN << >> ELSE SHA256(VarBytes(annex)))
               \o (IF outType = 3 THEN SHA256(SerTxOut(tx.vout[idx])) ELSE << >>)
               \o ext
    IN TaggedHash("TapSighash", pre)

\* ---- which algorithm an input takes: the dispatch a signer makes from the output being spent -------------
IsP2TR(s)   == Len(s) = 34 /\ s[1] = 81 /\ s[2] = 32
IsP2SH(s)   == Len(s) = 23 /\ s[1] = 169 /\ s[2] = 20 /\ s[23] = 135
IsP2WPKH(s) == Len(s) = 22 /\ s[1] = 0 /\ s[2] = 20
IsP2WSH(s)  == Len(s) = 34 /\ s[1] = 0 /\ s[2] = 32
RECURSIVE LastPushFrom(_, _, _)
LastPushFrom(s, pc, last) == IF pc > Len(s) THEN last
                             ELSE LET op == GetOp(s, pc) IN IF ~op.ok THEN << >> ELSE LastPushFrom(s, op.next, op.data)
LastPush(s) == LastPushFrom(s, 1, << >>)        \* BIP16: the redeem script is the last push of the scriptSig

TapLeafHash(version, script) == TaggedHash("TapLeaf", <<version>> \o VarBytes(script))
TapExt(leafhash, codesep) == leafhash \o <<0>> \o codesep        \* codesep: 4 bytes LE, ffffffff when none executed

\* annex and BIP342 extension read off a taproot witness (BIP341 "last element whose first byte is 0x50")
TapWitnessParts(w) ==
    LET hasAnnex == Len(w) >= 2 /\ w[Len(w)] # << >> /\ w[Len(w)][1] = 80
        st == IF hasAnnex THEN SubSeq(w, 1, Len(w) - 1) ELSE w
        annex == IF hasAnnex THEN w[Len(w)] ELSE << >>
        scriptPath == Len(st) > 1
        ctrl == st[Len(st)]
        lv == IF scriptPath THEN (ctrl[1] \div 2) * 2 ELSE 0
    IN [annex |-> annex,
        ext |-> IF scriptPath THEN TapExt(TapLeafHash(lv, st[Len(st) - 1]), <<255, 255, 255, 255>>) ELSE << >>]

\* ht is the 32-bit word (BigNat); codesep = how many OP_CODESEPARATOR occurrences the script code starts after
FromTx(tx, idx, prevouts, ht, codesep) ==
    LET spk == prevouts[idx].spk IN
    IF IsP2TR(spk) THEN
        LET parts == TapWitnessParts(tx.vin[idx].witness)
            h == BToInt(ht)
        IN IF TapRefused(tx, idx, h) THEN <<"refused">>
           ELSE BIP341(tx, idx, prevouts, h, IF parts.ext = << >> THEN 0 ELSE 1, parts.annex, parts.ext)
    ELSE LET sc == IF IsP2SH(spk) THEN LastPush(tx.vin[idx].script) ELSE spk IN
         IF IsP2WPKH(sc) THEN BIP143(tx, idx, <<118, 169, 20>> \o SubSeq(sc, 3, 22) \o <<136, 172>>, prevouts[idx].value, ht)
         \* (a script with fewer separators than asked for has no such script code: there is nothing to hash)
         ELSE IF IsP2WSH(sc) THEN
              LET w == tx.vin[idx].witness  code == AfterCodeSepFrom(w[Len(w)], 1, codesep) IN
              IF code = <<-1>> THEN <<"refused">> ELSE BIP143(tx, idx, code, prevouts[idx].value, ht)
         ELSE LET code == AfterCodeSepFrom(sc, 1, codesep) IN IF code = <<-1>> THEN <<"refused">> ELSE Legacy(tx, idx, code, ht)
=============================================================================
