---------------------------- MODULE WalletLedger ----------------------------
(***************************************************************************)
(* The ledger of a wallet (package btclib.wallet): which addresses it has handed *)
(* out, in which order, and which index next_address answers on a branch.  *)
(* Addresses are abstract: the address of position (b, i) is <<"pos", b, i>>      *)
(* (the replayer checks against a fresh wallet that they are the real      *)
(* ones), the address of an individually added key k is <<"key", k, 0>>.      *)
(***************************************************************************)
EXTENDS Integers, Sequences, FiniteSets, TLC

CONSTANTS Branches,      \* the wallet's branches
          BadBranches,   \* branches it must refuse
          Indexes,       \* indexes the environment asks for (plus a negative one, refused)
          Keys,          \* keys a key wallet can be handed (empty for the others)
          MaxLen

VARIABLES next,          \* branch -> index next_address will answer
          ledger,        \* sequence of addresses in hand-out order
          ret,           \* what the last call returned: an address, "refused", or "none"
          h
vars == <<next, ledger, ret, h>>

InLedger(a) == \E k \in 1..Len(ledger) : ledger[k] = a
Record(a)   == IF InLedger(a) THEN ledger ELSE Append(ledger, a)
Max(a, b)   == IF a >= b THEN a ELSE b

Init == next = [b \in Branches |-> 0] /\ ledger = << >> /\ ret = <<"none">> /\ h = << >>

Address(b, i) ==
    /\ b \in Branches /\ i >= 0
    /\ next' = [next EXCEPT ![b] = Max(@, i + 1)]
    /\ ledger' = Record(<<"pos", b, i>>)
    /\ ret' = <<"pos", b, i>>
    /\ h' = Append(h, <<"address", b, i, ret', Len(ledger')>>)

AddressRefused(b, i) ==
    /\ b \notin Branches \/ i < 0
    /\ UNCHANGED <<next, ledger>> /\ ret' = <<"refused">>
    /\ h' = Append(h, <<"address", b, i, ret', Len(ledger')>>)

NextAddress(b) ==
    /\ b \in Branches
    /\ next' = [next EXCEPT ![b] = @ + 1]
    /\ ledger' = Record(<<"pos", b, next[b]>>)
    /\ ret' = <<"pos", b, next[b]>>
    /\ h' = Append(h, <<"next", b, 0, ret', Len(ledger')>>)

NextRefused(b) ==
    /\ b \notin Branches
    /\ UNCHANGED <<next, ledger>> /\ ret' = <<"refused">>
    /\ h' = Append(h, <<"next", b, 0, ret', Len(ledger')>>)

AddKey(k) ==
    /\ UNCHANGED next
    /\ ledger' = Record(<<"key", k, 0>>)
    /\ ret' = <<"key", k, 0>>
    /\ h' = Append(h, <<"add", k, 0, ret', Len(ledger')>>)

\* position_of is a query: it answers (b, i) for a script the wallet derives and changes nothing
PositionOf(b, i) ==
    /\ b \in Branches /\ i >= 0
    /\ UNCHANGED <<next, ledger>> /\ ret' = <<"is", b, i>>
    /\ h' = Append(h, <<"position_of", b, i, ret', Len(ledger')>>)

Next == \/ \E b \in Branches \cup BadBranches, i \in Indexes \cup {-1} : Address(b, i) \/ AddressRefused(b, i)
        \/ \E b \in Branches \cup BadBranches : NextAddress(b) \/ NextRefused(b)
        \/ \E k \in Keys : AddKey(k)
        \/ \E b \in Branches, i \in Indexes : PositionOf(b, i)
Spec == Init /\ [][Next]_vars

-----------------------------------------------------------------------------
HandedOutOn(b) == {ledger[k][3] : k \in {j \in 1..Len(ledger) : ledger[j][1] = "pos" /\ ledger[j][2] = b}}
\* C20: next address of a branch = the lowest index above every index handed out on it
HighWater == \A b \in Branches :
                next[b] = IF HandedOutOn(b) = {} THEN 0
                          ELSE 1 + CHOOSE m \in HandedOutOn(b) : \A x \in HandedOutOn(b) : x <= m
\* each address is recorded once
NoDuplicates == \A j, k \in 1..Len(ledger) : ledger[j] = ledger[k] => j = k
\* the ledger only grows, and a refusal changes nothing
AppendOnly == [][\E k \in 0..1 : Len(ledger') = Len(ledger) + k /\ SubSeq(ledger', 1, Len(ledger)) = ledger]_vars
RefusalInert == [][ret' = <<"refused">> => next' = next /\ ledger' = ledger]_vars
\* next_address never hands out an index already handed out on that branch
NextIsFresh == [][h'[Len(h')][1] = "next" /\ ret' # <<"refused">> => ~InLedger(ret')]_vars

Bound == Len(h) <= MaxLen
Small == Len(ledger) <= MaxLen /\ \A b \in Branches : next[b] <= MaxLen
View == <<next, ledger, ret>>
Emit == Len(h) = MaxLen => PrintT(<<"BEH", h, ledger>>)
=============================================================================
