------------------------------- MODULE EllSwift -------------------------------
(***************************************************************************)
(* The SwiftEC map of BIP324 (ElligatorSwift): two field elements (u, t)   *)
(* name an abscissa of a curve y^2 = x^3 + b (a = 0, p = 3 mod 4 here).     *)
(* Every pair decodes.  Transcribed from the BIP's `xswiftec`; the square  *)
(* root of -3 may be either root: the candidate that is tried first        *)
(* (u + 4Y^2) does not depend on the choice, and when it is not an          *)
(* abscissa exactly one of the other two is (BIP324, "the function f").    *)
(***************************************************************************)
EXTENDS BIP340

FAdd(c, x, y) == BAddMod(x, y, c.p)
FSubt(c, x, y) == BSubMod(x, y, c.p)
FMult(c, x, y) == BMulMod(x, y, c.p)
FInv(c, x) == BInvMod(x, c.p)
IsAbscissa(c, x) == ~LiftX(c, x).inf
Minus3Sqrt(c) == SqrtP(c, BSub(c.p, B(3)))
XSwiftEC(c, u0, t0) ==
  LET u1 == BMod(u0, c.p)   t1 == BMod(t0, c.p)
      u == IF BIsZero(u1) THEN BOne ELSE u1
      tt == IF BIsZero(t1) THEN BOne ELSE t1
      u3b == FAdd(c, FMult(c, u, FMult(c, u, u)), c.b)
      t == IF BIsZero(FAdd(c, u3b, FMult(c, tt, tt))) THEN FMult(c, BTwo, tt) ELSE tt
      X == FMult(c, FSubt(c, u3b, FMult(c, t, t)), FInv(c, FMult(c, BTwo, t)))
      Y == FMult(c, FAdd(c, X, t), FInv(c, FMult(c, Minus3Sqrt(c), u)))
      XoY == FMult(c, X, FInv(c, Y))
      half == FInv(c, BTwo)
      x1 == FAdd(c, u, FMult(c, B(4), FMult(c, Y, Y)))
      x2 == FMult(c, FSubt(c, FSubt(c, BZero, XoY), u), half)
      x3 == FMult(c, FSubt(c, XoY, u), half)
  IN IF IsAbscissa(c, x1) THEN x1 ELSE IF IsAbscissa(c, x2) THEN x2 ELSE x3
\* the point: the ordinate takes the parity of the reduced t
EllDecode(c, u0, t0) ==
  LET x == XSwiftEC(c, u0, t0)  P == LiftX(c, x)  odd == BIsOdd(BMod(t0, c.p)) IN
    IF P.inf THEN P ELSE ECR!Pt(x, IF odd THEN BSub(c.p, P.y) ELSE P.y)
\* BIP324 x-only ECDH: the secret hashes both encodings in a fixed order and the shared abscissa
XdhSecret(c, ellA, ellB, q, party) ==
  LET theirs == IF party = 0 THEN ellB ELSE ellA
      size == PLen(c)
      P == LiftX(c, XSwiftEC(c, BFromBytes(SubSeq(theirs, 1, size)), BFromBytes(SubSeq(theirs, size + 1, 2 * size))))
      S == RMul(c, q, P) IN
    TaggedHash("bip324_ellswift_xonly_ecdh", ellA \o ellB \o BToBytes(S.x, size))
=============================================================================
