"""Assembler for the script syntax of Bitcoin Core's test vectors (core_read.cpp ParseScript)."""

from __future__ import annotations

OPS = {
    "RESERVED": 0x50, "NOP": 0x61, "VER": 0x62, "IF": 0x63, "NOTIF": 0x64, "VERIF": 0x65, "VERNOTIF": 0x66, "ELSE": 0x67, "ENDIF": 0x68,
    "VERIFY": 0x69, "RETURN": 0x6A, "TOALTSTACK": 0x6B, "FROMALTSTACK": 0x6C, "2DROP": 0x6D, "2DUP": 0x6E, "3DUP": 0x6F, "2OVER": 0x70,
    "2ROT": 0x71, "2SWAP": 0x72, "IFDUP": 0x73, "DEPTH": 0x74, "DROP": 0x75, "DUP": 0x76, "NIP": 0x77, "OVER": 0x78, "PICK": 0x79,
    "ROLL": 0x7A, "ROT": 0x7B, "SWAP": 0x7C, "TUCK": 0x7D, "CAT": 0x7E, "SUBSTR": 0x7F, "LEFT": 0x80, "RIGHT": 0x81, "SIZE": 0x82,
    "INVERT": 0x83, "AND": 0x84, "OR": 0x85, "XOR": 0x86, "EQUAL": 0x87, "EQUALVERIFY": 0x88, "RESERVED1": 0x89, "RESERVED2": 0x8A,
    "1ADD": 0x8B, "1SUB": 0x8C, "2MUL": 0x8D, "2DIV": 0x8E, "NEGATE": 0x8F, "ABS": 0x90, "NOT": 0x91, "0NOTEQUAL": 0x92, "ADD": 0x93,
    "SUB": 0x94, "MUL": 0x95, "DIV": 0x96, "MOD": 0x97, "LSHIFT": 0x98, "RSHIFT": 0x99, "BOOLAND": 0x9A, "BOOLOR": 0x9B,
    "NUMEQUAL": 0x9C, "NUMEQUALVERIFY": 0x9D, "NUMNOTEQUAL": 0x9E, "LESSTHAN": 0x9F, "GREATERTHAN": 0xA0, "LESSTHANOREQUAL": 0xA1,
    "GREATERTHANOREQUAL": 0xA2, "MIN": 0xA3, "MAX": 0xA4, "WITHIN": 0xA5, "RIPEMD160": 0xA6, "SHA1": 0xA7, "SHA256": 0xA8,
    "HASH160": 0xA9, "HASH256": 0xAA, "CODESEPARATOR": 0xAB, "CHECKSIG": 0xAC, "CHECKSIGVERIFY": 0xAD, "CHECKMULTISIG": 0xAE,
    "CHECKMULTISIGVERIFY": 0xAF, "NOP1": 0xB0, "CHECKLOCKTIMEVERIFY": 0xB1, "CHECKSEQUENCEVERIFY": 0xB2, "NOP2": 0xB1, "NOP3": 0xB2,
    "NOP4": 0xB3, "NOP5": 0xB4, "NOP6": 0xB5, "NOP7": 0xB6, "NOP8": 0xB7, "NOP9": 0xB8, "NOP10": 0xB9, "CHECKSIGADD": 0xBA,
    "INVALIDOPCODE": 0xFF,
}


def push_data(d: bytes) -> bytes:
    n = len(d)
    if n < 0x4C:
        return bytes([n]) + d
    if n <= 0xFF:
        return b"\x4c" + bytes([n]) + d
    if n <= 0xFFFF:
        return b"\x4d" + n.to_bytes(2, "little") + d
    return b"\x4e" + n.to_bytes(4, "little") + d


def script_num(v: int) -> bytes:
    if v == 0:
        return b""
    neg, a = v < 0, abs(v)
    out = bytearray()
    while a:
        out.append(a & 0xFF)
        a >>= 8
    if out[-1] & 0x80:
        out.append(0x80 if neg else 0)
    elif neg:
        out[-1] |= 0x80
    return bytes(out)


def push_int(v: int) -> bytes:
    if v == -1 or 1 <= v <= 16:
        return bytes([v + 0x50])
    if v == 0:
        return b"\x00"
    return push_data(script_num(v))


def assemble(text: str) -> bytes:
    out = b""
    for w in text.split():
        if (w.isdigit() or (w.startswith("-") and w[1:].isdigit())):
            v = int(w)
            if not -0xFFFFFFFF <= v <= 0xFFFFFFFF:
                raise ValueError("script number out of range: " + w)
            out += push_int(v)
        elif w.startswith("0x") and len(w) > 2:
            out += bytes.fromhex(w[2:])
        elif len(w) >= 2 and w[0] == "'" and w[-1] == "'":
            out += push_data(w[1:-1].encode())
        else:
            name = w[3:] if w.startswith("OP_") else w
            if name not in OPS:
                raise ValueError("unknown opcode name: " + w)
            out += bytes([OPS[name]])
    return out
