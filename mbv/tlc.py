"""Run TLC (with the verif operator overrides) and parse its -tool output."""

from __future__ import annotations

import dataclasses
import os
import pathlib
import re
import shutil
import subprocess
import tempfile
import time
from typing import Any

from . import CM_JAR, JAVA_OUT, SPEC, TLA_JAR, tlaval
from .build import ensure_built

_START = re.compile(r"^@!@!@STARTMSG (\d+):(\d+) @!@!@$")
_END = re.compile(r"^@!@!@ENDMSG (\d+) @!@!@$")
_NOISE = re.compile(r"^(Parsing file |Semantic processing of module |Linting of module )")


class TLCFailure(RuntimeError):
    """Machinery failure (parse error, evaluation error, crash): exit 2, never a VIOLATION."""


@dataclasses.dataclass
class Violation:
    kind: str  # "invariant-init" | "invariant" | "deadlock" | "action-property" | "assumption" | "postcondition"
    name: str
    text: str  # the message body (state / trace as printed)

    def state_vars(self) -> dict[str, Any]:
        """Variables of the (last) state printed in the message, parsed."""
        out: dict[str, Any] = {}
        # take the last block of  /\ x = v   or  x = v  lines
        cur = None
        buf: list[str] = []
        blocks: list[dict[str, Any]] = []
        this: dict[str, str] = {}
        for line in self.text.splitlines():
            m = re.match(r"^(?:/\\ )?([A-Za-z_][A-Za-z0-9_]*) = (.*)$", line)
            if m and not line.startswith(" "):
                if cur is not None:
                    this[cur] = "\n".join(buf)
                cur, buf = m.group(1), [m.group(2)]
            elif line.strip() == "" or line.startswith("State ") or re.match(r"^\d+: ", line):
                if cur is not None:
                    this[cur] = "\n".join(buf)
                    cur, buf = None, []
                if this:
                    blocks.append(this)
                    this = {}
            elif cur is not None:
                buf.append(line)
        if cur is not None:
            this[cur] = "\n".join(buf)
        if this:
            blocks.append(this)
        if blocks:
            for k, v in blocks[-1].items():
                try:
                    out[k] = tlaval.parse(v)
                except tlaval.ParseError:
                    out[k] = v
        return out


@dataclasses.dataclass
class Result:
    rc: int
    wall_s: float
    generated: int
    distinct: int
    depth: int
    violations: list[Violation]
    prints: list[str]
    coverage: dict[str, int]
    raw: str
    cmd: str

    def printed_values(self) -> list[Any]:
        """PrintT outputs parsed as TLA+ values (multi-line values are re-joined)."""
        out = []
        text = "\n".join(self.prints)
        i = 0
        n = len(text)
        while i < n:
            while i < n and text[i] in " \t\r\n":
                i += 1
            if i >= n:
                break
            try:
                v, j = tlaval.parse_prefix(text, i)
            except (tlaval.ParseError, IndexError):
                # skip this line
                j = text.find("\n", i)
                j = n if j < 0 else j + 1
                i = j
                continue
            out.append(v)
            i = j
        return out


def java_cmd(heap: str = "12g") -> list[str]:
    ensure_built()
    return [
        "java",
        "-XX:+UseParallelGC",
        f"-Xmx{heap}",
        "-Xss512m",
        "-Dtlc2.overrides.TLCOverrides=tlc2.overrides.TLCOverrides:verif.Index",
        f"-DTLA-Library={SPEC}",
        "-cp",
        f"{TLA_JAR}:{CM_JAR}:{JAVA_OUT}",
    ]


def run(
    module: str,
    cfg: str | pathlib.Path | None = None,
    *,
    workers: int | str = 16,
    env: dict[str, str] | None = None,
    cont: bool = False,
    coverage: bool = False,
    simulate: str | None = None,
    depth: int | None = None,
    seed: int | None = None,
    dfs_queue: bool = False,
    timeout: float | None = 3600,
    heap: str = "12g",
    cfg_text: str | None = None,
    extra: list[str] | None = None,
    check: bool = True,
) -> Result:
    """Run TLC on spec/<module>.tla with the given config (path relative to spec/ or literal text)."""
    mod_path = SPEC / f"{module}.tla"
    if not mod_path.exists():
        raise TLCFailure(f"no such module {mod_path}")
    tmp = pathlib.Path(tempfile.mkdtemp(prefix="mbv-tlc-"))
    try:
        if cfg_text is not None:
            cfg_path = tmp / f"{module}.cfg"
            cfg_path.write_text(cfg_text)
        elif cfg is not None:
            cfg_path = pathlib.Path(cfg)
            if not cfg_path.is_absolute():
                cfg_path = SPEC / cfg_path
        else:
            cfg_path = SPEC / f"{module}.cfg"
        cmd = java_cmd(heap)
        if dfs_queue:
            cmd.insert(1, "-Dtlc2.tool.queue.IStateQueue=StateDeque")
        cmd += ["tlc2.TLC", "-tool", "-noGenerateSpecTE", "-metadir", str(tmp / "meta")]
        cmd += ["-workers", str(workers), "-config", str(cfg_path)]
        if cont:
            cmd.append("-continue")
        if coverage:
            cmd += ["-coverage", "1"]
        if simulate is not None:
            cmd += ["-simulate", simulate]
        if depth is not None:
            cmd += ["-depth", str(depth)]
        if seed is not None:
            cmd += ["-seed", str(seed)]
        if extra:
            cmd += extra
        cmd.append(str(mod_path))
        e = dict(os.environ)
        e.pop("JAVA_TOOL_OPTIONS", None)
        if env:
            e.update(env)
        t0 = time.time()
        try:
            cp = subprocess.run(
                cmd, cwd=str(tmp), env=e, capture_output=True, text=True, timeout=timeout
            )
        except subprocess.TimeoutExpired as ex:
            raise TLCFailure(f"TLC timed out after {timeout}s: {module}") from ex
        wall = time.time() - t0
        res = _parse(cp.stdout, cp.returncode, wall, " ".join(cmd))
        if check:
            _raise_on_machinery_failure(res, cp.stderr)
        return res
    finally:
        shutil.rmtree(tmp, ignore_errors=True)


_ERR_VIOLATION = {
    2107: "invariant-init",
    2110: "invariant",
    2114: "deadlock",
    2112: "action-property",
    2116: "temporal",
    2104: "assumption",
    2274: "postcondition",
}


def _parse(out: str, rc: int, wall: float, cmd: str) -> Result:
    violations: list[Violation] = []
    prints: list[str] = []
    coverage: dict[str, int] = {}
    generated = distinct = depth = 0
    lines = out.splitlines()
    i = 0
    pending: Violation | None = None
    other_errors: list[str] = []
    while i < len(lines):
        m = _START.match(lines[i])
        if not m:
            if not _NOISE.match(lines[i]):
                prints.append(lines[i])
            i += 1
            continue
        code, sev = int(m.group(1)), int(m.group(2))
        body = []
        i += 1
        while i < len(lines) and not _END.match(lines[i]):
            body.append(lines[i])
            i += 1
        i += 1
        text = "\n".join(body)
        if code in (2199,):
            mm = re.search(r"([\d,]+) states generated, ([\d,]+) distinct states found", text)
            if mm:
                generated = int(mm.group(1).replace(",", ""))
                distinct = int(mm.group(2).replace(",", ""))
        elif code == 2210:
            mm = re.search(r"states generated: ([\d,]+)", text)
            if mm:
                generated = int(mm.group(1).replace(",", ""))
                distinct = generated  # simulation: states visited along random behaviours (not deduplicated)
        elif code == 2194:
            mm = re.search(r"search is (\d+)", text)
            if mm:
                depth = int(mm.group(1))
        elif code == 2190:
            pass
        elif code in (2772, 2221, 2773, 2774, 2775, 2776, 2777, 2778):
            # coverage lines: <Action line ... of module M>: distinct:generated
            mm = re.match(r"<(\w+) line .* of module (\w+)>(?:: (\d+):(\d+))?", text.strip())
            if mm and mm.group(3) is not None:
                coverage[mm.group(1)] = coverage.get(mm.group(1), 0) + int(mm.group(4))
        elif code == 2217 or code == 4:  # a state of a counterexample trace
            if pending is not None:
                pending.text += "\n" + text + "\n"
        elif sev == 1:
            kind = _ERR_VIOLATION.get(code)
            if kind is None and "is violated" in text:
                kind = "invariant"
            if kind is not None:
                mm = re.search(r"(?:Invariant|property|Action property|Assumption|postcondition) (\S+)", text)
                name = mm.group(1) if mm else ""
                pending = Violation(kind, name, text)
                violations.append(pending)
            else:
                # 2121 = "behavior up to this point", 1000 = general
                if code == 2121 and pending is not None:
                    continue
                other_errors.append(f"[{code}] {text}")
    res = Result(rc, wall, generated, distinct, depth, violations, prints, coverage, out, cmd)
    res.other_errors = other_errors  # type: ignore[attr-defined]
    return res


def _raise_on_machinery_failure(res: Result, stderr: str) -> None:
    errs = getattr(res, "other_errors", [])
    if errs:
        tail = "\n".join(l for l in res.prints if l.strip())[-3000:]
        raise TLCFailure("TLC reported an error that is not a property violation:\n" + "\n".join(errs[:5])
                         + "\n" + tail + "\ncmd: " + res.cmd)
    if res.rc not in (0, 10, 11, 12, 13) :
        raise TLCFailure(f"TLC exit status {res.rc}\n{res.raw[-3000:]}\n{stderr[-2000:]}\ncmd: {res.cmd}")
    if res.rc != 0 and not res.violations:
        raise TLCFailure(f"TLC exit status {res.rc} without a parsed violation\n{res.raw[-3000:]}")
