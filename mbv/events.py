"""Code -> specification: validate events recorded from btclib against a trace module with TLC."""

from __future__ import annotations

import json
import pathlib
import tempfile
from typing import Any

from . import tlc

CFG = "INIT EvInit\nNEXT EvNext\nINVARIANT EventOK\nCHECK_DEADLOCK FALSE\n"
CFG_DIAG = "INIT EvInit\nNEXT EvNext\nINVARIANT Diag\nCHECK_DEADLOCK FALSE\n"


def validate(
    module: str,
    events: list[dict[str, Any]],
    *,
    workers: int = 16,
    batch: int = 20000,
    timeout: float = 3000,
    consts: str = "",
) -> tuple[list[tlc.Result], list[int], dict[int, Any]]:
    """Check every event against spec/<module>.tla (EventOK).

    Returns (TLC results, indexes of rejected events, diagnostic value per rejected event).
    The trace module must define EventOK and Diag (Diag prints <<"DIAG", i, expected>>).
    """
    results: list[tlc.Result] = []
    bad: list[int] = []
    for base in range(0, len(events), batch):
        part = events[base:base + batch]
        with tempfile.TemporaryDirectory(prefix="mbv-ev-") as d:
            f = pathlib.Path(d) / "trace.ndjson"
            f.write_text("".join(json.dumps(e, separators=(",", ":")) + "\n" for e in part))
            r = tlc.run(module, cfg_text=consts + CFG, workers=workers, cont=True, timeout=timeout,
                        env={"TRACE_FILE": str(f)})
        results.append(r)
        if r.distinct < len(part) + 1:
            raise tlc.TLCFailure(f"{module}: TLC visited {r.distinct} states for {len(part)} events")
        for v in r.violations:
            sv = v.state_vars()
            if "i" not in sv or not isinstance(sv["i"], int):
                raise tlc.TLCFailure(f"{module}: cannot locate the failing event in\n{v.text}")
            bad.append(base + sv["i"] - 1)
    bad = sorted(set(bad))
    diag: dict[int, Any] = {}
    if bad:
        sel = bad[:200]
        with tempfile.TemporaryDirectory(prefix="mbv-ev-") as d:
            f = pathlib.Path(d) / "trace.ndjson"
            f.write_text("".join(json.dumps(events[k], separators=(",", ":")) + "\n" for k in sel))
            try:
                r = tlc.run(module, cfg_text=consts + CFG_DIAG, workers=1, cont=True, timeout=timeout,
                            env={"TRACE_FILE": str(f)})
                for val in r.printed_values():
                    if isinstance(val, list) and len(val) >= 3 and val[0] == "DIAG":
                        diag[sel[val[1] - 1]] = val[2]
            except tlc.TLCFailure as e:  # diagnosis is best effort
                diag[-1] = str(e)[:500]
    return results, bad, diag
