"""Run bookkeeping shared by every check: evidence, violations, known findings, exit status."""

from __future__ import annotations

import hashlib
import json
import os
import sys
import time
import traceback
from typing import Any, Callable

from . import EVIDENCE, REPLAYS, ROOT, seed
from . import tlc as _tlc

FINDINGS_FILE = ROOT / "known_findings.json"


class Vacuous(RuntimeError):
    """The check explored nothing it could have failed on: machinery failure (exit 2)."""


def canon(obj: Any) -> str:
    return json.dumps(obj, sort_keys=True, separators=(",", ":"), default=str)


class Run:
    def __init__(self, pid: str, tier: str, level: str = "model_checking") -> None:
        self.pid = pid
        self.tier = tier
        self.level = level
        self.seed = seed()
        self.t0 = time.time()
        self.states = 0
        self.transitions = 0
        self.validated = 0
        self.evaluations = 0
        self.nontrivial: set[str] | int = 0
        self._nontrivial_count = 0
        self.samples: list[Any] = []
        self.sections: dict[str, Any] = {}
        self.assumptions: list[str] = []
        self.rule = ""
        self.exhaustive: bool | None = None
        self.violations: list[dict[str, Any]] = []
        self.known_hit: list[dict[str, Any]] = []
        self.notes: list[str] = []
        self.tlc_cmds: list[str] = []
        try:
            self.findings = json.loads(FINDINGS_FILE.read_text())
        except FileNotFoundError:
            self.findings = []

    # ---- measured counts -------------------------------------------------
    def tlc(self, res: _tlc.Result, label: str) -> None:
        """Account a model-checking run (states / transitions are TLC's own final counts)."""
        self.states += res.distinct
        self.transitions += res.generated
        self.sections.setdefault("tlc_runs", []).append(
            {"label": label, "distinct_states": res.distinct, "states_generated": res.generated,
             "depth": res.depth, "wall_s": round(res.wall_s, 2)}
        )
        if len(self.tlc_cmds) < 3:
            self.tlc_cmds.append(res.cmd)

    def count(self, evaluations: int = 0, validated: int = 0, nontrivial: int = 0) -> None:
        self.evaluations += evaluations
        self.validated += validated
        self._nontrivial_count += nontrivial

    def sample(self, obj: Any, limit: int = 12) -> None:
        if len(self.samples) < limit:
            self.samples.append(obj)

    def section(self, name: str, value: Any) -> None:
        self.sections[name] = value

    def note(self, text: str) -> None:
        self.notes.append(text)

    # ---- violations ------------------------------------------------------
    def violation(self, key: str, what: str, replay: dict[str, Any]) -> None:
        """Record a disagreement between code and specification.

        `key` identifies the failing input / call site / history canonically (after shrinking);
        it is what known_findings.json lists.
        """
        for f in self.findings:
            if f.get("kind") == "finding" and f.get("property") == self.pid and f.get("key") == key:
                if not any(k["key"] == key for k in self.known_hit):
                    self.known_hit.append({"key": key, "what": f.get("what", what)})
                return
        if any(v["key"] == key for v in self.violations):
            return
        body = {"property": self.pid, "tier": self.tier, "seed": self.seed, "key": key, "what": what, **replay}
        h = hashlib.sha256(canon({"k": key, "p": self.pid}).encode()).hexdigest()[:16]
        d = REPLAYS / self.pid
        d.mkdir(parents=True, exist_ok=True)
        path = d / f"{h}.json"
        path.write_text(json.dumps(body, indent=1, default=str))
        self.violations.append({"key": key, "what": what, "replay": str(path)})

    # ---- finish ----------------------------------------------------------
    def finish(self) -> int:
        wall = time.time() - self.t0
        cov: dict[str, Any] = {
            "states": self.states,
            "transitions": self.transitions,
            "traces_validated_against_impl": self.validated,
            "samples": self.samples or ["(none)"],
            "evaluations": self.evaluations,
            "distinct_nontrivial": self._nontrivial_count,
            "rule": self.rule,
            "checker_cmd": self.tlc_cmds[0] if self.tlc_cmds else "",
            "known_findings_reproduced": [k["key"] for k in self.known_hit],
            "notes": self.notes,
        }
        if self.exhaustive is not None:
            cov["exhaustive"] = self.exhaustive
        # (a section may not take the name of a field the evidence schema types itself: its own name gets a prefix)
        reserved = {"evaluations", "distinct_nontrivial", "rule", "samples", "states", "transitions", "traces_validated_against_impl", "obligations", "discharged", "checker_cmd",
                    "trusted_base", "programs", "disagreements_checked", "explanation", "exhaustive"}
        cov.update({(f"section_{k}" if k in reserved else k): v for k, v in self.sections.items()})
        ev = {
            "property_id": self.pid,
            "tier": self.tier,
            "seed": self.seed,
            "level": self.level,
            "coverage": cov,
            "assumptions": self.assumptions,
            "wall_s": round(wall, 2),
            "violations": len(self.violations),
        }
        EVIDENCE.mkdir(exist_ok=True)
        (EVIDENCE / f"{self.pid}.json").write_text(json.dumps(ev, indent=1, default=str))
        for k in self.known_hit:
            print(f"KNOWN-FINDING: property={self.pid} {k['what']} [{k['key']}]")
        # a listed finding that no longer reproduces is reported (not an alarm): the list is stale
        hit = {k["key"] for k in self.known_hit}
        for f in self.findings:
            if f.get("kind") == "finding" and f.get("property") == self.pid and f.get("key") not in hit \
                    and (self.tier in f.get("tiers", ["quick", "thorough"])):
                print(f"note: listed finding no longer reproduces: property={self.pid} [{f.get('key')}]")
        for v in self.violations:
            what = str(v['what']).encode("ascii", "backslashreplace").decode().replace("\n", " ")
            print(f"VIOLATION property={self.pid} replay={v['replay']}  # {what}")
        print(f"{self.pid} {self.tier}: states={self.states} transitions={self.transitions} "
              f"validated={self.validated} evaluations={self.evaluations} violations={len(self.violations)} "
              f"known={len(self.known_hit)} wall={wall:.1f}s")
        return 1 if self.violations else 0


def main_wrapper(fn: Callable[[Run], None], pid: str, tier: str) -> int:
    run = Run(pid, tier)
    try:
        fn(run)
        if run.states < 1 or run.validated < 1:
            raise Vacuous(f"{pid}: nothing model-checked ({run.states}) or nothing bound to the code ({run.validated})")
        return run.finish()
    except (_tlc.TLCFailure, Vacuous) as e:
        print(f"MACHINERY FAILURE property={pid}: {e}", file=sys.stderr)
        return 2
    except Exception:  # noqa: BLE001
        traceback.print_exc()
        print(f"MACHINERY FAILURE property={pid}: unexpected exception in the harness", file=sys.stderr)
        return 2


def hexs(b: bytes | bytearray | None) -> str:
    return "" if b is None else bytes(b).hex()


def nat(n: int) -> str:
    """A natural as hex of its minimal big-endian bytes (zero = empty)."""
    if n < 0:
        raise ValueError("negative")
    if n == 0:
        return ""
    return n.to_bytes((n.bit_length() + 7) // 8, "big").hex()


def outcome(fn: Callable[[], Any], enc: Callable[[Any], Any] = lambda v: v) -> dict[str, Any]:
    """Call fn and classify the outcome per DESIGN section 10."""
    from btclib.exceptions import BTClibRuntimeError, BTClibTypeError, BTClibValueError

    try:
        v = fn()
    except BTClibValueError as e:
        return {"err": "value", "cls": type(e).__name__}
    except BTClibTypeError as e:
        return {"err": "type", "cls": type(e).__name__}
    except BTClibRuntimeError as e:
        return {"err": "runtime", "cls": type(e).__name__}
    except Exception as e:  # noqa: BLE001
        return {"err": "foreign", "cls": type(e).__name__, "msg": str(e)[:200]}
    return {"ok": enc(v)}
