"""Parser for TLA+ values as TLC prints them (PrintT output, counterexample states)."""

from __future__ import annotations

from typing import Any


class ParseError(ValueError):
    pass


def parse(text: str) -> Any:
    p = _P(text)
    v = p.value()
    p.ws()
    if p.i != len(p.s):
        raise ParseError(f"trailing text at {p.i}: {p.s[p.i:p.i + 30]!r}")
    return v


def parse_prefix(text: str, start: int = 0) -> tuple[Any, int]:
    p = _P(text)
    p.i = start
    v = p.value()
    return v, p.i


class _P:
    def __init__(self, s: str) -> None:
        self.s = s
        self.i = 0

    def ws(self) -> None:
        while self.i < len(self.s) and self.s[self.i] in " \t\r\n":
            self.i += 1

    def eat(self, tok: str) -> bool:
        self.ws()
        if self.s.startswith(tok, self.i):
            self.i += len(tok)
            return True
        return False

    def need(self, tok: str) -> None:
        if not self.eat(tok):
            raise ParseError(f"expected {tok!r} at {self.i}: {self.s[self.i:self.i + 30]!r}")

    def value(self) -> Any:
        v = self.atom()
        # function display:  a :> b @@ c :> d
        self.ws()
        if self.s.startswith(":>", self.i):
            out = {}
            key = v
            while True:
                self.need(":>")
                val = self.atom()
                out[_key(key)] = val
                if not self.eat("@@"):
                    break
                key = self.atom()
            return out
        return v

    def atom(self) -> Any:
        self.ws()
        s = self.s
        if self.i >= len(s):
            raise ParseError("unexpected end")
        c = s[self.i]
        if s.startswith("<<", self.i):
            self.i += 2
            out = []
            if self.eat(">>"):
                return out
            while True:
                out.append(self.value())
                if self.eat(">>"):
                    return out
                self.need(",")
        if c == "[":
            self.i += 1
            out = {}
            if self.eat("]"):
                return out
            while True:
                self.ws()
                j = self.i
                while self.i < len(s) and (s[self.i].isalnum() or s[self.i] == "_"):
                    self.i += 1
                name = s[j:self.i]
                self.need("|->")
                out[name] = self.value()
                if self.eat("]"):
                    return out
                self.need(",")
        if c == "{":
            self.i += 1
            out = []
            if self.eat("}"):
                return frozenset()
            while True:
                out.append(_key(self.value()))
                if self.eat("}"):
                    return frozenset(out)
                self.need(",")
        if c == "(":
            self.i += 1
            v = self.value()
            self.need(")")
            return v
        if c == '"':
            self.i += 1
            buf = []
            while s[self.i] != '"':
                if s[self.i] == "\\":
                    self.i += 1
                    esc = s[self.i]
                    buf.append({"n": "\n", "t": "\t", "r": "\r", "f": "\f"}.get(esc, esc))
                else:
                    buf.append(s[self.i])
                self.i += 1
            self.i += 1
            return "".join(buf)
        if c == "-" or c.isdigit():
            j = self.i
            self.i += 1
            while self.i < len(s) and s[self.i].isdigit():
                self.i += 1
            # a..b interval
            if s.startswith("..", self.i):
                lo = int(s[j:self.i])
                self.i += 2
                k = self.i
                if s[self.i] == "-":
                    self.i += 1
                while self.i < len(s) and s[self.i].isdigit():
                    self.i += 1
                return frozenset(range(lo, int(s[k:self.i]) + 1))
            return int(s[j:self.i])
        if s.startswith("TRUE", self.i):
            self.i += 4
            return True
        if s.startswith("FALSE", self.i):
            self.i += 5
            return False
        # model value / identifier
        j = self.i
        while self.i < len(s) and (s[self.i].isalnum() or s[self.i] in "_!"):
            self.i += 1
        if j == self.i:
            raise ParseError(f"cannot parse at {self.i}: {s[self.i:self.i + 30]!r}")
        return s[j:self.i]


def _key(v: Any) -> Any:
    if isinstance(v, list):
        return tuple(_key(x) for x in v)
    if isinstance(v, dict):
        return tuple(sorted((k, _key(x)) for k, x in v.items()))
    return v
