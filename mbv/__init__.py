"""mbv -- model-based verification harness binding /verif/spec (TLA+) to btclib in /repo."""

import os
import pathlib

ROOT = pathlib.Path(__file__).resolve().parent.parent
SPEC = ROOT / "spec"
JAVA_SRC = ROOT / "java"
JAVA_OUT = ROOT / "build" / "classes"
EVIDENCE = pathlib.Path(os.environ.get("MBV_EVIDENCE_DIR", ROOT / "evidence"))
REPLAYS = pathlib.Path(os.environ.get("MBV_REPLAYS_DIR", ROOT / "replays"))
TLA_JAR = pathlib.Path("/opt/veriftools/tla/tla2tools.jar")
CM_JAR = pathlib.Path("/opt/veriftools/tla/CommunityModules-deps.jar")
REPO = pathlib.Path(os.environ.get("BTCLIB_REPO", "/repo"))


def seed() -> int:
    try:
        return int(os.environ.get("VERIF_SEED", "20260922"))
    except ValueError:
        return 20260922
