"""Run the specification's primitive self-tests (assumption-only TLC runs)."""

from __future__ import annotations

import sys

from . import tlc

MODULES = ["SelfTestPrim"]


def main() -> int:
    ok = True
    for m in MODULES:
        try:
            r = tlc.run(m, cfg_text="", workers=1, timeout=600)
        except tlc.TLCFailure as e:
            print(f"selftest {m}: MACHINERY FAILURE\n{e}")
            ok = False
            continue
        if r.violations:
            ok = False
            for v in r.violations:
                print(f"selftest {m}: {v.kind} {v.name}\n{v.text}")
        else:
            print(f"selftest {m}: ok ({r.wall_s:.1f}s)")
    return 0 if ok else 2


if __name__ == "__main__":
    sys.exit(main())
