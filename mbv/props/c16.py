"""C16 -- interactive protocols complete: honest parties always agree.

Spec: MuSig2 (BIP327, generic in curve and hash), MuSig2Model (a session on a toy curve: every key, tweak sequence, nonce and
adaptor), TwoParty (ECDH + X9.63 KDF, BIE1 key derivation, BIP374 DLEQ, BIP352 silent payments), C16Trace.
"""

from __future__ import annotations

import hashlib
import random
from typing import Any

from .. import events, tlc
from ..core import Run, nat

MODEL_CFG = ("SPECIFICATION Spec\nCONSTANTS NSigners = {n}\nMaxTweaks = {t}\nTweakVals = {{{tv}}}\nNonceVals = {{{nv}}}\nAdaptorVals = {{0, 5}}\nINVARIANT EveryPartialVerifies\n"
             "INVARIANT AggregateIsValid\nINVARIANT AdaptorCompletes\nINVARIANT KeyIsTweakedSum\nCHECK_DEADLOCK FALSE\n")
N = 0xFFFFFFFFFFFFFFFFFFFFFFFFFFFFFFFEBAAEDCE6AF48A03BBFD25E8CD0364141


def outcome(fn: Any) -> Any:
    from btclib.exceptions import BTClibException

    try:
        return fn()
    except BTClibException:
        return "refused"
    except Exception as e:  # noqa: BLE001
        return f"foreign:{type(e).__name__}"


def pt(P: Any) -> dict[str, Any]:
    return {"inf": 1} if P[1] == 0 else {"x": nat(P[0]), "y": nat(P[1])}


def sec(P: Any) -> bytes:
    return bytes([2 + P[1] % 2]) + P[0].to_bytes(32, "big")


def record_musig(run: Run, rnd: random.Random, thorough: bool, evs: list[dict[str, Any]]) -> dict[str, int]:
    from btclib.curves import mult
    from btclib.ecc import musig2, ssa

    stats = {"sessions": 0, "xonly_odd": 0, "adaptor": 0}
    plans: list[tuple[int, list[bool], int, bool]] = []         # (signers, tweak kinds, message length, adaptor)
    for n in (1, 2, 3) + ((5,) if thorough else ()):
        for kinds in ([], [True], [False], [True, True], [False, True], [True, False, True]):
            for mlen in (32, 0, 45):
                plans.append((n, kinds, mlen, False))
        plans.append((n, [True, False, True], 32, True))
        plans.append((n, [True], 7, True))
    if not thorough:
        plans = plans[::2] + [p for p in plans if p[3]]
    for rep in range(3 if thorough else 1):
        for n, kinds, mlen, with_adaptor in plans:
            keys = [rnd.randrange(1, N) for _ in range(n)]
            if n >= 2 and rnd.random() < 0.25:
                keys[1] = keys[0]                        # duplicate keys are allowed
            if n >= 3 and rnd.random() < 0.25:
                keys[2] = keys[0]
            pks = [musig2.individual_pub_key(d) for d in keys]
            if rnd.random() < 0.3:
                order = sorted(range(n), key=lambda j: pks[j])   # key_sort order sometimes, arbitrary order otherwise
                keys, pks = [keys[j] for j in order], [pks[j] for j in order]
            tweaks = [rnd.randrange(1, N).to_bytes(32, "big") for _ in kinds]
            msg = rnd.randbytes(mlen)
            ctx = outcome(lambda: musig2.key_agg_and_tweak(pks, tweaks, kinds))
            if isinstance(ctx, str):
                continue
            aggpk = ctx.x_only_pub_key
            nonces = [musig2.nonce_gen_(rnd.randbytes(32), d, pk, aggpk, msg, None) for d, pk in zip(keys, pks)]
            pubnonces = [pn for _, pn in nonces]
            aggnonce = musig2.nonce_agg(pubnonces)
            t_secret = rnd.randrange(1, N) if with_adaptor else None
            adaptor = sec(mult(t_secret)) if t_secret else None
            sctx = musig2.SessionContext(aggnonce, pks, tweaks, kinds, msg, adaptor)
            psigs = [outcome(lambda sn=sn, d=d: musig2.sign(sn, d, sctx)) for (sn, _), d in zip(nonces, keys)]
            if any(isinstance(p, str) for p in psigs):
                evs.append({"op": "holds", "what": f"musig2.sign in an honest session of {n} ({psigs})", "ok": False})
                continue
            verifies = [outcome(lambda j=j: musig2.partial_sig_verify_(psigs[j], pubnonces[j], pks[j], sctx)) for j in range(n)]
            e: dict[str, Any] = {"op": "musig", "pks": [p.hex() for p in pks], "tweaks": [{"t": t.hex(), "x": k} for t, k in zip(tweaks, kinds)],
                                 "pubnonces": [{"r1": p[:33].hex(), "r2": p[33:].hex()} for p in pubnonces], "msg": msg.hex(), "adaptor": nat(t_secret) if t_secret else "",
                                 "psigs": [p.hex() for p in psigs], "verifies": [v is True for v in verifies], "aggpk": aggpk.hex(), "kinds": kinds, "mlen": mlen}
            if t_secret is None:
                sig = musig2.partial_sig_agg(psigs, sctx)
                e.update({"r": nat(sig.r), "s": nat(sig.s), "valid": outcome(lambda: ssa.verify_(msg, aggpk, sig)) is True, "adapted_s": "", "adapted_valid": False, "extracted": ""})
            else:
                pre = musig2.partial_sig_agg_adaptor(psigs, sctx)
                full = musig2.adapt(pre, t_secret, sctx)
                e.update({"r": nat(pre.r), "s": nat(pre.s), "valid": False, "adapted_s": nat(full.s), "adapted_valid": outcome(lambda: ssa.verify_(msg, aggpk, full)) is True,
                          "extracted": musig2.extract_adaptor(full, pre, sctx).hex()})
                stats["adaptor"] += 1
            evs.append(e)
            stats["sessions"] += 1
            stats["xonly_odd"] += any(kinds)
            # the other spelling of the verification (recomputes the session from its parts)
            v2 = outcome(lambda: musig2.partial_sig_verify(psigs[0], pubnonces, pks, tweaks, kinds, msg, 0)) if t_secret is None else True
            evs.append({"op": "holds", "what": "partial_sig_verify (from the session's parts) of an honest partial signature", "ok": v2 is True})
            # a partial signature does not verify for another signer's nonce or an altered message
            if n >= 2 and pks[0] != pks[1]:
                evs.append({"op": "fails", "what": "partial signature 0 against signer 1's nonce and key", "ok": outcome(lambda: musig2.partial_sig_verify_(psigs[0], pubnonces[1], pks[1], sctx)) is True})
    return stats


def record_two_party(run: Run, rnd: random.Random, thorough: bool, evs: list[dict[str, Any]]) -> dict[str, int]:
    from btclib.curves import secp256k1 as _k1

    K1J = {"p": nat(_k1.p), "a": nat(_k1._a), "b": nat(_k1._b), "gx": nat(_k1.G[0]), "gy": nat(_k1.G[1]), "n": nat(_k1.n), "h": nat(_k1.cofactor)}
    from btclib.curves import mult, secp256k1
    from btclib.ecc import dh, dleq, ecies, ellswift

    stats = {"dh": 0, "dleq": 0, "ecies": 0, "ellswift": 0}
    reps = 12 if thorough else 4
    for _ in range(reps):
        a, b = rnd.randrange(1, N), rnd.randrange(1, N)
        A, Bp = mult(a), mult(b)
        for hf_name, hf in (("sha256", hashlib.sha256), ("sha512", hashlib.sha512), ("sha1", hashlib.sha1)):
            for size in (1, 16, 32, 33, 100):
                info = rnd.choice([b"", b"shared", rnd.randbytes(9)])
                ka = outcome(lambda: dh.diffie_hellman(a, Bp, size, info, secp256k1, hf))
                kb = outcome(lambda: dh.diffie_hellman(b, A, size, info, secp256k1, hf))
                evs.append({"op": "dh", "c": K1J, "d": nat(a), "q": pt(Bp), "size": size, "info": info.hex(), "hf": hf_name, "out": ka if isinstance(ka, str) else ka.hex()})
                evs.append({"op": "agree", "what": "diffie_hellman", "a": ka if isinstance(ka, str) else ka.hex(), "b": kb if isinstance(kb, str) else kb.hex()})
                stats["dh"] += 1
        # ECDH on the other curves it is offered on: field sizes that are and are not a whole number of octets (521 bits), orders shorter than the field
        if _ == 0:
            from btclib.curves import CURVES, mult as mult_

            def cj(ec: Any) -> dict[str, str]:
                return {"p": nat(ec.p), "a": nat(ec._a), "b": nat(ec._b), "gx": nat(ec.G[0]), "gy": nat(ec.G[1]), "n": nat(ec.n), "h": nat(ec.cofactor)}

            for cname in (("secp521r1", "secp224r1", "secp160r1", "secp256r1", "secp384r1", "secp192k1") if thorough else ("secp521r1", "secp224r1", "secp160r1")):
                ec = CURVES[cname]
                for rep2 in range(4 if cname == "secp521r1" else 2):
                    da, db = rnd.randrange(1, ec.n), rnd.randrange(1, ec.n)
                    QA, QB = mult_(da, ec.G, ec), mult_(db, ec.G, ec)
                    ka = outcome(lambda: dh.diffie_hellman(da, QB, 32, b"c16", ec, hashlib.sha256))
                    kb = outcome(lambda: dh.diffie_hellman(db, QA, 32, b"c16", ec, hashlib.sha256))
                    evs.append({"op": "dh", "c": cj(ec), "d": nat(da), "q": pt(QB), "size": 32, "info": b"c16".hex(), "hf": "sha256", "out": ka if isinstance(ka, str) else ka.hex(), "curve": cname})
                    evs.append({"op": "agree", "what": f"diffie_hellman on {cname}", "a": ka if isinstance(ka, str) else ka.hex(), "b": kb if isinstance(kb, str) else kb.hex()})
                    stats["dh"] += 1
        # BIE1: key derivation on both sides, every spelling of the recipient's key, and the round trip
        spellings = {"point": Bp, "compressed": sec(Bp), "uncompressed": b"\x04" + Bp[0].to_bytes(32, "big") + Bp[1].to_bytes(32, "big"), "compressed hex": sec(Bp).hex(),
                     "uncompressed hex": (b"\x04" + Bp[0].to_bytes(32, "big") + Bp[1].to_bytes(32, "big")).hex()}
        ks = outcome(lambda: ecies.derive_keys(a, Bp))
        evs.append({"op": "bie1", "d": nat(a), "q": pt(Bp), "iv": ks[0].hex(), "ke": ks[1].hex(), "km": ks[2].hex()} if not isinstance(ks, str) else {"op": "holds", "what": "ecies.derive_keys", "ok": False})

        def enc(key: bytes, iv: bytes, m: bytes) -> bytes:       # an involutive toy cipher with padding (the cipher is the caller's)
            pad = 16 - len(m) % 16
            body = m + bytes([pad]) * pad
            stream = hashlib.sha256(key + iv).digest() * (len(body) // 32 + 1)
            return bytes(x ^ y for x, y in zip(body, stream))

        def dec(key: bytes, iv: bytes, c: bytes) -> bytes:
            stream = hashlib.sha256(key + iv).digest() * (len(c) // 32 + 1)
            body = bytes(x ^ y for x, y in zip(c, stream))
            return body[:-body[-1]]

        msg = rnd.randbytes(rnd.randint(0, 40))
        for name, spelled in spellings.items():
            armor = outcome(lambda: ecies.encrypt(msg, spelled, enc, eph_prv_key=a))
            back = outcome(lambda: ecies.decrypt(armor, b, dec)) if not isinstance(armor, str) or not armor.startswith(("refused", "foreign")) else armor
            evs.append({"op": "agree", "what": f"ecies round trip, recipient key given as {name}", "a": msg.hex(), "b": back.hex() if isinstance(back, bytes) else str(back)})
            other = outcome(lambda: ecies.decrypt(armor, (b % (N - 2)) + 1, dec))
            evs.append({"op": "fails", "what": f"ecies decrypt with another key ({name})", "ok": isinstance(other, bytes) and other == msg})
            stats["ecies"] += 1
        # BIP374
        for gen in (secp256k1.G, mult(rnd.randrange(1, N))):
            for m in (None, rnd.randbytes(32)):
                A_g = mult(a, gen)
                C = mult(a, Bp)
                proof = outcome(lambda: dleq.generate_proof(a, Bp, rnd.randbytes(32), gen, m))
                if isinstance(proof, str):
                    evs.append({"op": "holds", "what": "dleq.generate_proof", "ok": False})
                    continue
                mb = b"" if m is None else m
                cases = [(A_g, Bp, C, proof, gen, m, mb), (A_g, Bp, mult(a + 1, Bp), proof, gen, m, mb), (mult(a + 1, gen), Bp, C, proof, gen, m, mb),
                         (A_g, Bp, C, proof[:31] + bytes([proof[31] ^ 1]) + proof[32:], gen, m, mb), (A_g, Bp, C, proof, gen, bytes(32), bytes(32)),
                         (A_g, mult(b + 1), C, proof, gen, m, mb), (A_g, Bp, C, proof, mult(2, gen), m, mb)]
                for (pa, pb, pc, pr, pg, pm, pmb) in cases:
                    v = outcome(lambda: dleq.verify_proof(pa, pb, pc, pr, pg, pm))
                    evs.append({"op": "dleq", "a": pt(pa), "b": pt(pb), "c": pt(pc), "g": pt(pg), "msg": pmb.hex(), "proof": pr.hex(), "out": v})
                    stats["dleq"] += 1
        # ElligatorSwift: both sides of the exchange, and the encoding round trip (agreement is what the specification states here)
        ea, eb = outcome(lambda: ellswift.create_var(a)), outcome(lambda: ellswift.create_var(b))
        if isinstance(ea, bytes) and isinstance(eb, bytes):
            sa, sb = outcome(lambda: ellswift.xdh(ea, eb, a, 0)), outcome(lambda: ellswift.xdh(ea, eb, b, 1))
            evs.append({"op": "agree", "what": "ellswift.xdh", "a": sa.hex() if isinstance(sa, bytes) else str(sa), "b": sb.hex() if isinstance(sb, bytes) else str(sb)})
            da = outcome(lambda: ellswift.decode_var(ea))
            evs.append({"op": "agree", "what": "ellswift decode(create(d)) = d.G (x)", "a": nat(da[0]) if not isinstance(da, str) else da, "b": nat(A[0])})
            en = outcome(lambda: ellswift.decode_var(ellswift.encode_var(Bp)))
            evs.append({"op": "agree", "what": "ellswift decode(encode(P)) = P (x)", "a": nat(en[0]) if not isinstance(en, str) else en, "b": nat(Bp[0])})
            stats["ellswift"] += 1
    # the SwiftEC map itself, recomputed: encodings made by the library, arbitrary 64-byte strings (every string decodes), the boundary
    # field elements (0, p-1, p, 2^256-1: reduced first) and, on the other Koblitz curves with p = 3 mod 4, the pure-Python arm
    from btclib.curves import CURVES

    def cj(ec: Any) -> dict[str, str]:
        return {"p": nat(ec.p), "a": nat(ec._a), "b": nat(ec._b), "gx": nat(ec.G[0]), "gy": nat(ec.G[1]), "n": nat(ec.n), "h": nat(ec.cofactor)}

    for name in ("secp256k1", "secp192k1", "secp160k1"):
        ec = CURVES[name]
        size, p = ec.p_size, ec.p
        top = (1 << (8 * size)) - 1
        ells = [ellswift.create_var(rnd.randrange(1, ec.n), ec) for _ in range(3 if thorough else 2)]
        ells += [rnd.randbytes(2 * size) for _ in range(6 if thorough else 3)]
        ells += [u.to_bytes(size, "big") + t.to_bytes(size, "big") for u, t in ((0, 0), (0, 5), (7, 0), (p - 1, p - 1), (min(p, top), 3), (3, min(p + 1, top)), (top, top), (1, 1), (2, p - 2))]
        for ell in ells:
            out = outcome(lambda: ellswift.decode_var(ell, ec))
            evs.append({"op": "ellswift", "c": cj(ec), "ell": ell.hex(), "out": pt(out) if not isinstance(out, str) else {"inf": 1}, "refusal": out if isinstance(out, str) else "", "curve": name})
            stats["ellswift"] += 1
        for party in (0, 1):
            q = rnd.randrange(1, ec.n)
            mine, theirs = ellswift.create_var(q, ec), rnd.randbytes(2 * size)
            ella, ellb = (mine, theirs) if party == 0 else (theirs, mine)
            sx = outcome(lambda: ellswift.xdh(ella, ellb, q, party, ec))
            evs.append({"op": "xdh", "c": cj(ec), "ella": ella.hex(), "ellb": ellb.hex(), "q": nat(q), "party": party, "out": sx.hex() if isinstance(sx, bytes) else str(sx), "curve": name})
    return stats


def record_sp_inputs(run: Run, rnd: random.Random, evs: list[dict[str, Any]]) -> int:
    """BIP352's reading of one input: which public key it contributes, or that it is skipped -- every eligible output type with its witness / scriptSig in each shape
    (key path, script path, with an annex of one octet and of many, BIP341's NUMS internal key, a single item that starts with 0x50, nothing at all, uncompressed keys,
    a key that is no point, a malleated p2pkh scriptSig)."""
    from btclib import silent_payments as sp
    from btclib.curves import mult
    from btclib.hashes import hash160
    from btclib.script.witness import Witness

    NUMS = bytes.fromhex("50929b74c1a04954b78b4b6035e97a5e078a5a0f28ec96d547bfee9ace803ac0")
    n0 = len(evs)

    def ev(spk: bytes, sig: bytes, wit: list[bytes], what: str) -> None:
        try:
            got = sp.pub_key_from_input(spk, sig, Witness(wit))
            out: Any = {"none": True} if got is None else {"none": False, "x": got[0].to_bytes(32, "big").hex(), "y": got[1].to_bytes(32, "big").hex()}
        except Exception as e:  # noqa: BLE001
            run.violation(f"sp|input|raised|{type(e).__name__}|{what}", f"pub_key_from_input raised {type(e).__name__}: {e} ({what})", {"what": what})
            return
        evs.append({"op": "spinput", "spk": spk.hex(), "sig": sig.hex(), "wit": [w.hex() for w in wit], "out": out, "what": what})

    for trial in range(2):
        d = rnd.randrange(1, 2**255)
        P = mult(d)
        x = P[0].to_bytes(32, "big")
        comp = bytes([2 + P[1] % 2]) + x
        unc = b"\x04" + x + P[1].to_bytes(32, "big")
        sig64, der = rnd.randbytes(64), b"\x30\x44" + rnd.randbytes(68) + b"\x01"
        internal = mult(rnd.randrange(1, 2**255))[0].to_bytes(32, "big")
        tr = b"\x51\x20" + x
        annexes = [b"\x50", b"\x50" + rnd.randbytes(7), b"\x50" * 2, b"\x50" + bytes(300)]
        ev(tr, b"", [sig64], "p2tr key path")
        ev(tr, b"", [], "p2tr with no witness")
        ev(tr, b"", [b"\x50" + rnd.randbytes(63)], "p2tr, one item that starts with 0x50")
        for cb_key, label in ((internal, "an internal key"), (NUMS, "the NUMS internal key")):
            for ver in (0xC0, 0xC1):
                control = bytes([ver]) + cb_key + rnd.randbytes(32 * (trial + 1))
                ev(tr, b"", [b"\x51", control], f"p2tr script path, {label}")
                ev(tr, b"", [sig64, b"\x20" + x + b"\xac", control], f"p2tr script path with an argument, {label}")
                for a in annexes:
                    ev(tr, b"", [b"\x51", control, a], f"p2tr script path, {label}, annex of {len(a)} octets")
        for a in annexes:
            ev(tr, b"", [sig64, a], f"p2tr key path, annex of {len(a)} octets")
        xbad = next(v for v in range(2, 100) if pow((v**3 + 7) % (2**256 - 2**32 - 977), (2**256 - 2**32 - 977 - 1) // 2, 2**256 - 2**32 - 977) != 1)
        ev(b"\x51\x20" + xbad.to_bytes(32, "big"), b"", [sig64], "p2tr whose output key is no point")
        wp = b"\x00\x14" + hash160(comp)
        ev(wp, b"", [der, comp], "p2wpkh")
        ev(wp, b"", [der, unc], "p2wpkh with an uncompressed key")
        ev(wp, b"", [], "p2wpkh with no witness")
        ev(wp, b"", [der, b"\x02" + xbad.to_bytes(32, "big")], "p2wpkh whose key is no point")
        sh = b"\xa9\x14" + hash160(wp) + b"\x87"
        ev(sh, b"\x16" + wp, [der, comp], "p2sh-p2wpkh")
        ev(sh, b"\x16" + wp, [], "p2sh-p2wpkh with no witness")
        ev(sh, b"\x22\x00\x20" + bytes(32), [der, comp], "p2sh wrapping a p2wsh")
        ev(sh, b"", [der, comp], "p2sh with an empty scriptSig")
        pk = b"\x76\xa9\x14" + hash160(comp) + b"\x88\xac"
        push = lambda b: bytes([len(b)]) + b  # noqa: E731
        ev(pk, push(der) + push(comp), [], "p2pkh")
        ev(pk, b"\x01\x00\x75" + push(der) + push(comp), [], "p2pkh with a dropped dummy ahead")
        ev(pk, push(der) + push(comp) + b"\x01\x00\x75", [], "p2pkh with the key not last")
        ev(pk, push(der), [], "p2pkh without a key")
        ev(b"\x76\xa9\x14" + hash160(unc) + b"\x88\xac", push(der) + push(unc), [], "p2pkh of an uncompressed key")
        ev(b"\x00\x20" + bytes(32), b"", [der, comp], "p2wsh")
        ev(b"\x51\x02\x4e\x73", b"", [], "pay to anchor")
    return len(evs) - n0



def record_silent_payments(run: Run, rnd: random.Random, thorough: bool, evs: list[dict[str, Any]]) -> dict[str, int]:
    from btclib import silent_payments as sp
    from btclib.curves import mult
    from btclib.tx import OutPoint

    stats = {"sends": 0, "scans": 0, "found": 0}
    wallets = []
    for _ in range(3):
        bscan, bspend = rnd.randrange(1, N), rnd.randrange(1, N)
        wallets.append((bscan, bspend))
    for rep in range(16 if thorough else 6):
        n_in = rnd.randint(1, 4)
        inputs = []
        for _ in range(n_in):
            d = rnd.randrange(1, N)
            taproot = rnd.random() < 0.5
            P = mult(d)
            spk = (b"\x51\x20" + P[0].to_bytes(32, "big")) if taproot else (b"\x00\x14" + hashlib.new("ripemd160", hashlib.sha256(sec(P)).digest()).digest() if "ripemd160" in hashlib.algorithms_available else b"\x00\x14" + bytes(20))
            inputs.append((d, taproot, spk, P))
        outpoints = [OutPoint(rnd.randbytes(32), rnd.randrange(0, 4)) for _ in range(n_in + rnd.randint(0, 1))]
        # recipients: labelled and plain addresses of up to three wallets, repeated and interleaved
        recips = []
        for _ in range(rnd.randint(1, 5)):
            w = rnd.randrange(len(wallets))
            m = rnd.choice([None, None, 0, 1, 7])
            recips.append((w, m))
        if rep % 3 == 0 and len(recips) >= 2:
            recips[-1] = recips[0]                        # the same address twice
        if rep == 1:
            recips = [(0, None), (1, None), (0, 1)]       # two scan keys interleaved: X, Y, X's labelled address
        if rep == 2:
            recips = [(0, None), (1, 0), (1, None), (0, 7), (2, None), (0, None)]
        addrs, rs = [], []
        for w, m in recips:
            bscan, bspend = wallets[w]
            Bscan, Bspend = mult(bscan), mult(bspend)
            if m is None:
                addrs.append(sp.address_from_keys(Bscan, Bspend))
                rs.append({"scan": sec(Bscan).hex(), "spend": sec(Bspend).hex()})
            else:
                addrs.append(sp.labeled_address_from_keys(bscan, Bspend, m))
                lt = sp.label_tweak(bscan, m)
                Bm = mult((bspend + lt) % N)
                rs.append({"scan": sec(Bscan).hex(), "spend": sec(Bm).hex()})
        outs = outcome(lambda: sp.output_keys([(d, spk) for d, _, spk, _ in inputs], outpoints, addrs))
        if isinstance(outs, str):
            continue
        evs.append({"op": "spsend", "inputs": [{"d": nat(d), "taproot": t} for d, t, _, _ in inputs], "outpoints": [o.serialize().hex() for o in outpoints], "rs": rs, "outs": [o.hex() for o in outs],
                    "recips": recips})
        stats["sends"] += 1
        # every wallet scans the transaction (with decoys, one of them not a point) and must find exactly its own
        decoys = [rnd.randbytes(32) for _ in range(2)] + [(N + 5).to_bytes(32, "big")]
        all_outs = list(outs) + decoys
        rnd.shuffle(all_outs)
        pub_keys = []
        for d, taproot, spk, P in inputs:
            pub_keys.append((((b"\x02" + P[0].to_bytes(32, "big")) if taproot else sec(P)), spk))    # a taproot input shows its even-y key
        a_sum = 0
        for d, taproot, _, P in inputs:
            a_sum = (a_sum + ((N - d) if taproot and P[1] % 2 else d)) % N
        A = mult(a_sum)
        for w, (bscan, bspend) in enumerate(wallets):
            labels_used = sorted({m for ww, m in recips if ww == w and m is not None} | {0})
            lookup = sp.label_lookup(bscan, labels_used)
            for arm in ("full", "light"):
                if arm == "full":
                    found = outcome(lambda: sp.scan_transaction_outputs(bscan, mult(bspend), outpoints, pub_keys, all_outs, lookup))
                else:
                    found = outcome(lambda: sp.scan_outputs(bscan, mult(bspend), sp.tweak_data(outpoints, A), all_outs, lookup))
                if isinstance(found, str):
                    evs.append({"op": "holds", "what": f"silent payments scan ({arm}) of an honest transaction: {found}", "ok": False})
                    continue
                fl = [{"o": f.pub_key.hex(), "t": nat(f.prv_key_tweak)} for f in found]
                evs.append({"op": "spscan", "bscan": nat(bscan), "bspend": nat(bspend), "labels": labels_used, "a": pt(A), "outpoints": [o.serialize().hex() for o in outpoints],
                            "outs": [o.hex() for o in all_outs], "found": fl, "arm": arm})
                mine = {outs[j] for j, (ww, _) in enumerate(recips) if ww == w}
                evs.append({"op": "agree", "what": f"wallet {w} finds exactly the outputs created for it ({arm} scan)", "a": ",".join(sorted(x["o"] for x in fl)), "b": ",".join(sorted(o.hex() for o in mine))})
                for x in fl:
                    d = outcome(lambda: sp.prv_key_from_tweak(bspend, int(x["t"] or "0", 16)))
                    evs.append({"op": "agree", "what": "prv_key_from_tweak opens the found output", "a": nat(mult(d)[0]).rjust(64, "0") if not isinstance(d, str) else d, "b": x["o"]})
                stats["scans"] += 1
                stats["found"] += len(fl)
    return stats


def record_psbt_silent_payments(run: Run, rnd: random.Random, thorough: bool, evs: list[dict[str, Any]]) -> int:
    """BIP375: silent payments sent through a psbt -- per-input shares or one global share, plain and labelled recipients, a decoy output, two coins of one
    key among the inputs -- the scripts the Signer role writes are recomputed by the specification's sender, and the recipient's scanner finds every one."""
    from btclib import silent_payments as sp
    from btclib.bip32 import BIP32KeyOrigin
    from btclib.curves import mult
    from btclib.hashes import hash160
    from btclib.psbt import Psbt
    from btclib.psbt import silent_payments as role
    from btclib.psbt.psbt_in import PsbtIn
    from btclib.psbt.psbt_out import PsbtOut
    from btclib.script.script_pub_key import ScriptPubKey
    from btclib.tx import OutPoint, TxOut

    n = 0
    bscan, bspend = rnd.randrange(1, N), rnd.randrange(1, N)
    Bscan, Bspend = mult(bscan), mult(bspend)
    keys = [rnd.randrange(1, N) for _ in range(3)]
    plans = [([0], [None]), ([0, 1, 2], [None, 7, None]), ([1, 1], [None]), ([2, 0, 2], [3, None, 3]), ([0, 0, 0], [None, None])]
    for input_keys, labels in plans:
        for global_share in (True, False):
            inputs, pub_keys = [], []
            for k, i in enumerate(input_keys):
                A = sec(mult(keys[i]))
                spk = b"\x00\x14" + hash160(A)
                pub_keys.append((mult(keys[i]), spk))
                inputs.append(PsbtIn(witness_utxo=TxOut(60_000 + k, ScriptPubKey(spk)), previous_tx_id=bytes([0x40 + k]) * 32, output_index=k, hd_key_paths={A: BIP32KeyOrigin("deadbeef", "m/84h/0h/0h/0/0")}))
            outputs, rs = [], []
            for k, m in enumerate(labels):
                Bm = Bspend if m is None else mult((bspend + sp.label_tweak(bscan, m)) % N)
                outputs.append(PsbtOut(amount=10_000 + k, sp_v0_info=sec(Bscan) + sec(Bm)))
                rs.append({"scan": sec(Bscan).hex(), "spend": sec(Bm).hex()})
            outputs.insert(1, PsbtOut(amount=5_000, script_pub_key=b"\x51\x20" + mult(0xDEC0)[0].to_bytes(32, "big")))

            def route() -> Any:
                psbt = Psbt(2, inputs, outputs, 2, {}, tx_modifiable=3)
                if global_share:
                    role.set_global_share(psbt, [keys[i] for i in input_keys], bytes(32))
                else:
                    for vin_i, i in enumerate(input_keys):
                        role.set_input_share(psbt, vin_i, keys[i], bytes(32))
                role.assert_shares_as_valid(psbt)
                role.set_output_scripts(psbt)
                role.assert_as_valid(psbt)
                return psbt

            what = f"inputs {input_keys}, labels {labels}, {'one global share' if global_share else 'a share per input'}"
            psbt = outcome(route)
            if isinstance(psbt, str):
                evs.append({"op": "holds", "what": f"silent payments through a psbt ({what}): {psbt}", "ok": False})
                continue
            paid = [bytes(o.script_pub_key[2:]) for o in psbt.outputs if o.sp_v0_info]
            outpoints = [OutPoint(pin.previous_tx_id, pin.output_index) for pin in psbt.inputs]
            evs.append({"op": "spsend", "inputs": [{"d": nat(keys[i]), "taproot": False} for i in input_keys], "outpoints": [o.serialize().hex() for o in outpoints], "rs": rs, "outs": [o.hex() for o in paid],
                        "arm": f"psbt: {what}"})
            lookup = sp.label_lookup(bscan, [0] + [m for m in labels if m is not None])
            found = outcome(lambda: sp.scan_transaction_outputs(bscan, Bspend, outpoints, pub_keys, [bytes(o.script_pub_key[2:]) for o in psbt.outputs], lookup))
            evs.append({"op": "holds", "what": f"the recipient's scanner finds every output a psbt paid it ({what})", "ok": (not isinstance(found, str)) and sorted(o.pub_key for o in found) == sorted(paid)})
            n += 1
    return n


def record_psbt_musig(run: Run, rnd: random.Random, thorough: bool, evs: list[dict[str, Any]]) -> dict[str, int]:
    """BIP373: both rounds of a session run over a psbt, each signer on its own copy, merged by the Combiner, aggregated by the Finalizer and spent.

    The four ways the aggregate key reaches the key being spent (it is the output key; it is the internal key, with and without a script tree; the internal
    key is BIP328-derived from it; it is the key of a leaf script) are told to the specification as what the psbt says, not as tweaks.
    """
    from copy import deepcopy

    from btclib.bip32 import BIP328_CHAIN_CODE, BIP32KeyOrigin, pub_key_derivation_tweaks
    from btclib.curves import mult, secp256k1
    from btclib.ecc import musig2 as m2
    from btclib.hashes import hash160
    from btclib.psbt import Psbt, combine, extract_tx, finalize
    from btclib.psbt import musig2 as pm
    from btclib.psbt.psbt import prevouts, taproot_sig_hash
    from btclib.script import taproot
    from btclib.script.engine import verify_transaction
    from btclib.tx import OutPoint, Tx, TxIn, TxOut

    stats = {"sessions": 0, "output": 0, "internal": 0, "derived": 0, "leaf": 0, "refused": 0}
    other_leaf = (0xC0, ["OP_1"])
    plans = [(way, n, tree, sort) for way in ("output", "internal", "derived", "leaf") for n in ((1, 2, 3) if thorough else (2, 3)) for tree in (False, True) for sort in (False, True)
             if not (way == "output" and tree) and (thorough or sort == (n == 3))]
    for rep in range(2 if thorough else 1):
        for way, n, tree, sort in plans + [("output", 3, False, False), ("internal", 3, True, False)]:
            keys = [rnd.randrange(1, N) for _ in range(n)]
            if (way, n, tree, sort) in plans[len(plans):] or (n == 3 and not sort and not tree and way == "output") or (n == 3 and tree and not sort and way == "internal"):
                keys[2] = keys[0]                          # one signer listed twice: its nonce and its partial signature count once per occurrence
            pubs = [sec(mult(k)) for k in keys]
            if sort:
                order = sorted(range(n), key=lambda j: pubs[j])
                keys, pubs = [keys[j] for j in order], [pubs[j] for j in order]
            agg = sec(m2.key_agg(pubs).Q)
            path = [rnd.randrange(0, 1 << 31) for _ in range(rnd.choice([1, 2, 3]))] if way == "derived" else []
            internal, root, leaf_h, leaf_scripts, hd = b"", b"", b"", {}, {}
            if way == "output":
                out_key = agg[1:]
            elif way in ("internal", "derived"):
                if way == "derived":
                    ctx = m2.key_agg_and_tweak(pubs, pub_key_derivation_tweaks(agg, BIP328_CHAIN_CODE, path), [False] * len(path))
                    internal = ctx.x_only_pub_key
                    hd = {internal: ([], BIP32KeyOrigin(hash160(agg)[:4], path))}
                else:
                    internal = agg[1:]
                root = taproot.tree_helper([other_leaf])[1] if tree else b""
                out_key = taproot.output_pubkey_from_merkle_root(internal, root)[0]
            else:
                internal = sec(mult(rnd.randrange(1, N)))[1:]
                leaf = (0xC0, [agg[1:].hex(), "OP_CHECKSIG"])
                script_tree: Any = [[leaf], [other_leaf]] if tree else [leaf]
                info, root = taproot.tree_helper(script_tree)
                out_key, parity = taproot.output_pubkey_from_merkle_root(internal, root)
                script = taproot.serialize(leaf[1]) if hasattr(taproot, "serialize") else b""
                leaf_h = taproot.leaf_hash(0xC0, script)
                leaf_scripts = {bytes([0xC0 + parity]) + internal + info[0][1]: (script, 0xC0)}
            spk = b"\x51\x20" + out_key
            value = rnd.randrange(10_000, 10_000_000)
            tx = Tx(2, 0, [TxIn(OutPoint(rnd.randbytes(32), rnd.randrange(4)), b"", 0xFFFFFFFD)], [TxOut(value - 500, bytes.fromhex("0014") + rnd.randbytes(20))])
            psbt = Psbt.from_tx(tx)
            pin = psbt.inputs[0]
            pin.witness_utxo = TxOut(value, spk)
            if way != "output":
                pin.taproot_internal_key = internal
                pin.taproot_merkle_root = root
            pin.taproot_hd_key_paths = hd
            pin.taproot_leaf_scripts = leaf_scripts
            if rnd.random() < 0.5:
                psbt = psbt.to_v2()
            got = pm.add_participant_pub_keys(psbt.inputs[0], pubs, sort=sort)
            psbt.assert_valid()
            kw = {"leaf_hash": leaf_h} if leaf_h else {}
            spent = prevouts(psbt)

            def session() -> dict[str, Any]:
                signers = list(dict.fromkeys(keys))            # (a key listed twice is one signer)
                round_1 = [deepcopy(psbt) for _ in signers]
                secnonces = [pm.nonce_gen(c, 0, k, agg, **kw) for c, k in zip(round_1, signers)]
                nonces_in = combine(round_1)
                round_2 = [deepcopy(nonces_in) for _ in signers]
                for c, k, sn in zip(round_2, signers, secnonces):
                    pm.partial_sign(c, 0, sn, k, agg, **kw)
                signed = combine(round_2)
                pin2 = signed.inputs[0]
                tweaked = next(iter(pin2.musig2_pub_nonces))[33:66]
                nonces = [pin2.musig2_pub_nonces[pk + tweaked + leaf_h] for pk in pubs]
                psigs = [pin2.musig2_partial_sigs[pk + tweaked + leaf_h] for pk in pubs]
                verifies = [pm.partial_sig_verify(signed, 0, pk, agg, **kw) for pk in pubs]
                msg = taproot_sig_hash(signed, 0, **kw)
                sig = pm.partial_sigs_agg(signed, 0, agg, **kw)
                verify_transaction(spent, extract_tx(finalize(signed)))
                return {"pubnonces": [{"r1": x[:33].hex(), "r2": x[33:].hex()} for x in nonces], "psigs": [x.hex() for x in psigs], "verifies": verifies, "msg": msg.hex(),
                        "r": nat(sig.r), "s": nat(sig.s), "accepted": True}

            r = outcome(session)
            e = {"op": "psbtmusig", "way": way, "pks": [x.hex() for x in pubs], "agg": got.hex(), "internal": internal.hex(), "root": root.hex(), "path": path,
                 "spent_key": (agg[1:] if way == "leaf" else out_key).hex(), "what": f"{way} n={n} tree={tree} sorted={sort} v{psbt.version}"}
            if isinstance(r, str):
                stats["refused"] += 1
                e.update({"pubnonces": [], "psigs": [], "verifies": [], "msg": "", "r": nat(0), "s": nat(0), "accepted": False, "refusal": r})
            else:
                e.update(r)
            evs.append(e)
            stats["sessions"] += 1
            stats[way] += 1
    return stats


def record_rings(run: Run, rnd: random.Random, thorough: bool, evs: list[dict[str, Any]]) -> dict[str, int]:
    """Borromean ring signatures made by the library over 1-3 rings of 1-4 keys with the signer at every position, and single alterations of each
    (another message, one s-value, e0, one ring key, two keys swapped); Pedersen commitments incl. the zero blinding factor / value and the infinite sum."""
    from btclib.curves import mult
    from btclib.ecc import borromean, pedersen

    stats = {"signatures": 0, "altered": 0, "altered_accepted": 0, "commitments": 0}
    shapes = [[1], [2], [3], [4], [2, 3], [3, 1, 2]] + ([[4, 4], [1, 1, 1], [2, 2, 2, 2]] if thorough else [])

    def ev(what: str, msg: bytes, sig: Any, rings: list[list[Any]]) -> None:
        out = outcome(lambda: borromean.verify(msg, sig, rings))
        evs.append({"op": "ring", "what": what, "msg": msg.hex(), "rings": [[sec(P).hex() for P in ring] for ring in rings], "e0": sig.e0.hex(), "s": [[nat(x) for x in row] for row in sig.s],
                    "out": out if isinstance(out, bool) else False, "refusal": "" if isinstance(out, bool) else out})

    for shape in shapes:
        positions = [[rnd.randrange(n) for n in shape] for _ in range(2)] + [[0] * len(shape), [n - 1 for n in shape]]
        for at in positions[: 4 if thorough else 3]:
            keys = [[rnd.randrange(1, N) for _ in range(n)] for n in shape]
            rings = [[mult(k) for k in row] for row in keys]
            msg = rnd.randbytes(rnd.choice([0, 1, 32, 70]))
            sig = borromean.sign(msg, [rnd.randrange(1, N) for _ in shape], at, [keys[a][at[a]] for a in range(len(shape))], rings)
            ev(f"honest {shape} at {at}", msg, sig, rings)
            ev(f"honest {shape} at {at}, serialized", msg, borromean.BorromeanSig.parse(sig.serialize(), shape), rings)
            stats["signatures"] += 1
            a = rnd.randrange(len(shape))
            b = rnd.randrange(shape[a])
            s2 = [list(row) for row in sig.s]
            s2[a][b] = (s2[a][b] + 1) % N
            r2 = [list(row) for row in rings]
            r2[a][b] = mult(rnd.randrange(1, N))
            alts = [("another message", msg + b"\x00", sig, rings), ("one s-value", msg, borromean.BorromeanSig(sig.e0, s2), rings),
                    ("e0", msg, borromean.BorromeanSig(bytes([sig.e0[0] ^ 1]) + sig.e0[1:], sig.s), rings), ("one ring key", msg, sig, r2)]
            if shape[a] > 1:
                r3 = [list(row) for row in rings]
                r3[a][0], r3[a][1] = r3[a][1], r3[a][0]
                alts.append(("two keys swapped", msg, sig, r3))
            if len(shape) > 1:
                alts.append(("rings reversed", msg, sig, rings[::-1]))
            for what, m2, sg, rg in alts:
                ev(f"{what} ({shape} at {at})", m2, sg, rg)
                stats["altered"] += 1
                stats["altered_accepted"] += evs[-1]["out"]
    H = pedersen.second_generator()
    evs.append({"op": "secondgen", "out": pt(H)})
    for r, v in [(0, 0), (0, 1), (1, 0), (N - 1, N - 1), (N, 5), (5, N), (N + 3, 2 * N + 9)] + [(rnd.randrange(N), rnd.randrange(1 << rnd.choice([1, 32, 64, 256]))) for _ in range(8 if thorough else 4)]:
        q = outcome(lambda: pedersen.commit(r, v))
        evs.append({"op": "commit", "r": nat(r), "v": nat(v), "refused": isinstance(q, str), "out": pt(q) if not isinstance(q, str) else {"inf": 1}, "refusal": q if isinstance(q, str) else ""})
        if not isinstance(q, str):
            evs.append({"op": "holds", "what": "a commitment opens to what was committed", "ok": pedersen.verify(r, v, q) is True})
            evs.append({"op": "fails", "what": "a commitment opens to another value", "ok": pedersen.verify(r, v + 1, q) is True})
            evs.append({"op": "fails", "what": "a commitment opens with another blinding factor", "ok": pedersen.verify(r + 1, v, q) is True})
        stats["commitments"] += 1
    return stats


def check(run: Run) -> None:
    thorough = run.tier == "thorough"
    rnd = random.Random(run.seed)
    run.rule = ("toy curve: every pair (thorough: also every triple with one tweak) of private keys incl. duplicates x every sequence of up to 2 plain/x-only tweaks x 2 nonces x with/without "
                "adaptor; secp256k1: sessions of 1-3 (5) signers x 6 tweak shapes x message lengths 32/0/45 x adaptors, arbitrary and sorted key orders, duplicate keys; ECDH x 3 hash "
                "functions x 5 sizes; BIE1 with the recipient key in 5 spellings; DLEQ proofs and 6 altered statements each; silent payments with 1-4 inputs (taproot or not), 1-5 "
                "recipients of 3 wallets (labels, repeats, interleaving), decoys, both scanning entry points; BIP373 sessions over a psbt in the four ways the aggregate key reaches the spent key "
                "(output key, internal key, BIP328-derived internal key, leaf key) x 2-3 signers x with/without script tree x sorted or not x v0/v2, each signer on its own copy; Borromean "
                "signatures on the toy curve for every ring shape up to 3x3, signer position and key; on secp256k1 over 6-9 shapes with 6 alterations each; Pedersen commitments")
    run.assumptions = ["the cipher of BIE1 is the caller's (an involutive toy cipher here): the envelope, key derivation and MAC are btclib's",
                       "ElligatorSwift: the map (EllSwift!XSwiftEC) is recomputed on secp256k1, secp192k1 and secp160k1 (p = 3 mod 4); the randomized inverse is bound by decode(encode(P)) = P",
                       "borromean and pedersen are specified generically (RingSig) and model-checked on the toy curve; the recorded signatures and commitments are secp256k1 / sha256"]
    cfgs = [("2 signers", MODEL_CFG.format(n=2, t=2 if thorough else 1, tv="1, 17", nv="3, 11" if thorough else "3"))]
    if thorough:
        cfgs.append(("3 signers", MODEL_CFG.format(n=3, t=1, tv="17", nv="3")))
    for name, cfg in cfgs:
        res = tlc.run("MuSig2Model", cfg_text=cfg, workers=16, timeout=6000)
        for v in res.violations:
            raise tlc.TLCFailure(f"MuSig2Model violates {v.name}:\n{v.text[:600]}")
        run.tlc(res, f"M MuSig2Model {name}")
    live = tlc.run("MuSig2Model", cfg_text=f"SPECIFICATION FairSpec\nCONSTANTS NSigners = {2 if thorough else 1}\nMaxTweaks = 1\nTweakVals = {{17}}\nNonceVals = {{3}}\nAdaptorVals = {{0, 5}}\nPROPERTY Completes\nCHECK_DEADLOCK FALSE\n",
                   workers=4, timeout=3000)
    for v in live.violations:
        raise tlc.TLCFailure(f"MuSig2Model violates {v.name}:\n{v.text[:600]}")
    run.tlc(live, "M MuSig2Model liveness")
    ring_cfg = ("SPECIFICATION Spec\nCONSTANTS Shapes <- ShapesC\nKeyVals = {%s}\nNonceVals = {3, 11}\nForgedVals = {%s}\nINVARIANT SignedVerifies\nINVARIANT ShapeMismatchFails\n"
                "INVARIANT CommitOpens\nINVARIANT CommitAdds\nINVARIANT SecondGeneratorOnCurve\nCHECK_DEADLOCK FALSE\n") % (("1, 2, 9, 17, 30", "1, 6, 13") if thorough else ("1, 17, 30", "1, 6"))
    res = tlc.run("RingSigModel", cfg_text=ring_cfg, workers=16, timeout=6000)
    for v in res.violations:
        raise tlc.TLCFailure(f"RingSigModel violates {v.name}:\n{v.text[:600]}")
    run.tlc(res, "M RingSigModel")
    for probe in ("NeverSigned", "NeverFails"):          # vacuity: some signing completes and some fails on 31 points
        pr = tlc.run("RingSigModel", cfg_text=ring_cfg.split("INVARIANT")[0] + f"INVARIANT {probe}\nCHECK_DEADLOCK FALSE\n", workers=4, timeout=600, check=False)
        if not any(v.name == probe for v in pr.violations):
            raise tlc.TLCFailure(f"RingSigModel is vacuous: {probe} holds")
    evs: list[dict[str, Any]] = []
    s1 = record_musig(run, rnd, thorough, evs)
    s2 = record_two_party(run, rnd, thorough, evs)
    s3 = record_silent_payments(run, rnd, thorough, evs)
    s3["input readings"] = record_sp_inputs(run, random.Random(run.seed + 352), evs)
    s4 = record_psbt_musig(run, rnd, thorough, evs)
    s5 = record_rings(run, rnd, thorough, evs)
    s3["through_a_psbt"] = record_psbt_silent_payments(run, rnd, thorough, evs)
    keep = ("c", "ell", "ella", "ellb", "party", "rings", "e0", "v", "refused", "way", "agg", "internal", "root", "path", "spent_key", "accepted", "op", "pks", "tweaks", "pubnonces", "msg", "adaptor", "psigs", "verifies", "aggpk", "r", "s", "valid", "adapted_s", "adapted_valid", "extracted", "d", "q", "size", "info", "hf", "out",
            "iv", "ke", "km", "a", "b", "c", "g", "proof", "ok", "inputs", "outpoints", "rs", "outs", "bscan", "bspend", "labels", "found", "spk", "sig", "wit")
    compact = [{k: v for k, v in e.items() if k in keep} for e in evs]
    results, bad, diag = events.validate("C16Trace", compact, batch=400, timeout=6000)
    for r in results:
        run.tlc(r, "V C16Trace")
    for k in bad:
        e = evs[k]
        what = e.get("what") or ("tweaks " + "".join("x" if x else "p" for x in e.get("kinds", [])) + f" msg {e.get('mlen')} adaptor {bool(e.get('adaptor'))}" if e["op"] == "musig" else e.get("arm", ""))
        run.violation(f"protocols|{e['op']}|{what}", f"{e['op']}: the specification does not explain {({kk: (vv if not isinstance(vv, (str, list)) or len(vv) < 70 else '...') for kk, vv in e.items()})}; "
                      f"expected {str(diag.get(k))[:500]}", {"event": e, "expected": str(diag.get(k))[:3000]})
    run.sample({"event": {k: (v if not isinstance(v, (str, list)) or len(str(v)) < 100 else str(v)[:100]) for k, v in next(e for e in evs if e["op"] == "musig").items()}})
    run.section("events", {"musig2": s1, "two_party": s2, "silent_payments": s3, "psbt_musig2": s4, "rings_commitments": s5, "by_op": {op: sum(1 for e in evs if e["op"] == op) for op in sorted({e["op"] for e in evs})}})
    if s1["sessions"] < 10 or s3["found"] < 5 or min(s4[w] for w in ("output", "internal", "derived", "leaf")) < 2 or s5["signatures"] < 10:
        raise tlc.TLCFailure(f"C16 harness is vacuous: {s1} {s3} {s4}")
    run.count(evaluations=len(evs), validated=len(evs), nontrivial=len(evs))


def replay(path: str) -> int:
    import json

    body = json.load(open(path))
    e = body.get("event")
    if not e:
        return 0
    results, bad, diag = events.validate("C16Trace", [e], workers=1)
    if bad:
        print(f"VIOLATION property=C16 replay={path}  # recorded event not explained by the specification; expected {str(diag.get(0))[:300]}")
        return 1
    return 0
