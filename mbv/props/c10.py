"""C10 -- what the library builds and signs, its own engine accepts; tampering is rejected.

Spec: ScriptSigs (Core's VerifyScript with the signature opcodes: EvalChecksig, CHECKMULTISIG, P2WPKH, taproot key and script
paths, over the SigHash algorithms, ECDSA and BIP340), C10Trace.  The library's engine verdict on every input of every signed
and every tampered transaction is compared with the specification's own verdict, computed by TLC.
"""

from __future__ import annotations

import copy
import random
from typing import Any

from .. import events, tlc
from ..core import Run, nat
from .c18 import Kit

STANDARD = ["P2SH", "DERSIG", "STRICTENC", "MINIMALDATA", "NULLDUMMY", "DISCOURAGE_UPGRADABLE_NOPS", "CLEANSTACK", "MINIMALIF", "NULLFAIL", "CHECKLOCKTIMEVERIFY", "CHECKSEQUENCEVERIFY",
            "LOW_S", "WITNESS", "DISCOURAGE_UPGRADABLE_WITNESS_PROGRAM", "WITNESS_PUBKEYTYPE", "CONST_SCRIPTCODE", "TAPROOT", "DISCOURAGE_UPGRADABLE_TAPROOT_VERSION",
            "DISCOURAGE_OP_SUCCESS", "DISCOURAGE_UPGRADABLE_PUBKEYTYPE"]
CONSENSUS = ["P2SH", "DERSIG", "NULLDUMMY", "CHECKLOCKTIMEVERIFY", "CHECKSEQUENCEVERIFY", "WITNESS", "TAPROOT"]
ECDSA_TYPES = [1, 2, 3, 0x81, 0x82, 0x83]
TAP_TYPES = [0, 1, 2, 3, 0x81, 0x82, 0x83]


def outcome(fn: Any) -> Any:
    from btclib.exceptions import BTClibException

    try:
        return fn()
    except BTClibException:
        return "refused"
    except Exception as e:  # noqa: BLE001
        return f"foreign:{type(e).__name__}"


def verify_events(tx: Any, prevouts: list[Any], flags: list[str], evs: list[dict[str, Any]], kind: str, inputs: list[int] | None = None) -> list[bool]:
    from btclib.script.engine import verify_input

    txh = tx.serialize(include_witness=True, check_validity=False).hex()
    prev = [{"value": nat(p.value), "spk": p.script_pub_key.script.hex()} for p in prevouts]
    oks = []
    for i in (range(len(tx.vin)) if inputs is None else inputs):
        r = outcome(lambda: verify_input(prevouts, tx, i, flags))
        ok = r is None
        oks.append(ok)
        e = {"op": "verify", "tx": txh, "prevouts": prev, "idx": i, "flags": flags, "ok": ok, "kind": kind}
        if isinstance(r, str) and r.startswith("foreign"):
            e["foreign"] = r
        evs.append(e)
    return oks


def tampered(tx: Any, prevouts: list[Any], rnd: random.Random) -> list[tuple[str, Any, list[Any]]]:
    """Every single change to what a signature may commit to."""
    from btclib.script.script_pub_key import ScriptPubKey
    from btclib.tx import TxOut

    out = []

    def edit(name: str, fn: Any, pfn: Any = None) -> None:
        t = copy.deepcopy(tx)
        p = copy.deepcopy(prevouts)
        try:
            if fn:
                fn(t)
            if pfn:
                pfn(p)
        except Exception:  # noqa: BLE001
            return
        out.append((name, t, p))

    for k in range(len(tx.vout)):
        edit(f"output {k} amount + 1", lambda t, k=k: setattr(t.vout[k], "value", t.vout[k].value + 1))
        edit(f"output {k} script changed", lambda t, k=k: setattr(t.vout[k], "script_pub_key", ScriptPubKey(bytes.fromhex("0014" + "77" * 20), check_validity=False)))
    edit("an output appended", lambda t: t.vout.append(TxOut(1, ScriptPubKey(bytes.fromhex("0014" + "66" * 20), check_validity=False), check_validity=False)))
    edit("the last output removed", lambda t: t.vout.pop())
    for k in range(len(tx.vin)):
        edit(f"input {k} sequence changed", lambda t, k=k: setattr(t.vin[k], "sequence", (t.vin[k].sequence - 1) % 2**32))
        edit(f"spent output {k} amount + 1", None, lambda p, k=k: setattr(p[k], "value", p[k].value + 1))
    # the witness itself: a signature with one or two bytes appended, its last byte changed, an element dropped
    from btclib.script.witness import Witness

    for k in range(len(tx.vin)):
        st = list(tx.vin[k].script_witness.stack)
        for j, el in enumerate(st):
            if len(el) in (64, 65) or (len(el) > 60 and el[:1] == b"\x30"):
                for name, new in (("one byte appended", el + b"\x00"), ("two bytes appended", el + b"\x00\x00"), ("last byte changed", el[:-1] + bytes([el[-1] ^ 0x02]))):
                    edit(f"input {k} witness element {j}: {name}", lambda t, k=k, j=j, new=new, st=st: setattr(t.vin[k], "script_witness", Witness(st[:j] + [new] + st[j + 1:])))
    edit("lock time + 1", lambda t: setattr(t, "lock_time", t.lock_time + 1))
    edit("version changed", lambda t: setattr(t, "version", 3 - t.version if t.version in (1, 2) else 1))
    if len(tx.vin) > 1:
        edit("the outpoint of input 0 changed", lambda t: setattr(t.vin[0], "prev_out", type(t.vin[0].prev_out)(bytes(31) + b"\x09", 3, check_validity=False)))
        edit("the last input removed", lambda t: t.vin.pop(), lambda p: p.pop())
    return out


def record_spends(run: Run, rnd: random.Random, thorough: bool, evs: list[dict[str, Any]]) -> dict[str, int]:
    from btclib.fee import FeeRate
    from btclib.script.script_pub_key import ScriptPubKey
    from btclib.tx import TxOut
    from btclib.tx_builder import build_psbt

    kit = Kit()
    stats = {"signed": 0, "inputs": 0, "tampered": 0, "rejected_tampered": 0}
    kinds = sorted(kit.kinds)
    mixes = [[k] for k in kinds] + [["p2wpkh", "p2tr"], ["p2pkh", "p2sh-p2wpkh", "p2wpkh"], ["p2wsh-p2ms", "p2tr", "p2pk"], ["p2tr", "p2tr", "p2sh-p2ms"]]
    mixes = [m for m in mixes if all(k in kit.kinds for k in m)]
    rounds = 0
    for mix in mixes:
        types = TAP_TYPES if all(t == "p2tr" for t in mix) else (ECDSA_TYPES if "p2tr" not in mix else [1, 2, 3, 0x81, 0x82, 0x83])
        for ht in (types if thorough or len(mix) == 1 else types[::2]):
            rounds += 1
            n_out = 1 + rounds % 3
            if ht & 3 == 3 and n_out < len(mix):
                n_out = len(mix)                            # SIGHASH_SINGLE needs an output per input
            ins, prevs = [], []
            for k, t in enumerate(mix):
                pin, prev, _ = kit.input(t, 7 * rounds + k, 300_000 + k, k, ht if (t == "p2tr" or ht) else 0)
                if t != "p2tr":
                    pin.sig_hash_type = ht
                pin.sequence = 0xFFFFFFFD - k
                ins.append(pin)
                prevs.append(prev)
            outs = [TxOut(50_000 + j, ScriptPubKey(bytes.fromhex("0014" + f"{0x90 + j:02x}" * 20), check_validity=False)) for j in range(n_out)]
            built = outcome(lambda: build_psbt(ins, outs, FeeRate(sats_per_kvbyte=3000), None, lock_time=rounds))
            if isinstance(built, str):
                evs.append({"op": "holds", "what": f"build_psbt for {mix} hash type {ht:#x}: {built}", "ok": False})
                continue
            tx = outcome(lambda: kit.sign(built.psbt, mix))
            if isinstance(tx, str):
                evs.append({"op": "holds", "what": f"sign/finalize/extract for {mix} hash type {ht:#x}: {tx}", "ok": False})
                continue
            stats["signed"] += 1
            kind = f"{'+'.join(mix)} hash type {ht:#x}"
            # the same spend as a version 2 psbt whose lock time comes from an input that requires one (a height, or a time): what is extracted carries it
            if rounds % 3 == 0 or thorough:
                for field, value in (("required_height_lock_time", 500_000 + rounds), ("required_time_lock_time", 1_700_000_000 + rounds)):
                    def v2_route() -> Any:
                        p2 = built.psbt.to_v2()
                        setattr(p2.inputs[0], field, value)
                        return kit.sign(p2, mix)

                    tx2 = outcome(v2_route)
                    if isinstance(tx2, str):
                        evs.append({"op": "holds", "what": f"sign/finalize/extract of a version 2 psbt with {field} for {mix}: {tx2}", "ok": False})
                        continue
                    evs.append({"op": "holds", "what": f"the transaction extracted from a version 2 psbt carries the lock time its input requires ({field}, {kind})", "ok": tx2.lock_time == value})
                    oks2 = verify_events(tx2, prevs, STANDARD, evs, f"{kind}; v2 psbt with {field}")
                    evs.append({"op": "holds", "what": f"the engine accepts every input of a version 2 psbt with {field} ({kind})", "ok": all(oks2)})
            for flags in (STANDARD, CONSENSUS, []):
                oks = verify_events(tx, prevs, flags, evs, kind)
                stats["inputs"] += len(oks)
                if flags is STANDARD:
                    evs.append({"op": "holds", "what": f"the engine accepts every input of what the library signed ({kind}, standard flags)", "ok": all(oks)})
            # tampering: every single change, judged input by input by both engines
            tam = tampered(tx, prevs, rnd)
            for name, t2, p2 in (tam if thorough else rnd.sample(tam, min(len(tam), 8))):
                if len(t2.vin) != len(p2):
                    continue
                oks = verify_events(t2, p2, STANDARD, evs, f"{kind}; {name}")
                stats["tampered"] += 1
                stats["rejected_tampered"] += not all(oks)
    return stats


def record_messages(run: Run, rnd: random.Random, thorough: bool, evs: list[dict[str, Any]]) -> dict[str, int]:
    from btclib import b32, b58, bip322
    from btclib.ecc import bms

    stats = {"bms": 0, "bip322": 0}
    keys = [rnd.randrange(1, 2**255) for _ in range(3 if thorough else 2)]
    for kn, d in enumerate(keys):
        net = ["mainnet", "testnet", "regtest"][kn % 3]          # (the addresses a key has on its own network, whichever that is)
        wif_c = b58.wif_from_prv_key(d, net, True)
        wif_u = b58.wif_from_prv_key(d, net, False)
        other = b58.wif_from_prv_key((d % (2**255 - 3)) + 1, net, True)
        addrs = {"p2pkh": b58.p2pkh(wif_c), "p2pkh-uncompressed": b58.p2pkh(wif_u), "p2wpkh": b32.p2wpkh(wif_c), "p2wpkh-p2sh": b58.p2wpkh_p2sh(wif_c)}
        for msg in (b"", b"hello", rnd.randbytes(40)):
            for name, addr in addrs.items():
                wif = wif_u if "uncompressed" in name else wif_c
                sig = outcome(lambda: bms.sign(msg, wif, addr))
                if isinstance(sig, str):
                    evs.append({"op": "holds", "what": f"bms.sign for a {name} address: {sig}", "ok": False})
                    continue
                evs.append({"op": "holds", "what": f"a Bitcoin message signature verifies for the {name} address it was made for", "ok": outcome(lambda: bms.verify(msg, addr, sig)) is True})
                evs.append({"op": "fails", "what": f"a Bitcoin message signature verifies for another key's {name} address", "ok": outcome(lambda: bms.verify(msg, b58.p2pkh(other) if "p2pkh" in name else b32.p2wpkh(other), sig)) is True})
                evs.append({"op": "fails", "what": "a Bitcoin message signature verifies for another message", "ok": outcome(lambda: bms.verify(msg + b"!", addr, sig)) is True})
                stats["bms"] += 1
            for name in ("p2wpkh",):
                addr = addrs[name]
                sig = outcome(lambda: bip322.sign(msg, wif_c, addr))
                if isinstance(sig, str):
                    evs.append({"op": "holds", "what": f"bip322.sign for a {name} address: {sig}", "ok": False})
                    continue
                evs.append({"op": "holds", "what": f"a BIP322 signature verifies for the {name} address it was made for", "ok": outcome(lambda: bip322.verify(msg, addr, sig)) is True})
                evs.append({"op": "fails", "what": "a BIP322 signature verifies for another key's address", "ok": outcome(lambda: bip322.verify(msg, b32.p2wpkh(other), sig)) is True})
                evs.append({"op": "fails", "what": "a BIP322 signature verifies for another message", "ok": outcome(lambda: bip322.verify(msg + b"!", addr, sig)) is True})
                stats["bip322"] += 1
    # BIP322 proof of funds: the first input spends to_spend(msg, address) whatever the psbt beside it claims
    from btclib.bip32.key_origin import BIP32KeyOrigin
    from btclib.ecc import dsa
    from btclib.psbt.psbt import Psbt, finalize, sign
    from btclib.script.script_pub_key import ScriptPubKey
    from btclib.to_prv_key import prv_keyinfo_from_prv_key
    from btclib.to_pub_key import pub_keyinfo_from_key
    from btclib.tx import OutPoint, Tx, TxIn, TxOut

    class OneKey:
        def __init__(self, wif: str) -> None:
            self.q = prv_keyinfo_from_prv_key(wif)[0]
            self.pub = pub_keyinfo_from_key(wif, compressed=True)[0]

        def sign_ecdsa(self, pub_key: bytes, origin: Any, msg_hash: bytes) -> bytes | None:
            return dsa.sign_(msg_hash, self.q).serialize() if pub_key == self.pub else None

        def sign_schnorr(self, *a: Any) -> None:
            return None

        def sign_schnorr_script_path(self, *a: Any) -> None:
            return None

    def proof(wif: str, challenge_addr: str, claimed: Any, msg: bytes) -> Any:
        km = OneKey(wif)
        spk = ScriptPubKey.from_address(b32.p2wpkh(wif)).script
        funds = Tx(2, 0, [TxIn(OutPoint("00" * 31 + "07", 0), b"", 0xFFFFFFFF)], [TxOut(70_000, spk)])
        spend = bip322.to_spend(msg, ScriptPubKey.from_address(challenge_addr).script)
        psbt = Psbt.from_tx(bip322.to_sign(spend, extra_inputs=[TxIn(OutPoint(funds.id, 0), b"", 0)]))
        psbt.signed_message = msg
        psbt.inputs[0].witness_utxo = claimed
        psbt.inputs[1].non_witness_utxo = funds
        for pin in psbt.inputs:
            pin.hd_key_paths = {km.pub: BIP32KeyOrigin("deadbeef", [0])}
        signed, _ = sign(psbt, km)
        return bip322.Sig(finalize(signed)), spend, funds

    for d in keys[:2]:
        alice = b58.wif_from_prv_key(d, "mainnet", True)
        mallory = b58.wif_from_prv_key((d % (2**255 - 5)) + 2, "mainnet", True)
        a_addr, m_addr = b32.p2wpkh(alice), b32.p2wpkh(mallory)
        msg = b"proof of funds " + rnd.randbytes(4)
        honest = outcome(lambda: proof(alice, a_addr, TxOut(0, ScriptPubKey.from_address(a_addr).script), msg))
        forged = outcome(lambda: proof(mallory, a_addr, TxOut(0, ScriptPubKey.from_address(m_addr).script), msg))
        if isinstance(honest, str) or isinstance(forged, str):
            evs.append({"op": "holds", "what": f"building a BIP322 proof of funds: {honest if isinstance(honest, str) else forged}", "ok": False})
            continue
        evs.append({"op": "holds", "what": "a BIP322 proof of funds verifies for the address it was made for", "ok": outcome(lambda: bip322.verify(msg, a_addr, honest[0].b64encode())) is True})
        evs.append({"op": "fails", "what": "a BIP322 proof of funds verifies for another address", "ok": outcome(lambda: bip322.verify(msg, m_addr, honest[0].b64encode())) is True})
        evs.append({"op": "fails", "what": "a BIP322 proof of funds signed by another key (its psbt claiming the first input spends that key's script) verifies for the challenged address",
                    "ok": outcome(lambda: bip322.verify(msg, a_addr, forged[0].b64encode())) is True})
        # the same two transactions before the script engine, against the outputs they really spend
        for name, (sig, spend, funds) in (("honest proof of funds", honest), ("forged proof of funds", forged)):
            tx = sig.payload.tx if hasattr(sig.payload, "tx") else None
            if tx is not None:
                from btclib.psbt.psbt import extract_tx

                t = outcome(lambda: extract_tx(sig.payload, check_validity=False))
                if not isinstance(t, str):
                    verify_events(t, [spend.vout[0], funds.vout[0]], STANDARD, evs, f"BIP322 {name}", inputs=[0, 1])
        stats["bip322"] += 1
    return stats


def record_tr_script_spends(run: Run, rnd: random.Random, thorough: bool, evs: list[dict[str, Any]]) -> dict[str, int]:
    """tr() descriptors with script leaves -- pk, multi_a, miniscript leaves, a key that sits in two different leaves -- built as a PSBT, signed by the
    holders of one leaf's keys only (so that leaf is the one spent), finalized with the miniscript solver, extracted, and judged by both engines."""
    from btclib.bip32 import bip32
    from btclib.descriptors import descriptors, miniscript_solver
    from btclib.psbt.psbt import Psbt, extract_tx, finalize
    from btclib.psbt_signer import request_signatures
    from btclib.tx import OutPoint, Tx, TxIn, TxOut

    from .c18 import X1

    kit = Kit()
    stats = {"spends": 0, "refused": 0}

    def acct(sg: Any, x: str, path: str) -> str:
        return f"[{sg.master_fingerprint.hex()}/{path[2:]}]" + bip32.xpub_from_xprv(bip32.derive(x, path))

    a, b = acct(kit.s1, X1, "m/86h/0h/9h"), acct(kit.s2, kit.X2, "m/86h/0h/9h")
    NUMS = "50929b74c1a04954b78b4b6035e97a5e078a5a0f28ec96d547bfee9ace803ac0"
    cases = [  # (descriptor, signers, sequence, how many leaves those signers can spend, what)
        (f"tr({a}/0/*,{{pk({a}/1/*),pk({b}/0/*)}})", [kit.s1], 0xFFFFFFFD, 1, "the first leaf (the signer also holds the internal key)"),
        (f"tr({a}/0/*,{{pk({a}/1/*),pk({b}/0/*)}})", [kit.s2], 0xFFFFFFFD, 1, "the second leaf"),
        (f"tr({NUMS},{{multi_a(2,{a}/0/*,{b}/0/*),and_v(v:pk({a}/0/*),older(144))}})", [kit.s1, kit.s2], 0xFFFFFFFD, 1, "the multi_a leaf"),
        (f"tr({NUMS},{{multi_a(2,{a}/0/*,{b}/0/*),and_v(v:pk({a}/0/*),older(144))}})", [kit.s1], 144, 1, "the timelocked leaf of a key that is in two leaves"),
        (f"tr({b}/1/*,{{{{pk({a}/2/*),and_v(v:pk({a}/2/*),after(100))}},pk({b}/3/*)}})", [kit.s1], 0xFFFFFFFD, 1, "a leaf at depth 2 whose key is in its sibling too (satisfy takes key -> signature and spends the cheaper of the two)"),
        (f"tr({NUMS},{{and_v(v:pk({a}/4/*),pk({b}/4/*)),{{pk({b}/5/*),sortedmulti_a(1,{a}/5/*,{b}/6/*)}}}})", [kit.s1], 0xFFFFFFFD, 1, "sortedmulti_a 1-of-2 by one holder"),
        (f"tr({NUMS},{{and_v(v:pk({a}/4/*),pk({b}/4/*)),{{pk({b}/5/*),sortedmulti_a(1,{a}/5/*,{b}/6/*)}}}})", [kit.s1, kit.s2], 0xFFFFFFFD, 3, "every leaf, both signers"),
    ]
    from btclib.descriptors.miniscript import SpendContext
    from btclib.script.taproot import leaf_hash

    for k, (text, signers, sequence, expect, what) in enumerate(cases):
        d = outcome(lambda: descriptors.parse(text))
        if isinstance(d, str):
            evs.append({"op": "holds", "what": f"parse of {text[:50]}..: {d}", "ok": False})
            continue
        for index in (0, 7) if thorough else (k,):
            prev_out = TxOut(100_000, d.script_pub_key(index))
            prev_tx = Tx(vin=[TxIn(OutPoint(bytes([k + 1]) * 32, 0))], vout=[prev_out])
            lock = 200 if "after" in text else 0

            def signed() -> Any:
                tx = Tx(2, lock, [TxIn(OutPoint(prev_tx.id, 0), b"", sequence)], [TxOut(99_000, bytes.fromhex("0014" + "77" * 20))])
                p = Psbt.from_tx(tx)
                p.inputs[0].non_witness_utxo = prev_tx
                p = d.update_psbt_input(p, 0, index)
                if index % 2:
                    p = p.to_v2()
                for sg in signers:
                    p = request_signatures(sg, p)
                return p

            p = outcome(signed)
            if isinstance(p, str):
                stats["refused"] += 1
                evs.append({"op": "holds", "what": f"a tr() descriptor is updated and signed ({what}): {p}", "ok": False})
                continue
            # every leaf the signatures at hand satisfy is spent, each with the signatures made for that leaf
            spent = 0
            for script, ver in sorted(p.inputs[0].taproot_leaf_scripts.values()):
                lh = leaf_hash(ver, script)
                sigs = {kd[:32]: sg for kd, sg in p.inputs[0].taproot_script_spend_signatures.items() if kd[32:] == lh}
                r = outcome(lambda: d.satisfy(sigs, index, spend=SpendContext(locktime=lock, sequence=sequence, version=2)))
                if isinstance(r, str) or len(r[1].stack) < 2 or r[1].stack[-2] != script:
                    continue
                tx = p.tx
                tx.vin[0].script_sig, tx.vin[0].script_witness = r
                oks = verify_events(tx, [prev_out], STANDARD, evs, f"tr script path: {what}")
                evs.append({"op": "holds", "what": f"the engine accepts a tr() descriptor spent through a leaf its signers satisfy ({what})", "ok": all(oks)})
                spent += 1
                stats["spends"] += 1
            evs.append({"op": "holds", "what": f"the signers of '{what}' can spend {expect} leaf/leaves of the tree: {spent} satisfied", "ok": spent == expect})
            if k < 2 or len(p.inputs[0].taproot_script_spend_signatures) == 1:
                t = outcome(lambda: extract_tx(finalize(p, solver=miniscript_solver)))
                ok = (not isinstance(t, str)) and all(verify_events(t, [prev_out], STANDARD, evs, f"tr finalized: {what}"))
                evs.append({"op": "holds", "what": f"the Finalizer completes the spend of a tr() descriptor ({what}) and the engine accepts it", "ok": ok})
    return stats


def record_wallet_messages(run: Run, rnd: random.Random, thorough: bool, evs: list[dict[str, Any]]) -> int:
    """Message signatures through a wallet: the wallet signs by address with the key it was given, compressed or not, on both network types."""
    from btclib import b58, bip322
    from btclib.ecc import bms
    from btclib.to_prv_key import prv_keyinfo_from_prv_key
    from btclib.wallet import KeyWallet

    n = 0
    for q in (rnd.randrange(1, 2**255), rnd.randrange(1, 2**255)):
        for network in ("mainnet", "testnet"):
            for compressed in (True, False):
                wif = b58.wif_from_prv_key(q, network, compressed)
                w = outcome(lambda: KeyWallet([wif], "p2pkh", network))
                if isinstance(w, str):
                    evs.append({"op": "holds", "what": f"KeyWallet of one {'compressed' if compressed else 'uncompressed'} key: {w}", "ok": False})
                    continue
                address = b58.p2pkh(wif)
                tag = f"{'compressed' if compressed else 'uncompressed'} key on {network}"
                evs.append({"op": "holds", "what": f"the wallet's address is the key's ({tag}): {list(w.addresses)}", "ok": list(w.addresses) == [address]})
                sig = outcome(lambda: w.sign(address, b"msg"))
                evs.append({"op": "holds", "what": f"a wallet signs a message for the address of its {tag} and the signature verifies", "ok": (not isinstance(sig, str)) and outcome(lambda: bms.verify(b"msg", address, sig)) is True})
                held = outcome(lambda: w.prv_key(address))
                evs.append({"op": "holds", "what": f"the key the wallet answers for its address is the key it was given ({tag})", "ok": outcome(lambda: prv_keyinfo_from_prv_key(held)) == (q, network, compressed)})
                twin = b58.p2pkh(b58.wif_from_prv_key(q, network, not compressed))
                if not isinstance(sig, str):
                    evs.append({"op": "fails", "what": f"a wallet's message signature verifies for the address of the other spelling of the key ({tag})", "ok": outcome(lambda: bms.verify(b"msg", twin, sig)) is True})
                if compressed and not isinstance(held, str):
                    pr = outcome(lambda: bip322.sign(b"msg", held, b58.p2pkh(wif)))
                    evs.append({"op": "holds", "what": f"a BIP322 signature made with the wallet's key verifies for its address ({tag})", "ok": (not isinstance(pr, str)) and outcome(lambda: bip322.verify(b"msg", address, pr)) is True})
                n += 1
    return n


def record_finalizer_verdicts(run: Run, rnd: random.Random, thorough: bool, evs: list[dict[str, Any]]) -> int:
    """What the finalizer takes is what the engine will accept: a multisig input whose partial signatures carry different hash type bytes (the input
    states none), each made over the digest of its own byte -- and the same with one signature made over the digest of the other's byte.  The event is
    the transaction those signatures make with the finalizer's verdict as its answer; the specification's engine says whether each signature verifies
    under its own byte."""
    from btclib.curves import mult
    from btclib.ecc import dsa
    from btclib.psbt.psbt import Psbt, finalize
    from btclib.script import sig_hash
    from btclib.script.script_pub_key import ScriptPubKey
    from btclib.script.witness import Witness
    from btclib.tx import OutPoint, Tx, TxIn, TxOut

    N_ = 0xFFFFFFFFFFFFFFFFFFFFFFFFFFFFFFFEBAAEDCE6AF48A03BBFD25E8CD0364141
    n = 0
    pairs = [(1, 0x81), (0x81, 1), (1, 2), (3, 0x83), (2, 0x82), (1, 1), (0x83, 1)]
    for wrap in ("p2wsh", "p2sh", "p2sh-p2wsh"):
        for (t1, t2) in (pairs if thorough else pairs[:5]):
            for lie in (None, 0, 1):
                ds = [rnd.randrange(1, N_) for _ in range(2)]
                pubs = []
                for d in ds:
                    P = mult(d)
                    pubs.append(bytes([2 + P[1] % 2]) + P[0].to_bytes(32, "big"))
                script = b"\x52" + b"".join(b"\x21" + k for k in pubs) + b"\x52\xae"
                if wrap == "p2wsh":
                    spk = ScriptPubKey.p2wsh(script).script
                elif wrap == "p2sh":
                    spk = ScriptPubKey.p2sh(script).script
                else:
                    spk = ScriptPubKey.p2sh(ScriptPubKey.p2wsh(script).script).script
                amount = 50_000
                prev = TxOut(amount, ScriptPubKey(spk, check_validity=False), check_validity=False)
                prev_tx = Tx(2, 0, [TxIn(OutPoint(b"\x44" * 32, 0), b"\x51", 0xFFFFFFFF, check_validity=False)], [TxOut(7_000, ScriptPubKey(b"\x51", check_validity=False), check_validity=False), prev], check_validity=False)
                tx = Tx(2, 0, [TxIn(OutPoint(prev_tx.id, 1), b"", 0xFFFFFFFD, check_validity=False)],
                        [TxOut(20_000, ScriptPubKey(bytes.fromhex("0014") + bytes([0x61]) * 20)), TxOut(20_000, ScriptPubKey(bytes.fromhex("0014") + bytes([0x62]) * 20))], check_validity=False)
                segwit = "wsh" in wrap
                types = [t1, t2]

                def digest(ht: int) -> bytes:
                    return sig_hash.segwit_v0(script, tx, 0, ht, amount) if segwit else sig_hash.legacy(script, tx, 0, ht)

                sigs = []
                for j, d in enumerate(ds):
                    over = types[1 - j] if lie == j else types[j]           # the lie: made over the other signature's type, labelled with its own
                    sigs.append(dsa.sign_(digest(over), d).serialize() + bytes([types[j]]))
                psbt = Psbt.from_tx(tx)
                pin = psbt.inputs[0]
                pin.non_witness_utxo = prev_tx
                if segwit:
                    pin.witness_utxo = prev
                    pin.witness_script = script
                    if wrap == "p2sh-p2wsh":
                        pin.redeem_script = ScriptPubKey.p2wsh(script).script
                else:
                    pin.redeem_script = script
                pin.partial_sigs = {pubs[0]: sigs[0], pubs[1]: sigs[1]}
                took = not isinstance(outcome(lambda: finalize(psbt)), str)
                # the transaction these signatures make, assembled by hand (the finalizer's own output exists only where it took them)
                final = Tx(2, 0, [TxIn(OutPoint(prev_tx.id, 1), b"", 0xFFFFFFFD, check_validity=False)], tx.vout, check_validity=False)
                push = lambda b: (bytes([len(b)]) if len(b) < 76 else b"\x4c" + bytes([len(b)])) + b  # noqa: E731
                if wrap == "p2sh":
                    final.vin[0].script_sig = b"\x00" + push(sigs[0]) + push(sigs[1]) + push(script)
                else:
                    final.vin[0].script_witness = Witness([b"", sigs[0], sigs[1], script])
                    if wrap == "p2sh-p2wsh":
                        final.vin[0].script_sig = push(ScriptPubKey.p2wsh(script).script)
                evs.append({"op": "verify", "tx": final.serialize(include_witness=True, check_validity=False).hex(), "prevouts": [{"value": nat(amount), "spk": spk.hex()}], "idx": 0, "flags": STANDARD,
                            "ok": took, "kind": f"the finalizer's verdict on a {wrap} 2-of-2 input with signatures of hash types {t1:#x} and {t2:#x}" + ("" if lie is None else f", signature {lie} made over the other's digest")})
                n += 1
    return n



def check(run: Run) -> None:
    thorough = run.tier == "thorough"
    rnd = random.Random(run.seed)
    run.rule = ("every input script type the library's signer completes (p2pkh, p2sh-p2wpkh, p2wpkh, taproot key path, p2pk, bare / p2sh / p2wsh / p2sh-p2wsh multisig, 3-of-3) alone and in "
                "mixes of 2-3 inputs x every signature hash type (ALL, NONE, SINGLE, each with ANYONECANPAY; DEFAULT for taproot) x 1-3 outputs, built as a PSBT, signed, finalized, extracted; "
                "each input judged under the standard, the consensus and no flags; then every single change to an output amount or script, an added or removed output, each input's "
                "sequence, each spent output's amount, lock time, version, an outpoint, a removed input, judged input by input; Bitcoin message and BIP322 signatures for their own and "
                "for other addresses and messages")
    run.assumptions = ["a signature that is not strict DER where no flag demands it, and one that occurs in its own script code, are outside the specification (verdict UNMODELLED)",
                       "miniscript and taproot script-path spends are judged by this same specification in C15's check"]
    evs: list[dict[str, Any]] = []
    s1 = record_spends(run, rnd, thorough, evs)
    s2 = record_messages(run, rnd, thorough, evs)
    s2["wallet"] = record_wallet_messages(run, rnd, thorough, evs)
    s4 = record_tr_script_spends(run, rnd, thorough, evs)
    s2["finalizer verdicts"] = record_finalizer_verdicts(run, rnd, thorough, evs)
    # wsh(miniscript) spends: what the library's satisfier produces is judged by the specification's engine too (C15 has the full set)
    from . import c15

    s3 = c15.record(run, rnd, False, evs, only=["or_d(andor(pk(A),pk(B),pkh(C)),pk(D))", "or_b(thresh(2,pk(A),a:pkh(B),s:pk(C)),s:pk(D))", "andor(or_b(pk(A),a:pkh(B)),pk(E),pk(D))", "and_v(v:pk(A),after(500000))", "and_v(v:pk(A),after(600000000))", "and_v(v:pk(A),older(10))",
                                                # the two kinds of lock time meet at 500000000 (the first timestamp) and the two kinds of sequence lock at bit 22; the largest values of each
                                                "and_v(v:pk(A),after(499999999))", "and_v(v:pk(A),after(500000000))", "and_v(v:pk(A),after(500000001))", "and_v(v:pk(A),after(2147483647))",
                                                "and_v(v:pk(A),older(65535))", "and_v(v:pk(A),older(4194304))", "and_v(v:pk(A),older(4259839))", "and_v(v:pk(A),older(1))", "or_d(pk(A),and_v(v:pk(B),older(4194305)))",
                                                "thresh(2,pk(A),s:pk(B),s:pk(C))", "andor(pk(A),older(100),and_v(v:pk(B),hash160(G)))", "or_i(multi(2,A,B),and_v(v:pk(C),after(700000)))",
                                                "and_v(v:multi(2,A,B),older(5))"])
    keep = ("op", "tx", "prevouts", "idx", "flags", "ok", "ast", "script", "size", "reads_back", "reparses", "sigs", "pre", "produced", "stack", "max_ops", "max_items", "max_size")
    compact = [{k: v for k, v in e.items() if k in keep} for e in evs]
    results, bad, diag = events.validate("C15Trace", compact, batch=200, timeout=6000)      # C15Trace = C10Trace's verdicts + the miniscript events
    for r in results:
        run.tlc(r, "V C15Trace (C10Trace + miniscript)")
    for k in bad:
        e = evs[k]
        what = e.get("kind") or e.get("what") or e.get("text")
        run.violation(f"engine|{e['op']}|{what}|input {e.get('idx', '')}|{'standard' if e.get('flags') == STANDARD else 'consensus' if e.get('flags') == CONSENSUS else 'no flags' if e.get('flags') == [] else ''}",
                      f"{e['op']}: {what}: the library's engine says {'accepted' if e.get('ok') else 'rejected'}; the specification says {str(diag.get(k))[:200]}",
                      {"event": e, "expected": str(diag.get(k))[:2000]})
    run.sample({"event": {k: (v if len(str(v)) < 120 else str(v)[:120]) for k, v in next(e for e in evs if e["op"] == "verify").items()}})
    run.section("events", {"spends": s1, "messages": s2, "miniscript": s3, "tr_script_paths": s4, "verify_events": sum(1 for e in evs if e["op"] == "verify")})
    if s1["signed"] < 10 or s1["rejected_tampered"] < 10:
        raise tlc.TLCFailure(f"C10 harness is vacuous: {s1}")
    run.count(evaluations=len(evs), validated=len(evs), nontrivial=len(evs))


def replay(path: str) -> int:
    import json

    body = json.load(open(path))
    e = body.get("event")
    if not e:
        return 0
    keep = ("op", "tx", "prevouts", "idx", "flags", "ok")
    keep = keep + ("ast", "script", "size", "reads_back", "reparses", "sigs", "pre", "produced", "stack", "max_ops", "max_items", "max_size")
    results, bad, diag = events.validate("C15Trace", [{k: v for k, v in e.items() if k in keep}], workers=1)
    if bad:
        print(f"VIOLATION property=C10 replay={path}  # the engine's verdict differs from the specification's: {str(diag.get(0))[:300]}")
        return 1
    return 0
