"""C02 -- ECDSA: signatures verify, verification is the SEC 1 equation, DER is canonical.

Spec: ECDSAToy (machine + exhaustive tables on toy groups), ECDSAReal + RFC6979 (BigNat),
DER / DERModel (strict parser as a byte-at-a-time machine), C02Trace.
"""

from __future__ import annotations

import concurrent.futures
import hashlib
import json
import random
from typing import Any

from .. import events, tlc
from ..core import Run, nat
from . import c01

TOY_CFG = """SPECIFICATION MSpec
CONSTANTS MaxP = {p}
AssocP = 5
GP = {p}
GA = {a}
GB = {b}
GX = {gx}
GY = {gy}
GN = {n}
INVARIANT SignedVerifies
INVARIANT LowS
INVARIANT RangeOK
INVARIANT RecoversSigner
INVARIANT RecoverAllHasSigner
INVARIANT Sound
INVARIANT EmitTable
CHECK_DEADLOCK FALSE
"""

DER_CFG = """SPECIFICATION DSpec
CONSTANTS Alphabet = {{{alpha}}}
MaxLen = {maxlen}
INVARIANT Canonical
INVARIANT Agree
INVARIANT RoundTrip
{emit}CHECK_DEADLOCK FALSE
"""

REPRO_GROUPS = [{"p": 11, "a": 10, "b": 10, "g": [4, 2], "n": 7, "h": 2, "card": 14}]

HFS = {"sha1": hashlib.sha1, "sha256": hashlib.sha256, "sha512": hashlib.sha512}


def pick_groups(recs: list[dict[str, Any]], rnd: random.Random, count: int, nmax: int) -> list[dict[str, Any]]:
    """Accepted-by-SEC1 groups with 5 <= n <= nmax, spread over cofactors and a-classes."""
    cands = []
    for rec in recs:
        for g in rec["groups"]:
            if 5 <= g["n"] <= nmax and (g["valid"] or g["validsec"]):
                cands.append({"p": rec["p"], "a": rec["a"], "b": rec["b"], "g": g["g"], "n": g["n"],
                              "h": g["h"] if g["valid"] else g["hsec"], "card": rec["card"]})
    rnd.shuffle(cands)
    out: list[dict[str, Any]] = []
    seen: set[tuple[Any, ...]] = set()
    for c in cands:  # first pass: distinct (cofactor, a-class, n)
        k = (c["card"] // c["n"], 0 if c["a"] == 0 else (1 if c["a"] == c["p"] - 3 else 2), c["n"])
        if k not in seen:
            seen.add(k)
            out.append(c)
        if len(out) >= count:
            break
    return out


def toy_tables(run: Run, groups: list[dict[str, Any]]) -> list[dict[str, Any]]:
    def one(g: dict[str, Any]) -> tlc.Result:
        return tlc.run("ECDSAToy", cfg_text=TOY_CFG.format(p=g["p"], a=g["a"], b=g["b"], gx=g["g"][0], gy=g["g"][1], n=g["n"]),
                       workers=2, heap="3g")

    out = []
    with concurrent.futures.ThreadPoolExecutor(6) as ex:
        for g, res in zip(groups, ex.map(one, groups)):
            for v in res.violations:
                raise tlc.TLCFailure(f"ECDSAToy {g}: the specification violates {v.name}:\n{v.text[:600]}")
            run.tlc(res, f"M+G ECDSAToy p={g['p']} a={g['a']} b={g['b']} n={g['n']}")
            tabs = [v[1] for v in res.printed_values() if isinstance(v, list) and v and v[0] == "ECDSA"]
            if len(tabs) != 1:
                raise tlc.TLCFailure(f"ECDSAToy {g}: no table emitted")
            out.append(tabs[0])
    return out


def _idx(x: Any, k: int) -> Any:
    """TLC prints a function with domain 0..n as a function display (dict), 1..n as a tuple."""
    if isinstance(x, dict):
        return x[k]
    return x[k - 1]


def msg_hash_for(c: int, n: int, hf: Any, rnd: random.Random) -> tuple[bytes, int]:
    """A digest whose challenge (leftmost nlen bits, mod n) is c."""
    nlen = n.bit_length()
    hlen = hf().digest_size * 8
    cands = [x for x in range(c, 1 << nlen, n)]
    top = rnd.choice(cands)
    val = (top << (hlen - nlen)) | rnd.getrandbits(hlen - nlen)
    return val.to_bytes(hlen // 8, "big"), top


def replay_group(run: Run, g: dict[str, Any], tab: dict[str, Any], rnd: random.Random) -> tuple[int, int]:
    from btclib.curves.curve import Curve
    from btclib.curves import mult
    from btclib.ecc import dsa
    from btclib.exceptions import BTClibException

    ec = Curve(g["p"], g["a"], g["b"], tuple(g["g"]), g["n"], g["h"], weakness_check=False)
    n = g["n"]
    ctx = {k: g[k] for k in ("p", "a", "b", "g", "n", "h")}
    calls = 0
    nontrivial = 0

    def viol(key: str, what: str, body: dict[str, Any]) -> None:
        run.violation(f"dsa|toy|{key}", what + f" [curve y^2=x^3+{g['a']}x+{g['b']} mod {g['p']}, G={g['g']}, n={n}]", {"curve": ctx, **body})

    pubs = {q: mult(q, ec=ec) for q in range(1, n)}
    _sign_ = getattr(dsa, "_sign_", None)
    _sign_rec_ = getattr(dsa, "_sign_recoverable_", None)
    for hname, hf in HFS.items():
        for c in range(n):
            mh, _ = msg_hash_for(c, n, hf, rnd)
            for q in range(1, n):
                for k in range(1, n):
                    ok, r, s, kid, s_low, kid_low = _idx(_idx(_idx(tab["sign"], c), q), k)
                    if hname != "sha256" and (q + k + c) % 3:
                        continue
                    for low in (False, True):
                        want = (r, s_low if low else s, kid_low if low else kid) if ok else None
                        calls += 1
                        try:
                            sig, got_id = dsa.sign_recoverable_(mh, q, k, low, ec, hf)
                            got: Any = (sig.r, sig.s, got_id)
                        except BTClibException:
                            got = None
                        except Exception as e:  # noqa: BLE001
                            got = f"foreign {type(e).__name__}: {e}"
                        if got != want:
                            viol(f"sign_recoverable_|low={low}|{'fail' if want is None else 'ok'}",
                                 f"sign_recoverable_(c={c}, q={q}, k={k}, lower_s={low}, {hname}) = {got}, SEC 1 4.1.3 gives {want}",
                                 {"op": "sign_recoverable_", "args": [c, q, k, low, hname], "expected": want, "actual": str(got)})
                            continue
                        try:
                            sig2 = dsa.sign_(mh, q, k, low, ec, hf, grind=False)
                            got2: Any = (sig2.r, sig2.s)
                        except BTClibException:
                            got2 = None
                        except Exception as e:  # noqa: BLE001
                            got2 = f"foreign {type(e).__name__}"
                        if got2 != (want[:2] if want else None):
                            viol(f"sign_|low={low}", f"sign_(c={c}, q={q}, nonce={k}, lower_s={low}) = {got2}, expected {want and want[:2]}",
                                 {"op": "sign_", "args": [c, q, k, low, hname], "expected": want})
                        if want is None:
                            continue
                        nontrivial += 1
                        # recovery names exactly the signer's key
                        try:
                            Qr = dsa.recover_pub_key_(want[2], mh, dsa.Sig(want[0], want[1], ec, check_validity=False), hf)
                        except Exception as e:  # noqa: BLE001
                            Qr = f"{type(e).__name__}: {e}"
                        calls += 1
                        if Qr != pubs[q]:
                            viol("recover_pub_key_", f"recover_pub_key_(id={want[2]}, c={c}, r={want[0]}, s={want[1]}) = {Qr}, the signer's key is {pubs[q]}",
                                 {"op": "recover_pub_key_", "args": [want[2], c, want[0], want[1]], "expected": list(pubs[q])})
                        if _sign_ is not None and hname == "sha256":
                            try:
                                ps = _sign_(c, q, k, low, ec)
                                gp: Any = (ps.r, ps.s)
                            except Exception as e:  # noqa: BLE001
                                gp = type(e).__name__
                            if gp != want[:2]:
                                viol("_sign_", f"_sign_(c={c}, q={q}, k={k}, {low}) = {gp}, expected {want[:2]}", {"op": "_sign_", "args": [c, q, k, low]})
        if hname != "sha256":
            continue
        # verification: a bool for every (r, s) in 0..n+1, true exactly on the SEC 1 set
        for c in range(n):
            mh, _ = msg_hash_for(c, n, hf, rnd)
            for q in range(1, n):
                accept = {tuple(x) for x in _idx(_idx(tab["verify"], c), q)}
                for r in range(0, n + 2):
                    for s in range(0, n + 2):
                        calls += 1
                        try:
                            got_v: Any = dsa.verify_(mh, pubs[q], dsa.Sig(r, s, ec, check_validity=False), hf)
                        except Exception as e:  # noqa: BLE001
                            got_v = f"raised {type(e).__name__}"
                        if got_v is not ((r, s) in accept):
                            cls = "raised" if isinstance(got_v, str) else f"accept={got_v}"
                            rng = "in-range" if 0 < r < n and 0 < s < n else "out-of-range"
                            viol(f"verify_|{cls}|{rng}", f"verify_(c={c}, Q={pubs[q]}, r={r}, s={s}) = {got_v}, SEC 1 4.1.4 gives {(r, s) in accept}",
                                 {"op": "verify_", "args": [c, list(pubs[q]), r, s], "expected": (r, s) in accept, "actual": str(got_v)})
        # recovery: the candidate set
        for c in range(0, n, 2):
            mh, _ = msg_hash_for(c, n, hf, rnd)
            for r in range(1, n):
                for s in range(1, n):
                    want_set = {tuple(x) for x in _idx(_idx(_idx(tab["recover"], c), r), s)}
                    calls += 1
                    try:
                        got_set: Any = {tuple(x) for x in dsa.recover_pub_keys_(mh, dsa.Sig(r, s, ec, check_validity=False), hf)}
                    except BTClibException:
                        got_set = set()
                    except Exception as e:  # noqa: BLE001
                        got_set = f"foreign {type(e).__name__}"
                    if got_set != want_set:
                        sub = set(pubs.values())
                        extras = got_set - want_set if isinstance(got_set, set) else set()
                        if isinstance(got_set, set) and want_set <= got_set and extras and not (extras & sub) and g["card"] // n > 1:
                            # the candidates of the standard are all there; the extra ones are not points of <G>
                            viol("recover_pub_keys_|keys outside the subgroup|cofactor > 1",
                                 f"recover_pub_keys_(c={c}, r={r}, s={s}) = {got_set}: {extras} are outside the subgroup of order {n}",
                                 {"op": "recover_pub_keys_", "args": [c, r, s], "expected": sorted(want_set)})
                            continue
                        viol("recover_pub_keys_", f"recover_pub_keys_(c={c}, r={r}, s={s}) = {got_set}, SEC 1 4.1.6 gives {want_set}",
                             {"op": "recover_pub_keys_", "args": [c, r, s], "expected": sorted(want_set)})
        # nonce reuse: two signatures with one nonce give the key away
        for _ in range(30):
            q, k = rnd.randrange(1, n), rnd.randrange(1, n)
            c1, c2 = rnd.sample(range(n), 2)
            e1 = _idx(_idx(_idx(tab["sign"], c1), q), k)
            e2 = _idx(_idx(_idx(tab["sign"], c2), q), k)
            if not (e1[0] and e2[0]):
                continue
            m1, _ = msg_hash_for(c1, n, hf, rnd)
            m2, _ = msg_hash_for(c2, n, hf, rnd)
            calls += 1
            try:
                got_c: Any = dsa.crack_prv_key_var_(m1, dsa.Sig(e1[1], e1[2], ec), m2, dsa.Sig(e2[1], e2[2], ec), hf)
            except Exception as e:  # noqa: BLE001
                got_c = f"{type(e).__name__}: {e}"
            if got_c not in ((q, k), (q, n - k)) :
                viol("crack_prv_key_var_", f"crack_prv_key_var_ from two signatures with nonce {k} of key {q} = {got_c}",
                     {"op": "crack_prv_key_var_", "args": [c1, c2, q, k]})
    return calls, nontrivial


# --------------------------------------------------------------------------------------


def der_strings(run: Run, maxlen: int) -> list[tuple[bytes, bool]]:
    alpha = "0, 1, 2, 3, 4, 5, 6, 7, 8, 9, 48, 127, 128, 129, 255"
    cfg = DER_CFG.format(alpha=alpha, maxlen=maxlen, emit="INVARIANT Emit\n")
    res = tlc.run("DERModel", cfg_text=cfg, workers=1)
    for v in res.violations:
        raise tlc.TLCFailure(f"DERModel violates {v.name}:\n{v.text[:600]}")
    run.tlc(res, f"M+G DERModel len<={maxlen}")
    out = []
    for v in res.printed_values():
        if isinstance(v, list) and len(v) == 3 and v[0] == "DER":
            out.append((bytes(v[1]), bool(v[2])))
    if not any(a for _, a in out):
        raise tlc.TLCFailure("DERModel: no accepted string was reached (vacuous)")
    return out


def replay_der(run: Run, strings: list[tuple[bytes, bool]]) -> int:
    from btclib.ecc import dsa
    from btclib.exceptions import BTClibException

    n = 0
    for b, accepted in strings:
        n += 1
        try:
            sig = dsa.Sig.parse(b, check_validity=False)
            got = True
        except BTClibException:
            got, sig = False, None
        except Exception as e:  # noqa: BLE001
            run.violation(f"der|parse|foreign|{type(e).__name__}", f"Sig.parse({b.hex()}) raised {type(e).__name__}: {e}", {"op": "Sig.parse", "bytes": b.hex()})
            continue
        if got != accepted:
            run.violation(f"der|parse|accept={got}|{_der_class(b)}", f"Sig.parse({b.hex()}, check_validity=False) accepted={got}, the strict DER parser says {accepted}",
                          {"op": "Sig.parse", "bytes": b.hex(), "expected": accepted, "actual": got})
        elif got and sig is not None:
            back = sig.serialize(check_validity=False)
            if back != b:
                run.violation("der|reserialize", f"Sig.parse({b.hex()}).serialize() = {back.hex()}", {"op": "Sig.serialize", "bytes": b.hex()})
    return n


def _der_class(b: bytes) -> str:
    return f"len={len(b)}"


# --------------------------------------------------------------------------------------


def real_events(run: Run, count: int, toy_groups: list[dict[str, Any]]) -> list[dict[str, Any]]:
    from btclib.curves import CURVES, mult, secp256k1, set_libsecp256k1_serving
    from btclib.curves.curve import Curve, is_libsecp256k1_serving
    from btclib.ecc import dsa
    from btclib.ecc.rfc6979_nonce import challenge_, rfc6979_nonce_

    rnd = random.Random(run.seed + 2)
    evs: list[dict[str, Any]] = []

    def cv(ec: Any) -> dict[str, Any]:
        return {"p": nat(ec.p), "a": nat(ec._a), "b": nat(ec._b), "gx": nat(ec.G[0]), "gy": nat(ec.G[1]), "n": nat(ec.n), "h": nat(ec.cofactor)}

    curves: list[tuple[str, Any]] = [("secp256k1", secp256k1), ("secp256r1", CURVES["secp256r1"]), ("secp112r1", CURVES["secp112r1"]),
                                     ("secp521r1", CURVES["secp521r1"]), ("bpp160r1", CURVES["bpp160r1"]),
                                     # orders longer than a digest and far from a power of two (RFC 6979's T takes several HMAC blocks and the first candidate is often
                                     # refused), and the two catalogue curves of cofactor 4 (an abscissa may be r + 2n or r + 3n)
                                     ("secp160r1", CURVES["secp160r1"]), ("bpp256r1", CURVES["bpp256r1"]), ("bpp384r1", CURVES["bpp384r1"]),
                                     ("secp112r2", CURVES["secp112r2"]), ("secp128r2", CURVES["secp128r2"])]
    for g in toy_groups[:3]:
        curves.append((f"toy{g['p']}_{g['a']}_{g['b']}_{g['n']}", Curve(g["p"], g["a"], g["b"], tuple(g["g"]), g["n"], g["h"], weakness_check=False)))
    start = is_libsecp256k1_serving()
    try:
        for name, ec in curves:
            c = cv(ec)
            arms = [True, False] if (ec == secp256k1 and start) else [start]
            reps = count if name in ("secp256k1",) else max(2, count // (6 if ec.nlen > 300 else 3))
            # on a curve of cofactor above one the abscissa of the nonce point may be r + j n for j up to the cofactor: digests are looked for (with the library's own
            # nonce function, as a search only) whose nonce point falls in each class j, and for j >= 2 also ones where neither r nor r + n is an abscissa
            forced: list[tuple[int, bytes]] = []
            if ec.cofactor > 1 and name.startswith("secp"):
                seen_cls: set[tuple[int, bool]] = set()
                for t_ in range(400):
                    q_ = 1 + t_ % 5
                    h_ = hashlib.sha256(b"cofactor" + bytes([t_ % 256, t_ // 256])).digest()
                    K_ = mult(rfc6979_nonce_(h_, q_, ec, hashlib.sha256), ec=ec)
                    j_ = K_[0] // ec.n
                    r_ = K_[0] % ec.n

                    def is_x(x_: int) -> bool:
                        return x_ < ec.p and pow((x_**3 + ec._a * x_ + ec._b) % ec.p, (ec.p - 1) // 2, ec.p) in (0, 1)

                    cls = (j_, is_x(r_) or is_x(r_ + ec.n))
                    if cls not in seen_cls:
                        seen_cls.add(cls)
                        forced.append((q_, h_))
            for arm in arms:
                if ec == secp256k1 and start:
                    set_libsecp256k1_serving(serving=arm)
                tag = f"{name}|{'bindings' if (arm and ec == secp256k1) else 'python'}"
                for i in range(reps + len(forced)):
                    hname = "sha256" if (ec == secp256k1 and i % 2 == 0) else list(HFS)[i % 3]      # (every hash length on every curve: shorter than, as long as, longer than the order)
                    if i >= reps:
                        hname = "sha256"
                    hf = HFS[hname]
                    q = rnd.choice([1, 2, ec.n - 1, rnd.randrange(1, ec.n), rnd.randrange(1, ec.n)])
                    h = hf(rnd.randbytes(rnd.randrange(0, 80))).digest()
                    if i % 7 == 3:
                        h = bytes(len(h))                       # zero digest: challenge 0
                    if i % 7 == 5:
                        h = b"\xff" * len(h)
                    if i >= reps:
                        q, h = forced[i - reps]
                    base = {"c": c, "hf": hname, "h": h.hex(), "tag": tag}
                    evs.append({**base, "op": "chal", "out": nat(challenge_(h, ec, hf))})
                    extra = b"" if i % 3 else rnd.randbytes(32)
                    evs.append({**base, "op": "nonce", "q": nat(q), "extra": extra.hex(),
                                "out": nat(rfc6979_nonce_(h, q, ec, hf, extra or None))})
                    lows = i % 4 != 1
                    from btclib.exceptions import BTClibException

                    def signed(fn_name: str, grind: bool, thunk: Any, want_id: bool = False, want_der: bool = True) -> Any:
                        """Record one signing call: the signature, or the library's refusal (r = 0 / s = 0 happen on toy orders)."""
                        try:
                            res = thunk()
                        except BTClibException:
                            evs.append({**base, "op": "sign", "fn": fn_name, "q": nat(q), "lows": lows, "grind": grind, "fail": True,
                                        "r": "", "s": "", "id": -1, "der": ""})
                            return None
                        sg_, kid_ = res if want_id else (res, -1)
                        der_ = ""
                        if want_der and ec.nlen <= 264:
                            try:
                                der_ = sg_.serialize().hex()
                            except BTClibException:
                                der_ = "the library refuses to write the signature it has just made"
                        evs.append({**base, "op": "sign", "fn": fn_name, "q": nat(q), "lows": lows, "grind": grind, "fail": False,
                                    "r": nat(sg_.r), "s": nat(sg_.s), "id": kid_, "der": der_})
                        return sg_

                    sig = signed("sign_recoverable_", False, lambda: dsa.sign_recoverable_(h, q, None, lows, ec, hf), want_id=True)
                    signed("sign_(grind=False)", False, lambda: dsa.sign_(h, q, None, lows, ec, hf, grind=False), want_der=False)
                    signed("sign_(grind)", True, lambda: dsa.sign_(h, q, None, lows, ec, hf))
                    if sig is None:
                        continue
                    if i % 5 == 0:
                        try:
                            with dsa.Signer(q, ec, hf) as sgn:
                                raw = sgn.sign_(h)
                            ps = dsa.Sig.parse(raw, check_validity=False) if ec.nlen <= 264 else None
                            if ps is not None:
                                evs.append({**base, "op": "sign", "fn": "Signer.sign_", "q": nat(q), "lows": True, "grind": True, "fail": False, "r": nat(ps.r), "s": nat(ps.s), "id": -1, "der": raw.hex()})
                        except Exception as e:  # noqa: BLE001
                            run.violation(f"dsa|real|Signer|{type(e).__name__}", f"dsa.Signer({name}).sign_ raised {type(e).__name__}: {e}", {"curve": name})
                    # verification verdicts with each field pushed to its boundary
                    Q = mult(q, ec=ec)
                    Qj = {"x": nat(Q[0]), "y": nat(Q[1])}
                    cases = [(sig.r, sig.s, h), (sig.r, ec.n - sig.s, h), (sig.r, sig.s, hf(b"other").digest()), (0, sig.s, h), (sig.r, 0, h),
                             (ec.n, sig.s, h), (sig.r, ec.n, h), (sig.r + ec.n, sig.s, h), (sig.s, sig.r, h), (ec.n - 1, ec.n - 1, h),
                             (sig.r, sig.s + ec.n, h), (sig.r, sig.s + 2 * ec.n, h), (sig.r + 2 * ec.n, sig.s, h)]
                    for r_, s_, hh in cases:
                        try:
                            out: Any = dsa.verify_(hh, Q, dsa.Sig(r_, s_, ec, check_validity=False), hf)
                        except Exception as e:  # noqa: BLE001
                            run.violation(f"dsa|real|verify_|raised|{name}", f"verify_ raised {type(e).__name__}: {e} for r={r_:#x} s={s_:#x} on {name}",
                                          {"op": "verify_", "curve": name})
                            continue
                        evs.append({"c": c, "hf": hname, "h": hh.hex(), "tag": tag, "op": "verify", "Q": Qj, "r": nat(r_), "s": nat(s_), "out": out})
    finally:
        if start:
            set_libsecp256k1_serving(serving=start)
    # strict DER on structure-aware mutations of real secp256k1 signatures
    for i in range(count):
        q = rnd.randrange(1, secp256k1.n)
        sig = dsa.sign_(hashlib.sha256(bytes([i])).digest(), q)
        good = sig.serialize()
        muts = {good, good + b"\x00", good[:-1], b"\x30" + bytes([good[1] + 1]) + good[2:] + b"\x00", good[:2] + b"\x02\x00" + good[2:],
                b"\x31" + good[1:], good[:3] + bytes([good[3] + 1]) + b"\x00" + good[4:], bytes([good[0], good[1] + 1]) + good[2:4] + b"\x00" + good[4:],
                good[:1] + b"\x81" + good[1:], good.replace(b"\x02", b"\x03", 1)}
        r_b = sig.r.to_bytes(32, "big")
        s_b = sig.s.to_bytes(32, "big")
        for rb, sb in ((b"\x00" + r_b, s_b), (r_b, b"\x00\x00" + s_b), (r_b.lstrip(b"\x00") or b"\x00", s_b.lstrip(b"\x00") or b"\x00"),
                       (b"", s_b), (b"\x00", s_b), ((secp256k1.n).to_bytes(33, "big"), s_b), (r_b, (secp256k1.n - 1).to_bytes(33, "big"))):
            body = b"\x02" + bytes([len(rb)]) + rb + b"\x02" + bytes([len(sb)]) + sb
            if len(body) < 128:
                muts.add(b"\x30" + bytes([len(body)]) + body)
        if i == 0:
            # short scalars: every padding / sign / zero corner at one and two bytes
            for rb in (b"\x01", b"\x00\x01", b"\x7f", b"\x00\x7f", b"\x80", b"\x00\x80", b"\x00\x00\x80", b"\x00", b"\x00\x00", b"\xff", b"\x00\xff", b"\x01\x00"):
                for sb in (b"\x01", b"\x00\x01", b"\x00\x80"):
                    for x, y in ((rb, sb), (sb, rb)):
                        body = b"\x02" + bytes([len(x)]) + x + b"\x02" + bytes([len(y)]) + y
                        muts.add(b"\x30" + bytes([len(body)]) + body)
        for m in muts:
            if len(m) > 127:
                continue
            for valid in (True, False):
                try:
                    ps = dsa.Sig.parse(m, check_validity=valid)
                    evs.append({"op": "der", "b": m.hex(), "valid": valid, "accepted": True, "reser": ps.serialize(check_validity=False).hex(),
                                "r": nat(ps.r), "s": nat(ps.s)})
                except Exception as e:  # noqa: BLE001
                    from btclib.exceptions import BTClibException

                    if not isinstance(e, BTClibException):
                        run.violation(f"der|parse|foreign|{type(e).__name__}", f"Sig.parse({m.hex()}) raised {type(e).__name__}", {"bytes": m.hex()})
                    evs.append({"op": "der", "b": m.hex(), "valid": valid, "accepted": False, "reser": "", "r": "", "s": ""})
    return evs


def bms_checks(run: Run, count: int) -> int:
    """Message signatures verify for the address they were made for and for no other key's."""
    from btclib import b32, b58
    from btclib.ecc import bms

    rnd = random.Random(run.seed + 5)
    n = 0
    for i in range(count):
        q1, q2 = rnd.randrange(1, 2**250), rnd.randrange(1, 2**250)
        wif1 = b58.wif_from_prv_key(q1)
        wif2 = b58.wif_from_prv_key(q2)
        msg = rnd.randbytes(rnd.randrange(0, 60))
        addrs = [(b58.p2pkh(w), b58.p2wpkh_p2sh(w), b32.p2wpkh(w)) for w in (wif1, wif2)]
        for j, addr in enumerate(addrs[0]):
            n += 1
            try:
                sig = bms.sign(msg, wif1, addr)
                ok = bms.verify(msg, addr, sig)
                other = bms.verify(msg, addrs[1][j], sig)
                wrongmsg = bms.verify(msg + b"x", addr, sig)
            except Exception as e:  # noqa: BLE001
                run.violation(f"bms|raised|{type(e).__name__}", f"bms.sign/verify raised {type(e).__name__}: {e}", {"op": "bms", "addr": str(addr)})
                continue
            if not ok or other or wrongmsg:
                run.violation(f"bms|type{j}|own={ok}|other={other}|msg={wrongmsg}", f"bms: own address {ok}, other key's address {other}, altered message {wrongmsg}",
                              {"op": "bms", "addr_type": j})
    return n


def check(run: Run) -> None:
    thorough = run.tier == "thorough"
    rnd = random.Random(run.seed)
    run.rule = ("toy: every (challenge, key, nonce) triple and every (r, s) in 0..n+1 on the selected toy groups; DER: every byte string over a "
                "10-symbol alphabet the strict parser has not yet refused, up to the length; real: seeded keys/messages on 5 catalogued "
                "curves x 3 hash functions, both arms; non-trivial = a signing triple that yields a signature / an accepted DER string / "
                "a real-size event")
    run.assumptions = ["DER lengths are short-form (sequences below 128 bytes), which is what BIP66 covers",
                       "toy curves are those SEC 1 validation accepts (btclib refuses the others by construction)"]
    recs = c01.gen_tables(run, [5, 7, 11, 13] if thorough else [5, 7, 11])
    groups = pick_groups(recs, rnd, 10 if thorough else 4, 17 if thorough else 13)
    # the reproducers of the listed findings are always in the corpus
    for fixed in REPRO_GROUPS:
        if not any(all(g[k] == fixed[k] for k in ("p", "a", "b", "g", "n")) for g in groups):
            groups.append(dict(fixed))
    if len(groups) < 3:
        raise tlc.TLCFailure("C02: fewer than 3 toy groups selected")
    tabs = toy_tables(run, groups)
    calls = 0
    nontriv = 0
    for g, tab in zip(groups, tabs):
        a, b = replay_group(run, g, tab, rnd)
        calls += a
        nontriv += b
    run.section("toy", {"groups": groups, "calls": calls, "signing_triples": nontriv})
    strings = der_strings(run, 9 if thorough else 8)
    n_der = replay_der(run, strings)
    run.section("der", {"strings": n_der, "accepted": sum(1 for _, a in strings if a)})
    evs = real_events(run, 60 if thorough else 8, groups)
    results, bad, diag = events.validate("C02Trace", evs)
    for r in results:
        run.tlc(r, "V C02Trace")
    for k in bad:
        e = evs[k]
        run.violation(f"dsa|real|{e['op']}|{e.get('fn', '')}|{e.get('tag', '')}|{e.get('hf', '')}",
                      f"{e.get('fn', e['op'])} on {e.get('tag', '')}: the recorded answer is not the one the specification computes",
                      {"event": {k2: v for k2, v in e.items() if k2 != 'c'}, "curve": e.get("c"), "spec": diag.get(k)})
    n_bms = bms_checks(run, 12 if thorough else 4)
    run.sample({"toy group": groups[0]})
    run.sample({"real-size event": {k: v for k, v in evs[2].items() if k != "c"}})
    run.sample({"der strings accepted": [b.hex() for b, a in strings if a][:5]})
    run.count(evaluations=calls + n_der + len(evs) + n_bms, validated=len(groups) + n_der + len(evs),
              nontrivial=nontriv + sum(1 for _, a in strings if a) + len(evs))


def replay(path: str) -> int:
    body = json.load(open(path))
    if "event" in body:
        e = dict(body["event"])
        if body.get("curve"):
            e["c"] = body["curve"]
        _, bad, diag = events.validate("C02Trace", [e])
        if bad:
            print(f"VIOLATION property=C02 replay={path}  # {diag}")
            return 1
        return 0
    print("replay: toy-group and DER violations are reproduced by re-running ./check C02 --tier quick")
    return 0
