"""C14 -- descriptors and wallets derive what they describe and recognise only their own.

Spec: Descriptor (BIP380 checksum; ScriptsAt = BIP32 derivation of every key + the standard script templates, sortedmulti
ordering, tr() trees via module Taproot, combo; what sh()/wsh() reveal), C14Trace.
"""

from __future__ import annotations

import itertools
import random
from typing import Any

from .. import events, tlc
from ..core import Run, nat

H = 0x80000000
SEC1 = "02c6047f9441ed7d6d3045406e95c07cd85c778e4b8cef3ca7abac09b95c709ee5"
SECU = "04c6047f9441ed7d6d3045406e95c07cd85c778e4b8cef3ca7abac09b95c709ee51ae168fea63dc339a3c58419466ceaeef7f632653266d0e1236431a950cfe52a"


def outcome(fn: Any) -> Any:
    from btclib.exceptions import BTClibException

    try:
        return fn()
    except BTClibException:
        return "refused"
    except Exception as e:  # noqa: BLE001
        return f"foreign:{type(e).__name__}"


class Keys:
    """A small universe of extended keys on two networks, and every spelling a descriptor key has."""

    def __init__(self, rnd: random.Random) -> None:
        from btclib import base58
        from btclib.bip32 import bip32

        self.b58 = base58
        self.bip32 = bip32
        vers = {"mainnet": bytes.fromhex("0488ade4"), "testnet": bytes.fromhex("04358394")}
        self.roots = {net: [bip32.rootxprv_from_seed(bytes([k]) * 32, vers[net]) for k in (1, 2, 3)] for net in ("mainnet", "testnet")}
        self.rnd = rnd

    def payload(self, xkey: str) -> str:
        return self.b58.decode(xkey, 78).hex()

    def key(self, kind: str, net: str, who: int, branch: int) -> tuple[str, dict[str, Any], dict[str, str]]:
        """(text, key record of the specification, private keys the library needs beside the descriptor)."""
        bip32 = self.bip32
        root = self.roots[net][who]
        acct_path = [48 + H, (0 if net == "mainnet" else 1) + H, who + H, 2 + H]
        acct = bip32.derive(root, acct_path)
        xpub = bip32.xpub_from_xprv(acct)
        fp = bip32.fingerprint(root).hex() if hasattr(bip32, "fingerprint") else ""
        origin = f"[{fp}/48h/{0 if net == 'mainnet' else 1}h/{who}h/2h]" if fp else ""
        if kind == "sec":
            return SEC1, {"sec": SEC1}, {}
        if kind == "secu":
            return SECU, {"sec": SECU}, {}
        if kind == "xpub/b/*":
            return f"{xpub}/{branch}/*", {"node": self.payload(xpub), "path": [nat(branch)], "wild": 1}, {}
        if kind == "[o]xpub/b/*":
            return f"{origin}{xpub}/{branch}/*", {"node": self.payload(xpub), "path": [nat(branch)], "wild": 1}, {}
        if kind == "[fp]xpub/b/*":          # an origin that is a fingerprint and no path
            return f"[{fp}]{xpub}/{branch}/*", {"node": self.payload(xpub), "path": [nat(branch)], "wild": 1}, {}
        if kind == "xpub/b/c":
            return f"{xpub}/{branch}/7", {"node": self.payload(xpub), "path": [nat(branch), nat(7)], "wild": 0}, {}
        if kind == "xpub":
            return f"{xpub}", {"node": self.payload(xpub), "path": [], "wild": 0}, {}
        if kind == "xprv/bh/*":
            return f"{acct}/{branch}h/*", {"node": self.payload(acct), "path": [nat(branch + H)], "wild": 1}, {"prv": "1"}
        if kind == "xprv/b/*h":
            return f"{acct}/{branch}/*h", {"node": self.payload(acct), "path": [nat(branch)], "wild": 2}, {"prv": "1"}
        if kind == "root/44h/0h/0h/b/*":
            return f"{root}/44h/0h/0h/{branch}/*", {"node": self.payload(root), "path": [nat(44 + H), nat(H), nat(H), nat(branch)], "wild": 1}, {"prv": "1"}
        raise KeyError(kind)


def descriptors_for(keys: Keys, net: str, rnd: random.Random, thorough: bool) -> list[tuple[str, dict[str, Any], bool]]:
    """(text, AST, needs private keys) for every function and nesting, keys in every spelling."""
    out: list[tuple[str, dict[str, Any], bool]] = []
    kinds_c = ["xpub/b/*", "[o]xpub/b/*", "[fp]xpub/b/*", "xpub/b/c", "sec", "xprv/bh/*", "xprv/b/*h", "root/44h/0h/0h/b/*", "xpub"]

    def K(kind: str, who: int = 0, branch: int = 0) -> tuple[str, dict[str, Any], bool]:
        t, a, p = keys.key(kind, net, who, branch)
        return t, a, bool(p)

    for kind in kinds_c:
        t, a, p = K(kind)
        for f in ("pk", "pkh", "wpkh", "rawtr", "combo"):
            out.append((f"{f}({t})", {"f": f, "k": a}, p))
        out.append((f"sh(wpkh({t}))", {"f": "sh", "sub": {"f": "wpkh", "k": a}}, p))
        out.append((f"sh(pk({t}))", {"f": "sh", "sub": {"f": "pk", "k": a}}, p))
        out.append((f"wsh(pkh({t}))", {"f": "wsh", "sub": {"f": "pkh", "k": a}}, p))
        out.append((f"sh(wsh(pk({t})))", {"f": "sh", "sub": {"f": "wsh", "sub": {"f": "pk", "k": a}}}, p))
        out.append((f"tr({t})", {"f": "tr", "k": a, "tree": {"none": 1}}, p))
    tu, au, _ = K("secu")
    for f in ("pk", "pkh", "combo"):
        out.append((f"{f}({tu})", {"f": f, "k": au}, False))
    out.append((f"sh(pkh({tu}))", {"f": "sh", "sub": {"f": "pkh", "k": au}}, False))
    # multisig: thresholds, three signers, sorted or not, every wrapper
    for sorted_ in (False, True):
        for m, n in ((1, 1), (1, 2), (2, 3), (3, 3)):
            ks = [K(rnd.choice(["xpub/b/*", "[o]xpub/b/*", "sec"]) if j else "xpub/b/*", j % 3, j) for j in range(n)]
            texts, asts = [k[0] for k in ks], [k[1] for k in ks]
            name = "sortedmulti" if sorted_ else "multi"
            inner = f"{name}({m},{','.join(texts)})"
            ast = {"f": "multi", "m": m, "keys": asts, "sorted": sorted_}
            out.append((inner, ast, False))
            out.append((f"sh({inner})", {"f": "sh", "sub": ast}, False))
            out.append((f"wsh({inner})", {"f": "wsh", "sub": ast}, False))
            out.append((f"sh(wsh({inner}))", {"f": "sh", "sub": {"f": "wsh", "sub": ast}}, False))
    # taproot trees: one leaf, two leaves, unbalanced three, multi_a and sortedmulti_a leaves
    ti, ai, _ = K("xpub/b/*", 0, 0)
    leaves = []
    for j in range(4):
        t, a, _ = K("xpub/b/*", (j + 1) % 3, j + 1)
        leaves.append((f"pk({t})", {"s": {"f": "pk", "k": a}}))
    mk = [K("xpub/b/*", j % 3, 5 + j) for j in range(3)]
    for sorted_ in (False, True):
        leaves.append((f"{'sortedmulti_a' if sorted_ else 'multi_a'}(2,{','.join(k[0] for k in mk)})", {"s": {"f": "multi_a", "m": 2, "keys": [k[1] for k in mk], "sorted": sorted_}}))
    shapes = [lambda L: L[0], lambda L: ("{%s,%s}" % (L[0][0], L[1][0]), {"l": L[0][1], "r": L[1][1]}),
              lambda L: ("{%s,{%s,%s}}" % (L[0][0], L[1][0], L[2][0]), {"l": L[0][1], "r": {"l": L[1][1], "r": L[2][1]}}),
              lambda L: ("{{%s,%s},{%s,%s}}" % (L[0][0], L[1][0], L[2][0], L[3][0]), {"l": {"l": L[0][1], "r": L[1][1]}, "r": {"l": L[2][1], "r": L[3][1]}})]
    for shape in shapes:
        for perm in ([leaves[:4], leaves[2:6], [leaves[4], leaves[0], leaves[5], leaves[1]]] if thorough else [leaves[:4], [leaves[4], leaves[0], leaves[5], leaves[1]]]):
            tt, ta = shape(perm)
            out.append((f"tr({ti},{tt})", {"f": "tr", "k": ai, "tree": ta}, False))
    # BIP390 musig(): as the internal key, in a leaf, in rawtr; participants ranged or the aggregate ranged (BIP328), fixed keys, an unsorted order
    def M(parts: list[tuple[str, dict[str, Any], bool]], path: list[int], wild: int) -> tuple[str, dict[str, Any]]:
        text = "musig(" + ",".join(p_[0] for p_ in parts) + ")" + "".join(f"/{x}" for x in path) + ("/*" if wild else "")
        return text, {"musig": [p_[1] for p_ in parts], "path": [nat(x) for x in path], "wild": wild}

    fixed = [K("xpub", j, 0) for j in range(3)]
    ranged = [K("xpub/b/*", j, 3) for j in range(3)]
    for parts, path, wild in ((fixed[:2], [], 0), (fixed[::-1], [0], 1), (ranged[:2], [], 0), (ranged, [], 0), (fixed[:2] + [K("sec")], [], 0), (fixed, [5, 6], 1), (fixed[1:], [2**31 - 1], 0)):
        t, a = M(parts, path, wild)
        out.append((f"tr({t})", {"f": "tr", "k": a, "tree": {"none": 1}}, False))
        out.append((f"rawtr({t})", {"f": "rawtr", "k": a}, False))
        out.append((f"tr({ti},pk({t}))", {"f": "tr", "k": ai, "tree": {"s": {"f": "pk", "k": a}}}, False))
    # a group of one is still aggregated (KeyAgg of a single key is not that key), and a group that names one key twice is a group of two
    for parts, path, wild in ((fixed[:1], [], 0), (ranged[:1], [], 0), (fixed[:1], [3], 1), ([fixed[0], fixed[0]], [], 0)):
        t, a = M(parts, path, wild)
        out.append((f"tr({t})", {"f": "tr", "k": a, "tree": {"none": 1}}, False))
        out.append((f"tr({ti},pk({t}))", {"f": "tr", "k": ai, "tree": {"s": {"f": "pk", "k": a}}}, False))
    t2, a2 = M(fixed[:2], [1], 1)
    out.append((f"tr({t2},{{pk({leaves[0][0][3:-1]}),pk({M(ranged[:2], [], 0)[0]})}})", {"f": "tr", "k": a2, "tree": {"l": leaves[0][1], "r": {"s": {"f": "pk", "k": M(ranged[:2], [], 0)[1]}}}}, False))
    # addr() and raw()
    spk = bytes.fromhex("0014" + "11" * 20)
    from btclib.script.script_pub_key import ScriptPubKey

    out.append((f"addr({ScriptPubKey(spk, net).address})", {"f": "addr", "spk": spk.hex()}, False))
    out.append(("raw(5151)", {"f": "raw", "spk": "5151"}, False))
    return out


INDEXES = [0, 1, 2, 19, 1000, 2**31 - 1]


def record_descriptors(run: Run, rnd: random.Random, thorough: bool, evs: list[dict[str, Any]]) -> dict[str, int]:
    from btclib.descriptors import descriptors as D

    stats = {"descriptors": 0, "scripts": 0, "corruptions": 0, "positions": 0}
    keys = Keys(rnd)
    for net in ("mainnet", "testnet"):
        cases = descriptors_for(keys, net, rnd, thorough)
        if net == "testnet" and not thorough:
            cases = cases[::3]
        for text, ast, needs_prv in cases:
            prv: dict[str, str] = {}
            d = outcome(lambda: D.parse(text, net, prv))
            if isinstance(d, str):
                evs.append({"op": "agree", "what": f"parse of a well-formed descriptor: {text[:60]}", "a": d, "b": "parsed"})
                continue
            stats["descriptors"] += 1
            ranged = d.is_ranged
            idxs = (INDEXES if thorough else [0, 1, 19, 2**31 - 1]) if ranged else [0]
            for i in idxs:
                spks = outcome(lambda: d.script_pub_keys(i, prv or None))
                if isinstance(spks, str):
                    evs.append({"op": "scripts", "ast": ast, "index": i, "net": net, "out": [], "addrs": [], "text": text, "err": spks})
                    continue
                addrs = []
                for s_ in spks:
                    a = outcome(lambda: s_.address)
                    addrs.append(a.encode().hex() if isinstance(a, str) and a not in ("refused",) and not a.startswith("foreign") else "")
                evs.append({"op": "scripts", "ast": ast, "index": i, "net": net, "out": [s_.script.hex() for s_ in spks], "addrs": addrs, "text": text})
                stats["scripts"] += 1
                if ast["f"] in ("sh", "wsh") and not prv:
                    from btclib.wallet.descriptor_wallet import DescriptorWallet

                    w = outcome(lambda: DescriptorWallet(d))
                    if not isinstance(w, str):
                        rs = outcome(lambda: w.redeem_script(0, i))
                        ws = outcome(lambda: w.witness_script(0, i))
                        evs.append({"op": "reveal", "ast": ast, "index": i, "redeem": rs.hex() if isinstance(rs, bytes) else "", "witness": ws.hex() if isinstance(ws, bytes) else "", "text": text,
                                    "refusals": [x for x in (rs, ws) if isinstance(x, str)]})
            # the text written back parses to an equal descriptor, and the checksum is the reference's
            back = outcome(lambda: D.parse(str(d), net, dict(prv)))
            evs.append({"op": "agree", "what": "parse(str(d)) == d", "a": str(back) if not isinstance(back, str) else back, "b": str(d), "text": text})
            evs.append({"op": "agree", "what": "parse(str(d)) == d (equality)", "a": "equal" if back == d else "different", "b": "equal", "text": text})
            body = D.strip_checksum(str(d)) if "#" in str(d) else str(d)
            cs = outcome(lambda: D.checksum(body))
            evs.append({"op": "checksum", "text": body.encode().hex(), "out": cs.encode().hex() if cs != "refused" and not cs.startswith("foreign") else cs})
            full = body + "#" + (cs if isinstance(cs, str) else "")
            evs.append({"op": "parse", "text": full.encode().hex(), "intact": True, "accepted": not isinstance(outcome(lambda: D.parse(full, net, dict(prv))), str)})
            # every kind of single-character corruption (a sample of positions; the checksum characters all of them)
            positions = list(range(len(full) - 8, len(full))) + rnd.sample(range(len(full) - 9), 6 if thorough else 2)
            for pos in positions:
                for repl in {full[pos].upper(), full[pos].lower(), rnd.choice("qpzry9x8gf2tvdw0s3jn54khce6mua7l"), rnd.choice("0123456789abcdef()/*,h'")} - {full[pos]}:
                    bad = full[:pos] + repl + full[pos + 1:]
                    acc = outcome(lambda: D.parse(bad, net, dict(prv)))
                    evs.append({"op": "parse", "text": bad.encode().hex(), "intact": False, "accepted": not isinstance(acc, str), "pos": pos, "repl": repl})
                    stats["corruptions"] += 1
            # is-mine: the position of a derived script, and a foreign script
            if ranged and len(ast.get("f", "")) and ast["f"] != "combo":
                for i in (0, 3, 17):
                    spk = outcome(lambda: d.script_pub_key(i, prv or None))
                    if isinstance(spk, str):
                        continue
                    got = outcome(lambda: d.index_of(spk, 20, prv or None))
                    evs.append({"op": "agree", "what": "index_of(script_pub_key(i)) == i", "a": str(got), "b": str(i), "text": text})
                    stats["positions"] += 1
                got = outcome(lambda: d.index_of(bytes.fromhex("0014" + "ab" * 20), 20, prv or None))
                evs.append({"op": "agree", "what": "index_of(a foreign script) is None", "a": str(got), "b": "None", "text": text})
    # multipath expansion
    t0, a0, _ = keys.key("xpub", "mainnet", 0, 0)
    xprv0 = keys.roots["mainnet"][0]
    for tmpl in ("wpkh({k}/<0;1>/*)", "wsh(sortedmulti(2,{k}/<0;1>/*,{k2}/<2;3>/*))", "tr({k}/<0;1;2>/*)", "pkh({k}/<5;6>/7)",
                 "wpkh({x}/84h/<0h;1h>/*)", "wpkh({x}/84'/<0';1'>/*)", "pkh({x}/<5h;6>/7')", "tr({x}/<0H;1H;2H>/*h)"):
        k2 = keys.key("xpub", "mainnet", 1, 0)[0]
        text = tmpl.format(k=t0, k2=k2, x=xprv0)
        got = outcome(lambda: D.multipath_descriptors(text))
        n = 3 if "<0;1;2>" in text or "<0H;1H;2H>" in text else 2
        want = []
        for j in range(n):
            w = text
            for alt in ("<0;1>", "<2;3>", "<0;1;2>", "<5;6>", "<0h;1h>", "<0';1'>", "<5h;6>", "<0H;1H;2H>"):
                if alt in w:
                    w = w.replace(alt, alt[1:-1].split(";")[j])
            want.append(D.strip_checksum(w) if "#" in w else w)
        evs.append({"op": "agree", "what": "multipath expansion", "a": "|".join(D.strip_checksum(x) if "#" in x else x for x in got) if not isinstance(got, str) else got, "b": "|".join(want)})
        # the same text carrying its checksum expands alike; carrying another checksum it is refused (the checksum covers the <a;b> spelling)
        cs = outcome(lambda: D.checksum(text))
        if not isinstance(cs, str) or len(cs) != 8:
            evs.append({"op": "agree", "what": "checksum of a multipath text", "a": str(cs), "b": "8 characters", "text": text})
        else:
            got_cs = outcome(lambda: D.multipath_descriptors(text + "#" + cs))
            evs.append({"op": "agree", "what": "multipath expansion of the text with its checksum", "a": "|".join(D.strip_checksum(x) if "#" in x else x for x in got_cs) if not isinstance(got_cs, str) else got_cs,
                        "b": "|".join(want), "text": text})
            for pos_ in (0, 3, 7):
                bad_cs = cs[:pos_] + ("q" if cs[pos_] != "q" else "p") + cs[pos_ + 1:]
                got_bad = outcome(lambda: D.multipath_descriptors(text + "#" + bad_cs))
                evs.append({"op": "agree", "what": f"multipath expansion of the text with a wrong checksum (character {pos_})", "a": got_bad if isinstance(got_bad, str) else "expanded", "b": "refused", "text": text})
            got_short = outcome(lambda: D.multipath_descriptors(text + "#" + cs[:7]))
            evs.append({"op": "agree", "what": "multipath expansion of the text with a short checksum", "a": got_short if isinstance(got_short, str) else "expanded", "b": "refused", "text": text})
        # every expansion is a single-path descriptor that parses and derives what the same text derives written by hand
        for x, w in zip(got if not isinstance(got, str) else [], want):
            a = outcome(lambda: [s_.script.hex() for s_ in D.parse(x, "mainnet", {}).script_pub_keys(3, None)] if "xprv" not in x else [s_.script.hex() for s_ in (lambda pk: D.parse(x, "mainnet", pk).script_pub_keys(3, pk))({})])
            b = outcome(lambda: [s_.script.hex() for s_ in (lambda pk: D.parse(w, "mainnet", pk).script_pub_keys(3, pk))({})])
            evs.append({"op": "agree", "what": "an expansion derives what the single-path text derives", "a": str(a), "b": str(b), "text": x})
    return stats


def record_wallets(run: Run, rnd: random.Random, thorough: bool, evs: list[dict[str, Any]]) -> dict[str, int]:
    """Every wallet kind against the descriptor it amounts to (assembled by hand as an AST), on both networks."""
    from btclib.bip32 import bip32
    from btclib.descriptors import descriptors as D
    from btclib.wallet.descriptor_wallet import DescriptorWallet
    from btclib.wallet.key_wallet import BIP32KeyWallet
    from btclib.wallet.script_wallet import KeyGroup, ScriptWallet

    stats = {"wallet_scripts": 0, "positions": 0}
    keys = Keys(rnd)

    def history(w: Any, name: str, first: Any, second: Any) -> None:
        """position_of is a function of (wallet, script, last_index) and of nothing that was asked before: the same script looked for with a bound below
        its index, at its index, below again, and a foreign script asked twice; `first`/`second` name two positions of the wallet."""
        foreign = bytes.fromhex("0014" + "ef" * 20)
        for (b_, i_) in (first, second):
            spk_ = outcome(lambda: w.script_pub_key(b_, i_))
            if isinstance(spk_, str):
                continue
            for bound, want in ((i_ - 1, None), (i_, (b_, i_)), (i_ - 1, None), (i_ + 3, (b_, i_)), (0, (b_, i_) if i_ == 0 else None)):
                if bound < 0:
                    continue
                pos = outcome(lambda: w.position_of(spk_, bound))
                evs.append({"op": "agree", "what": f"{name}.position_of(script_pub_key({b_}, {i_}), last_index {bound}) after earlier lookups", "a": str(pos), "b": str(want)})
                stats["positions"] += 1
        for _ in range(2):
            pos = outcome(lambda: w.position_of(foreign, 4))
            evs.append({"op": "agree", "what": f"{name}.position_of(a foreign script), asked again", "a": str(pos), "b": "None"})

    for net in ("mainnet", "testnet"):
        coin = 0 if net == "mainnet" else 1
        root = keys.roots[net][0]
        # BIP32 key wallets per purpose
        for purpose, f in ((44, "pkh"), (49, "sh-wpkh"), (84, "wpkh"), (86, "tr")):
            path = f"m/{purpose}h/{coin}h/0h"
            w = outcome(lambda: BIP32KeyWallet(root, path))
            if isinstance(w, str):
                evs.append({"op": "agree", "what": f"BIP32KeyWallet({path})", "a": w, "b": "built"})
                continue
            acct = bip32.derive(root, path)
            history(w, f"BIP32KeyWallet({path})", (0, 7), (1, 2))
            for b in (0, 1):
                for i in (0, 1, 5, 65535):          # (65535 is the last index bip32.derive_from_account walks to)
                    k = {"node": keys.payload(acct), "path": [nat(b)], "wild": 1}
                    ast = {"pkh": {"f": "pkh", "k": k}, "wpkh": {"f": "wpkh", "k": k}, "sh-wpkh": {"f": "sh", "sub": {"f": "wpkh", "k": k}}, "tr": {"f": "tr", "k": k, "tree": {"none": 1}}}[f]
                    spk = outcome(lambda: w.script_pub_key(b, i))
                    addr = outcome(lambda: w.address(b, i))
                    if isinstance(spk, str):
                        evs.append({"op": "scripts", "ast": ast, "index": i, "net": net, "out": [], "addrs": [], "text": f"BIP32KeyWallet {path} ({b},{i})", "err": spk})
                        continue
                    evs.append({"op": "scripts", "ast": ast, "index": i, "net": net, "out": [spk.script.hex()], "addrs": [addr.encode().hex()], "text": f"BIP32KeyWallet {path} ({b},{i})"})
                    stats["wallet_scripts"] += 1
                    if i < 10:
                        pos = outcome(lambda: w.position_of(spk, 10))
                        evs.append({"op": "agree", "what": "BIP32KeyWallet.position_of(script_pub_key(b, i))", "a": str(pos), "b": str((b, i))})
                        stats["positions"] += 1
        # descriptor wallets: branch labels that are not 0..n-1, sequences, single descriptors
        xpub = bip32.xpub_from_xprv(bip32.derive(root, f"m/84h/{coin}h/0h"))
        for labels in ([0, 1], [7, 3], [2], [0, 2, 5]):
            ds = {lab: D.parse(f"wpkh({xpub}/{lab}/*)", net) for lab in labels}
            w = outcome(lambda: DescriptorWallet(ds))
            if isinstance(w, str):
                evs.append({"op": "agree", "what": f"DescriptorWallet(labels {labels})", "a": w, "b": "built"})
                continue
            history(w, f"DescriptorWallet(labels {labels})", (labels[0], 6), (labels[-1], 1))
            for lab in labels:
                for i in (0, 4):
                    spk = w.script_pub_key(lab, i)
                    k = {"node": keys.payload(xpub), "path": [nat(lab)], "wild": 1}
                    evs.append({"op": "scripts", "ast": {"f": "wpkh", "k": k}, "index": i, "net": net, "out": [spk.script.hex()], "addrs": [w.address(lab, i).encode().hex()], "text": f"DescriptorWallet {labels} ({lab},{i})"})
                    pos = outcome(lambda: w.position_of(spk, 10))
                    evs.append({"op": "agree", "what": f"DescriptorWallet(labels {labels}).position_of(script_pub_key({lab}, {i}))", "a": str(pos), "b": str((lab, i))})
                    stats["positions"] += 1
            pos = outcome(lambda: w.position_of(bytes.fromhex("0014" + "cd" * 20), 10))
            evs.append({"op": "agree", "what": "DescriptorWallet.position_of(a foreign script)", "a": str(pos), "b": "None"})
        # script-template wallets: m-of-n multisig in every embedding
        accts = [bip32.xpub_from_xprv(bip32.derive(keys.roots[net][j], f"m/48h/{coin}h/0h/2h")) for j in range(3)]
        for stype, wrap in (("p2sh", lambda a: {"f": "sh", "sub": a}), ("p2wsh", lambda a: {"f": "wsh", "sub": a}), ("p2sh-p2wsh", lambda a: {"f": "sh", "sub": {"f": "wsh", "sub": a}})):
            for order, sorted_ in (("none", False), ("derived", True)):
                w = outcome(lambda: ScriptWallet([KeyGroup(2, accts)], stype, order, None, net))
                if isinstance(w, str):
                    evs.append({"op": "agree", "what": f"ScriptWallet({stype}, {order}, {net})", "a": w, "b": "built"})
                    continue
                history(w, f"ScriptWallet({stype}, {order})", (0, 3), (1, 1))
                for b in (0, 1):
                    for i in (0, 3):
                        spk = outcome(lambda: w.script_pub_key(b, i))
                        addr = outcome(lambda: w.address(b, i))
                        ast = wrap({"f": "multi", "m": 2, "keys": [{"node": keys.payload(a), "path": [nat(b)], "wild": 1} for a in accts], "sorted": sorted_})
                        if isinstance(spk, str) or isinstance(addr, str) and addr in ("refused",):
                            evs.append({"op": "scripts", "ast": ast, "index": i, "net": net, "out": [], "addrs": [], "text": f"ScriptWallet {stype} {order} ({b},{i})", "err": str(spk)})
                            continue
                        evs.append({"op": "scripts", "ast": ast, "index": i, "net": net, "out": [spk.script.hex()], "addrs": [addr.encode().hex()], "text": f"ScriptWallet {stype} {order} {net} ({b},{i})"})
                        evs.append({"op": "agree", "what": f"ScriptWallet({stype}).script_pub_key is tagged with the wallet's network", "a": str(spk.network), "b": net})
                        stats["wallet_scripts"] += 1
                        pos = outcome(lambda: w.position_of(spk, 10))
                        evs.append({"op": "agree", "what": "ScriptWallet.position_of(script_pub_key(b, i))", "a": str(pos), "b": str((b, i))})
    return stats


LEDGER_CFG = ("SPECIFICATION Spec\nCONSTANTS Branches = {{0, 1}}\nMaxIndex = {mx}\nINVARIANT TypeOK\nINVARIANT FreshNext\nINVARIANT CursorPast\nINVARIANT NoDuplicates\n"
              "PROPERTY AppendOnly\nPROPERTY CursorMonotone\nCHECK_DEADLOCK FALSE\n")


def wallet_trace(lines: list[dict[str, Any]]) -> tuple[Any, list[int]]:
    """Validate a recorded history of wallet calls against spec/WalletTrace.tla: (TLC result, the lines the specification does not explain)."""
    import json
    import pathlib
    import tempfile

    with tempfile.TemporaryDirectory(prefix="mbv-wal-") as d:
        f = pathlib.Path(d) / "trace.ndjson"
        f.write_text("".join(json.dumps(e) + "\n" for e in lines))
        cfg = "SPECIFICATION TSpec\nINVARIANT Consumed\nINVARIANT Report\nCHECK_DEADLOCK TRUE\n"
        tr = tlc.run("WalletTrace", cfg_text=cfg, workers=1, env={"TRACE_FILE": str(f)}, heap="4g")
    if tr.violations:
        v = tr.violations[0]
        raise tlc.TLCFailure(f"WalletTrace: the trace was not consumed ({v.kind}): {v.text[-800:]}")
    for val in tr.printed_values():
        if isinstance(val, list) and val and val[0] == "REJECTED":
            return tr, sorted(val[1])
    raise tlc.TLCFailure("WalletTrace: no final report")


def wallet_ledger(run: Run, rnd: random.Random, thorough: bool) -> None:
    """M: the ledger of a ranged wallet (spec/WalletCalls.tla) model-checked over every history of hand-outs on two branches; V: random histories of calls on real
    wallets of the three kinds (address, next_address, len, addresses, `in`, address_info, position_of) validated line by line against it (spec/WalletTrace.tla)."""
    import json
    import pathlib
    import tempfile

    from btclib.bip32 import bip32
    from btclib.descriptors import descriptors as D
    from btclib.wallet.descriptor_wallet import DescriptorWallet
    from btclib.wallet.key_wallet import BIP32KeyWallet
    from btclib.wallet.script_wallet import KeyGroup, ScriptWallet

    res = tlc.run("WalletCallsModel", cfg_text=LEDGER_CFG.format(mx=3 if thorough else 2), workers=8, timeout=1500)
    for v in res.violations:
        raise tlc.TLCFailure(f"WalletCallsModel violates {v.name}:\n{v.text[:600]}")
    run.tlc(res, "M WalletCallsModel")
    probe = tlc.run("WalletCallsModel", cfg_text=LEDGER_CFG.format(mx=2).split("INVARIANT")[0] + "INVARIANT NeverFull\nCHECK_DEADLOCK FALSE\n", workers=4, timeout=600, check=False)
    if not probe.violations:
        raise tlc.TLCFailure("WalletCallsModel: the vacuity probe NeverFull was not violated (the ledger never fills)")
    root = bip32.rootxprv_from_seed(bytes(range(32, 64)))
    xpub = bip32.xpub_from_xprv(bip32.derive(root, "m/84h/0h/0h"))
    x2 = bip32.xpub_from_xprv(bip32.derive(root, "m/48h/0h/0h/2h"))
    makers = {
        "BIP32KeyWallet": (lambda: BIP32KeyWallet(root, "m/84h/0h/0h"), [0, 1]),
        "ScriptWallet": (lambda: ScriptWallet([KeyGroup(1, [xpub, x2])], "p2wsh", "derived", None, "mainnet"), [0, 1]),
        "DescriptorWallet": (lambda: DescriptorWallet({lab: D.parse(f"wpkh({xpub}/{lab}/*)", "mainnet") for lab in (0, 1, 7)}), [0, 1, 7]),
    }
    lines: list[dict[str, Any]] = []
    where: list[str] = []
    for kind, (make, branches) in makers.items():
        for h in range(12 if thorough else 4):
            w, twin = make(), make()          # the twin computes addresses and scripts without touching the ledger under test
            lines.append({"ev": "open", "branches": branches})
            where.append(f"{kind} history {h}: open")
            for step in range(40 if thorough else 22):
                b = rnd.choice(branches)
                i = rnd.choice([0, 0, 1, 2, 3, 5, 9])
                op = rnd.choice(["address", "address", "next", "next", "observe", "contains", "position_of", "position_of"])
                try:
                    if op == "address":
                        a = w.address(b, i)
                        info = w.address_info(a)
                        lines.append({"ev": "address", "b": b, "i": i, "pos": [info.branch, info.index]})
                    elif op == "next":
                        a = w.next_address(b)
                        info = w.address_info(a)
                        lines.append({"ev": "next", "b": b, "pos": [info.branch, info.index]})
                    elif op == "observe":
                        order = [[w.address_info(a).branch, w.address_info(a).index] for a in w.addresses]
                        lines.append({"ev": "observe", "count": len(w), "order": order})
                    elif op == "contains":
                        lines.append({"ev": "contains", "b": b, "i": i, "out": twin.script_pub_key(b, i).address in w})
                    else:
                        bound = rnd.choice([0, 1, 2, 4, 9])
                        got = w.position_of(twin.script_pub_key(b, i), bound)
                        lines.append({"ev": "position_of", "b": b, "i": i, "bound": bound, "out": [] if got is None else list(got)})
                except Exception as e:  # noqa: BLE001
                    run.violation(f"wallet|ledger|{kind}|{op}|raised|{type(e).__name__}", f"{kind}.{op}({b}, {i}) raised {type(e).__name__}: {e} in a history of valid calls", {"kind": kind, "op": op})
                    continue
                where.append(f"{kind} history {h} step {step}: {op}")
    tr, rejected = wallet_trace(lines)
    run.tlc(tr, "V WalletTrace")
    for ln in rejected:
        e = lines[ln - 1]
        start = max(k for k in range(ln) if lines[k]["ev"] == "open")
        run.violation(f"wallet|ledger|{where[ln - 1].split(' ')[0]}|{e['ev']}", f"{where[ln - 1]}: the wallet answered {e}; the ledger specification does not explain it",
                      {"machine": "WalletTrace", "line": ln - start, "history": lines[start:ln]})
    run.section("wallet_ledger", {"lines": len(lines), "histories": sum(1 for e in lines if e["ev"] == "open"), "by_event": {k: sum(1 for e in lines if e["ev"] == k) for k in ("address", "next", "observe", "contains", "position_of")}})
    run.count(evaluations=len(lines), validated=len(lines), nontrivial=sum(1 for e in lines if e["ev"] in ("next", "observe")))



def check(run: Run) -> None:
    thorough = run.tier == "thorough"
    rnd = random.Random(run.seed)
    run.rule = ("descriptors: pk, pkh, wpkh, rawtr, combo, sh(wpkh), sh(pk), wsh(pkh), sh(wsh(pk)), tr(key) x 8 key spellings (xpub with ranged/fixed/hardened steps and hardened "
                "wildcards via private keys, origins, raw keys, a root with a 5-step path), uncompressed keys, multi/sortedmulti 1-of-1..3-of-3 in 4 wrappers, tr() trees of 1-4 leaves "
                "with pk/multi_a/sortedmulti_a x indexes {0, 1, 2, 19, 1000, 2^31-1} x mainnet/testnet; checksums and every change of each checksum character plus sampled body "
                "characters; round trips; multipath expansion; index_of / position_of on derived and foreign scripts; BIP32 key wallets (4 purposes), descriptor wallets (branch "
                "labels not 0..n-1), script-template wallets (3 embeddings x key order) on both networks")
    run.assumptions = ["miniscript fragments inside descriptors are not in this specification (miniscript is C15's); musig() key expressions are (BIP390 over the MuSig2 and BIP32 modules)",
                       "which script an address string names is module Address's (C06)"]
    evs: list[dict[str, Any]] = []
    s1 = record_descriptors(run, rnd, thorough, evs)
    s2 = record_wallets(run, rnd, thorough, evs)
    wallet_ledger(run, random.Random(run.seed + 5), thorough)
    keep = ("op", "ast", "index", "net", "out", "addrs", "redeem", "witness", "text_", "accepted", "intact", "a", "b")
    compact = []
    for e in evs:
        c = {k: v for k, v in e.items() if k in keep}
        if e["op"] in ("checksum", "parse"):
            c["text"] = e["text"]
        compact.append(c)
    results, bad, diag = events.validate("C14Trace", compact, batch=300, timeout=6000)
    for r in results:
        run.tlc(r, "V C14Trace")
    for k in bad:
        e = evs[k]
        what = e.get("what") or (e.get("text", "")[:50] if e["op"] != "parse" else f"corrupted at {e.get('pos')} with {e.get('repl')!r}" if not e.get("intact") else "intact")
        if e["op"] == "scripts":
            what = f"{e['ast'].get('f')} {e.get('text', '')[:40].split('(')[0]} index {e['index']} {e['net']}"
        run.violation(f"descriptors|{e['op']}|{what}", f"{e['op']}: the specification does not explain {({kk: (vv if len(str(vv)) < 90 else str(vv)[:90]) for kk, vv in e.items() if kk != 'ast'})}; "
                      f"expected {str(diag.get(k))[:400]}", {"event": e, "expected": str(diag.get(k))[:3000]})
    run.sample({"event": {k: (v if len(str(v)) < 120 else str(v)[:120]) for k, v in next(e for e in evs if e["op"] == "scripts" and e["ast"]["f"] == "tr").items()}})
    run.section("events", {"descriptors": s1, "wallets": s2, "by_op": {op: sum(1 for e in evs if e["op"] == op) for op in sorted({e["op"] for e in evs})}})
    if s1["scripts"] < 100 or s2["wallet_scripts"] < 20:
        raise tlc.TLCFailure(f"C14 harness is vacuous: {s1} {s2}")
    run.count(evaluations=len(evs), validated=len(evs), nontrivial=len(evs))


def replay(path: str) -> int:
    import json

    body = json.load(open(path))
    if body.get("machine") == "WalletTrace":
        _, rejected = wallet_trace(body["history"])
        if rejected:
            print(f"VIOLATION property=C14 replay={path}  # the recorded wallet history is not a behaviour of the ledger specification at line(s) {rejected}")
            return 1
        return 0
    e = body.get("event")
    if not e:
        return 0
    results, bad, diag = events.validate("C14Trace", [e], workers=1)
    if bad:
        print(f"VIOLATION property=C14 replay={path}  # recorded event not explained by the specification; expected {str(diag.get(0))[:300]}")
        return 1
    return 0
