"""C03 -- BIP340 Schnorr: sign, verify and batch-verify agree with the BIP for all inputs.

Spec: BIP340 (real size, validated against the BIP's own vectors), SSAToy (verification tables and
the batch relation with the coefficient vector existentially quantified), C03Trace.
"""

from __future__ import annotations

import concurrent.futures
import csv
import hashlib
import json
import pathlib
import random
import tempfile
from typing import Any

from .. import REPO, events, tlc
from ..core import Run, nat
from . import c01

SSA_CFG = """INIT TInit
NEXT TNext
CONSTANTS MaxP = {p}
AssocP = 5
GP = {p}
GA = {a}
GB = {b}
GX = {gx}
GY = {gy}
GN = {n}
Msgs = {{{msgs}}}
{invs}CHECK_DEADLOCK FALSE
"""

MSGS = [0, 1, 2, 3, 7, 200]
HFS = {"sha1": hashlib.sha1, "sha256": hashlib.sha256, "sha512": hashlib.sha512}


def pick_groups(recs: list[dict[str, Any]], rnd: random.Random, count: int) -> list[dict[str, Any]]:
    cands = []
    for rec in recs:
        for g in rec["groups"]:
            if g["valid"] and g["h"] == 1 and 5 <= g["n"] <= 19:
                cands.append({"p": rec["p"], "a": rec["a"], "b": rec["b"], "g": g["g"], "n": g["n"], "h": 1})
    rnd.shuffle(cands)
    out: list[dict[str, Any]] = []
    seen: set[Any] = set()
    for c in cands:
        k = (c["p"], 0 if c["a"] == 0 else (1 if c["a"] == c["p"] - 3 else 2), c["p"] % 4)
        if k in seen:
            continue
        seen.add(k)
        out.append(c)
        if len(out) >= count:
            break
    return out


def _cfg(g: dict[str, Any], invs: list[str]) -> str:
    return SSA_CFG.format(p=g["p"], a=g["a"], b=g["b"], gx=g["g"][0], gy=g["g"][1], n=g["n"],
                          msgs=", ".join(str(m) for m in MSGS), invs="".join(f"INVARIANT {x}\n" for x in invs))


def toy_tables(run: Run, groups: list[dict[str, Any]]) -> list[dict[str, Any]]:
    def one(g: dict[str, Any]) -> tlc.Result:
        return tlc.run("SSAToy", cfg_text=_cfg(g, ["EmitTable"]), workers=1, heap="3g")

    out = []
    with concurrent.futures.ThreadPoolExecutor(6) as ex:
        for g, res in zip(groups, ex.map(one, groups)):
            run.tlc(res, f"G SSAToy tables p={g['p']} a={g['a']} b={g['b']} n={g['n']}")
            tabs = [v[1] for v in res.printed_values() if isinstance(v, list) and v and v[0] == "SSA"]
            if len(tabs) != 1:
                raise tlc.TLCFailure(f"SSAToy {g}: no table")
            out.append(tabs[0])
    return out


def replay_group(run: Run, g: dict[str, Any], tab: dict[Any, Any], rnd: random.Random) -> tuple[int, int, list[dict[str, Any]]]:
    from btclib.curves.curve import Curve
    from btclib.curves import mult
    from btclib.ecc import ssa
    from btclib.exceptions import BTClibException

    ec = Curve(g["p"], g["a"], g["b"], tuple(g["g"]), g["n"], 1, weakness_check=False)
    p, n = g["p"], g["n"]
    ctx = {k: g[k] for k in ("p", "a", "b", "g", "n")}
    calls = 0
    nontriv = 0
    hf = hashlib.sha256

    def viol(key: str, what: str, body: dict[str, Any]) -> None:
        run.violation(f"ssa|toy|{key}", what + f" [y^2=x^3+{g['a']}x+{g['b']} mod {p}, G={g['g']}, n={n}]", {"curve": ctx, **body})

    accept: dict[tuple[int, int], set[tuple[int, int]]] = {}
    for m in MSGS:
        row = tab[m]
        for x in range(p):
            acc = {tuple(q) for q in (row[x] if isinstance(row, dict) else row[x - 1])}
            accept[(m, x)] = acc
            for r in range(0, p + 1):
                for s in range(0, n + 1):
                    calls += 1
                    try:
                        got: Any = ssa.verify_(bytes([m]), x, ssa.Sig(r, s, ec, check_validity=False), hf)
                    except Exception as e:  # noqa: BLE001
                        got = f"raised {type(e).__name__}"
                    want = (r, s) in acc
                    if got is not want:
                        cls = "raised" if isinstance(got, str) else f"accept={got}"
                        rng = "in-range" if r < p and s < n else "out-of-range"
                        viol(f"verify_|{cls}|{rng}", f"verify_(m={m}, x={x}, r={r}, s={s}) = {got}, BIP340 verification gives {want}",
                             {"op": "verify_", "args": [m, x, r, s], "expected": want, "actual": str(got)})
            nontriv += len(acc)
    # signing: every key x several aux x messages gives a signature in the accepted set, deterministically
    for d in range(1, n):
        P = mult(d, ec=ec)
        for m in MSGS:
            for aux in (bytes(32), bytes([d]) * 32, hashlib.sha256(bytes([d, m])).digest()):
                calls += 1
                try:
                    sg = ssa.sign_(bytes([m]), d, aux, ec, hf)
                    sg2 = ssa.sign_(bytes([m]), d, aux, ec, hf)
                except BTClibException:
                    continue   # zero challenge / failed nonce: a refusal is allowed on toy orders
                except Exception as e:  # noqa: BLE001
                    viol(f"sign_|foreign|{type(e).__name__}", f"sign_(m={m}, d={d}) raised {type(e).__name__}: {e}", {"op": "sign_", "args": [m, d]})
                    continue
                if (sg.r, sg.s) not in accept[(m, P[0])] or (sg.r, sg.s) != (sg2.r, sg2.s):
                    viol("sign_|does not verify", f"sign_(m={m}, d={d}, aux={aux[:2].hex()}..) = ({sg.r}, {sg.s}) is not a valid signature for x={P[0]} (or not deterministic)",
                         {"op": "sign_", "args": [m, d, aux.hex()], "actual": [sg.r, sg.s]})
    # batches: sizes 1..4, all valid / one bad at each position / two bad / duplicates
    valid = [(m, x, r, s) for (m, x), acc in accept.items() for (r, s) in acc]
    invalid_near = []
    for (m, x, r, s) in valid[:200]:
        invalid_near.append((m, x, r, (s + 1) % n))
        invalid_near.append(((m + 1) % 4, x, r, s))
    evs: list[dict[str, Any]] = []
    if valid:
        plans = []
        for size in (1, 2, 3, 4):
            for _ in range(6):
                plans.append((size, set()))
            for pos in range(size):
                plans.append((size, {pos}))
                plans.append((size, {pos}))
            if size >= 2:
                plans.append((size, {0, size - 1}))
                plans.append((size, set(range(size))))
        for size, bad in plans:
            items = []
            for j in range(size):
                m, x, r, s = rnd.choice(invalid_near) if j in bad else rnd.choice(valid)
                items.append({"x": x, "m": [m], "r": r, "s": s})
            if rnd.random() < 0.25 and size >= 2:
                items[-1] = dict(items[0])   # a repeated member
            calls += 1
            try:
                out: Any = ssa.batch_verify_([bytes(it["m"]) for it in items], [it["x"] for it in items],
                                             [ssa.Sig(it["r"], it["s"], ec, check_validity=False) for it in items], hf)
            except Exception as e:  # noqa: BLE001
                viol(f"batch_verify_|raised|{type(e).__name__}", f"batch_verify_ raised {type(e).__name__}: {e} on {items}", {"op": "batch_verify_", "items": items})
                continue
            evs.append({"op": "batch", "items": items, "out": bool(out)})
    return calls, nontriv, evs


def validate_toy_batches(run: Run, g: dict[str, Any], evs: list[dict[str, Any]]) -> None:
    if not evs:
        return
    with tempfile.TemporaryDirectory(prefix="mbv-ssa-") as d:
        f = pathlib.Path(d) / "trace.ndjson"
        f.write_text("".join(json.dumps(e) + "\n" for e in evs))
        res = tlc.run("SSAToy", cfg_text=_cfg(g, ["EventOK", "AllValidAlwaysPasses", "OneBadNeverPasses"]), workers=1, cont=True,
                      env={"TRACE_FILE": str(f)})
    run.tlc(res, f"V SSAToy batches n={g['n']}")
    for v in res.violations:
        if v.name != "EventOK":
            raise tlc.TLCFailure(f"SSAToy: the batch relation violates {v.name}:\n{v.text[:500]}")
        idx = v.state_vars().get("i")
        e = evs[idx - 1] if isinstance(idx, int) else {}
        nbad = "?"
        run.violation(f"ssa|toy|batch_verify_|unexplained {e.get('out')}|size={len(e.get('items', []))}",
                      f"batch_verify_ answered {e.get('out')} on {e.get('items')} (toy group n={g['n']}): no coefficient vector explains it",
                      {"op": "batch_verify_", "curve": g, "event": e, "bad_members": nbad})


# --------------------------------------------------------------------------------------


def real_events(run: Run, count: int) -> list[dict[str, Any]]:
    from btclib.curves import CURVES, mult, secp256k1, set_libsecp256k1_serving
    from btclib.curves.curve import is_libsecp256k1_serving
    from btclib.ecc import ssa
    from btclib.exceptions import BTClibException

    rnd = random.Random(run.seed + 3)
    evs: list[dict[str, Any]] = []

    def cv(ec: Any) -> dict[str, Any]:
        return {"p": nat(ec.p), "a": nat(ec._a), "b": nat(ec._b), "gx": nat(ec.G[0]), "gy": nat(ec.G[1]), "n": nat(ec.n), "h": nat(ec.cofactor)}

    # the BIP's own vectors pin the specification (DESIGN 2.3)
    c1 = cv(secp256k1)
    rows = list(csv.DictReader(open(REPO / "tests/ecc/_data/bip340_test_vectors.csv")))
    for r in rows:
        sig = bytes.fromhex(r["signature"])
        if r["secret key"]:
            evs.append({"op": "sign", "src": "bip340 vector", "tag": "vector", "c": c1, "hf": "sha256", "sk": nat(int(r["secret key"], 16)),
                        "m": r["message"].lower(), "aux": r["aux_rand"].lower(), "out": r["signature"].lower()})
        evs.append({"op": "verify", "src": "bip340 vector", "tag": "vector", "c": c1, "hf": "sha256", "x": nat(int(r["public key"], 16)),
                    "m": r["message"].lower(), "r": nat(int.from_bytes(sig[:32], "big")), "s": nat(int.from_bytes(sig[32:], "big")),
                    "out": r["verification result"] == "TRUE"})
    n_vec = len(evs)
    start = is_libsecp256k1_serving()
    # curves whose p is 3 mod 4 (the spec's lift_x uses that exponent); btclib offers the scheme on every curve
    others = [(nm, ec) for nm, ec in CURVES.items() if ec.p % 4 == 3 and nm in ("secp160k1", "secp192k1", "secp224k1", "secp256r1", "secp384r1", "bpp256r1", "secp160r1")]
    curves = [("secp256k1", secp256k1)] + others
    try:
        for name, ec in curves:
            c = cv(ec)
            arms = [True, False] if (ec == secp256k1 and start) else [start]
            reps = count if ec == secp256k1 else max(2, count // 5)
            for arm in arms:
                if ec == secp256k1 and start:
                    set_libsecp256k1_serving(serving=arm)
                tag = f"{name}|{'bindings' if (arm and ec == secp256k1) else 'python'}"
                for i in range(reps):
                    hname = "sha256" if (ec == secp256k1 and i % 3 != 2) else list(HFS)[(i // 3 if ec == secp256k1 else i) % len(HFS)]      # every digest length on every curve
                    hf = HFS[hname]
                    hl = hf().digest_size
                    d = rnd.choice([1, 2, ec.n - 1, rnd.randrange(1, ec.n), rnd.randrange(1, ec.n)])
                    m = rnd.randbytes(rnd.choice([0, 1, 17, 32, 33, 64, 100, 200]))
                    aux = rnd.choice([bytes(hl), b"\xff" * hl, rnd.randbytes(hl)])
                    try:
                        sg = ssa.sign_(m, d, aux, ec, hf)
                    except BTClibException as e:
                        run.violation(f"ssa|real|sign_|refused|{name}", f"sign_ refused a valid key/message on {name}: {e}", {"curve": name})
                        continue
                    out = sg.serialize()
                    evs.append({"op": "sign", "tag": tag, "c": c, "hf": hname, "sk": nat(d), "m": m.hex(), "aux": aux.hex(), "out": out.hex()})
                    if i % 4 == 0:
                        with ssa.Signer(d, ec, hf) as sgn:
                            raw = sgn.sign_(m, aux)
                        evs.append({"op": "sign", "fn": "Signer.sign_", "tag": tag, "c": c, "hf": hname, "sk": nat(d), "m": m.hex(), "aux": aux.hex(), "out": raw.hex()})
                    P = mult(d, ec=ec)
                    x = P[0]
                    cases = [(x, m, sg.r, sg.s), (x, m + b"!", sg.r, sg.s), (x, m, sg.r, (sg.s + 1) % ec.n), (x, m, sg.r, sg.s + ec.n if sg.s + ec.n < 2 ** (8 * ec.n_size) else ec.n),
                             (x, m, sg.r, ec.n), (x, m, sg.r, ec.n - 1), (x, m, ec.p, sg.s), (x, m, ec.p - 1, sg.s), (x, m, (sg.r + ec.p) if sg.r + ec.p < 2 ** (8 * ec.p_size) else ec.p + 1, sg.s),
                             (x + ec.p if x + ec.p < 2 ** (8 * ec.p_size) else ec.p, m, sg.r, sg.s), (_off_curve_x(ec, rnd), m, sg.r, sg.s), (sg.r, m, x, sg.s), (x, m, 0, sg.s), (x, m, sg.r, 0),
                             # a key that is no field element at all: wider than the field's octets, and negative
                             (2 ** (8 * ec.p_size), m, sg.r, sg.s), (2 ** (8 * ec.p_size) + x, m, sg.r, sg.s), (2 ** (8 * ec.p_size + 64) + x, m, sg.r, sg.s), (-1, m, sg.r, sg.s), (-x, m, sg.r, sg.s)]
                    for xx, mm, rr, ss in cases:
                        try:
                            o: Any = ssa.verify_(mm, xx, ssa.Sig(rr, ss, ec, check_validity=False), hf)
                        except Exception as e:  # noqa: BLE001
                            run.violation(f"ssa|real|verify_|raised|{type(e).__name__}|{name}", f"verify_ raised {type(e).__name__}: {e} on {name} (x={xx:#x}, r={rr:#x}, s={ss:#x})",
                                          {"op": "verify_", "curve": name})
                            continue
                        if xx < 0:
                            if o is not False:
                                run.violation(f"ssa|real|verify_|negative key accepted|{name}", f"verify_ answered {o} for the negative key {xx} on {name}", {"op": "verify_", "curve": name})
                            continue
                        evs.append({"op": "verify", "tag": tag, "c": c, "hf": hname, "x": nat(xx), "m": mm.hex(), "r": nat(rr), "s": nat(ss), "out": o})
                    if i % 5 == 1 or (i < 6 and ec != secp256k1):
                        # sign-to-contract: an ordinary BIP340 signature whose commitment opens, and only for the committed value
                        ch = rnd.randbytes(32)
                        try:
                            sg2, receipt = ssa.sign_(m, d, aux, ec, hf, commit_hash=ch)
                            evs.append({"op": "s2c", "tag": tag, "c": c, "hf": hname, "sk": nat(d), "m": m.hex(), "aux": aux.hex(), "value": ch.hex(), "out": sg2.serialize().hex(),
                                        "receipt": {"x": nat(receipt[0]), "y": nat(receipt[1])}})
                            evs.append({"op": "verify", "fn": "sign_(commit_hash)", "tag": tag, "c": c, "hf": hname, "x": nat(x), "m": m.hex(), "r": nat(sg2.r), "s": nat(sg2.s), "out": True})
                            opens = ssa.verify_(m, x, sg2, hf, commit_hash=ch, receipt=receipt)
                            other = ssa.verify_(m, x, sg2, hf, commit_hash=bytes(32), receipt=receipt)
                            if not opens or other:
                                run.violation(f"ssa|real|s2c|opens={opens}|other={other}", f"sign-to-contract on {name}: opening with the committed value {opens}, with another value {other}",
                                              {"curve": name})
                        except Exception as e:  # noqa: BLE001
                            run.violation(f"ssa|real|s2c|raised|{type(e).__name__}", f"sign_(commit_hash=..) raised {type(e).__name__}: {e}", {"curve": name})
                # batches across the Bos-Coster threshold, one bad member at any position, duplicates, cancelling pairs
                sizes = [1, 2, 3, 5, 8] if count < 30 else [1, 2, 3, 5, 8, 55, 56, 57, 130]
                if ec != secp256k1:
                    sizes = [1, 3]
                # (the small sizes -- the batch of one among them -- also under the other digest lengths: a batch verifies under the hash it was asked under)
                for size, hname_b in [(sz, "sha256") for sz in sizes] + [(sz, hn) for hn in ("sha1", "sha512") for sz in (1, 2, 3)]:
                    hf = HFS[hname_b]
                    base = []
                    for j in range(min(size, 12)):
                        d = rnd.randrange(1, ec.n)
                        m = rnd.randbytes(rnd.choice([0, 32, 50]))
                        try:
                            sg = ssa.sign_(m, d, bytes(hf().digest_size), ec, hf)
                        except BTClibException as e:
                            run.violation(f"ssa|real|sign_|refused|{name}", f"sign_ refused a valid key/message on {name}: {e}", {"curve": name})
                            continue
                        base.append({"x": mult(d, ec=ec)[0], "m": m, "r": sg.r, "s": sg.s})
                    if not base:
                        continue
                    members = [dict(base[j % len(base)]) for j in range(size)]   # repeats when size > 12
                    variants: list[tuple[str, list[dict[str, Any]]]] = [("all valid", members)]
                    for pos in sorted({0, size // 2, size - 1}):
                        mm = [dict(q) for q in members]
                        mm[pos]["s"] = (mm[pos]["s"] + 1) % ec.n
                        variants.append((f"bad s at {pos}", mm))
                        mm = [dict(q) for q in members]
                        mm[pos]["m"] = mm[pos]["m"] + b"x"
                        variants.append((f"bad m at {pos}", mm))
                    if size >= 2:
                        # a member repeated under another message (the same key, the same signature): alone it fails, so must the batch
                        for (a, b) in ((0, size - 1), (0, 1), (size - 2, size - 1)):
                            mm = [dict(q) for q in members]
                            mm[b] = dict(mm[a])
                            mm[b]["m"] = mm[a]["m"] + b"again"
                            variants.append((f"member {a} repeated at {b} under another message", mm))
                            mm = [dict(q) for q in members]
                            mm[b] = dict(mm[a])
                            variants.append((f"member {a} repeated at {b}", mm))
                    if size >= 3:
                        for (a, b) in ((1, 2), (0, size - 1), (size - 2, size - 1)):
                            mm = [dict(q) for q in members]
                            if (mm[a]["r"], mm[a]["x"]) == (mm[b]["r"], mm[b]["x"]):
                                continue
                            mm[a]["s"], mm[b]["s"] = mm[b]["s"], mm[a]["s"]      # errors that cancel under equal coefficients
                            variants.append((f"swapped s {a},{b}", mm))
                            mm = [dict(q) for q in members]
                            mm[a]["s"] = (mm[a]["s"] + 5) % ec.n
                            mm[b]["s"] = (mm[b]["s"] - 5) % ec.n               # errors that cancel in the sum
                            variants.append((f"offset s {a},{b}", mm))
                    for label, mm in variants:
                        try:
                            o = ssa.batch_verify_([q["m"] for q in mm], [q["x"] for q in mm], [ssa.Sig(q["r"], q["s"], ec, check_validity=False) for q in mm], hf)
                        except Exception as e:  # noqa: BLE001
                            run.violation(f"ssa|real|batch_verify_|raised|{type(e).__name__}", f"batch_verify_ raised {type(e).__name__}: {e} ({label}, size {size}, {name})", {"curve": name})
                            continue
                        # TLC re-verifies the distinct members only (a repeated member verifies as its first copy does)
                        seen: dict[Any, int] = {}
                        items = []
                        for q in mm:
                            k = (q["x"], q["m"], q["r"], q["s"])
                            if k not in seen:
                                seen[k] = 1
                                items.append({"x": nat(q["x"]), "m": q["m"].hex(), "r": nat(q["r"]), "s": nat(q["s"])})
                        evs.append({"op": "batch", "tag": tag, "label": f"{label}|size={size}|{hname_b}", "c": c, "hf": hname_b, "items": items, "out": bool(o)})
                    if hname_b != "sha256":
                        # the members of a batch made under sha256, asked under this hash: they do not verify, nor does the batch
                        other = [{"x": mult(7 + j, ec=ec)[0], "m": b"m%d" % j, **(lambda g: {"r": g.r, "s": g.s})(ssa.sign_(b"m%d" % j, 7 + j, bytes(32), ec, hashlib.sha256))} for j in range(size)]
                        try:
                            o2 = ssa.batch_verify_([q["m"] for q in other], [q["x"] for q in other], [ssa.Sig(q["r"], q["s"], ec, check_validity=False) for q in other], hf)
                            evs.append({"op": "batch", "tag": tag, "label": f"signed under sha256, asked under {hname_b}|size={size}", "c": c, "hf": hname_b,
                                        "items": [{"x": nat(q["x"]), "m": q["m"].hex(), "r": nat(q["r"]), "s": nat(q["s"])} for q in other], "out": bool(o2)})
                        except Exception as e:  # noqa: BLE001
                            run.violation(f"ssa|real|batch_verify_|raised|{type(e).__name__}", f"batch_verify_ raised {type(e).__name__}: {e} (other hash, size {size}, {name})", {"curve": name})
    finally:
        if start:
            set_libsecp256k1_serving(serving=start)
    run.section("vectors", {"bip340_vector_events": n_vec})
    return evs


def _off_curve_x(ec: Any, rnd: random.Random) -> int:
    while True:
        x = rnd.randrange(ec.p)
        y2 = (x * x * x + ec._a * x + ec._b) % ec.p
        if pow(y2, (ec.p - 1) // 2, ec.p) != 1:
            return x


def check(run: Run) -> None:
    thorough = run.tier == "thorough"
    rnd = random.Random(run.seed)
    run.rule = ("toy: every (x, r, s) incl. r = p and s = n for 6 messages on each selected prime-order group, signatures of every key, batches "
                "of size 1..4 (all valid / one bad at each position / several bad / repeats); real: BIP340 vectors, seeded (key, message "
                "length 0..200, aux) on secp256k1 (both arms) and 7 other curves x 3 hash functions, boundary (x, r, s), batches up to "
                "the stated size incl. cancelling pairs. Non-trivial = an accepted (x, r, s), or a real-size event")
    run.assumptions = ["on curves other than secp256k1 the nonce and challenge derivations are btclib's generalisation of BIP340 "
                       "(field elements on plen bytes, nlen leftmost bits); the spec writes the same generalisation from the BIP's text",
                       "BIP340 reduces the nonce hash mod n where btclib re-hashes: they differ with probability 2^-128 (spec follows the BIP)"]
    recs = c01.gen_tables(run, [5, 7, 11, 13] if thorough else [7, 11])
    groups = pick_groups(recs, rnd, 6 if thorough else 3)
    if len(groups) < 2:
        raise tlc.TLCFailure("C03: fewer than 2 toy groups")
    tabs = toy_tables(run, groups)
    calls = nontriv = 0
    n_batches = 0
    for g, tab in zip(groups, tabs):
        a, b, bevs = replay_group(run, g, tab, rnd)
        calls += a
        nontriv += b
        n_batches += len(bevs)
        validate_toy_batches(run, g, bevs)
    run.section("toy", {"groups": groups, "calls": calls, "accepted_triples": nontriv, "batches": n_batches})
    evs = real_events(run, 40 if thorough else 8)
    results, bad, diag = events.validate("C03Trace", evs, batch=400)
    for r in results:
        run.tlc(r, "V C03Trace")
    for k in bad:
        e = evs[k]
        if e.get("src") == "bip340 vector":
            raise tlc.TLCFailure(f"C03: the specification does not reproduce a BIP340 vector: {e} / {diag.get(k)}")
        run.violation(f"ssa|real|{e['op']}|{e.get('fn', '')}|{e.get('label', '').split('|')[0].rstrip('0123456789, ')}|{e.get('tag', '')}|{e.get('hf', '')}",
                      f"{e.get('fn', e['op'])} {e.get('label', '')} on {e.get('tag', '')}: the recorded answer is not the one BIP340 defines",
                      {"event": {k2: v for k2, v in e.items() if k2 != 'c'}, "curve": e.get("c"), "spec": diag.get(k)})
    run.sample({"toy group": groups[0]})
    run.sample({"real-size sign event": {k: v for k, v in next(e for e in evs if e["op"] == "sign" and e.get("tag") != "vector").items() if k != "c"}})
    run.sample({"batch event": {k: (v if k != "items" else v[:2]) for k, v in next(e for e in evs if e["op"] == "batch").items() if k != "c"}})
    run.count(evaluations=calls + len(evs), validated=len(groups) + n_batches + len(evs), nontrivial=nontriv + len(evs))


def replay(path: str) -> int:
    body = json.load(open(path))
    if "event" in body and body.get("curve") and "c" not in body["event"] and body["event"].get("op") in ("sign", "verify", "batch") \
            and isinstance(body["curve"], dict) and "gx" in body["curve"]:
        e = dict(body["event"])
        e["c"] = body["curve"]
        _, bad, diag = events.validate("C03Trace", [e])
        if bad:
            print(f"VIOLATION property=C03 replay={path}  # {diag}")
            return 1
        return 0
    print("replay: toy-group violations are reproduced by re-running ./check C03 --tier quick")
    return 0
