"""C15 -- miniscript typing, compilation, read-back and satisfaction are consistent.

Spec: Miniscript (BIP379's fragment-to-script table, the spending condition), ScriptSigs (the engine), C15Trace.
The harness writes expressions as trees, renders them as text for the library, and keeps the tree for the specification.
"""

from __future__ import annotations

import hashlib
import itertools
import random
from typing import Any

from .. import events, tlc
from ..core import Run, nat
from .c10 import STANDARD

N = 0xFFFFFFFFFFFFFFFFFFFFFFFFFFFFFFFEBAAEDCE6AF48A03BBFD25E8CD0364141
WRAPPERS = "asctdvjnlu"


def outcome(fn: Any) -> Any:
    from btclib.exceptions import BTClibException

    try:
        return fn()
    except BTClibException:
        return "refused"
    except Exception as e:  # noqa: BLE001
        return f"foreign:{type(e).__name__}"


# --------------------------------------------------------------------------------------
# expressions: text <-> tree (the harness's own reader of the notation)


def split_args(s: str) -> list[str]:
    out, depth, cur = [], 0, ""
    for ch in s:
        if ch == "," and depth == 0:
            out.append(cur)
            cur = ""
        else:
            depth += ch == "("
            depth -= ch == ")"
            cur += ch
    if cur:
        out.append(cur)
    return out


def tree(text: str, env: dict[str, str]) -> dict[str, Any]:
    """The tree of an expression; names in `env` stand for keys and digests."""
    if ":" in text.split("(")[0]:
        ws, rest = text.split(":", 1)
        node = tree(rest, env)
        for w in reversed(ws):
            node = {"f": "w:" + w, "subs": [node]}
        return node
    if "(" not in text:
        return {"f": text}
    name, args = text.split("(", 1)
    args_l = split_args(args[:-1])
    key = lambda a: env.get(a, a)  # noqa: E731
    if name in ("pk_k", "pk_h"):
        return {"f": name, "key": key(args_l[0])}
    if name == "pk":
        return {"f": "w:c", "subs": [{"f": "pk_k", "key": key(args_l[0])}]}
    if name == "pkh":
        return {"f": "w:c", "subs": [{"f": "pk_h", "key": key(args_l[0])}]}
    if name in ("older", "after"):
        return {"f": name, "n": nat(int(args_l[0]))}
    if name in ("sha256", "hash256", "ripemd160", "hash160"):
        return {"f": name, "h": key(args_l[0])}
    if name in ("multi", "multi_a"):
        return {"f": name, "k": int(args_l[0]), "keys": [key(a) for a in args_l[1:]]}
    if name == "thresh":
        return {"f": name, "k": int(args_l[0]), "subs": [tree(a, env) for a in args_l[1:]]}
    if name == "and_n":
        return {"f": "andor", "subs": [tree(args_l[0], env), tree(args_l[1], env), {"f": "0"}]}
    return {"f": name, "subs": [tree(a, env) for a in args_l]}


def render(text: str, env: dict[str, str]) -> str:
    out = text
    for name in sorted(env, key=len, reverse=True):
        out = out.replace(name, env[name])
    return out


def keys_of(t: dict[str, Any]) -> list[str]:
    out = [t["key"]] if "key" in t else list(t.get("keys", []))
    for s in t.get("subs", []):
        out += keys_of(s)
    return out


def locks_of(t: dict[str, Any]) -> list[tuple[str, int]]:
    out = [(t["f"], int(t["n"] or "0", 16))] if t.get("f") in ("older", "after") else []
    for s_ in t.get("subs", []):
        out += locks_of(s_)
    return out


def digests_of(t: dict[str, Any]) -> list[tuple[str, str]]:
    out = [(t["f"], t["h"])] if "h" in t else []
    for s in t.get("subs", []):
        out += digests_of(s)
    return out


CORPUS = [
    "pk(A)", "pkh(A)", "and_v(v:pk(A),pk(B))", "and_v(v:pk(A),older(10))", "and_v(v:pk(A),after(500000))", "and_v(v:pk(A),after(600000000))", "or_b(pk(A),s:pk(B))", "or_d(pk(A),pkh(B))",
    "t:or_c(pk(A),v:pk(B))", "or_i(pk(A),pk(B))", "andor(pk(A),pk(B),pk(C))", "thresh(2,pk(A),s:pk(B),s:pk(C))", "thresh(2,pk(A),s:pk(B),sln:older(12))", "thresh(1,pk(A),s:pk(B))",
    "multi(2,A,B,C)", "multi(1,A,B)", "multi(3,A,B,C)", "and_v(v:multi(2,A,B),older(5))", "and_v(v:pk(A),sha256(H))", "and_v(v:pk(A),hash256(H))", "and_v(v:pk(A),ripemd160(G))",
    "andor(pk(A),older(100),and_v(v:pk(B),hash160(G)))", "or_d(multi(1,A,B),and_v(v:pkh(C),after(600000000)))", "and_b(pk(A),a:pk(B))", "and_b(pk(A),s:pk(B))",
    "or_i(and_v(v:pkh(A),hash256(H)),and_v(v:pk(B),older(1008)))", "and_v(v:and_v(v:pk(A),pk(B)),pk(C))", "or_d(pk(A),and_v(v:pk(B),older(4194305)))", "and_n(pk(A),pk(B))",
    "andor(multi(2,A,B,C),pk(D),and_v(v:pk(E),older(144)))", "or_d(multi(1,A,B,C),multi(1,D,E,F))", "and_v(or_c(pk(A),or_c(pk(B),v:pk(C))),pk(D))", "j:and_v(v:pk(A),pk(B))",
    "and_b(pk(A),sdv:older(3))", "or_d(pk(A),and_v(v:pk(B),n:older(5)))", "and_v(vc:pk_k(A),c:pk_h(B))", "c:or_i(pk_k(A),pk_h(B))", "c:andor(pk(A),pk_k(B),pk_h(C))",
    "thresh(3,pk(A),s:pk(B),s:pk(C),sln:after(7))", "or_b(pk(A),a:and_b(pk(B),s:pk(C)))", "and_v(v:thresh(2,pk(A),s:pk(B),s:pk(C)),older(2))", "u:and_v(v:pk(A),pk(B))",
    "l:and_v(v:pk(A),pk(B))", "and_v(v:pk(A),or_d(pk(B),older(20)))", "or_i(multi(2,A,B),and_v(v:pk(C),after(700000)))", "andor(pk(A),or_i(and_v(v:pkh(B),hash160(G)),and_v(v:pk(C),older(50))),pk(D))",
]
# a dissatisfiable sub-expression under everything that has to dissatisfy it (spent by D alone, the inner one is dissatisfied: pushes in the right order, of the right size)
_DSAT_INNER = ["andor(pk(A),pk(B),pkh(C))", "and_b(pk(A),a:pkh(B))", "or_b(pk(A),a:pkh(B))", "or_d(pk(A),pkh(B))", "thresh(2,pk(A),a:pkh(B),s:pk(C))", "multi(2,A,B,C)", "j:and_v(v:pk(A),pkh(B))",
               "c:or_i(pk_k(A),pk_h(B))", "andor(pkh(A),pk(B),multi(1,C,F))", "or_i(and_v(v:pkh(A),pk(B)),0)", "and_b(pkh(A),a:andor(pk(B),pkh(C),pk(F)))"]
CORPUS += [outer.format(X=x) for x in _DSAT_INNER for outer in ("or_d({X},pk(D))", "or_b({X},s:pk(D))", "andor({X},pk(E),pk(D))", "thresh(1,{X},s:pk(D))")]
# sugar (and_n, pk, pkh, t: l: u:) directly under a wrapper: written back with the wrapper's colon in place
CORPUS += ["and_v(v:pk(A),after(499999999))", "and_v(v:pk(A),after(500000000))", "and_v(v:pk(A),after(500000001))", "and_v(v:pk(A),after(2147483647))", "and_v(v:pk(A),older(65535))",
           "and_v(v:pk(A),older(4194304))", "and_v(v:pk(A),older(4259839))", "and_v(v:pk(A),older(1))"]
CORPUS += ["or_b(pk(A),a:and_n(pk(B),older(144)))", "thresh(1,pk(A),a:and_n(pk(B),pk(C)))", "and_b(pk(A),a:and_n(pk(B),pk(C)))", "or_d(pk(A),n:and_n(pk(B),pk(C)))", "and_v(v:and_n(pk(A),pk(B)),pk(C))",
           "or_b(pk(A),au:and_v(v:pk(B),pk(C)))", "thresh(2,pk(A),s:pk(B),a:and_n(pk(C),pk(D)))", "and_v(vn:and_n(pk(A),older(9)),pk(B))"]


def universe(rnd: random.Random) -> tuple[dict[str, str], dict[str, int], dict[str, bytes]]:
    from btclib.curves import mult

    prv = {name: rnd.randrange(1, N) for name in "ABCDEF"}
    env = {}
    for name, d in prv.items():
        P = mult(d)
        env[name] = (bytes([2 + P[1] % 2]) + P[0].to_bytes(32, "big")).hex()
    pre = {"H": rnd.randbytes(32), "G": rnd.randbytes(32)}
    env["H"] = hashlib.sha256(pre["H"]).hexdigest()          # sha256 / hash256 digests are both 32 bytes: H stands for either's image of pre[H]
    env["G"] = hashlib.new("ripemd160", pre["G"]).hexdigest() if "ripemd160" in hashlib.algorithms_available else ""
    return env, prv, pre


def digest_for(fragment: str, preimage: bytes) -> str:
    from btclib.hashes import hash160, hash256, ripemd160, sha256

    return {"sha256": sha256, "hash256": hash256, "ripemd160": ripemd160, "hash160": hash160}[fragment](preimage).hex()


# hash fragments whose preimage is not 32 bytes long (BIP379 takes 32-byte preimages only): with that preimage at hand the condition is still false
SHORT_PRE = {f: p_ for f, p_ in (("sha256", b"\x07" * 20), ("hash160", b"\x09" * 33), ("ripemd160", b"\x0b" * 31), ("hash256", b"\x0d" * 64))}
CORPUS += [f"or_d(pk(A),and_v(v:pk(B),{f}({digest_for(f, p_)})))" for f, p_ in SHORT_PRE.items()] + [f"and_v(v:pk(A),{f}({digest_for(f, p_)}))" for f, p_ in list(SHORT_PRE.items())[:2]]


def generated(rnd: random.Random, n: int) -> list[str]:
    """Random compositions; the library's own type system keeps the sane ones."""
    leaves_b = ["pk(A)", "pk(B)", "pk(C)", "pkh(D)", "multi(1,A,B)", "multi(2,C,D,E)", "older(7)", "after(400)", "sha256(H)", "hash160(G)", "1", "0"]

    def gen(depth: int) -> str:
        if depth == 0 or rnd.random() < 0.3:
            return rnd.choice(leaves_b)
        f = rnd.choice(["and_v", "and_b", "or_b", "or_c", "or_d", "or_i", "andor", "thresh", "wrap", "wrap"])
        if f == "wrap":
            w, inner = "".join(rnd.sample(WRAPPERS, rnd.randint(1, 2))), gen(depth - 1)
            head = inner.split("(")[0]
            # wrappers are written as one run before one colon: n over u:X is nu:X (a second colon is not miniscript)
            return w + inner if ":" in head else w + ":" + inner
        if f == "andor":
            return f"andor({gen(depth - 1)},{gen(depth - 1)},{gen(depth - 1)})"
        if f == "thresh":
            k = rnd.randint(2, 3)
            return f"thresh({rnd.randint(1, k)}," + ",".join(gen(depth - 1) for _ in range(k)) + ")"
        a, b = gen(depth - 1), gen(depth - 1)
        if f == "and_v" and ":" not in a.split("(")[0]:
            a = "v:" + a
        if f in ("and_b", "or_b") and ":" not in b.split("(")[0]:
            b = rnd.choice("as") + ":" + b
        return f"{f}({a},{b})"

    out = []
    for _ in range(n * 40):
        e = gen(3)
        if e.count("::") or any(x + ":" in e and False for x in "x"):
            continue
        e = e.replace(":v:", "v:").replace(":a:", "a:").replace(":s:", "s:")
        out.append(e)
    return out


def record(run: Run, rnd: random.Random, thorough: bool, evs: list[dict[str, Any]], only: list[str] | None = None) -> dict[str, int]:
    from btclib.descriptors import miniscript
    from btclib.ecc import dsa
    from btclib.script import sig_hash
    from btclib.script.engine import verify_input
    from btclib.script.script_pub_key import ScriptPubKey
    from btclib.script.witness import Witness
    from btclib.tx import OutPoint, Tx, TxIn, TxOut

    stats = {"expressions": 0, "sane_generated": 0, "satisfactions": 0, "refusals": 0}
    env, prv, pre = universe(rnd)
    key_by_hex = {env[n]: prv[n] for n in prv}
    texts = list(CORPUS) if only is None else list(only)
    seen = set(texts)
    for e in ([] if only is not None else generated(rnd, 30 if thorough else 8)):
        if e in seen:
            continue
        m = outcome(lambda: miniscript.parse(render(fix_digests(e, env, pre), env)))
        if not isinstance(m, str) and m.is_sane:
            texts.append(e)
            seen.add(e)
            stats["sane_generated"] += 1
            if stats["sane_generated"] >= (120 if thorough else 25):
                break
    for text in texts:
        text = fix_digests(text, env, pre)
        full = render(text, env)
        m = outcome(lambda: miniscript.parse(full))
        if isinstance(m, str):
            evs.append({"op": "holds", "what": f"the corpus expression parses: {text}: {m}", "ok": False})
            continue
        if not m.is_sane:
            continue
        ast = tree(text, env)
        script = m.script()
        from btclib.hashes import hash160

        hashes = {hash160(bytes.fromhex(k)): bytes.fromhex(k) for k in keys_of(ast)}       # a pk_h() shows the hash: the reader is told the keys
        back = outcome(lambda: miniscript.from_script(script, "P2WSH", hashes))
        reads_back = (not isinstance(back, str)) and back.script() == script and outcome(lambda: miniscript.reads_back(script, "P2WSH", hashes)) is True
        again = outcome(lambda: miniscript.parse(str(m)))
        reparses = (not isinstance(again, str)) and again == m and again.script() == script
        evs.append({"op": "compile", "ast": ast, "script": script.hex(), "size": m.script_size, "reads_back": reads_back, "reparses": reparses, "text": text})
        stats["expressions"] += 1
        # spending scenarios: which signatures and preimages are at hand, and what the transaction's lock times are
        ks = sorted(set(keys_of(ast)))
        ds = sorted(set(digests_of(ast)))
        spk = ScriptPubKey.p2wsh(script)
        prevout = TxOut(100_000, spk)
        lock_cases = [(2, 0, 0xFFFFFFFF), (2, 700_000, 2000), (2, 650_000_000, 4194305 + 10), (1, 700_000, 2000), (2, 700_000, 0xFFFFFFFF), (2, 0, 5)]
        subsets = [ks, []] + [list(c) for c in itertools.combinations(ks, 1)] + ([list(c) for c in itertools.combinations(ks, 2)] if len(ks) > 2 else [])
        scen = [(sub, have_pre, lc) for sub in subsets for have_pre in (True, False) for lc in lock_cases]
        # never sampled away: with every signature and preimage at hand, the transaction's lock fields on either side of each older() / after() of the
        # expression -- the value itself, one less, the same low 16 bits under an unused higher bit, the other unit, the disable flag, version 1
        pivots: list[tuple[int, int, int]] = []
        for frag, n_ in locks_of(ast):
            if frag == "older":
                pivots += [(2, 0, n_), (2, 0, max(n_ - 1, 0)), (2, 0, n_ | 0x10000), (2, 0, max(n_ - 1, 0) | 0x10000), (2, 0, (n_ & 0xFFFF) | 0x20000 | (n_ & 0x400000)), (2, 0, n_ ^ 0x400000),
                           (2, 0, n_ | 0x80000000), (1, 0, n_), (2, 0, 0x40FFFF), (2, 0, 0xFFFF)]
            else:
                pivots += [(2, n_, 0), (2, max(n_ - 1, 0), 0), (2, n_ + 1, 0), (2, min(n_ + 1_000_000, 0xFFFFFFFF), 0), (2, n_, 0xFFFFFFFF), (2, n_ + 500_000_000 if n_ < 500_000_000 else n_ - 500_000_000, 0), (2, 499_999_999, 0), (2, 500_000_000, 0)]
        must = [(ks, True, lc) for lc in dict.fromkeys(pivots)]
        for sub, have_pre, (ver, lt, seq) in (must + scen if thorough else must[: 12] + rnd.sample(scen, min(len(scen), 10))):
            tx = Tx(ver, lt, [TxIn(OutPoint(bytes([7]) * 32, 1), b"", seq)], [TxOut(90_000, ScriptPubKey(bytes.fromhex("0014" + "42" * 20), check_validity=False))], check_validity=False)
            digest = sig_hash.segwit_v0(script, tx, 0, 1, prevout.value)
            sigs = {bytes.fromhex(k): dsa.sign_(digest, key_by_hex[k]).serialize() + b"\x01" for k in sub}
            ctx = miniscript.SpendContext(sha256_preimages={bytes.fromhex(h): pre_for(f, h, env, pre) for f, h in ds if f == "sha256" and have_pre},
                                          hash256_preimages={bytes.fromhex(h): pre_for(f, h, env, pre) for f, h in ds if f == "hash256" and have_pre},
                                          ripemd160_preimages={bytes.fromhex(h): pre_for(f, h, env, pre) for f, h in ds if f == "ripemd160" and have_pre},
                                          hash160_preimages={bytes.fromhex(h): pre_for(f, h, env, pre) for f, h in ds if f == "hash160" and have_pre},
                                          locktime=lt, sequence=seq, version=ver)
            sat = outcome(lambda: m.satisfy(sigs, ctx))
            e: dict[str, Any] = {"op": "sat", "ast": ast, "script": script.hex(), "idx": 0, "flags": STANDARD, "sigs": sorted(sub), "pre": [h for f_, h in ds if not (f_ in SHORT_PRE and digest_for(f_, SHORT_PRE[f_]) == h)] if have_pre else [],
                                 "prevouts": [{"value": nat(prevout.value), "spk": spk.script.hex()}], "max_ops": m.max_ops if m.max_ops is not None else -1,
                                 "max_items": m.max_stack_items if m.max_stack_items is not None else -1, "max_size": m.max_witness_size if m.max_witness_size is not None else -1, "text": text,
                                 "lock": [ver, lt, seq]}
            if isinstance(sat, str):
                e.update({"produced": False, "stack": [], "tx": tx.serialize(include_witness=True, check_validity=False).hex(), "err": sat})
                stats["refusals"] += 1
            else:
                tx.vin[0].script_witness = Witness([*sat, script])
                e.update({"produced": True, "stack": [x.hex() for x in sat], "tx": tx.serialize(include_witness=True, check_validity=False).hex(),
                          "library_engine": outcome(lambda: verify_input([prevout], tx, 0, STANDARD)) is None})
                stats["satisfactions"] += 1
                evs.append({"op": "holds", "what": f"the library's engine accepts the satisfaction the library produced for {text} (sigs {len(sub)}, lock {ver}/{lt}/{seq})", "ok": e["library_engine"]})
            evs.append(e)
    return stats


def fix_digests(text: str, env: dict[str, str], pre: dict[str, bytes]) -> str:
    """H / G stand for the image of one preimage under whichever hash names them: write the digest out per fragment."""
    out = text
    for frag, size_name in (("sha256", "H"), ("hash256", "H"), ("ripemd160", "G"), ("hash160", "G")):
        out = out.replace(f"{frag}({size_name})", f"{frag}({digest_for(frag, pre[size_name])})")
    return out


def pre_for(fragment: str, h: str, env: dict[str, str], pre: dict[str, bytes]) -> bytes:
    if fragment in SHORT_PRE and digest_for(fragment, SHORT_PRE[fragment]) == h:
        return SHORT_PRE[fragment]                    # the real preimage, of a size BIP379 does not take
    for p in pre.values():
        if digest_for(fragment, p) == h:
            return p
    return b"\x00" * 32


def record_psbt_route(run: Run, rnd: random.Random, thorough: bool, evs: list[dict[str, Any]]) -> int:
    """finalize(psbt, solver=miniscript_solver) on a two-input psbt: the miniscript input is not the first, and the two sequences sit on opposite sides of its older()."""
    from btclib.bip32 import bip32
    from btclib.descriptors import descriptors as D
    from btclib.psbt.psbt import Psbt, extract_tx, finalize
    from btclib.psbt_signer import SoftwareSigner, request_signatures
    from btclib.script.engine import verify_input
    from btclib.tx import OutPoint, Tx, TxIn, TxOut

    n = 0
    root = bip32.rootxprv_from_seed(bytes(range(32)))
    signer = SoftwareSigner(root)
    acct = bip32.derive(root, "m/48h/0h/0h/2h")
    xpub = f"[{signer.master_fingerprint.hex()}/48h/0h/0h/2h]" + bip32.xpub_from_xprv(acct)
    solver = getattr(D, "miniscript_solver", None)
    if solver is None:
        return 0
    for older, seqs in ((10, (36, 5)), (10, (5, 36)), (10, (36, 36)), (10, (5, 5))):
        d_ms = D.parse(f"wsh(and_v(v:pk({xpub}/0/*),older({older})))")
        d_pk = D.parse(f"wpkh({xpub}/1/*)")
        prev_ms, prev_pk = TxOut(50_000, d_ms.script_pub_key(0)), TxOut(60_000, d_pk.script_pub_key(0))
        ptx0 = Tx(vin=[TxIn(OutPoint(b"\x05" * 32, 0))], vout=[prev_pk, prev_ms])
        tx = Tx(2, 0, [TxIn(OutPoint(ptx0.id, 0), b"", seqs[0]), TxIn(OutPoint(ptx0.id, 1), b"", seqs[1])], [TxOut(100_000, prev_pk.script_pub_key)])
        p = Psbt.from_tx(tx)
        p.inputs[0].non_witness_utxo = ptx0
        p.inputs[1].non_witness_utxo = ptx0
        p = d_pk.update_psbt_input(p, 0, 0)
        p = d_ms.update_psbt_input(p, 1, 0)
        signed = outcome(lambda: request_signatures(signer, p))
        if isinstance(signed, str):
            evs.append({"op": "holds", "what": f"signing the two-input psbt: {signed}", "ok": False})
            continue
        fin = outcome(lambda: finalize(signed, solver=lambda psbt, i: solver(psbt, i)))
        met = seqs[1] >= older
        if isinstance(fin, str):
            evs.append({"op": "fails" if not met else "holds", "what": f"finalize with the miniscript solver (older({older}), sequences {seqs}) " + ("refuses an unmet lock" if not met else f"produces the spend: {fin}"),
                        "ok": False})
            n += 1
            continue
        t = outcome(lambda: extract_tx(fin))
        if isinstance(t, str):
            evs.append({"op": "holds", "what": f"extract after finalize: {t}", "ok": False})
            continue
        from .c10 import verify_events

        oks = verify_events(t, [prev_pk, prev_ms], STANDARD, evs, f"psbt route older({older}) sequences {seqs}")
        evs.append({"op": "holds", "what": f"what finalize produced through the miniscript solver is accepted (older({older}), sequences {seqs})", "ok": all(oks)})
        n += 1
    return n


TAP_CORPUS = ["pk(A)", "pkh(A)", "multi_a(1,A,B)", "multi_a(2,A,B,C)", "multi_a(3,A,B,C)", "and_v(v:pk(A),pk(B))", "and_v(v:pk(A),multi_a(1,B,C,D,E,F))", "or_d(pk(A),and_v(v:pkh(B),older(10)))",
              "and_v(v:multi_a(2,A,B,C),after(500000))", "thresh(2,pk(A),s:pk(B),s:pk(C))", "or_b(pk(A),a:multi_a(2,B,C,D))", "andor(pk(A),pk(B),multi_a(1,C,D))", "and_v(v:pk(A),sha256(H))",
              "or_d(multi_a(2,A,B),and_v(v:pk(C),older(144)))", "thresh(1,pk(A),s:pk(B),s:pk(C),s:pk(D),s:pk(E),s:pk(F))", "or_i(and_v(v:pk(A),hash160(G)),multi_a(2,B,C,D))", "dv:older(7)".replace("dv:older(7)", "and_v(v:pk(A),or_d(pk(B),dv:older(7)))")]


def record_tapscript(run: Run, rnd: random.Random, thorough: bool, evs: list[dict[str, Any]]) -> dict[str, int]:
    """The tapscript context: x-only keys, multi_a, BIP340 signatures over the tapleaf, the spend a taproot script path judged by the specification's engine.
    Many-key multi_a and thresh expressions put the BIP342 validation-weight budget in play (an empty signature costs nothing)."""
    from btclib.curves import mult
    from btclib.descriptors import miniscript
    from btclib.ecc import ssa
    from btclib.script import sig_hash, taproot
    from btclib.script.engine import verify_input
    from btclib.script.script_pub_key import ScriptPubKey
    from btclib.script.witness import Witness
    from btclib.tx import OutPoint, Tx, TxIn, TxOut

    stats = {"expressions": 0, "satisfactions": 0, "refusals": 0}
    names = "ABCDEFJKLMNPQRSTUVWXYZ"
    prv = {nm: rnd.randrange(1, N) for nm in names}
    env = {nm: mult(d)[0].to_bytes(32, "big").hex() for nm, d in prv.items()}
    pre = {"H": rnd.randbytes(32), "G": rnd.randbytes(32)}
    env["H"] = hashlib.sha256(pre["H"]).hexdigest()
    env["G"] = hashlib.new("ripemd160", pre["G"]).hexdigest()
    key_by_hex = {env[nm]: prv[nm] for nm in prv}
    big = [f"and_v(v:pk(A),multi_a(1,{','.join(names[1:1 + k])}))" for k in (10, 15, 20)] + [f"thresh(1,pk(A),{','.join('s:pk(' + c + ')' for c in names[1:1 + k])})" for k in (12, 20)]
    internal = mult(rnd.randrange(1, N))[0].to_bytes(32, "big")
    for text0 in TAP_CORPUS + big:
        text = fix_digests(text0, env, pre)
        full = render(text, env)
        m = outcome(lambda: miniscript.parse(full, miniscript.TAPSCRIPT))
        if isinstance(m, str):
            evs.append({"op": "holds", "what": f"the tapscript corpus expression parses: {text0}: {m}", "ok": False})
            continue
        if not m.is_sane:
            continue
        ast = tree(text, env)
        script = m.script()
        evs.append({"op": "compile", "ast": ast, "script": script.hex(), "size": m.script_size, "reads_back": True, "reparses": outcome(lambda: miniscript.parse(str(m), miniscript.TAPSCRIPT)) == m, "text": "tapscript " + text0})
        stats["expressions"] += 1
        ks = sorted(set(keys_of(ast)))
        ds = sorted(set(digests_of(ast)))
        lh = taproot.leaf_hash(0xC0, script)
        outkey, parity = taproot.output_pubkey_from_merkle_root(internal, lh)
        control = bytes([0xC0 + parity]) + internal
        spk = ScriptPubKey(b"\x51\x20" + outkey, check_validity=False)
        prevout = TxOut(100_000, spk, check_validity=False)
        subsets = [ks, [ks[0]], [ks[-1]], []] + ([ks[:2], ks[1:3]] if len(ks) > 2 else [])
        locks = [(2, 0, 0xFFFFFFFD)] + [(2, 0, n_) for f_, n_ in locks_of(ast) if f_ == "older"] + [(2, n_, 0) for f_, n_ in locks_of(ast) if f_ == "after"]
        for sub in subsets:
            for ver, lt, seq in locks:
                tx = Tx(ver, lt, [TxIn(OutPoint(bytes([9]) * 32, 1), b"", seq)], [TxOut(90_000, ScriptPubKey(bytes.fromhex("0014" + "42" * 20), check_validity=False))], check_validity=False)
                digest = sig_hash.taproot(tx, 0, [prevout], 0, 1, b"", lh + b"\x00\xff\xff\xff\xff")
                sigs = {bytes.fromhex(k): ssa.sign_(digest, key_by_hex[k], bytes(32)).serialize() for k in sub}
                ctx = miniscript.SpendContext(sha256_preimages={bytes.fromhex(h): pre_for(f, h, env, pre) for f, h in ds if f == "sha256"},
                                              hash160_preimages={bytes.fromhex(h): pre_for(f, h, env, pre) for f, h in ds if f == "hash160"}, locktime=lt, sequence=seq, version=ver)
                sat = outcome(lambda: m.satisfy(sigs, ctx))
                e: dict[str, Any] = {"op": "sat", "ctx": "tapscript", "ast": ast, "script": script.hex(), "idx": 0, "flags": STANDARD, "sigs": sorted(sub), "pre": [h for _, h in ds],
                                     "prevouts": [{"value": nat(prevout.value), "spk": spk.script.hex()}], "max_ops": -1,
                                     "max_items": m.max_stack_items if m.max_stack_items is not None else -1, "max_size": m.max_witness_size if m.max_witness_size is not None else -1,
                                     "text": "tapscript " + text0, "lock": [ver, lt, seq]}
                if isinstance(sat, str):
                    e.update({"produced": False, "stack": [], "tx": tx.serialize(include_witness=True, check_validity=False).hex(), "err": sat})
                    stats["refusals"] += 1
                else:
                    tx.vin[0].script_witness = Witness([*sat, script, control])
                    e.update({"produced": True, "stack": [x.hex() for x in sat], "tx": tx.serialize(include_witness=True, check_validity=False).hex()})
                    stats["satisfactions"] += 1
                    evs.append({"op": "holds", "what": f"the library's engine accepts the tapscript satisfaction the library produced for {text0} ({len(sub)} signatures, lock {ver}/{lt}/{seq})",
                                "ok": outcome(lambda: verify_input([prevout], tx, 0, STANDARD)) is None})
                evs.append(e)
    return stats


def record_size_limits(run: Run, rnd: random.Random, thorough: bool, evs: list[dict[str, Any]]) -> int:
    """Expressions whose script is exactly as large as the context allows, one byte less and one byte more (P2WSH: 3600 bytes): the first two compile to
    the predicted size, read back and re-parse; the third is not valid."""
    from btclib.curves import mult
    from btclib.descriptors import miniscript
    from btclib.hashes import hash160

    keys = []
    prv_of: dict[str, int] = {}
    for j in range(1, 112):
        d_ = rnd.randrange(1, N)
        P = mult(d_)
        keys.append((bytes([2 + P[1] % 2]) + P[0].to_bytes(32, "big")).hex())
        prv_of[keys[-1]] = d_

    def build(n_last: int, pads: list[int]) -> str:
        groups = [f"v:multi(1,{','.join(keys[20 * g:20 * g + 20])})" for g in range(5)]
        tail = f"multi(1,{','.join(keys[100:100 + n_last])})"
        parts = groups + [f"v:older({x})" for x in pads]
        text = tail
        for part in reversed(parts):
            text = f"and_v({part},{text})"
        return text

    n = 0
    at_limit: tuple[int, list[int]] | None = None
    for target in (3599, 3600, 3601):
        found = None
        for n_last in range(1, 11):
            for pads in ([], [1], [20], [1, 2], [1, 20], [20, 21], [1, 2, 3], [1, 2, 20], [1, 20, 21], [20, 21, 22], [1, 2, 3, 4], [1, 2, 3, 20], [1, 2, 20, 21], [300, 301, 302], [1, 300, 301, 302]):
                text = build(n_last, pads)
                m = outcome(lambda: miniscript.parse(text))
                size = len(m.script()) if not isinstance(m, str) else outcome(lambda: len(miniscript.parse(text, check_validity=False).script()))
                if size == target:
                    found = (text, m)
                    if target == 3600:
                        at_limit = (n_last, pads)
                    break
            if found:
                break
        if not found and target == 3601 and at_limit is not None:
            # one byte past the limit, by construction: the script of the limit case with one lock written on one byte more (older(17) pushes a byte where older(1) is an opcode)
            n_last0, pads0 = at_limit
            grown = [17 if (x <= 16 and j == 0) else x for j, x in enumerate(sorted(pads0))] if pads0 and min(pads0) <= 16 else None
            if grown is not None:
                text = build(n_last0, grown)
                found = (text, outcome(lambda: miniscript.parse(text)))
        if not found:
            evs.append({"op": "holds", "what": f"an expression of exactly {target} bytes of script was built by the harness", "ok": False})
            continue
        text, m = found
        if target > 3600:
            evs.append({"op": "fails", "what": f"an expression whose script is {target} bytes is valid in P2WSH", "ok": (not isinstance(m, str)) and bool(m.is_valid)})
            n += 1
            continue
        if isinstance(m, str):
            evs.append({"op": "holds", "what": f"an expression whose script is {target} bytes parses: {m}", "ok": False})
            continue
        script = m.script()
        ast = tree(text, {})
        hashes = {hash160(bytes.fromhex(k)): bytes.fromhex(k) for k in keys_of(ast)}
        back = outcome(lambda: miniscript.from_script(script, "P2WSH", hashes))
        reads_back = (not isinstance(back, str)) and back.script() == script and outcome(lambda: miniscript.reads_back(script, "P2WSH", hashes)) is True
        again = outcome(lambda: miniscript.parse(str(m)))
        evs.append({"op": "compile", "ast": ast, "script": script.hex(), "size": m.script_size, "reads_back": reads_back, "reparses": (not isinstance(again, str)) and again == m and again.script() == script,
                    "text": f"{target}-byte script"})
        evs.append({"op": "holds", "what": f"an expression whose script is {target} bytes (the P2WSH limit is 3600) is valid and sane", "ok": bool(m.is_valid) and bool(m.is_sane)})
        n += 1
        # and it is spent: a witness script far above the 520 bytes that bound a stack element (and do not bound the script)
        from btclib.ecc import dsa
        from btclib.script import sig_hash
        from btclib.script.engine import verify_input
        from btclib.script.script_pub_key import ScriptPubKey
        from btclib.script.witness import Witness
        from btclib.tx import OutPoint, Tx, TxIn, TxOut

        spk = ScriptPubKey.p2wsh(script)
        prevout = TxOut(100_000, spk)
        tx = Tx(2, 0, [TxIn(OutPoint(bytes([5]) * 32, 0), b"", 400)], [TxOut(90_000, ScriptPubKey(bytes.fromhex("0014" + "42" * 20), check_validity=False))], check_validity=False)
        digest = sig_hash.segwit_v0(script, tx, 0, 1, prevout.value)
        signers = [keys[20 * g] for g in range(5)] + [keys[100]]
        sigs = {bytes.fromhex(k): dsa.sign_(digest, prv_of[k]).serialize() + b"\x01" for k in signers}
        sat = outcome(lambda: m.satisfy(sigs, miniscript.SpendContext(locktime=0, sequence=400, version=2)))
        e: dict[str, Any] = {"op": "sat", "ast": ast, "script": script.hex(), "idx": 0, "flags": STANDARD, "sigs": sorted(signers), "pre": [], "prevouts": [{"value": nat(prevout.value), "spk": spk.script.hex()}],
                             "max_ops": m.max_ops if m.max_ops is not None else -1, "max_items": m.max_stack_items if m.max_stack_items is not None else -1,
                             "max_size": m.max_witness_size if m.max_witness_size is not None else -1, "text": f"{target}-byte script", "lock": [2, 0, 400]}
        if isinstance(sat, str):
            e.update({"produced": False, "stack": [], "tx": tx.serialize(include_witness=True, check_validity=False).hex(), "err": sat})
            evs.append({"op": "holds", "what": f"a satisfaction is produced for the {target}-byte script with a signature of every group: {sat}", "ok": False})
        else:
            tx.vin[0].script_witness = Witness([*sat, script])
            e.update({"produced": True, "stack": [x.hex() for x in sat], "tx": tx.serialize(include_witness=True, check_validity=False).hex()})
            evs.append({"op": "holds", "what": f"the library's engine accepts the satisfaction of the {target}-byte script", "ok": outcome(lambda: verify_input([prevout], tx, 0, STANDARD)) is None})
        evs.append(e)
    return n


def record_types(run: Run, rnd: random.Random, thorough: bool, evs: list[dict[str, Any]]) -> dict[str, int]:
    """The library's typing of random expressions, well typed or not, against the specification's table (base type, z o n d u)."""
    from btclib.descriptors import miniscript

    stats = {"typed": 0, "ill_typed": 0}
    env, _, pre = universe(rnd)
    texts = list(CORPUS) + list(dict.fromkeys(generated(rnd, 60 if thorough else 15)))
    # deliberate type errors: a wrapper or a combinator over the wrong base type
    texts += ["and_v(pk(A),pk(B))", "and_b(pk(A),pk(B))", "or_b(pk(A),pk(B))", "or_c(pk(A),pk(B))", "or_d(v:pk(A),pk(B))", "a:pk_k(A)", "c:pk(A)", "v:v:pk(A)", "s:older(5)", "d:pk(A)", "j:older(5)",
              "thresh(2,pk(A),pk(B))", "thresh(3,pk(A),s:pk(B))", "andor(older(5),pk(A),pk(B))", "or_i(pk(A),v:pk(B))", "and_v(v:pk(A),s:pk(B))", "n:v:pk(A)", "multi(3,A,B)", "multi(0,A,B)",
              "multi_a(1,A,B)", "thresh(0,pk(A))", "dv:older(5)", "and_v(v:older(5),v:pk(A))", "tv:pk(A)", "lv:pk(A)", "uc:pk_k(A)"]
    for text in texts[: (len(texts) if thorough else 700)]:
        text = fix_digests(text, env, pre)
        full = render(text, env)
        try:
            ast = tree(text, env)
        except Exception:  # noqa: BLE001
            continue
        m = outcome(lambda: miniscript.parse(full))
        if isinstance(m, str):
            if m.startswith("foreign"):
                evs.append({"op": "holds", "what": f"miniscript.parse({text}) raised {m}", "ok": False})
                continue
            evs.append({"op": "type", "ast": ast, "ctx": "P2WSH", "valid": False, "base": "", "mods": [], "text": text})
            stats["ill_typed"] += 1
        else:
            props = "".join(sorted(m.properties))
            base = [c for c in props if c in "BVKW"]
            evs.append({"op": "type", "ast": ast, "ctx": "P2WSH", "valid": True, "base": base[0] if base else "", "mods": [c for c in props if c in "zondu"], "text": text})
            stats["typed"] += 1
    return stats


def check(run: Run) -> None:
    thorough = run.tier == "thorough"
    rnd = random.Random(run.seed)
    run.rule = ("46 hand-written sane expressions covering every fragment and wrapper plus 25-120 randomly composed ones the library's type system accepts; for each: the compiled script "
                "and its size against the specification's compilation, read-back and re-parse; 10 (thorough: all) scenarios of available signatures (all, none, each key, pairs) x "
                "preimages at hand or not x 6 (version, lock time, sequence) classes: a satisfaction is produced only when the spending condition holds, and when produced the "
                "specification's own engine accepts the spend and the witness stays within the predicted items, bytes and executed ops; a two-input psbt through miniscript_solver "
                "with the sequences on either side of older()")
    run.assumptions = ["the correctness half of the type system (base type and the modifiers z o n d u) is specified and compared; the malleability and timelock-mixing properties (e f s m x k g h i j) "
                       "and hence 'sane' are the library's own: the specification compiles and judges what it accepts",
                       "the bound on the stack while the script runs (max_exec_stack_items) is not checked: the specification's machine does not record its peak",
                       "P2WSH context; tapscript miniscript is covered for compilation only through multi_a in C14 and the engine in C08/C10"]
    evs: list[dict[str, Any]] = []
    s1 = record(run, rnd, thorough, evs)
    n2 = record_psbt_route(run, rnd, thorough, evs)
    s3 = record_types(run, rnd, thorough, evs)
    s3["size_limits"] = record_size_limits(run, rnd, thorough, evs)
    s3["tapscript"] = record_tapscript(run, rnd, thorough, evs)
    keep = ("ctx", "valid", "base", "mods", "op", "ast", "script", "size", "reads_back", "reparses", "tx", "prevouts", "idx", "flags", "sigs", "pre", "produced", "stack", "max_ops", "max_items", "max_size", "ok")
    compact = [{k: v for k, v in e.items() if k in keep} for e in evs]
    results, bad, diag = events.validate("C15Trace", compact, batch=150, timeout=6000)
    for r in results:
        run.tlc(r, "V C15Trace")
    for k in bad:
        e = evs[k]
        what = e.get("text") or e.get("what") or e.get("kind")
        run.violation(f"miniscript|{e['op']}|{what}", f"{e['op']}: {what}: {({kk: vv for kk, vv in e.items() if kk in ('produced', 'sigs', 'lock', 'size', 'reads_back', 'reparses', 'max_ops', 'max_items', 'max_size', 'ok', 'err')})}; "
                      f"the specification says {str(diag.get(k))[:300]}", {"event": e, "expected": str(diag.get(k))[:2000]})
    run.sample({"event": {k: (v if len(str(v)) < 120 else str(v)[:120]) for k, v in next(e for e in evs if e["op"] == "sat" and e["produced"]).items()}})
    run.section("events", {"miniscript": s1, "psbt_route": n2, "typing": s3})
    if s1["expressions"] < 40 or s1["satisfactions"] < 40 or s1["refusals"] < 40:
        raise tlc.TLCFailure(f"C15 harness is vacuous: {s1}")
    run.count(evaluations=len(evs), validated=len(evs), nontrivial=len(evs))


def replay(path: str) -> int:
    import json

    body = json.load(open(path))
    e = body.get("event")
    if not e:
        return 0
    keep = ("op", "ast", "script", "size", "reads_back", "reparses", "tx", "prevouts", "idx", "flags", "sigs", "pre", "produced", "stack", "max_ops", "max_items", "max_size", "ok",
            "ctx", "valid", "base", "mods")
    results, bad, diag = events.validate("C15Trace", [{k: v for k, v in e.items() if k in keep}], workers=1)
    if bad:
        print(f"VIOLATION property=C15 replay={path}  # recorded event not explained by the specification: {str(diag.get(0))[:300]}")
        return 1
    return 0
