"""C18 -- sizes, fees and amounts are exact integer accounting.

Spec: Accounting (fee = ceil(rate x vsize / 1000), decimal quotes, Core's dust threshold, the change-or-fee decision, the
analytic size of a signed input per script type), FundingModel (TLC checks what a funded transaction owes its user over
small parameters), Wire (Size / Weight / VSize read off the grammar), C18Trace (recorded calls recomputed by TLC).
"""

from __future__ import annotations

import decimal
import itertools
import random
import re
from decimal import Decimal
from typing import Any

from .. import events, tlc
from ..core import Run, nat
from . import c05

X1 = "xprv9s21ZrQH143K3GJpoapnV8SFfukcVBSfeCficPSGfubmSFDxo1kuHnLisriDvSnRRuL2Qrg5ggqHKNVpxR86QEC8w35uxmGoggxtQTPvfUu"
K1 = "02c6047f9441ed7d6d3045406e95c07cd85c778e4b8cef3ca7abac09b95c709ee5"
K2 = "02f9308a019258c31049344f85f89d5229b531c845836f99b08601f113bce036f9"

MODEL_CFG = """SPECIFICATION Spec
CONSTANTS MaxIn = {maxin}
Outs = {{0, 500}}
Rates = {{0, 1, 999, 1000, 1001, 1500, 3000}}
Dusts = {{0, 294, 330, 546}}
VsWith = {vs}
ChangeSize = {cs}
INVARIANT Conservation
INVARIANT RatePaid
INVARIANT NoDust
INVARIANT HonestRefusal
INVARIANT BoundedOverpayment
INVARIANT Monotone
CHECK_DEADLOCK FALSE
"""


FOREIGN: list[str] = []   # class names of foreign exceptions seen, in order (the event carries "foreign")


def outcome(fn: Any) -> Any:
    from btclib.exceptions import BTClibException

    try:
        return fn()
    except BTClibException:
        return "refused"
    except Exception as e:  # noqa: BLE001
        FOREIGN.append(type(e).__name__)
        return "foreign"


# --------------------------------------------------------------------------------------
# sizes


def boundary_txs(rnd: random.Random, thorough: bool) -> list[Any]:
    from btclib.script.witness import Witness
    from btclib.tx import OutPoint, Tx, TxIn, TxOut
    from btclib.script.script_pub_key import ScriptPubKey

    def tin(script_len: int = 0, wit: list[int] | None = None, k: int = 0) -> Any:
        return TxIn(OutPoint(bytes([k % 256]) * 32, k), bytes(script_len), 0xFFFFFFFE, Witness([bytes(n) for n in (wit or [])]), check_validity=False)

    def tout(spk_len: int = 22, value: int = 1000) -> Any:
        return TxOut(value, ScriptPubKey(bytes(spk_len), check_validity=False), check_validity=False)

    def tx(vin: list[Any], vout: list[Any]) -> Any:
        return Tx(2, 0, vin, vout, check_validity=False)

    out = []
    counts = [1, 2, 252, 253, 254] + ([0xFFFF + 1] if thorough else [])
    for n in counts[:5]:
        out.append(tx([tin(k=k) for k in range(n)], [tout()]))
        out.append(tx([tin()], [tout() for _ in range(n)]))
        out.append(tx([tin(wit=[1] * n)], [tout()]))
        out.append(tx([tin(wit=[1]) for _ in range(n)], [tout()]))
    for ln in (0, 1, 75, 76, 252, 253, 254, 255, 256, 0xFFFF, 0x10000) + ((0x10001, 100000) if thorough else ()):
        out.append(tx([tin(script_len=ln)], [tout()]))
        out.append(tx([tin()], [tout(spk_len=ln)]))
        out.append(tx([tin(wit=[ln])], [tout()]))
        out.append(tx([tin(wit=[ln, 0, 1]), tin(script_len=ln)], [tout(), tout(spk_len=ln)]))
    # one witness among many inputs, empty witnesses beside it, no witness at all
    out.append(tx([tin(), tin(wit=[72, 33]), tin()], [tout()]))
    out.append(tx([tin(), tin()], [tout()]))
    out.append(tx([tin()], []))
    for _ in range(60 if thorough else 15):
        out.append(tx([tin(script_len=rnd.choice([0, 0, 23, 107, 253]), wit=rnd.choice([[], [], [72, 33], [64], [0, 72, 72, 71], [rnd.randint(0, 300)] * rnd.randint(0, 5)]), k=k)
                       for k in range(rnd.randint(1, 6))], [tout(spk_len=rnd.choice([22, 23, 25, 34, 35, 0, 253]), value=rnd.randint(0, 21 * 10**14)) for _ in range(rnd.randint(1, 5))]))
    return out


def record_sizes(run: Run, rnd: random.Random, thorough: bool, evs: list[dict[str, Any]]) -> None:
    from btclib.block.block import Block
    from btclib.block.block_header import BlockHeader
    from btclib.tx import Tx
    from btclib.tx.tx_in import input_weight

    seeds = c05.seeds()
    txs = boundary_txs(rnd, thorough)
    for b in seeds.get("Tx", [])[: (40 if thorough else 12)]:
        try:
            txs.append(Tx.parse(b))
        except Exception:  # noqa: BLE001
            pass
    for t in txs:
        evs.append({"op": "size", "hex": t.serialize(include_witness=True, check_validity=False).hex(), "size": t.size, "weight": t.weight, "vsize": t.vsize})
        for ti in t.vin[:2]:
            evs.append({"op": "inweight", "script": ti.script_sig.hex(), "witness": [w.hex() for w in ti.script_witness.stack], "weight": input_weight(ti.script_sig, ti.script_witness)})
    # a transaction is an object that signers and builders write into: measured, written into, measured again -- each answer is that of the bytes at that moment
    import copy

    from btclib.script.witness import Witness
    from btclib.tx import TxOut

    for t0 in txs[: (40 if thorough else 14)]:
        if not t0.vin:
            continue
        t = copy.deepcopy(t0)
        steps = [("as built", lambda: None), ("a witness attached to the first input", lambda: setattr(t.vin[0], "script_witness", Witness([bytes(72), bytes(33)]))),
                 ("a script_sig written into the last input", lambda: setattr(t.vin[-1], "script_sig", bytes(107))),
                 ("an output appended", lambda: t.vout.append(TxOut(546, bytes.fromhex("0014") + bytes(20), check_validity=False))),
                 ("every witness removed", lambda: [setattr(i_, "script_witness", Witness()) for i_ in t.vin]), ("the first output dropped", lambda: t.vout.pop(0) if t.vout else None),
                 ("the lock time changed", lambda: setattr(t, "lock_time", t.lock_time ^ 1))]
        for name, edit in steps:
            got = outcome(lambda: (edit(), t.serialize(include_witness=True, check_validity=False).hex(), t.size, t.weight, t.vsize))
            if isinstance(got, str) or got is None:
                break          # (an edit this object does not take ends the history)
            evs.append({"op": "size", "hex": got[1], "size": got[2], "weight": got[3], "vsize": got[4], "step": name})
    blocks = []
    for b in seeds.get("Block", [])[: (6 if thorough else 3)]:
        try:
            blocks.append(Block.parse(b, check_validity=False))
        except Exception:  # noqa: BLE001
            pass
    if blocks:
        hdr = blocks[0].header
        small = [t for t in txs if t.size < 200][:6]
        for n in (0, 1, 252, 253, 254):
            blocks.append(Block(hdr, [small[k % len(small)] for k in range(n)], check_validity=False))
        blocks.append(Block(hdr, [t for t in txs if t.size > 60000][:3], check_validity=False))
    for blk in blocks:
        evs.append({"op": "block", "hex": blk.serialize(include_witness=True, check_validity=False).hex(), "size": blk.size, "stripped": blk.stripped_size, "weight": blk.weight, "vsize": blk.vsize})


# --------------------------------------------------------------------------------------
# fees, amounts, rates


RATES = [0, 1, 999, 1000, 1001, 1234, 1500, 3000, 10_000, 123_456, 10**9 + 7, 2**40 + 1]
VSIZES = [0, 1, 2, 3, 109, 110, 111, 141, 142, 143, 999, 1000, 1001, 99_999, 100_000, 1_000_000, 2**31 - 1]


def record_fees(run: Run, rnd: random.Random, thorough: bool, evs: list[dict[str, Any]]) -> None:
    from btclib.fee import FeeRate, fee_from_vsize, package_fee

    for r in RATES:
        fr = FeeRate(sats_per_kvbyte=r)
        for v in VSIZES + [rnd.randint(1, 400_000) for _ in range(40 if thorough else 8)]:
            evs.append({"op": "fee", "vsize": v, "rate": nat(r), "out": nat(fee_from_vsize(v, fr))})
        for _ in range(60 if thorough else 12):
            v, av, af = rnd.choice(VSIZES[1:14]), rnd.choice(VSIZES[:14]), rnd.choice([0, 1, 100, 141, 1000, 10**6, rnd.randint(0, 10**7)])
            evs.append({"op": "package", "vsize": v, "rate": nat(r), "avsize": av, "afee": nat(af), "out": nat(package_fee(v, fr, ancestor_vsize=av, ancestor_fee=af))})


CONTEXTS = [None, {"prec": 6, "rounding": decimal.ROUND_UP}, {"prec": 3, "rounding": decimal.ROUND_DOWN, "traps": [decimal.Inexact, decimal.Rounded]}, {"prec": 1}]


def _ctx(spec: dict[str, Any] | None) -> Any:
    c = decimal.getcontext().copy()
    if spec:
        c.prec = spec.get("prec", c.prec)
        c.rounding = spec.get("rounding", c.rounding)
        for t in spec.get("traps", []):
            c.traps[t] = True
    return decimal.localcontext(c)


def quotes(rnd: random.Random, thorough: bool) -> list[Any]:
    """Decimal quotes in every spelling: strings (plain, exponent), Decimals, ints, floats."""
    out: list[Any] = []
    digs = [0, 1, 9, 15, 21, 12345678, 123456789, 1234567891, 2099999999999999, 2100000000000000, 2100000000000001, 10**20 + 1]
    for d in digs:
        for e in range(-12, 9):
            out.append(f"{d}E{e}")
            if rnd.random() < 0.3:
                out.append(f"-{d}E{e}")
            if rnd.random() < 0.3:
                out.append(Decimal(d).scaleb(e))
            if rnd.random() < 0.2:
                out.append(format(Decimal(d).scaleb(e), "f"))
    out += ["0", "-0", "0.0", "-0.00000000", "1", "1.", ".1", "0.1", "1.1", "0.00000001", "0.000000001", "0.123456789", "21000000", "21000000.0", "21000000.00000001", "20999999.99999999",
            "+1", " 1 ", "1_0", "1e1", "1E+1", "１", "٣", "1,5", "0x10", "1e-8", "1e-9", "1e400", "-1e-400", "1e-400", 1, 0, 21000000, 21000001, -1, 1.1, 0.1, 1e-8, 1e-9, 2.1e7, 1.5, 0.30000000000000004]
    if thorough:
        for _ in range(400):
            d, e = rnd.randint(0, 10**rnd.randint(1, 18)), rnd.randint(-14, 9)
            out.append(rnd.choice([f"{d}E{e}", Decimal(d).scaleb(e), format(Decimal(d).scaleb(e), "f")]))
    return out


NON_NUMBERS = ["", "abc", "NaN", "sNaN", "Infinity", "-Infinity", "1 2", "--1", "1e", "e1", "0x1p3", "１２", "nan"]


def read(q: Any) -> tuple[bool, int, int] | None:
    """The decimal number a quote spells (None: it spells none), read by Python's decimal in an exact context of its own."""
    with decimal.localcontext(decimal.Context(prec=200)):
        try:
            d = q if isinstance(q, Decimal) else Decimal(repr(q) if isinstance(q, float) else str(q))
        except decimal.InvalidOperation:
            return None
        if not d.is_finite():
            return None
        sign, digits, exp = d.as_tuple()
        return bool(sign), int("".join(map(str, digits)) or "0"), int(exp)


def record_conversions(run: Run, rnd: random.Random, thorough: bool, evs: list[dict[str, Any]]) -> None:
    from btclib.amount import btc_from_sats, sats_from_btc
    from btclib.fee import FeeRate

    qs = quotes(rnd, thorough)
    for ci, cspec in enumerate(CONTEXTS if thorough else CONTEXTS[:3]):
        for q in (qs if ci == 0 else qs[::3]) + NON_NUMBERS:
            r = read(q)
            with _ctx(cspec):
                a = outcome(lambda: sats_from_btc(q))
                b = outcome(lambda: FeeRate.from_sats_per_vbyte(q).sats_per_kvbyte)
                c = outcome(lambda: FeeRate.from_btc_per_kvbyte(q).sats_per_kvbyte)
            for op, o in (("btc", a), ("rate", b), ("btc", c)):
                o2 = o if isinstance(o, str) else nat(o)
                if r is None:
                    evs.append({"op": "nonnumber", "fn": op, "quote": repr(q), "ctx": ci, "out": o2})
                else:
                    evs.append({"op": op, "quote": repr(q), "ctx": ci, "neg": r[0], "digits": nat(r[1]), "exp": r[2], "out": o2})
        sats = [0, 1, 9, 10, 12345678, 99999999, 100000000, 123456789, 2099999999999999, 2100000000000000] + [rnd.randint(0, 21 * 10**14) for _ in range(60 if thorough else 10)]
        for s in sats:
            with _ctx(cspec):
                d = outcome(lambda: btc_from_sats(s))
            if isinstance(d, str):
                evs.append({"op": "nonnumber", "fn": "tobtc", "quote": str(s), "ctx": ci, "out": "ok-expected-got-" + d})
                continue
            t = read(d)
            evs.append({"op": "tobtc", "ctx": ci, "sats": nat(s), "digits": nat(t[1]), "exp": t[2]})
        for r_ in RATES + [rnd.randint(0, 10**12) for _ in range(20)]:
            with _ctx(cspec):
                d = outcome(lambda: FeeRate(sats_per_kvbyte=r_).sats_per_vbyte)
            t = read(d) if not isinstance(d, str) else None
            if t is None:
                evs.append({"op": "nonnumber", "fn": "torate", "quote": str(r_), "ctx": ci, "out": "ok-expected-got-" + str(d)})
            else:
                evs.append({"op": "torate", "ctx": ci, "rate": nat(r_), "digits": nat(t[1]), "exp": t[2]})
    for bad in (21 * 10**14 + 1, -1, 2**63, 10**30):
        o = outcome(lambda: btc_from_sats(bad))
        evs.append({"op": "nonnumber", "fn": "tobtc", "quote": str(bad), "ctx": 0, "out": o if isinstance(o, str) else "accepted"})


def record_dust(run: Run, rnd: random.Random, thorough: bool, evs: list[dict[str, Any]]) -> None:
    from btclib.fee import FeeRate, dust_threshold

    spks = [bytes.fromhex(x) for x in ("76a914" + "11" * 20 + "88ac", "a914" + "22" * 20 + "87", "0014" + "33" * 20, "0020" + "44" * 32, "5120" + "55" * 32, "21" + K1 + "ac", "6a", "6a0568656c6c6f", "",
                                       "51", "5121" + K1 + "51ae", "00", "0000", "6002aaaa", "5128" + "66" * 40, "5129" + "66" * 41, "4f20" + "55" * 32, "6120" + "55" * 32, "0014" + "33" * 19, "5102" + "77" * 2, "5101" + "77")]
    spks += [bytes(n) for n in (252, 253, 9999, 10000, 10001)] + [b"\x51" + bytes([n]) + bytes(n) for n in range(0, 42)]
    for spk in spks:
        for r in (3000, 0, 1, 1000, 999, 12345):
            evs.append({"op": "dust", "spk": spk.hex(), "rate": nat(r), "out": nat(dust_threshold(spk, FeeRate(sats_per_kvbyte=r)))})


def record_totals(run: Run, rnd: random.Random, thorough: bool, evs: list[dict[str, Any]]) -> None:
    """Output amounts around the money range, each and summed, handed to every object that carries outputs."""
    from btclib.fee import FeeRate
    from btclib.psbt.psbt import Psbt
    from btclib.script.script_pub_key import ScriptPubKey
    from btclib.tx import OutPoint, Tx, TxIn, TxOut
    from btclib.tx_builder import build_psbt

    M = 21_000_000 * 100_000_000
    spk = ScriptPubKey(bytes.fromhex("0014" + "99" * 20))
    kit = Kit()
    vin = [TxIn(OutPoint(bytes(range(32)), 0), b"", 0xFFFFFFFD)]
    cases = [[M], [M + 1], [M, 1], [M - 1, 1], [M - 1, 2], [M // 2, M // 2], [M // 2, M // 2 + 1], [1, 2, 3], [M, M - 1000], [0, M], [M, 0, 1], [2**63 - 1], [2**64 - 1], [M // 3] * 3, [M // 3 + 1] * 3]

    def outs(vals: list[int]) -> list[Any]:
        return [TxOut(v, spk, check_validity=False) for v in vals]

    for vals in cases:
        need = min(sum(vals), 4 * M) + 10**6          # inputs worth the payments and a million more, each within the range
        C = M - 10**5                                  # (the spent output shares its transaction with small decoys: the whole of it stays within the range)
        chunks = [C] * (need // C) + [need % C]
        ctxs = {
            "Tx": lambda: Tx(2, 0, vin, outs(vals)),
            "Tx.serialize": lambda: Tx(2, 0, vin, outs(vals), check_validity=False).serialize(include_witness=True),
            "Psbt.from_tx": lambda: Psbt.from_tx(Tx(2, 0, vin, outs(vals), check_validity=False)),
            "Psbt v0 assert_valid": lambda: Psbt.from_tx(Tx(2, 0, vin, outs(vals), check_validity=False), check_validity=False).assert_valid(),
            "Psbt v2 serialize": lambda: Psbt.from_tx(Tx(2, 0, vin, outs(vals), check_validity=False), check_validity=False).to_v2().serialize(),
            "build_psbt": lambda: build_psbt([kit.input("p2wpkh", k, v, k)[0] for k, v in enumerate(chunks)], outs(vals), FeeRate(sats_per_kvbyte=1000), None),
            "build_psbt with change": lambda: build_psbt([kit.input("p2wpkh", k, v, k)[0] for k, v in enumerate(chunks)], outs(vals), FeeRate(sats_per_kvbyte=1000), bytes.fromhex("0014" + "33" * 20)),
        }
        if M - 10**6 < sum(vals) <= M:          # the change itself would take the total past the range: not a statement about the payments
            del ctxs["build_psbt with change"]
        for ctx, fn in ctxs.items():
            r = outcome(fn)
            if isinstance(r, str) and r.startswith("foreign"):
                evs.append({"op": "nonnumber", "fn": f"total {ctx}", "quote": str(vals), "ctx": 0, "out": r})
                continue
            evs.append({"op": "total", "ctx": ctx, "values": [nat(v) for v in vals], "accepted": not isinstance(r, str)})


# --------------------------------------------------------------------------------------
# funding, estimates, signing


class Kit:
    """Signers, descriptors and input factories for every spendable script type."""

    def __init__(self) -> None:
        from btclib.bip32 import bip32
        from btclib.descriptors import descriptors
        from btclib.psbt_signer import SoftwareSigner, export_account

        self.X2 = bip32.rootxprv_from_seed(bytes(range(32)))
        self.s1, self.s2 = SoftwareSigner(X1), SoftwareSigner(self.X2)

        def acct(s: Any, x: str, path: str) -> str:
            return f"[{s.master_fingerprint.hex()}/{path[2:]}]" + bip32.xpub_from_xprv(bip32.derive(x, path))

        a, b = acct(self.s1, X1, "m/48h/0h/0h/2h"), acct(self.s2, self.X2, "m/48h/0h/0h/2h")
        self.kinds: dict[str, dict[str, Any]] = {}
        for purpose, typ in ((44, "p2pkh"), (49, "p2sh-p2wpkh"), (84, "p2wpkh"), (86, "p2tr")):
            receive, change = export_account(self.s1, f"m/{purpose}h/0h/0h")
            self.kinds[typ] = {"desc": receive, "change": change, "signers": [self.s1], "purpose": purpose}
        for typ, tmpl, signers, m in (("p2pk", "pk({a}/0/*)", [self.s1], 0), ("p2wsh-p2ms", "wsh(sortedmulti(2,{a}/0/*,{b}/0/*))", [self.s1, self.s2], 2),
                                      ("p2sh-p2ms", "sh(sortedmulti(2,{a}/0/*,{b}/0/*))", [self.s1, self.s2], 2), ("p2sh-p2wsh-p2ms", "sh(wsh(multi(1,{a}/0/*,{b}/0/*)))", [self.s1], 1),
                                      ("p2ms", "multi(1,{a}/0/*,{b}/0/*)", [self.s1], 1), ("p2wsh-p2ms-3", "wsh(multi(3,{a}/0/*,{b}/0/*,{a}/1/*))", [self.s1, self.s2], 3),
                                      # eight keys: a redeem script of 275 bytes, past the one-byte OP_PUSHDATA1 length
                                      ("p2sh-p2ms-8", "sh(multi(1," + ",".join("{a}/%d/*" % j for j in range(8)) + "))", [self.s1], 1),
                                      ("p2wsh-p2ms-8", "wsh(multi(2," + ",".join("{a}/%d/*" % j for j in range(7)) + ",{b}/0/*))", [self.s1, self.s2], 2),
                                      # around the 520 bytes a stack element may have, which a witness script is not held to: 15 keys are 513 bytes, 16 are 547 and the most the library takes;
                                      # and the 15 compressed keys that still fit a p2sh redeem script
                                      ("p2wsh-p2ms-15", "wsh(multi(1," + ",".join("{a}/%d/*" % j for j in range(15)) + "))", [self.s1], 1),
                                      ("p2wsh-p2ms-16", "wsh(multi(1," + ",".join("{a}/%d/*" % j for j in range(16)) + "))", [self.s1], 1),
                                      ("p2sh-p2wsh-p2ms-16", "sh(wsh(sortedmulti(2," + ",".join("{a}/%d/*" % j for j in range(15)) + ",{b}/0/*)))", [self.s1, self.s2], 2),
                                      ("p2sh-p2ms-15", "sh(multi(2," + ",".join("{a}/%d/*" % j for j in range(14)) + ",{b}/0/*))", [self.s1, self.s2], 2)):
            try:
                self.kinds[typ] = {"desc": descriptors.parse(tmpl.format(a=a, b=b)), "signers": signers, "m": m}
            except Exception as e:  # noqa: BLE001
                self.kinds[typ] = {"error": f"{type(e).__name__}: {e}"}
        self.kinds = {k: v for k, v in self.kinds.items() if "desc" in v}

    def input(self, typ: str, index: int, value: int, k: int, sighash: int = 0) -> tuple[Any, Any, dict[str, Any]]:
        """(PsbtIn carrying what its type is read from, the output it spends, the type record of the specification)."""
        from btclib.psbt.psbt import Psbt
        from btclib.script.script_pub_key import ScriptPubKey
        from btclib.tx import OutPoint, Tx, TxIn, TxOut

        kind = self.kinds[typ]
        d = kind["desc"]
        prev_out = TxOut(value, d.script_pub_key(index), check_validity=False)
        # the output spent sits among others of its transaction (0, 1 or 2 ahead of it, one behind), of other amounts and scripts: what an input is worth
        # and what it is locked by is read at the outpoint's index and nowhere else
        ahead = (k + index) % 3
        decoys = [TxOut(1234 + 1000 * j, ScriptPubKey(bytes.fromhex("0014") + bytes([0x70 + j]) * 20, check_validity=False), check_validity=False) for j in range(3)]
        prev_tx = Tx(vin=[TxIn(OutPoint(bytes([k + 1]) * 32, 0))], vout=[*decoys[:ahead], prev_out, decoys[2]], check_validity=False)
        p = Psbt.from_tx(Tx(vin=[TxIn(OutPoint(prev_tx.id, ahead))], vout=[TxOut(0, prev_out.script_pub_key)], check_validity=False), check_validity=False)
        p.inputs[0].non_witness_utxo = prev_tx
        p = d.update_psbt_input(p, 0, index)
        pin = p.inputs[0]
        pin.previous_tx_id, pin.output_index = prev_tx.id, ahead
        if sighash:
            pin.sig_hash_type = sighash
        base = re.sub(r"-\d+$", "", typ)
        rec: dict[str, Any] = {"type": base}
        if base == "p2pkh":
            rec["keylen"] = 33
        if base == "p2tr":
            rec["sighash"] = sighash
        if "p2ms" in base:
            rec["m"] = kind["m"]
            rec["scriptlen"] = len(pin.witness_script or pin.redeem_script)
        return pin, prev_out, rec

    def stages(self, psbt: Any, typs: list[str]) -> tuple[Any, Any]:
        """The psbt after every signer answered, and that psbt finalized (signing is deterministic: the same signatures `sign` ends with)."""
        from btclib.psbt.psbt import finalize
        from btclib.psbt_signer import request_signatures

        signers = []
        for t in typs:
            for s in self.kinds[t]["signers"]:
                if s not in signers:
                    signers.append(s)
        for s in signers:
            psbt = request_signatures(s, psbt)
        return psbt, finalize(psbt)

    def sign(self, psbt: Any, typs: list[str]) -> Any:
        from btclib.psbt.psbt import extract_tx, finalize
        from btclib.psbt_signer import request_signatures

        signers = []
        for t in typs:
            for s in self.kinds[t]["signers"]:
                if s not in signers:
                    signers.append(s)
        for s in signers:
            psbt = request_signatures(s, psbt)
        return extract_tx(finalize(psbt))


def change_scripts() -> dict[str, bytes | None]:
    return {"none": None, "p2wpkh": bytes.fromhex("0014" + "33" * 20), "p2tr": bytes.fromhex("5120" + "55" * 32), "p2pkh": bytes.fromhex("76a914" + "11" * 20 + "88ac"),
            "p2sh": bytes.fromhex("a914" + "22" * 20 + "87"), "p2wsh": bytes.fromhex("0020" + "44" * 32), "op_return": bytes.fromhex("6a0568656c6c6f")}


def fund_event(kit: Kit, typs: list[str], values: list[int], pays: list[tuple[int, bytes]], rate: int, change: bytes | None, dust_rate: int, index0: int = 0,
               sighash: int = 0) -> tuple[dict[str, Any], Any, list[Any]]:
    from btclib.fee import FeeRate
    from btclib.script.script_pub_key import ScriptPubKey
    from btclib.tx import OutPoint, Tx, TxIn, TxOut
    from btclib.tx_builder import build_psbt

    ins, prevs, recs = [], [], []
    for k, (t, v) in enumerate(zip(typs, values)):
        pin, prev, rec = kit.input(t, index0 + k, v, k, sighash)
        ins.append(pin)
        prevs.append(prev)
        recs.append(rec)
    outs = [TxOut(v, ScriptPubKey(spk, check_validity=False), check_validity=False) for v, spk in pays]
    payments_tx = Tx(2, 0, [TxIn(OutPoint(p.previous_tx_id, p.output_index), b"", 0xFFFFFFFF if p.sequence is None else p.sequence, check_validity=False) for p in ins], outs, check_validity=False)
    e: dict[str, Any] = {"op": "fund", "tx": payments_tx.serialize(include_witness=False, check_validity=False).hex(), "types": recs, "in_total": nat(sum(values)), "rate": nat(rate),
                         "dust_rate": nat(dust_rate), "change_spk": (change or b"").hex(), "has_change": change is not None, "kinds": typs}
    built = outcome(lambda: build_psbt(ins, outs, FeeRate(sats_per_kvbyte=rate), change, dust_fee_rate=FeeRate(sats_per_kvbyte=dust_rate)))
    if isinstance(built, str):
        e.update({"outcome": built, "fee": "", "change": "", "index": -1, "final": ""})
        return e, None, prevs
    e.update({"outcome": "ok", "fee": nat(built.fee), "change": nat(built.change), "index": -1 if built.change_index is None else built.change_index,
              "final": built.psbt.tx.serialize(include_witness=False, check_validity=False).hex()})
    return e, built, prevs


def record_funding(run: Run, rnd: random.Random, thorough: bool, evs: list[dict[str, Any]]) -> dict[str, int]:
    from btclib.fee import FeeRate, dust_threshold, fee_from_vsize

    kit = Kit()
    stats = {"funded": 0, "refused": 0, "signed": 0, "with_change": 0}
    kinds = sorted(kit.kinds)
    mixes = [[k] for k in kinds] + [["p2wpkh", "p2tr"], ["p2pkh", "p2sh-p2wpkh", "p2wpkh"], ["p2wsh-p2ms", "p2pk"], ["p2tr", "p2tr"], ["p2sh-p2ms", "p2wpkh", "p2tr"]]
    mixes = [m for m in mixes if all(k in kit.kinds for k in m)]
    pay_spk = bytes.fromhex("0014" + "99" * 20)
    changes = change_scripts()
    rates = [0, 1, 999, 1000, 1001, 2500, 10_000, 123_457] if thorough else [0, 999, 1001, 10_000]
    # 1. the decision around every boundary (no signing)
    for mix in mixes:
        for cname, cspk in changes.items():
            if not thorough and rnd.random() < 0.5 and cname not in ("none", "p2wpkh"):
                continue
            for rate in rates:
                dust_rate = rnd.choice([3000, 3000, 0, 1000, 30_000])
                for npay in ((0, 1, 2) if cspk is not None else (1, 2)):
                    pays = [(50_000 + 7 * j, pay_spk) for j in range(npay)]
                    out_total = sum(v for v, _ in pays)
                    # probe once with plenty to learn the two sizes, then sweep the input value across each boundary
                    probe, built, _ = fund_event(kit, mix, [10**7] * len(mix), pays, rate, cspk, dust_rate)
                    if built is None:
                        evs.append(probe)
                        stats["refused"] += 1
                        continue
                    vs = built.psbt.vsize_estimate()
                    fee_here = fee_from_vsize(vs, FeeRate(sats_per_kvbyte=rate))
                    dust = dust_threshold(cspk, FeeRate(sats_per_kvbyte=dust_rate)) if cspk is not None else 0
                    pivots = {out_total, out_total + fee_here, out_total + fee_here + dust, out_total + fee_here - (fee_from_vsize(43, FeeRate(sats_per_kvbyte=rate)))}
                    totals = sorted({p + d for p in pivots for d in (-2, -1, 0, 1, 2)} | {0, 10**7 * len(mix)})
                    for total in totals if thorough else rnd.sample(totals, min(len(totals), 9)):
                        if total < 0:
                            continue
                        values = [total // len(mix)] * len(mix)
                        values[0] += total - sum(values)
                        e, b2, _ = fund_event(kit, mix, values, pays, rate, cspk, dust_rate)
                        evs.append(e)
                        stats["funded" if b2 is not None else "refused"] += 1
                        stats["with_change"] += 1 if b2 is not None and b2.change_index is not None else 0
    # 1b. the number of outputs across a CompactSize width: the change output is the 253rd
    for npay in (251, 252, 253):
        for cname in ("p2wpkh", "none"):
            pays = [(1000 + j, pay_spk) for j in range(npay)]
            for total in (sum(v for v, _ in pays) + 40_000, sum(v for v, _ in pays) + 9_000):
                e, b2, _ = fund_event(kit, ["p2wpkh"], [total], pays, 1000, changes[cname], 3000)
                evs.append(e)
                stats["funded" if b2 is not None else "refused"] += 1
    # 2. estimate >= what the library's own signer and finalizer emit, over many keys (signature lengths vary with the key and message)
    rounds = 28 if thorough else 7
    for mix in mixes:
        for r in range(rounds):
            sighash = [0, 1, 0x81, 2, 0x83, 3, 0x82][r % 7] if "p2tr" in mix else [0, 0, 1, 0x81][r % 4]
            if sighash & 3 == 3 and len(mix) > 1:   # SIGHASH_SINGLE needs an output per input
                sighash = 0x81
            rate = rnd.choice([1000, 1001, 2500, 10_007])
            cname = rnd.choice(["p2wpkh", "p2tr", "none"])
            e, built, prevs = fund_event(kit, mix, [200_000 + r] * len(mix), [(60_000 + r, pay_spk)], rate, changes[cname], 3000, index0=3 * r, sighash=sighash)
            evs.append(e)
            if built is None:
                continue
            est = {"op": "estimate", "tx": e["final"], "types": e["types"], "weight": built.psbt.weight_estimate(), "vsize": built.psbt.vsize_estimate(), "kinds": mix}
            evs.append(est)
            signed = outcome(lambda: kit.sign(built.psbt, mix))
            if isinstance(signed, str):
                evs.append({"op": "nonnumber", "fn": "sign " + "+".join(mix), "quote": "", "ctx": 0, "out": "ok-expected-got-" + signed})
                continue
            stats["signed"] += 1
            evs.append({"op": "signed", "tx": signed.serialize(include_witness=True).hex(), "est_weight": est["weight"], "in_total": e["in_total"], "rate": e["rate"], "fee": e["fee"], "kinds": mix})
            # the estimate asked again along the way -- of the psbt the signers answered, and of the finalized one -- is held to the same clause
            for stage, staged in zip(("signed", "finalized"), kit.stages(built.psbt, mix)):
                w = outcome(lambda: staged.weight_estimate())
                if isinstance(w, str):
                    evs.append({"op": "nonnumber", "fn": f"weight_estimate of the {stage} psbt " + "+".join(mix), "quote": "", "ctx": 0, "out": "ok-expected-got-" + w})
                    continue
                evs.append({"op": "signed", "tx": signed.serialize(include_witness=True).hex(), "est_weight": w, "in_total": e["in_total"], "rate": e["rate"], "fee": e["fee"], "kinds": mix, "stage": stage})
    return stats


# --------------------------------------------------------------------------------------


def check(run: Run) -> None:
    thorough = run.tier == "thorough"
    rnd = random.Random(run.seed)
    run.rule = ("sizes: transactions and blocks with every count and length on both sides of each CompactSize boundary (252/253, 65535/65536), with and without witnesses; "
                "fees: 12 rates x 17+ sizes; quotes: 12 digit strings x 21 exponents in 4 spellings under 3-4 ambient decimal contexts; funding: every input script type and "
                "mixes x 7 change scripts x 4-8 rates x 0-2 payments with the input value swept +-2 satoshi across each decision boundary; signing: every mix signed by the "
                "library's signer over varying keys. Non-trivial = an event TLC recomputed from the specification (sizes from the grammar, fees and funding from Accounting)")
    run.assumptions = ["sat/kvB is the rate unit (FeeRate); a quote is read as the decimal number Python's decimal module reads it as",
                       "the estimate >= actual clause is checked for the script types the library's signer and finalizer complete: p2pkh, p2sh-p2wpkh, p2wpkh, p2tr key path, p2pk, "
                       "bare/p2sh/p2wsh/p2sh-p2wsh multisig; miniscript and taproot script paths (sized by a caller's SolutionSizer) are C15's"]
    # M: the funding decision
    for vs, cs in ((141, 31), (110, 43)) if thorough else ((141, 31),):
        res = tlc.run("FundingModel", cfg_text=MODEL_CFG.format(maxin=1400 if thorough else 900, vs=vs, cs=cs), workers=16)
        for v in res.violations:
            raise tlc.TLCFailure(f"FundingModel violates {v.name}:\n{v.text[:600]}")
        run.tlc(res, f"M FundingModel vs={vs}")
    evs: list[dict[str, Any]] = []
    record_sizes(run, rnd, thorough, evs)
    record_fees(run, rnd, thorough, evs)
    record_conversions(run, rnd, thorough, evs)
    record_dust(run, rnd, thorough, evs)
    record_totals(run, rnd, thorough, evs)
    stats = record_funding(run, rnd, thorough, evs)
    keep = ("op", "hex", "size", "stripped", "weight", "vsize", "script", "witness", "rate", "out", "avsize", "afee", "neg", "digits", "exp", "sats", "spk", "tx", "types", "est_weight",
            "in_total", "fee", "dust_rate", "change_spk", "has_change", "outcome", "change", "index", "final", "fn", "values", "accepted")
    compact = [{k: v for k, v in e.items() if k in keep} for e in evs]
    results, bad, diag = events.validate("C18Trace", compact, batch=4000, timeout=3000)
    for r in results:
        run.tlc(r, "V C18Trace")
    for k in bad:
        e = evs[k]
        small = {kk: (vv if not isinstance(vv, str) or len(vv) < 200 else vv[:200] + "...") for kk, vv in e.items()}
        if e["op"] in ("btc", "rate", "nonnumber", "tobtc", "torate"):
            key = f"accounting|{e.get('fn', e['op'])}|{'ambient decimal context' if e.get('ctx') else 'default context'}|{str(e.get('out'))[:40] if str(e.get('out')).startswith(('foreign', 'ok-expected')) else 'wrong answer'}{' ' + FOREIGN[0] if str(e.get('out')).endswith('foreign') and FOREIGN else ''}"
        elif e["op"] == "total":
            key = f"accounting|total|{e['ctx']}|accepted={e['accepted']}"
        elif e["op"] in ("fund", "estimate", "signed"):
            key = f"accounting|{e['op']}|{'+'.join(e.get('kinds', []))}"
        else:
            key = f"accounting|{e['op']}"
        run.violation(key, f"{e['op']}: the specification does not explain {small}; expected {diag.get(k)}", {"event": e, "expected": str(diag.get(k))})
    run.sample({"event": {k: (v if not isinstance(v, str) or len(v) < 120 else v[:120] + "...") for k, v in next(e for e in evs if e["op"] == "fund" and e["outcome"] == "ok").items()}})
    run.section("events", {"by_op": {op: sum(1 for e in evs if e["op"] == op) for op in sorted({e["op"] for e in evs})}, "funding": stats})
    if stats["signed"] < 10 or stats["with_change"] < 10 or stats["refused"] < 10:
        raise tlc.TLCFailure(f"C18 harness is vacuous: {stats}")
    run.count(evaluations=len(evs), validated=len(evs), nontrivial=len(evs))


def replay(path: str) -> int:
    import json

    body = json.load(open(path))
    e = body.get("event")
    if not e:
        return 0
    keep = ("op", "hex", "size", "stripped", "weight", "vsize", "script", "witness", "rate", "out", "avsize", "afee", "neg", "digits", "exp", "sats", "spk", "tx", "types", "est_weight",
            "in_total", "fee", "dust_rate", "change_spk", "has_change", "outcome", "change", "index", "final", "fn", "values", "accepted")
    results, bad, diag = events.validate("C18Trace", [{k: v for k, v in e.items() if k in keep}], workers=1)
    if bad:
        print(f"VIOLATION property=C18 replay={path}  # recorded event not explained by the specification; expected {diag.get(0)}")
        return 1
    return 0
