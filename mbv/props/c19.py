"""C19 -- hostile input is refused with library exceptions only; predicates are total.

Spec: Totality (outcome alphabet per entry-point kind, stream position), FaultEncoder (TLC enumerates transaction
encodings with up to two injected faults; the Wire grammar labels each must-accept / must-refuse), C19Trace.
Every registered entry point (binary parsers found by introspection + function parsers, text decoders, from_dict
constructors, verify-style predicates) is handed the encoder's corpus, structure-aware mutations of valid encodings,
type-confused JSON, and hostile text; accepted objects are handed to every consumer.
"""

from __future__ import annotations

import io
import json
import random
import signal
import time
from typing import Any, Callable

from .. import events, tlc
from ..core import Run
from . import c05

ENC_CFG = "SPECIFICATION ESpec\nCONSTANTS MaxFaults = {mf}\nWitnessed = {w}\nINVARIANT HonestAccepted\nINVARIANT Canonical\nINVARIANT Emit\nCHECK_DEADLOCK FALSE\n"
BUDGET_S = 6.0   # seconds of processor time per call (the longest call on the unchanged tree, a 284 KB descriptor text, takes 1.5)


class Timeout(Exception):
    pass


def _alarm(signum: int, frame: Any) -> None:
    raise Timeout()


def classify(fn: Callable[[], Any]) -> tuple[str, Any]:
    """('returned', value) | ('refused', None) | ('leaked:<class>', message) | ('timeout', None)."""
    from btclib.exceptions import BTClibException

    # the budget is processor time of this process (ITIMER_PROF), so that a loaded machine does not turn a slow call into a "hang";
    # wall time is only a distant backstop (a call that blocks without computing)
    signal.signal(signal.SIGPROF, _alarm)
    signal.signal(signal.SIGALRM, _alarm)
    signal.setitimer(signal.ITIMER_PROF, BUDGET_S)
    signal.setitimer(signal.ITIMER_REAL, 40 * BUDGET_S)
    try:
        v = fn()
        return "returned", v
    except BTClibException:
        return "refused", None
    except Timeout:
        return "timeout", None
    except RecursionError as e:
        return "leaked:RecursionError", str(e)[:80]
    except Exception as e:  # noqa: BLE001
        return f"leaked:{type(e).__name__}@{_site(e)}", str(e)[:120]
    finally:
        signal.setitimer(signal.ITIMER_PROF, 0)
        signal.setitimer(signal.ITIMER_REAL, 0)


class _Tracking(io.BytesIO):
    """A stream that remembers how far it was ever read."""

    high = 0

    def read(self, n: int | None = -1) -> bytes:  # type: ignore[override]
        b = super().read(n)
        self.high = max(self.high, self.tell())
        return b


def _site(e: BaseException) -> str:
    """module.function of the innermost library frame the exception passed through (stable across line changes)."""
    import traceback

    site = "outside-the-library"
    for fs in traceback.extract_tb(e.__traceback__):
        if "/btclib/" in fs.filename:
            site = fs.filename.split("/btclib/")[-1][:-3].replace("/", ".") + "." + fs.name
    return site


def encoder_corpus(run: Run, thorough: bool) -> list[tuple[bytes, bool]]:
    out: list[tuple[bytes, bool]] = []
    for w in ("TRUE", "FALSE"):
        res = tlc.run("FaultEncoder", cfg_text=ENC_CFG.format(mf=2 if thorough else (2 if w == "FALSE" else 1), w=w), workers=1, heap="4g")
        for v in res.violations:
            raise tlc.TLCFailure(f"FaultEncoder violates {v.name}:\n{v.text[:600]}")
        run.tlc(res, f"M+G FaultEncoder witnessed={w}")
        for v in res.printed_values():
            if isinstance(v, list) and len(v) == 4 and v[0] == "ENC":
                out.append((bytes(v[1]), bool(v[2])))
    if sum(1 for _, a in out if a) < 5:
        raise tlc.TLCFailure("FaultEncoder: fewer than 5 encodings the grammar accepts (vacuous)")
    return list(dict.fromkeys(out))


# --------------------------------------------------------------------------------------
# entry points


def binary_entry_points() -> dict[str, Callable[[bytes], Any]]:
    from btclib import base58, bech32
    from btclib.curves.sec_point import point_from_octets
    from btclib.descriptors import miniscript
    from btclib.psbt import psbt_utils
    from btclib.script import script, taproot
    from btclib.script.script_pub_key import ScriptPubKey

    eps: dict[str, Callable[[bytes], Any]] = {}
    for name, codec in c05.discover().items():
        eps[f"{name}.parse"] = lambda b, codec=codec: codec.parse(b, True)
        if codec.has_cv:
            eps[f"{name}.parse(check_validity=False)"] = lambda b, codec=codec: codec.parse(b, False)
    eps.update({
        "script.parse": script.parse, "taproot.parse": taproot.parse, "taproot.parse(exit_on_op_success)": lambda b: taproot.parse(b, True),
        "psbt_utils.deserialize_map": psbt_utils.deserialize_map, "psbt_utils.parse_leaf_script": psbt_utils.parse_leaf_script,
        "psbt_utils.parse_taproot_tree": psbt_utils.parse_taproot_tree, "psbt_utils.parse_taproot_bip32": psbt_utils.parse_taproot_bip32,
        "point_from_octets": point_from_octets, "point_from_octets(hybrid)": lambda b: point_from_octets(b, hybrid=True),
        "base58.decode": base58.decode, "bech32.decode": bech32.decode,
        "miniscript.from_script": lambda b: miniscript.from_script(b), "miniscript.from_script(tapscript)": lambda b: _ms_tap(b),
        "miniscript.reads_back": lambda b: miniscript.reads_back(b),
        "ScriptPubKey(bytes)": lambda b: ScriptPubKey(b).addresses, "ScriptPubKey(bytes).type": lambda b: ScriptPubKey(b, check_validity=False).type,
        "script.op_code_spans": lambda b: list(script.op_code_spans(b)),
        "sig_ops.count": lambda b: _sigops(b),
    })
    return eps


def _ms_tap(b: bytes) -> Any:
    from btclib.descriptors import miniscript

    return miniscript.from_script(b, "tapscript")


def _sigops(b: bytes) -> Any:
    from btclib.script import sig_ops

    return sig_ops.sig_op_count(b)


def script_corpus() -> list[bytes]:
    """Valid scripts of every template the library recognises, and compiled miniscripts."""
    from btclib.descriptors import miniscript
    from btclib.script import script

    k1 = bytes.fromhex("02c6047f9441ed7d6d3045406e95c07cd85c778e4b8cef3ca7abac09b95c709ee5")
    k2 = bytes.fromhex("02f9308a019258c31049344f85f89d5229b531c845836f99b08601f113bce036f9")
    ku = bytes.fromhex("04" + "c6047f9441ed7d6d3045406e95c07cd85c778e4b8cef3ca7abac09b95c709ee5" + "1ae168fea63dc339a3c58419466ceaeef7f632653266d0e1236431a950cfe52a")
    h20, h32 = bytes(range(20)), bytes(range(32))
    out = [script.serialize(x) for x in (
        [k1, "OP_CHECKSIG"], [ku, "OP_CHECKSIG"], ["OP_DUP", "OP_HASH160", h20, "OP_EQUALVERIFY", "OP_CHECKSIG"], ["OP_HASH160", h20, "OP_EQUAL"],
        ["OP_0", h20], ["OP_0", h32], ["OP_1", h32], ["OP_16", h32[:2]], ["OP_1", k1, "OP_1", "OP_CHECKMULTISIG"], ["OP_2", k1, k2, ku, "OP_3", "OP_CHECKMULTISIG"], ["OP_RETURN", b"hello"], ["OP_RETURN"],
        [k1[1:], "OP_CHECKSIG", k2[1:], "OP_CHECKSIGADD", "OP_2", "OP_NUMEQUAL"], ["OP_10", "OP_CHECKSEQUENCEVERIFY", "OP_DROP", k1, "OP_CHECKSIG"],
        ["OP_IF", k1, "OP_ELSE", 500000, "OP_CHECKLOCKTIMEVERIFY", "OP_DROP", k2, "OP_ENDIF", "OP_CHECKSIG"], ["OP_SIZE", 32, "OP_EQUALVERIFY", "OP_SHA256", h32, "OP_EQUAL"])]
    A, B, C = k1.hex(), k2.hex(), "03" + k1.hex()[2:]
    for expr in (f"and_v(v:pk({A}),older(10))", f"thresh(2,pk({A}),s:pk({B}),s:pk({C}))", f"or_d(pk({A}),and_v(v:pkh({B}),after(100)))", f"multi(2,{A},{B},{C})",
                 f"andor(pk({A}),sha256({h32.hex()}),pk({B}))", f"or_i(and_v(v:pkh({A}),hash160({h20.hex()})),older(1008))", f"and_b(pk({A}),a:pk({B}))", f"c:pk_h({A})",
                 f"t:or_c(pk({A}),and_v(v:pk({B}),or_c(pk({C}),v:hash160({h20.hex()}))))"):
        try:
            out.append(miniscript.parse(expr).script())
        except Exception:  # noqa: BLE001
            pass
    for expr in (f"and_v(v:pk({A[2:]}),older(10))", f"multi_a(2,{A[2:]},{B[2:]})"):
        try:
            out.append(miniscript.parse(expr, "tapscript").script())
        except Exception:  # noqa: BLE001
            pass
    return [bytes(x) for x in out]


def script_mutations(sc: bytes, rnd: random.Random, budget: int) -> list[bytes]:
    """Element-level near misses of a valid script: an element dropped, doubled, swapped, its push shortened, its op code replaced."""
    from btclib.script import script

    try:
        spans = [(a, b) for a, b, *_ in _spans(sc)]
    except Exception:  # noqa: BLE001
        return []
    els = [sc[a:b] for a, b in spans]
    out: list[bytes] = []
    ops = [b"\x00", b"\x51", b"\x60", b"\xae", b"\xac", b"\xad", b"\xba", b"\x87", b"\x88", b"\x69", b"\x63", b"\x68", b"\x67", b"\xb2", b"\xb1", b"\x76", b"\xa9", b"\xa8", b"\x82", b"\x4c", b"\x4e\xff\xff\xff\xff", b"\x01\xe4", b"\x02\x80\x80", b"\x4f"]
    for i in range(len(els)):
        out.append(b"".join(els[:i] + els[i + 1:]))
        out.append(b"".join(els[:i] + [els[i], els[i]] + els[i + 1:]))
        if i + 1 < len(els):
            out.append(b"".join(els[:i] + [els[i + 1], els[i]] + els[i + 2:]))
        for o in ops:
            out.append(b"".join(els[:i] + [o] + els[i + 1:]))
        out.append(b"".join(els[:i]))
        out.append(b"".join(els[i:]))
    # pairs: two elements replaced / dropped
    for _ in range(budget):
        e2 = list(els)
        for _k in range(2):
            if not e2:
                break
            i = rnd.randrange(len(e2))
            r = rnd.random()
            if r < 0.4:
                del e2[i]
            elif r < 0.8:
                e2[i] = rnd.choice(ops)
            else:
                e2.insert(i, rnd.choice(ops))
        out.append(b"".join(e2))
    uniq = list(dict.fromkeys(out))
    return uniq if len(uniq) <= 4 * budget else rnd.sample(uniq, 4 * budget)


def _spans(sc: bytes) -> list[tuple[int, int]]:
    """[start, end) of every element of a valid script (own reader: one-byte op codes and the four push forms)."""
    out, i = [], 0
    while i < len(sc):
        op, j = sc[i], i + 1
        if 1 <= op <= 75:
            j += op
        elif op == 76:
            j += 1 + sc[i + 1]
        elif op == 77:
            j += 2 + int.from_bytes(sc[i + 1:i + 3], "little")
        elif op == 78:
            j += 4 + int.from_bytes(sc[i + 1:i + 5], "little")
        out.append((i, min(j, len(sc))))
        i = j
    return out


SCRIPT_EPS = ("script.parse", "taproot.parse", "taproot.parse(exit_on_op_success)", "miniscript.from_script", "miniscript.from_script(tapscript)", "miniscript.reads_back",
              "ScriptPubKey(bytes)", "ScriptPubKey(bytes).type", "script.op_code_spans", "sig_ops.count")


def block_containers(block: bytes, txs: list[bytes]) -> list[bytes]:
    """A header followed by every small count and that many (or one fewer, or one more) transactions."""
    hdr = block[:80]
    out = []
    for n in (0, 1, 2, 3, 0xFC):
        for k in (n - 1, n, n + 1):
            if 0 <= k <= 4 and txs:
                out.append(hdr + bytes([n]) + b"".join(txs[i % len(txs)] for i in range(k)))
    out += [hdr + b"\xfd\x00\x00", hdr + b"\xfe\x00\x00\x00\x00", hdr + b"\xff" + bytes(8), hdr]
    return out


def block_shapes(block: bytes) -> list[bytes]:
    """Blocks of every header version class around the BIP34 switch whose coinbase script_sig is each short form a length field allows: empty,
    one op code (OP_0, OP_1, OP_16, OP_1NEGATE), a push that lacks its data, a push of 0..9 octets, an OP_PUSHDATA1 head.  Only an object
    parsed with check_validity off can hold most of them, and every property of that object (height included) is then asked for."""
    hdr = block[:80]
    out = []
    scripts = [b"", b"\x00", b"\x51", b"\x60", b"\x4f", b"\x01", b"\x03\x01", b"\x4c", b"\x4c\x05\x00", b"\x4e\xff\xff\xff\x7f", b"\xff", b"\x01\x80", b"\x08" + b"\xff" * 8,
               b"\x09" + b"\x01" * 9, b"\x03\x40\x0d\x03", b"\x00\x00", b"\x01\x00\x51"]
    for version in (1, 2, 3, 4, 0x20000000, 0xFFFFFFFF, 0):
        for sc in scripts:
            for prev in (bytes(32) + b"\xff" * 4, bytes(32) + bytes(4), bytes(range(32)) + b"\xff" * 4):
                cb = b"\x01\x00\x00\x00" + b"\x01" + prev + bytes([len(sc)]) + sc + b"\xff" * 4 + b"\x01" + (50 * 10**8).to_bytes(8, "little") + b"\x01\x51" + bytes(4)
                out.append(version.to_bytes(4, "little") + hdr[4:] + b"\x01" + cb)
    return out


def function_seeds() -> dict[str, list[bytes]]:
    """Valid inputs of the function parsers (what the class seeds are to the class parsers)."""
    from btclib import base58, bech32
    from btclib.psbt import psbt_utils as pu

    sc = script_corpus()
    pts = [bytes.fromhex("02c6047f9441ed7d6d3045406e95c07cd85c778e4b8cef3ca7abac09b95c709ee5"),
           bytes.fromhex("04" + "c6047f9441ed7d6d3045406e95c07cd85c778e4b8cef3ca7abac09b95c709ee5" + "1ae168fea63dc339a3c58419466ceaeef7f632653266d0e1236431a950cfe52a"),
           bytes.fromhex("06" + "c6047f9441ed7d6d3045406e95c07cd85c778e4b8cef3ca7abac09b95c709ee5" + "1ae168fea63dc339a3c58419466ceaeef7f632653266d0e1236431a950cfe52a")]
    cb = bytes([0xC0]) + bytes(range(32)) + bytes(64)
    kv = lambda k, v: bytes([len(k)]) + k + bytes([len(v)]) + v  # noqa: E731
    out: dict[str, list[bytes]] = {}
    for ep in ("script.parse", "taproot.parse", "taproot.parse(exit_on_op_success)", "miniscript.from_script", "miniscript.from_script(tapscript)", "miniscript.reads_back", "ScriptPubKey(bytes)",
               "ScriptPubKey(bytes).type", "script.op_code_spans", "sig_ops.count"):
        out[ep] = sc
    out["point_from_octets"] = out["point_from_octets(hybrid)"] = pts
    out["psbt_utils.deserialize_map"] = [kv(b"\x00", b"\x51") + kv(b"\x02" + pts[0], bytes(71)) + b"\x00", b"\x00"]
    out["psbt_utils.parse_leaf_script"] = [b"\x51\xc0", sc[0] + b"\xc0"]
    out["psbt_utils.parse_taproot_tree"] = [b"\x00\xc0\x01\x51", b"\x01\xc0\x01\x51\x01\xc0\x02\x51\x51"]
    out["psbt_utils.parse_taproot_bip32"] = [b"\x01" + bytes(32) + bytes.fromhex("d34db33f") + (0x80000056).to_bytes(4, "little") + bytes(4), b"\x00" + bytes.fromhex("d34db33f")]
    out["base58.decode"] = [base58.encode(bytes(range(25))), base58.encode(b"\x00" * 4)]
    out["bech32.decode"] = [b"bc1qw508d6qejxtdg4y5r3zarvary0c5xw7kv8f3t4", b"A12UEL5L"]
    return out


def exercise(obj: Any) -> list[tuple[str, str, Any]]:
    """Hand an accepted object to everything it offers: every public property and every method callable without arguments."""
    import inspect

    out = []
    for name in dir(type(obj)):
        if name.startswith("_") or name in ("parse", "from_dict", "from_address", "b64decode", "b58decode"):
            continue
        try:
            static = inspect.getattr_static(type(obj), name)
        except AttributeError:
            continue
        if isinstance(static, (classmethod, staticmethod)):
            continue
        if isinstance(static, property) or not callable(static):
            oc, val = classify(lambda: getattr(obj, name))
        else:
            try:
                params = [p for p in inspect.signature(static).parameters.values()][1:]
            except (TypeError, ValueError):
                continue
            if any(p.default is p.empty and p.kind in (p.POSITIONAL_ONLY, p.POSITIONAL_OR_KEYWORD, p.KEYWORD_ONLY) for p in params):
                continue
            oc, val = classify(lambda: getattr(obj, name)())
        out.append((f"{type(obj).__name__}.{name}", oc, val))
    return out


def text_entry_points() -> dict[str, Callable[[str], Any]]:
    from btclib import b32, b58, base58, bech32, bip21, bip322, descriptors
    from btclib.bip32 import der_path
    from btclib.bip32.bip32 import BIP32KeyData
    from btclib.descriptors import miniscript
    from btclib.ecc import bms, ecies
    from btclib.mnemonic import bip39, electrum
    from btclib.psbt.psbt import Psbt
    from btclib.script.script_pub_key import ScriptPubKey
    from btclib.to_prv_key import prv_keyinfo_from_prv_key
    from btclib.to_pub_key import pub_keyinfo_from_key

    eps: dict[str, Callable[[str], Any]] = {
        "base58.decode": base58.decode, "bech32.decode": bech32.decode, "b32.witness_from_address": b32.witness_from_address,
        "b58.h160_from_address": b58.h160_from_address, "BIP32KeyData.b58decode": BIP32KeyData.b58decode, "bms.Sig.b64decode": bms.Sig.b64decode,
        "bip322.Sig.b64decode": bip322.Sig.b64decode, "Psbt.b64decode": Psbt.b64decode, "ecies.Envelope.b64decode": ecies.Envelope.b64decode,
        "descriptors.checksum": descriptors.checksum, "descriptors.parse": descriptors.parse, "miniscript.parse": miniscript.parse,
        "ScriptPubKey.from_address": ScriptPubKey.from_address, "prv_keyinfo_from_prv_key": prv_keyinfo_from_prv_key,
        "pub_keyinfo_from_key": pub_keyinfo_from_key, "der_path.indexes_from_der_path": der_path.indexes_from_der_path,
        "bip39.entropy_from_mnemonic": lambda s: bip39.entropy_from_mnemonic(s, "en"), "bip39.seed_from_mnemonic": lambda s: bip39.seed_from_mnemonic(s, "", verify_checksum=True),
        "electrum.entropy_from_mnemonic": lambda s: electrum.entropy_from_mnemonic(s, "en"),
    }
    from btclib.mnemonic import slip39

    eps["bip21.Bip21.parse"] = bip21.Bip21.parse
    eps["slip39.share_from_mnemonic"] = slip39.share_from_mnemonic
    eps["slip39.master_secret_from_mnemonics"] = lambda s: slip39.master_secret_from_mnemonics([s, s], "")
    eps["bip322.verify(sig text)"] = lambda s: bip322.verify(b"m", "bc1q9vza2e8x573nczrlzms0wvx3gsqjx7vavgkx0l", s)
    from btclib import tx_or_psbt

    eps["tx_or_psbt_from_any"] = tx_or_psbt.tx_or_psbt_from_any
    return eps


def dict_entry_points() -> dict[str, tuple[Any, Any]]:
    """class name -> (from_dict, a valid dict to mutate)."""
    seeds = c05.seeds()
    codecs = c05.discover()
    out: dict[str, tuple[Any, Any]] = {}
    for name, c in codecs.items():
        if c.cls is None or not hasattr(c.cls, "from_dict") or not hasattr(c.cls, "to_dict"):
            continue
        src = seeds.get(name) or (c05.psbt_seeds()[:40] if name == "Psbt" else [])
        for s in src:
            try:
                d = json.loads(json.dumps(c.parse(s, True).to_dict()))
                out.setdefault(name, (c.cls.from_dict, d))
                break
            except Exception:  # noqa: BLE001
                continue
    # PsbtIn / PsbtOut dicts from a parsed PSBT with many fields
    try:
        from btclib.psbt.psbt import Psbt
        from btclib.psbt.psbt_in import PsbtIn
        from btclib.psbt.psbt_out import PsbtOut

        best_in, best_out = None, None
        for s in c05.psbt_seeds():
            try:
                p = Psbt.parse(s)
            except Exception:  # noqa: BLE001
                continue
            for i in p.inputs:
                d = json.loads(json.dumps(i.to_dict()))
                if best_in is None or sum(1 for v in d.values() if v) > sum(1 for v in best_in.values() if v):
                    best_in = d
            for o in p.outputs:
                d = json.loads(json.dumps(o.to_dict()))
                if best_out is None or sum(1 for v in d.values() if v) > sum(1 for v in best_out.values() if v):
                    best_out = d
        if best_in:
            out["PsbtIn"] = (PsbtIn.from_dict, best_in)
        if best_out:
            out["PsbtOut"] = (PsbtOut.from_dict, best_out)
    except Exception:  # noqa: BLE001
        pass
    # the one from_dict that is not a wire object: a network description
    from btclib.network import NETWORKS, Network

    out["Network"] = (Network.from_dict, json.loads(json.dumps(NETWORKS["mainnet"].to_dict())))
    return out


CONFUSIONS: list[Any] = [None, 0, -1, 1, 2**64, 2**300, 1.5, float("nan"), "", "zz", "00", "ff" * 33, [], [1], {}, {"a": 1}, True, "0" * 5000, [[[]]], "\ud800",
                         "0000-01-01T00:00:00+00:00", "0001-01-01T00:00:00+01:00", "9999-12-31T23:59:59-01:00", "1969-12-31T23:59:59+00:00", "2106-02-07T06:28:16+00:00",
                         "2009-01-09T02:54:25", "2009-01-09T02:54:25+25:00", "-0.00000001", "21000000.00000001", "1e400", "NaN", "mainnet", "regtest", -2**63 - 1, 0xFFFFFFFF + 1]


def mutate_json(d: Any, rnd: random.Random, budget: int) -> list[Any]:
    """Each leaf replaced by each value of another JSON type; keys dropped; nesting."""
    paths: list[list[Any]] = []

    def walk(x: Any, path: list[Any]) -> None:
        paths.append(path)
        if isinstance(x, dict):
            for k, v in x.items():
                walk(v, path + [k])
        elif isinstance(x, list):
            for i, v in enumerate(x[:3]):
                walk(v, path + [i])

    walk(d, [])
    out = []

    def put(x: Any, path: list[Any], val: Any, drop: bool = False) -> Any:
        if not path:
            return val
        y = dict(x) if isinstance(x, dict) else list(x)
        if len(path) == 1 and drop and isinstance(y, dict):
            y.pop(path[0], None)
            return y
        y[path[0]] = put(x[path[0]], path[1:], val, drop)
        return y

    def get(x: Any, path: list[Any]) -> Any:
        for k in path:
            x = x[k]
        return x

    first: list[Any] = []
    for p in paths:
        for v in CONFUSIONS:
            out.append(put(d, p, v))
        if p:
            out.append(put(d, p, None, drop=True))
        cur = get(d, p)
        if isinstance(cur, list) and cur:
            # a list that names one thing twice, that holds one element more of another type, that comes in another order:
            # what the byte form refuses as a duplicate key has to be refused (or answered) here too, never left to a dict underneath
            first += [put(d, p, cur + [cur[0]]), put(d, p, [cur[0]] + cur), put(d, p, cur[::-1]), put(d, p, cur + [None]), put(d, p, cur * 40)]
    rnd.shuffle(out)
    return first + out[: max(0, budget - len(first))]


HOSTILE_TEXT = ["", " ", "\x00", "1", "q" * 100, "1" * 5000, "bc1" + "q" * 90, "BC1SW50QA3JX3S", "tb1q", "xprv" + "1" * 107, "é" * 10, "\ud800", "\U0001F600" * 4, "a\x00b",
                "cHNidP8" + "A" * 50, "cHNidP8BAAoCAAAAAAAAAAAAAA==", "=" * 8, "AAAA", "pk(" * 500 + ")" * 500, "wsh(multi(" + "1," * 100 + "))", "older(" + "1" * 5000 + ")",
                "thresh(" + "9" * 5000 + ",pk(A))", "tr(" + "{" * 200, "and_v(" * 300, "m/" + "0/" * 300, "m/2147483648", "m/-1", "m/0h'", "m//", "/", "m/0x10", "bitcoin:", "bitcoin:?amount=",
                "bitcoin:1BvBMSEYstWetqTFn5Au4m4GFg7xJaNVN2?amount=1e400", "bitcoin:x?amount=NaN&amount=1", "abandon " * 11 + "about", "abandon " * 12, "abandon" + " " * 500 + "about",
                "#", "addr(bc1q)#12345678", "raw(zz)", "raw(" + "00" * 20000 + ")", "pkh([d34db33f/44'/0'/0']xpub/1/*)", "sh(sh(sh(pk(A))))"]


def mutate_text(s: str, rnd: random.Random, budget: int) -> list[str]:
    out = [s, s.upper(), s[:-1], s[1:], s + s, s + "\x00", " " + s + " ", s.replace("1", "l"), s[::-1]]
    for _ in range(budget):
        i = rnd.randrange(max(1, len(s)))
        c = rnd.choice(["", "\x00", "é", "0", "l", "O", "(", ")", ",", "#", "/", "'", "h", "*", "=", "+", " ", "\n", "\ud800", "𐀀"])
        out.append(s[:i] + c + s[i + (0 if rnd.random() < 0.5 else 1):])
    return list(dict.fromkeys(out))


def text_seeds() -> dict[str, list[str]]:
    from btclib import b32, b58
    from btclib.bip32 import bip32
    from btclib.mnemonic import bip39

    xprv = bip32.rootxprv_from_seed(bytes(range(32)))
    xpub = bip32.xpub_from_xprv(bip32.derive(xprv, "m/84h/0h/0h"))
    wif = b58.wif_from_prv_key(7)
    return {
        "addr": [b58.p2pkh(wif), b32.p2wpkh(wif), b58.p2wpkh_p2sh(wif)], "key": [xprv, xpub, wif],
        "descriptor": [f"wpkh({xpub}/0/*)", f"wsh(sortedmulti(2,{xpub}/0/*,{xpub}/1/*))", f"tr({xpub}/0/*,{{pk({xpub}/1/*),pk({xpub}/2/*)}})",
                       "pkh(02c6047f9441ed7d6d3045406e95c07cd85c778e4b8cef3ca7abac09b95c709ee5)"],
        "miniscript": ["and_v(v:pk(A),older(10))", "thresh(2,pk(A),s:pk(B),s:pk(C))", "or_d(pk(A),and_v(v:pkh(B),after(100)))"],
        "mnemonic": [bip39.mnemonic_from_entropy("0" * 128, "en")], "path": ["m/84h/0h/0h/0/5", "m/44'/0'/0'"],
        "uri": ["bitcoin:1BvBMSEYstWetqTFn5Au4m4GFg7xJaNVN2?amount=0.1&label=x"],
    }


def spelled_calls():
    """(name, call) pairs: `call(S, T)` makes one valid call of a public function, passing every Octets argument through S and every String
    (text-or-bytes) argument through T.  The harness runs each with S, T = identity and then with each other spelling of the same octets."""
    import hashlib
    from btclib import b32, b58, base58, bech32, bip322, hashes, var_bytes, var_int
    from btclib.bip32 import bip32
    from btclib.bip32.bip32 import BIP32KeyData
    from btclib.block.block_header import BlockHeader
    from btclib.curves import mult, secp256k1
    from btclib.curves.sec_point import bytes_from_point, point_from_octets
    from btclib.ecc import bms, dh, dsa, ssa, musig2, dleq
    from btclib.mnemonic import bip39, electrum
    from btclib.psbt.psbt import Psbt
    from btclib.script import script, taproot
    from btclib.script.script_pub_key import ScriptPubKey, type_and_payload
    from btclib.script.witness import Witness
    from btclib.to_prv_key import prv_keyinfo_from_prv_key
    from btclib.to_pub_key import pub_keyinfo_from_key, point_from_pub_key
    from btclib.tx import OutPoint, Tx, TxIn, TxOut

    q = 0x1234567890ABCDEF1234567890ABCDEF1234567890ABCDEF1234567890ABCDEF
    qb = q.to_bytes(32, "big")
    Q = mult(q)
    sec = bytes_from_point(Q, secp256k1)
    secu = bytes_from_point(Q, secp256k1, compressed=False)
    xonly = sec[1:]
    msg = b"a message"
    h = hashlib.sha256(msg).digest()
    dsig = dsa.sign(msg, q).serialize()
    ssig = ssa.sign(msg, q).serialize()
    wif = b58.wif_from_prv_key(q)
    addr = b58.p2pkh(wif)
    bsig = bms.sign(msg, wif).serialize()
    xprv = bip32.rootxprv_from_seed(bytes(range(32)))
    xkey = BIP32KeyData.b58decode(xprv).serialize()
    h160 = hashes.hash160(sec)
    spk = bytes.fromhex("0014") + h160
    tx = Tx(2, 0, [TxIn(OutPoint(bytes(range(32)), 1), b"", 0xFFFFFFFD)], [TxOut(1000, spk)])
    txb = tx.serialize(include_witness=True)
    hdr = bytes.fromhex("0100000000000000000000000000000000000000000000000000000000000000000000003ba3edfd7a7b12b27ac72c3e67768f617fc81bc3888a51323a9fb8aa4b1e5e4a29ab5f49ffff001d1dac2b7c")
    psbt_b = Psbt.from_tx(tx).serialize()
    calls = [
        ("hashes.sha256", lambda S, T: hashes.sha256(S(msg))), ("hashes.hash160", lambda S, T: hashes.hash160(S(sec))), ("hashes.hash256", lambda S, T: hashes.hash256(S(msg))),
        ("hashes.tagged_hash", lambda S, T: hashes.tagged_hash(b"TapLeaf", S(msg))),
        ("hashes.reduce_to_hlen", lambda S, T: hashes.reduce_to_hlen(T(msg))),
        ("dsa.sign", lambda S, T: dsa.sign(T(msg), S(qb)).serialize()), ("dsa.sign_", lambda S, T: dsa.sign_(S(h), S(qb)).serialize()),
        ("dsa.verify", lambda S, T: dsa.verify(T(msg), S(sec), S(dsig))), ("dsa.verify uncompressed", lambda S, T: dsa.verify(T(msg), S(secu), S(dsig))),
        ("dsa.verify_", lambda S, T: dsa.verify_(S(h), S(sec), S(dsig))), ("dsa.assert_as_valid", lambda S, T: dsa.assert_as_valid(T(msg), S(sec), S(dsig))),
        ("dsa.recover_pub_keys", lambda S, T: dsa.recover_pub_keys(T(msg), S(dsig))), ("dsa.Sig.parse", lambda S, T: dsa.Sig.parse(S(dsig))),
        ("ssa.sign", lambda S, T: ssa.sign(T(msg), S(qb), S(bytes(32))).serialize()), ("ssa.verify", lambda S, T: ssa.verify(T(msg), S(xonly), S(ssig))),
        ("ssa.verify_", lambda S, T: ssa.verify_(S(h), S(xonly), S(ssig))), ("ssa.Sig.parse", lambda S, T: ssa.Sig.parse(S(ssig))),
        ("ssa.batch_verify", lambda S, T: ssa.batch_verify([T(msg)], [S(xonly)], [S(ssig)])),
        ("bms.sign", lambda S, T: bms.sign(T(msg), wif).serialize()), ("bms.verify", lambda S, T: bms.verify(T(msg), addr, S(bsig))), ("bms.Sig.parse", lambda S, T: bms.Sig.parse(S(bsig))),
        ("point_from_octets", lambda S, T: point_from_octets(S(sec))), ("point_from_pub_key", lambda S, T: point_from_pub_key(S(sec))), ("pub_keyinfo_from_key", lambda S, T: pub_keyinfo_from_key(S(sec))),
        ("pub_keyinfo_from_key xkey", lambda S, T: pub_keyinfo_from_key(T(bip32.xpub_from_xprv(xprv).encode()))),
        ("prv_keyinfo_from_prv_key", lambda S, T: prv_keyinfo_from_prv_key(S(qb))), ("prv_keyinfo_from_prv_key xkey", lambda S, T: prv_keyinfo_from_prv_key(T(xprv.encode()))), ("prv_keyinfo_from_prv_key wif", lambda S, T: prv_keyinfo_from_prv_key(T(wif.encode()))),
        ("b58.p2pkh", lambda S, T: b58.p2pkh(S(sec))), ("b58.p2wpkh_p2sh", lambda S, T: b58.p2wpkh_p2sh(S(sec))), ("b32.p2wpkh", lambda S, T: b32.p2wpkh(S(sec))),
        ("b58.p2sh", lambda S, T: b58.p2sh(S(spk))), ("b32.p2wsh", lambda S, T: b32.p2wsh(S(spk))), ("b32.p2tr", lambda S, T: b32.p2tr(S(xonly))),
        ("b58.address_from_h160", lambda S, T: b58.address_from_h160("p2pkh", S(h160))), ("b32.address_from_witness", lambda S, T: b32.address_from_witness(0, S(h160))),
        ("b58.wif_from_prv_key", lambda S, T: b58.wif_from_prv_key(S(qb))),
        ("base58.encode", lambda S, T: base58.encode(S(h160))), ("base58.decode", lambda S, T: base58.decode(T(base58.encode(h160)))),
        ("b32.witness_from_address", lambda S, T: b32.witness_from_address(T(b32.p2wpkh(sec).encode()))),
        ("b58.h160_from_address", lambda S, T: b58.h160_from_address(T(addr.encode()))), ("ScriptPubKey.from_address", lambda S, T: ScriptPubKey.from_address(T(addr.encode())).script),
        ("var_int.parse", lambda S, T: var_int.parse(S(b"\xfd\x00\x01"))), ("var_bytes.parse", lambda S, T: var_bytes.parse(S(b"\x03abc"))), ("var_bytes.serialize", lambda S, T: var_bytes.serialize(S(msg))),
        ("ScriptPubKey()", lambda S, T: ScriptPubKey(S(spk)).address), ("ScriptPubKey.p2pkh", lambda S, T: ScriptPubKey.p2pkh(S(sec)).script), ("ScriptPubKey.p2pk", lambda S, T: ScriptPubKey.p2pk(S(sec)).script),
        ("ScriptPubKey.p2wpkh", lambda S, T: ScriptPubKey.p2wpkh(S(sec)).script), ("ScriptPubKey.p2sh", lambda S, T: ScriptPubKey.p2sh(S(spk)).script), ("ScriptPubKey.p2wsh", lambda S, T: ScriptPubKey.p2wsh(S(spk)).script),
        ("ScriptPubKey.p2tr", lambda S, T: ScriptPubKey.p2tr(S(sec)).script), ("ScriptPubKey.p2ms", lambda S, T: ScriptPubKey.p2ms(1, [S(sec), S(secu)]).script),
        ("ScriptPubKey.nulldata", lambda S, T: ScriptPubKey.nulldata(T(msg)).script), ("type_and_payload", lambda S, T: type_and_payload(S(spk))),
        ("script.parse", lambda S, T: script.parse(S(spk))), ("script.serialize", lambda S, T: script.serialize(["OP_DUP", S(h160), "OP_CHECKSIG"])),
        ("taproot.output_pubkey", lambda S, T: taproot.output_pubkey(S(sec), [(0xC0, ["OP_1"])])), ("taproot.leaf_hash", lambda S, T: taproot.leaf_hash(0xC0, S(b"\x51"))),
        ("taproot.output_pubkey_from_merkle_root", lambda S, T: taproot.output_pubkey_from_merkle_root(S(xonly), S(h))),
        ("Tx.parse", lambda S, T: Tx.parse(S(txb))), ("TxOut()", lambda S, T: TxOut(5, S(spk)).serialize()), ("OutPoint()", lambda S, T: OutPoint(S(h), 0).serialize()),
        ("TxIn()", lambda S, T: TxIn(OutPoint(h, 0), S(b"\x51"), 1).serialize()), ("Witness()", lambda S, T: Witness([S(b"ab"), S(b"")]).serialize()), ("Witness.parse", lambda S, T: Witness.parse(S(b"\x01\x02ab"))),
        ("BlockHeader.parse", lambda S, T: BlockHeader.parse(S(hdr)).hash), ("Psbt.parse", lambda S, T: Psbt.parse(S(psbt_b)).serialize()),
        ("BIP32KeyData.parse", lambda S, T: BIP32KeyData.parse(S(xkey)).b58encode()), ("bip32.rootxprv_from_seed", lambda S, T: bip32.rootxprv_from_seed(S(bytes(range(32))))),
        ("bip32.derive", lambda S, T: bip32.derive(T(xprv.encode()), "m/0h/1")), ("bip32.xpub_from_xprv", lambda S, T: bip32.xpub_from_xprv(T(xprv.encode()))),
        ("bip39.mnemonic_from_entropy", lambda S, T: bip39.mnemonic_from_entropy(S(bytes(range(16))), "en")), ("electrum.mnemonic_from_entropy", lambda S, T: electrum.mnemonic_from_entropy("standard", S(bytes(range(1, 17))), "en")),
        ("bms.verify text address", lambda S, T: bms.verify(T(msg), T(addr.encode()), S(bsig))),
        ("musig2.key_agg", lambda S, T: musig2.key_agg([S(sec), S(bytes_from_point(mult(q + 1), secp256k1))]).Q), ("musig2.key_sort", lambda S, T: musig2.key_sort([S(sec), S(bytes_from_point(mult(q + 1), secp256k1))])),
        ("bip322.message_hash", lambda S, T: bip322.message_hash(T(msg))) if hasattr(bip322, "message_hash") else ("hashes.sha1", lambda S, T: hashes.sha1(S(msg))),
    ]
    return calls


def deep_texts() -> list[str]:
    """Well-formed texts nested deeper than any bound, on the left and on the right: a parser answers or refuses, and never RecursionError."""
    K = "c6047f9441ed7d6d3045406e95c07cd85c778e4b8cef3ca7abac09b95c709ee5"
    out = []
    for n in (129, 130, 1100, 4000):
        out.append(f"tr({K}," + ("{pk(" + K + "),") * n + f"pk({K})" + "}" * n + ")")                     # right-nested tree
        out.append(f"tr({K}," + "{" * n + f"pk({K})" + (",pk(" + K + ")}") * n + ")")                      # left-nested tree
        out.append("and_v(v:pk(A)," * n + "pk(A)" + ")" * n)
        out.append("or_i(" * n + "pk(A)" + ",0)" * n)
        out.append("andor(pk(A),pk(B)," * n + "pk(C)" + ")" * n)
        out.append("thresh(1," * n + "pk(A)" + ")" * n)
        out.append("n" * n + ":pk(A)")
        out.append("wsh(" + "and_v(v:pk(A)," * n + "pk(A)" + ")" * n + ")")
        out.append("m" + "/0" * n)
    # every place a text holds a number, with a number of thousands of digits (zeros ahead of a small one, and nines): Python's own limit on integer texts
    # (4300 digits) is not the library's refusal
    K2 = "02" + K
    xpub = "xpub661MyMwAqRbcFtXgS5sYJABqqG9YLmC4Q1Rdap9gSE8NqtwybGhePY2gZ29ESFjqJoCu1Rupje8YtGqsefD265TMg7usUDFdp6W1EGMcet8"
    for num in ("0" * 5000 + "1", "9" * 5000, "1" + "0" * 4300):
        out += [f"multi({num},{K2})", f"multi(1,{K2},{K2})".replace("multi(1", f"multi({num}"), f"multi_a({num},{K})", f"sortedmulti({num},{K2})", f"sortedmulti_a({num},{K})", f"thresh({num},pk({K2}))",
                f"older({num})", f"after({num})", f"and_v(v:pk({K2}),older({num}))", f"wsh(multi({num},{K2}))", f"sh(sortedmulti({num},{K2}))", f"sh(wsh(multi({num},{K2},{K2})))", f"tr({K},multi_a({num},{K}))",
                f"tr({K},sortedmulti_a({num},{K}))", f"wsh(thresh({num},pk({K2})))", f"wsh(and_v(v:pk({K2}),after({num})))", f"wpkh({xpub}/{num})", f"wpkh({xpub}/{num}/*)", f"wpkh({xpub}/<{num};1>/*)",
                f"wpkh([d34db33f/{num}h]{xpub})", f"m/{num}", f"m/{num}h/0", f"bitcoin:1BvBMSEYstWetqTFn5Au4m4GFg7xJaNVN2?amount={num}", f"bitcoin:1BvBMSEYstWetqTFn5Au4m4GFg7xJaNVN2?amount=0.{num}"]
    return out


def psbt_consumers() -> dict[str, Callable[[Any], Any]]:
    """What an accepted PSBT is handed to: every role and every question a signer asks of it."""
    import copy

    from btclib.psbt import psbt as ps
    from btclib.psbt.psbt_view import PsbtView

    from .c18 import Kit

    kit = Kit()
    n_in = lambda p: range(min(len(p.inputs), 3))      # noqa: E731
    return {
        "finalize": lambda p: ps.finalize(copy.deepcopy(p)), "extract_tx(finalize)": lambda p: ps.extract_tx(ps.finalize(copy.deepcopy(p))), "combine([p, p])": lambda p: ps.combine([p, copy.deepcopy(p)]),
        "prevouts": ps.prevouts, "ecdsa_sig_hash": lambda p: [ps.ecdsa_sig_hash(p, i) for i in n_in(p)], "taproot_sig_hash": lambda p: [ps.taproot_sig_hash(p, i) for i in n_in(p)],
        "assert_signed": lambda p: ps.assert_signed(p, allow_partial=True), "assert_signatures_only(p, p)": lambda p: ps.assert_signatures_only(p, copy.deepcopy(p)),
        "new_signers(p, p)": lambda p: ps.new_signers(p, copy.deepcopy(p)), "SoftwareSigner.sign_psbt": lambda p: kit.s1.sign_psbt(copy.deepcopy(p)),
        "to_v2": lambda p: p.to_v2(), "to_v0": lambda p: p.to_v0(), "estimated_weight": lambda p: p.estimated_weight, "estimated_vsize": lambda p: p.estimated_vsize,
        "PsbtView sig hashes": lambda p: (lambda v: [(v.ecdsa_sig_hash(i) if not p.inputs[i].taproot_internal_key else v.taproot_sig_hash(i)) for i in n_in(p)])(PsbtView(p.serialize(check_validity=False))),
        "leaf_script": lambda p: [ps.leaf_script(pin, lh[32:]) for pin in p.inputs for lh in pin.taproot_script_spend_signatures],
    }


def psbt_objects(rnd: random.Random, thorough: bool) -> list[Any]:
    """PSBTs a parser accepts: the BIP vectors, library-made ones over every input type (unsigned, signed), and copies whose script fields hold a boundary
    script -- empty, one byte, a bare push, a truncated push -- with everything keyed by the script's hash re-keyed, so that the copy still parses."""
    import copy

    from btclib.hashes import hash160, sha256
    from btclib.psbt.psbt import Psbt, combine
    from btclib.script.script_pub_key import ScriptPubKey
    from btclib.script.taproot import leaf_hash
    from btclib.tx import TxOut

    from . import c11
    from .c18 import Kit

    out: list[Any] = []
    for b in c05.psbt_seeds()[: (40 if thorough else 12)]:
        try:
            out.append(Psbt.parse(b))
        except Exception:  # noqa: BLE001
            pass
    kit = Kit()
    c11.add_taproot_tree_kinds(kit)
    made = []
    for p0, _mix in c11.base_psbts(kit, rnd, thorough):
        made.append(p0)
        signed = p0
        for sg in (kit.s1, kit.s2):
            try:
                signed = combine([signed, sg.sign_psbt(signed)])
            except Exception:  # noqa: BLE001
                pass
        made.append(signed)
    out += made
    boundary = [b"", b"\x51", b"\xac", b"\x20" + bytes(32), b"\x20" + bytes(range(32)) + b"\xac", bytes(34), b"\x4c", b"\x4d\xff", b"\x6a", b"\x21" + bytes(33) + b"\xac"]
    for p in made:
        for k, pin in enumerate(p.inputs):
            for x in boundary:
                q = copy.deepcopy(p)
                qin = q.inputs[k]
                try:
                    if qin.taproot_leaf_scripts:
                        cb, (old, ver) = next(iter(qin.taproot_leaf_scripts.items()))
                        qin.taproot_leaf_scripts = {cb: (x, ver)}
                        lh_old, lh_new = leaf_hash(ver, old), leaf_hash(ver, x)
                        qin.taproot_script_spend_signatures = {key[:32] + lh_new if key[32:] == lh_old else key: v for key, v in qin.taproot_script_spend_signatures.items()}
                        if not qin.taproot_script_spend_signatures:
                            qin.taproot_script_spend_signatures = {bytes(range(32)) + lh_new: bytes(64)}
                        qin.taproot_key_spend_signature = b""
                    elif qin.witness_script:
                        qin.witness_script = x
                        spk = bytes.fromhex("0020") + sha256(x)
                        if qin.redeem_script:
                            qin.redeem_script = spk
                            spk = bytes.fromhex("a914") + hash160(qin.redeem_script) + b"\x87"
                        qin.witness_utxo = TxOut(qin.witness_utxo.value if qin.witness_utxo else 1000, ScriptPubKey(spk, check_validity=False), check_validity=False)
                        qin.non_witness_utxo = None
                    elif qin.redeem_script:
                        qin.redeem_script = x
                        qin.witness_utxo = None
                    else:
                        continue
                    out.append(Psbt.parse(q.serialize(check_validity=False), check_validity=False))
                except Exception:  # noqa: BLE001   (a copy that does not even write or parse is not an accepted object)
                    continue
    return out


def index_entry_points() -> dict[str, Callable[[Any], Any]]:
    """Functions that take a position in something (an input of a psbt or of a transaction, a derivation index, a leaf of a branch): any integer
    is either answered or refused, and never an IndexError from the list underneath."""
    from btclib.bip32 import bip32
    from btclib.descriptors import descriptors
    from btclib.hashes import hash256, merkle_root_from_branch
    from btclib.psbt import psbt as ps
    from btclib.psbt.psbt_view import PsbtView
    from btclib.script import sig_hash
    from btclib.script.engine import verify_input
    from btclib.script.script_pub_key import ScriptPubKey
    from btclib.tx import OutPoint, Tx, TxIn, TxOut

    spk = ScriptPubKey(bytes.fromhex("0014" + "11" * 20))
    tx = Tx(2, 0, [TxIn(OutPoint(bytes(range(32)), k), b"", 0xFFFFFFFD) for k in range(2)], [TxOut(1000, spk), TxOut(2000, spk)])
    prev = [TxOut(5000, spk), TxOut(6000, spk)]
    p = ps.Psbt.from_tx(tx)
    for pin, o in zip(p.inputs, prev):
        pin.witness_utxo = o
    raw = p.serialize()
    xprv = bip32.rootxprv_from_seed(bytes(range(32)))
    xpub = bip32.xpub_from_xprv(bip32.derive(xprv, "m/84h/0h/0h"))
    d = descriptors.parse(f"wpkh({xpub}/0/*)")
    h = bytes(range(32))
    return {
        "psbt.ecdsa_sig_hash": lambda i: ps.ecdsa_sig_hash(p, i), "psbt.taproot_sig_hash": lambda i: ps.taproot_sig_hash(p, i),
        "PsbtView.input": lambda i: PsbtView(raw).input(i), "PsbtView.output": lambda i: PsbtView(raw).output(i), "PsbtView.ecdsa_sig_hash": lambda i: PsbtView(raw).ecdsa_sig_hash(i),
        "PsbtView.taproot_sig_hash": lambda i: PsbtView(raw).taproot_sig_hash(i),
        "sig_hash.legacy": lambda i: sig_hash.legacy(b"\x51", tx, i, 1), "sig_hash.segwit_v0": lambda i: sig_hash.segwit_v0(b"\x51", tx, i, 1, 5000),
        "sig_hash.taproot": lambda i: sig_hash.taproot(tx, i, prev, 0, 0, b"", b""), "sig_hash.from_tx": lambda i: sig_hash.from_tx(prev, tx, i, 1), "engine.verify_input": lambda i: verify_input(prev, tx, i),
        "descriptor.script_pub_key": lambda i: d.script_pub_key(i), "descriptors.at_index": lambda i: descriptors.at_index(d, i), "bip32.derive": lambda i: bip32.derive(xpub, [i]),
        "bip32.derive xprv": lambda i: bip32.derive(xprv, [i]), "merkle_root_from_branch": lambda i: merkle_root_from_branch(h, [h, h[::-1]], i, hash256),
        "OutPoint": lambda i: OutPoint(h, i), "TxIn sequence": lambda i: TxIn(OutPoint(h, 0), b"", i), "TxOut value": lambda i: TxOut(i, spk), "Tx version": lambda i: Tx(i, 0, tx.vin, tx.vout),
        "Tx lock_time": lambda i: Tx(2, i, tx.vin, tx.vout),
    }


def length_entry_points() -> list[tuple[str, Callable[[], Any]]]:
    """Functions given lists that run parallel to the inputs of a transaction (previous outputs, amounts): every length of the lists x every
    position x every hash type is answered or refused, never an IndexError from the shorter list."""
    from btclib.script import sig_hash
    from btclib.script.engine import verify_input, verify_transaction
    from btclib.script.script_pub_key import ScriptPubKey
    from btclib.tx import OutPoint, Tx, TxIn, TxOut

    spk = ScriptPubKey(bytes.fromhex("5120" + "11" * 32))
    v0 = ScriptPubKey(bytes.fromhex("0014" + "11" * 20))
    out: list[tuple[str, Callable[[], Any]]] = []
    for n_in in (1, 3):
        tx = Tx(2, 0, [TxIn(OutPoint(bytes(range(32)), k), b"", 0xFFFFFFFD) for k in range(n_in)], [TxOut(1000, spk)] * 2)
        for ln in range(0, n_in + 3):
            prev = [TxOut(5000 + k, spk) for k in range(ln)]
            prev0 = [TxOut(5000 + k, v0) for k in range(ln)]
            for i in range(-1, n_in + 2):
                for ht in (0, 1, 2, 3, 0x81, 0x82, 0x83):
                    tag = f"{n_in} inputs, {ln} previous outputs, position {i}, hash type {ht:#x}"
                    out.append((f"sig_hash.taproot [{tag}]", lambda tx=tx, i=i, prev=prev, ht=ht: sig_hash.taproot(tx, i, prev, ht, 0, b"", b"")))
                    out.append((f"sig_hash.taproot script path [{tag}]", lambda tx=tx, i=i, prev=prev, ht=ht: sig_hash.taproot(tx, i, prev, ht, 1, b"", b"\x51")))
                    if ht:
                        out.append((f"sig_hash.from_tx [{tag}]", lambda tx=tx, i=i, prev0=prev0, ht=ht: sig_hash.from_tx(prev0, tx, i, ht)))
                out.append((f"engine.verify_input [{n_in} inputs, {ln} previous outputs, position {i}]", lambda tx=tx, i=i, prev=prev: verify_input(prev, tx, i)))
            out.append((f"engine.verify_transaction [{n_in} inputs, {ln} previous outputs]", lambda tx=tx, prev=prev: verify_transaction(prev, tx)))
    return out


def predicates() -> dict[str, Callable[[Any], Any]]:
    """verify-style predicates: each takes one hostile argument in the position that is attacker-controlled."""
    from btclib.curves import mult
    from btclib.ecc import bms, dsa, ssa
    from btclib import b58
    from btclib.hashes import merkle_root_from_branch  # noqa: F401

    h32 = bytes(range(32))
    Q = mult(7)
    sig = dsa.sign_(h32, 7)
    ssig = ssa.sign_(h32, 7, bytes(32))
    wif = b58.wif_from_prv_key(7)
    addr = b58.p2pkh(wif)
    msig = bms.sign(b"m", wif)
    return {
        "dsa.verify_(sig bytes)": lambda b: dsa.verify_(h32, Q, b), "dsa.verify_(key bytes)": lambda b: dsa.verify_(h32, b, sig),
        "dsa.verify_(hash bytes)": lambda b: dsa.verify_(b, Q, sig), "dsa.verify(msg)": lambda b: dsa.verify(b, Q, sig),
        "ssa.verify_(sig bytes)": lambda b: ssa.verify_(h32, Q[0], b), "ssa.verify_(key bytes)": lambda b: ssa.verify_(h32, b, ssig),
        "ssa.verify_(msg)": lambda b: ssa.verify_(b, Q[0], ssig), "ssa.batch_verify_(key bytes)": lambda b: ssa.batch_verify_([h32, h32], [Q[0], b], [ssig, ssig]),
        "ssa.batch_verify_(msg)": lambda b: ssa.batch_verify_([h32, b], [Q[0], Q[0]], [ssig, ssig]),
        "bms.verify(sig bytes)": lambda b: bms.verify(b"m", addr, b), "bms.verify(msg)": lambda b: bms.verify(b, addr, msig),
    }


def int_predicates() -> dict[str, Callable[[int], Any]]:
    from btclib.curves import CURVES, mult
    from btclib.ecc import dsa, ssa
    import hashlib

    h32 = bytes(range(32))
    ssig = ssa.sign_(h32, 7, bytes(32))
    r1 = CURVES["secp256r1"]
    s_r1 = ssa.sign_(h32, 7, bytes(32), r1)
    s_512 = ssa.sign_(h32, 7, bytes(64), hf=hashlib.sha512)
    sig = dsa.sign_(h32, 7)
    Q = mult(7)
    return {
        "ssa.verify_(int key)": lambda k: ssa.verify_(h32, k, ssig), "ssa.verify_(int key, secp256r1)": lambda k: ssa.verify_(h32, k, s_r1),
        "ssa.verify_(int key, sha512)": lambda k: ssa.verify_(h32, k, s_512, hashlib.sha512),
        "ssa.verify_(Sig r)": lambda k: ssa.verify_(h32, Q[0], ssa.Sig(k, ssig.s, check_validity=False)),
        "ssa.verify_(Sig s)": lambda k: ssa.verify_(h32, Q[0], ssa.Sig(ssig.r, k, check_validity=False)),
        "dsa.verify_(Sig r)": lambda k: dsa.verify_(h32, Q, dsa.Sig(k, sig.s, check_validity=False)),
        "dsa.verify_(Sig s)": lambda k: dsa.verify_(h32, Q, dsa.Sig(sig.r, k, check_validity=False)),
        "ssa.batch_verify_(Sig r)": lambda k: ssa.batch_verify_([h32, h32], [Q[0], Q[0]], [ssig, ssa.Sig(k, ssig.s, check_validity=False)]),
        "ssa.batch_verify_(Sig s)": lambda k: ssa.batch_verify_([h32, h32], [Q[0], Q[0]], [ssig, ssa.Sig(ssig.r, k, check_validity=False)]),
        "dsa.verify_(point x)": lambda k: dsa.verify_(h32, (k, Q[1]), sig), "dsa.verify_(point y)": lambda k: dsa.verify_(h32, (Q[0], k), sig),
    }


HOSTILE_INTS = [0, 1, -1, -2**255, 2**255, 2**256 - 1, 2**256, 2**256 + 1, 2**512, 2**4096, 0xFFFFFFFFFFFFFFFFFFFFFFFFFFFFFFFFFFFFFFFFFFFFFFFFFFFFFFFEFFFFFC2F,
                0xFFFFFFFFFFFFFFFFFFFFFFFFFFFFFFFEBAAEDCE6AF48A03BBFD25E8CD0364141]


def consumers() -> dict[str, Callable[[Any], Any]]:
    """What an accepted transaction is handed to."""
    from btclib.script import sig_hash
    from btclib.script.engine import verify_input
    from btclib.script.script_pub_key import ScriptPubKey
    from btclib.tx import TxOut

    def prev(tx: Any) -> list[Any]:
        return [TxOut(1000, ScriptPubKey(b"\x51", check_validity=False), check_validity=False) for _ in tx.vin]

    return {
        "tx.size/weight/vsize": lambda tx: (tx.size, tx.weight, tx.vsize), "tx.id/hash": lambda tx: (tx.id, tx.hash),
        "tx.to_dict": lambda tx: json.dumps(tx.to_dict(check_validity=False)), "tx.sig_op_count": lambda tx: tx.sig_op_count,
        "sig_hash.legacy": lambda tx: sig_hash.legacy(b"\x51", tx, 0, 1), "sig_hash.segwit_v0": lambda tx: sig_hash.segwit_v0(b"\x51", tx, 0, 1, 1000),
        "sig_hash.taproot": lambda tx: sig_hash.taproot(tx, 0, prev(tx), 0, 0, b"", b""), "sig_hash.from_tx": lambda tx: sig_hash.from_tx(prev(tx), tx, 0, 1),
        "engine.verify_input": lambda tx: verify_input(prev(tx), tx, 0),
    }


# --------------------------------------------------------------------------------------
# the caller's stream: sessions against module StreamSession


class _Growing(_Tracking):
    """The caller's socket buffer: octets are appended at the end, the position is the reader's."""

    def arrive(self, chunk: bytes) -> None:
        here = self.tell()
        self.seek(0, 2)
        self.write(chunk)
        self.seek(here)


def _session(evs: list[dict[str, Any]], parse: Callable[[Any], Any], blobs: list[bytes], heads: int, rewinds: bool, plan: list[int], follow_missing: bool, upfront: bool = False) -> None:
    """One reader session.  plan = chunk sizes to deliver when the reader runs dry (then `missing`, if followed)."""
    from btclib.exceptions import BTClibException, IncompleteMessageError

    wire = b"".join(blobs)
    evs.append({"ev": "open", "objs": [[heads, len(b) - heads] for b in blobs], "rewinds": rewinds, "wire": wire.hex()})
    st = _Growing()
    sent = 0
    plan = list(plan)
    if upfront:
        st.arrive(wire)
        sent = len(wire)
        evs.append({"ev": "arrive", "n": sent})
    for _ in range(4 * len(blobs) + len(plan) + 8):
        st.high = st.tell()
        e: dict[str, Any] = {"ev": "parse", "missing": 0}
        try:
            parse(st)
            e["outcome"] = "object"
        except IncompleteMessageError as exc:
            e["outcome"], e["missing"] = "incomplete", exc.missing
        except BTClibException:
            e["outcome"] = "refused"
        except Exception as exc:  # noqa: BLE001
            e["outcome"] = f"leaked:{type(exc).__name__}@{_site(exc)}"
        e["pos"], e["high"] = st.tell(), st.high
        evs.append(e)
        if e["outcome"] == "object":
            continue
        if e["outcome"] != "incomplete" or sent >= len(wire):
            return
        n = e["missing"] if follow_missing and e["missing"] > 0 else (plan.pop(0) if plan else len(wire) - sent)
        n = max(1, min(n, len(wire) - sent))
        st.arrive(wire[sent:sent + n])
        sent += n
        evs.append({"ev": "arrive", "n": n})


def stream_sessions(run: Run, thorough: bool, rnd: random.Random) -> list[dict[str, Any]]:
    from btclib.p2p.message import Message

    evs: list[dict[str, Any]] = []
    magic = bytes.fromhex("f9beb4d9")
    msgs = [Message(magic, c, p, check_validity=False).serialize(check_validity=False) for c, p in
            (("verack", b""), ("ping", bytes(8)), ("x", bytes(range(40))), ("pong", b"\x01" * 8), ("sendheaders", b""))]
    total = sum(len(m) for m in msgs)
    # every cut point: the first delivery ends after c octets, then the documented loop (ask for `missing`, call again)
    for c in range(0, total + 1):
        _session(evs, Message.parse, msgs, 24, True, [c], True)
    # every cut point again with the remainder trickling in one odd-sized chunk at a time
    for c in range(0, total + 1, 1 if thorough else 3):
        _session(evs, Message.parse, msgs, 24, True, [c] + [rnd.choice([1, 2, 5, 23, 24, 25]) for _ in range(60)], False)
    for _ in range(2000 if thorough else 200):
        ms = [rnd.choice(msgs) for _ in range(rnd.randint(1, 5))]
        _session(evs, Message.parse, ms, 24, True, [rnd.randint(1, 60) for _ in range(80)], rnd.random() < 0.5)
    # parsers that promise only the position after a success: objects back to back, everything already there
    seeds = c05.seeds()
    for name, codec in sorted(c05.discover().items()):
        blobs = [b for b in seeds.get(name, [])[:6] if b]
        if not blobs or name in ("Message",):
            continue
        ok = []
        for b in blobs:
            try:
                codec.parse(b, True)
                ok.append(b)
            except Exception:  # noqa: BLE001
                pass
        if not ok:
            continue
        for _ in range(6 if thorough else 2):
            seq = [rnd.choice(ok) for _ in range(rnd.randint(1, 4))]
            _session(evs, lambda st, codec=codec: codec.parse(st, True), seq, 0, False, [], False, upfront=True)
    return evs


def validate_streams(run: Run, evs: list[dict[str, Any]]) -> list[int]:
    import pathlib
    import tempfile

    keep = ("ev", "objs", "rewinds", "n", "outcome", "pos", "missing", "high")
    with tempfile.TemporaryDirectory(prefix="mbv-str-") as d:
        f = pathlib.Path(d) / "trace.ndjson"
        f.write_text("".join(json.dumps({k: v for k, v in e.items() if k in keep}) + "\n" for e in evs))
        cfg = "SPECIFICATION TSpec\nINVARIANT Consumed\nINVARIANT Report\nCHECK_DEADLOCK TRUE\n"
        res = tlc.run("StreamTrace", cfg_text=cfg, workers=1, env={"TRACE_FILE": str(f)}, heap="4g")
    run.tlc(res, "V StreamTrace")
    if res.violations:
        v = res.violations[0]
        raise tlc.TLCFailure(f"StreamTrace: the trace was not consumed ({v.kind}): {v.text[-800:]}")
    for val in res.printed_values():
        if isinstance(val, list) and val and val[0] == "REJECTED":
            return sorted(val[1])
    raise tlc.TLCFailure("StreamTrace: no final report")


def check(run: Run) -> None:
    thorough = run.tier == "thorough"
    rnd = random.Random(run.seed)
    run.rule = ("entry points = every class parse (by introspection, check_validity on/off) + function parsers + text decoders + from_dict "
                "constructors + verify-style predicates; inputs = the fault-injecting encoder's corpus (all single faults, pairs in the thorough tier), "
                "structure-aware mutations of a valid encoding of each class, type-confused JSON, hostile and mutated text, boundary integers; "
                "every transaction a parser accepted is handed to 9 consumers; each call under a budget of 6 s of processor time. Non-trivial = a call whose input is "
                "neither the seed itself nor refused at its first byte (counted: distinct (entry point, input) pairs)")
    run.assumptions = ["a library exception (BTClibValueError / TypeError / RuntimeError families) is a refusal; anything else is a leak",
                       "predicates bound: dsa/ssa/bms verification; check_output_pubkey and musig2 partial verification refuse by documented design and are not in the predicate set"]
    evs: list[dict[str, Any]] = []
    leaks: dict[str, dict[str, Any]] = {}

    def rec(kind: str, ep: str, inp: Any, outcome: str, detail: Any = None, extra: dict[str, Any] | None = None) -> None:
        e = {"kind": kind, "ep": ep, "outcome": outcome if kind != "predicate" or not outcome.startswith("returned") else outcome}
        if extra:
            e.update(extra)
        evs.append(e)
        if outcome.startswith("leaked") or outcome == "timeout":
            key = f"{ep}|{outcome}"
            leaks.setdefault(key, {"ep": ep, "outcome": outcome, "detail": detail, "input": inp})

    corpus = encoder_corpus(run, thorough)
    bins = binary_entry_points()
    seeds = c05.seeds()
    seeds["Psbt"] = c05.psbt_seeds()[: (12 if thorough else 4)]
    cons = consumers()
    fseeds = function_seeds()
    unseeded: list[str] = []
    from btclib.tx import Tx

    # 1. the encoder's corpus through the transaction-shaped parsers, accepted ones through every consumer
    tx_eps = {k: v for k, v in bins.items() if k.split(".")[0] in ("Tx", "TxPayload", "TxIn", "TxOut", "Witness", "PrefilledTransaction", "BlockTxn")}
    for b, must in corpus:
        for ep, f in tx_eps.items():
            oc, val = classify(lambda: f(b))
            rec("parser", ep, b.hex(), oc, val)
            if ep.startswith("Tx.parse") and (oc == "returned") != must and "check_validity=False" in ep:
                run.violation(f"hostile|Tx.parse|grammar|accepted={oc == 'returned'}", f"Tx.parse(check_validity=False) on {b.hex()}: {oc}, the wire grammar says accept={must}",
                              {"ep": ep, "input": b.hex(), "expected_accept": must})
            if oc == "returned" and isinstance(val, Tx) and val.vin:
                for cn, cf in cons.items():
                    oc2, v2 = classify(lambda: cf(val))
                    rec("consumer", cn, b.hex(), oc2, v2)
    n_corpus = len(evs)
    # 2. mutations of valid encodings through every binary entry point that has a seed, and cross-fed to a few others
    budget = 400 if thorough else 60
    for ep, f in sorted(bins.items()):
        base = ep.split(".parse")[0] if ".parse" in ep else None
        srcs = seeds.get(base or "", []) if base else []
        if not srcs:
            srcs = fseeds.get(ep, [])
        if not srcs:
            srcs = seeds["Tx"][:1] + [b"\x00", b"\xff" * 40, bytes(range(80))]
            unseeded.append(ep)
        exercised = 0
        scripty = ep in SCRIPT_EPS
        for s in (srcs if ep in fseeds else srcs[:3]):
            level1 = c05.mutations(s, rnd, budget if ep not in fseeds else max(40, budget // 3))
            if scripty:
                level1 = level1[:1] + script_mutations(s, rnd, 40 if thorough else 12) + level1[1:]
            if base == "Block":
                level1 = level1[:1] + block_containers(s, [b for b, ok in corpus if ok][:6]) + level1[1:]
            accepted: list[bytes] = []
            for depth, batch in ((1, level1), (2, None)):
                if batch is None:
                    # second level: near misses of the near misses that were accepted (a changed count, then the cut that fits it)
                    pool = accepted[:8] + rnd.sample(level1, min(len(level1), 4))
                    batch = [m2 for m1 in pool for m2 in c05.mutations(m1, rnd, 30 if thorough else 10)]
                for m in batch:
                    oc, val = classify(lambda: f(m))
                    rec("parser", ep, m.hex(), oc, val)
                    if oc == "returned" and m != s and depth == 1:
                        accepted.append(m)
                    # an accepted object is handed to everything it offers (a sample per entry point: the seed and accepted near misses)
                    if oc == "returned" and val is not None and exercised < (80 if thorough else 24) and type(val).__module__.startswith("btclib") and (m != s or exercised == 0):
                        exercised += 1
                        for cn, oc2, v2 in exercise(val):
                            rec("consumer", cn, m.hex(), oc2, v2)
        if base == "Block":
            for m in block_shapes(srcs[0]):
                oc, val = classify(lambda: f(m))
                rec("parser", ep, m.hex(), oc, val)
                if oc == "returned" and val is not None:
                    for cn, oc2, v2 in exercise(val):
                        rec("consumer", cn, m.hex(), oc2, v2)
        # streams: an accepted object read off a longer stream; the stream ends on the byte after it and nothing beyond was read.
        # needed = the shortest prefix that parses to the same object (found from the stream's own position: that prefix parses
        # to an equal object and one byte less does not)
        if base and base in c05.discover() and srcs and "check_validity=False" not in ep:
            codec = c05.discover()[base]
            for s in srcs[:3]:
                for tail in (b"\xaa\xbb\xcc", s):
                    st = _Tracking(s + tail)
                    oc, val = classify(lambda: codec.parse(st, True))
                    if oc != "returned":
                        continue
                    c = st.tell()
                    full = s + tail
                    oc1, v1 = classify(lambda: codec.parse(full[:c], True))
                    oc2, v2 = classify(lambda: codec.parse(full[:c - 1], True)) if c > 0 else ("refused", None)
                    needed = c if (oc1 == "returned" and v1 == val and not (oc2 == "returned" and v2 == val)) else (c - 1 if oc2 == "returned" and v2 == val else -1)
                    rec("parser", ep + " (stream)", full.hex(), oc, None, {"consumed": max(c, st.high), "needed": needed})
    # 3. text
    teps = text_entry_points()
    tseeds = text_seeds()
    texts = list(HOSTILE_TEXT) + deep_texts()
    for group in tseeds.values():
        for s in group:
            texts += mutate_text(s, rnd, 40 if thorough else 10)
    for ep, f in sorted(teps.items()):
        exercised = 0
        for t in texts:
            oc, val = classify(lambda: f(t))
            rec("parser", "text:" + ep, t, oc, val)
            # what a text parser accepted is handed on too (written back, measured, spelled): an object built from hostile text must not fail there
            if oc == "returned" and val is not None and type(val).__module__.startswith("btclib") and exercised < (40 if thorough else 12):
                exercised += 1
                for cn, oc2, v2 in exercise(val):
                    rec("consumer", cn, t, oc2, v2)
    # 4. from_dict with type-confused JSON
    for name, (fd, d) in sorted(dict_entry_points().items()):
        exercised = 0
        for m in mutate_json(d, rnd, 1500 if thorough else 250):
            for cv in (True, False):
                oc, val = classify(lambda: fd(m, check_validity=cv))
                rec("parser", f"{name}.from_dict" + ("" if cv else "(check_validity=False)"), m, oc, val)
                if oc == "returned" and cv and m != d and exercised < (60 if thorough else 15):
                    exercised += 1
                    for cn, oc2, v2 in exercise(val):
                        rec("consumer", cn, m, oc2, v2)
    # 5. predicates
    hostile_bytes = [b"", b"\x00", b"\x30", b"\x30\x00", b"\xff" * 64, b"\x00" * 64, b"\x00" * 65, bytes(33), b"\x02" + b"\xff" * 32, b"\x04" + bytes(64), bytes(31), bytes(32),
                     b"\x30\x06\x02\x01\x00\x02\x01\x00", b"\x30\x81\x00", b"\x30\x45" + bytes(69), bytes(range(70))] + [rnd.randbytes(rnd.choice([1, 32, 33, 64, 65, 72])) for _ in range(30)]
    for ep, f in sorted(predicates().items()):
        for b in hostile_bytes:
            oc, val = classify(lambda: f(b))
            if oc == "returned":
                oc = "true" if val is True else "false" if val is False else f"leaked:non-bool {type(val).__name__}"
            elif oc == "refused":
                oc = "leaked:refused-instead-of-False"
            rec("predicate", ep, b.hex(), oc, val)
    from btclib.script import script_pub_key as spk

    script_mut = [m for sc_ in script_corpus() for m in c05.mutations(sc_, rnd, 120 if thorough else 30)]
    for name in sorted(n for n in dir(spk) if n.startswith("is_") and callable(getattr(spk, n))):
        fn = getattr(spk, name)
        for b in script_mut:
            oc, val = classify(lambda: fn(b))
            if oc == "returned":
                oc = "true" if val is True else "false" if val is False else f"leaked:non-bool {type(val).__name__}"
            elif oc == "refused":
                oc = "leaked:refused-instead-of-False@script.script_pub_key." + name
            rec("predicate", "script_pub_key." + name, b.hex(), oc, val)
    for ep, f2 in sorted(int_predicates().items()):
        for k in HOSTILE_INTS:
            oc, val = classify(lambda: f2(k))
            if oc == "returned":
                oc = "true" if val is True else "false" if val is False else f"leaked:non-bool {type(val).__name__}"
            elif oc == "refused":
                oc = "leaked:refused-instead-of-False"
            rec("predicate", ep, str(k)[:40], oc, val)
    # 5b. accepted PSBTs through every role
    pcons = psbt_consumers()
    pobjs = psbt_objects(rnd, thorough)
    for p_ in pobjs:
        tag = p_.serialize(check_validity=False).hex()
        for cn, cf in pcons.items():
            oc, val = classify(lambda: cf(p_))
            rec("consumer", "psbt:" + cn, tag, oc, val)
    # 6. positions: any integer where a position is asked for
    hostile_pos = [0, 1, 2, 3, -1, -2, 255, 256, 2**16, 2**31 - 1, 2**31, 2**32 - 1, 2**32, 2**63, 2**64, -(2**31), -(2**63) - 1, True, 10**30]
    for ep, f3 in sorted(index_entry_points().items()):
        for k in hostile_pos:
            oc, val = classify(lambda: f3(k))
            rec("parser", "index:" + ep, repr(k), oc, val)
    for ep, f4 in length_entry_points():
        oc, val = classify(f4)
        rec("parser", "lengths:" + ep.split(" [")[0], ep, oc, val)
    # 7. spellings: the octets of a valid call given as a bytearray and as a memoryview answer as the bytes do
    def _norm(x: Any) -> Any:
        if isinstance(x, (bytearray, memoryview)):
            return bytes(x)
        if isinstance(x, (list, tuple)):
            return tuple(_norm(y) for y in x)
        return x

    n_spelled = 0
    for name, call in spelled_calls():
        oc0, v0 = classify(lambda: call(lambda b: b, lambda b: b))
        if oc0 != "returned":
            raise tlc.TLCFailure(f"C19 harness: the reference call {name} is not valid any more ({oc0}: {v0})")
        for vn, conv in (("bytearray", bytearray), ("memoryview", memoryview)):
            oc, val = classify(lambda: call(conv, conv))
            same = oc == "returned" and _norm(val) == _norm(v0)
            rec("variant", f"spelling:{name} as {vn}", vn, oc, val, {"same": same})
            n_spelled += 1
            if oc == "returned" and not same:
                leaks.setdefault(f"spelling:{name} as {vn}|differs", {"ep": name, "outcome": "differs", "detail": f"{str(_norm(val))[:80]} instead of {str(_norm(v0))[:80]}", "input": vn})
    # ---- reader sessions on a caller's stream against StreamSession ----
    sevs = stream_sessions(run, thorough, rnd)
    opens = [k for k, e in enumerate(sevs) if e["ev"] == "open"]
    for k in validate_streams(run, sevs):
        e = sevs[k - 1]
        o = max(x for x in opens if x < k)
        session = sevs[o:([x for x in opens if x > o] or [len(sevs)])[0]]
        name = "Message.parse" if sevs[o]["rewinds"] else "parse off a stream"
        what = e["outcome"] if e["outcome"].startswith("leaked") else "stream position"
        run.violation(f"hostile|stream|{name}|{what}", f"{name}: call {k - 1 - o} of a session answered {e['outcome']} pos={e['pos']} missing={e['missing']} read up to {e['high']}; "
                      f"the specification of the stream does not allow it (objects {sevs[o]['objs']})", {"session": session, "rejected_event": e})
    run.section("stream_sessions", {"sessions": len(opens), "events": len(sevs), "message_sessions": sum(1 for k in opens if sevs[k]["rewinds"])})
    # ---- the trace against the outcome alphabet ----
    compact = [{k: v for k, v in e.items() if k in ("kind", "outcome", "consumed", "needed", "same")} for e in evs]
    results, bad, diag = events.validate("C19Trace", compact, batch=40000)
    for r in results:
        run.tlc(r, "V C19Trace")
    for k in bad:
        e = evs[k]
        if "consumed" in e and e["outcome"] == "returned" and e["consumed"] != e["needed"]:
            run.violation(f"hostile|{e['ep']}|stream position", f"{e['ep']}: read {e['consumed']} bytes off the stream for an object of {e['needed']}", {"event": e})
            continue
        if e.get("same") is False and e["outcome"] == "returned":
            lk = leaks.get(f"{e['ep']}|differs", {})
            run.violation(f"hostile|{e['ep']}|differs", f"{e['ep']}: {lk.get('detail')}", {"ep": e["ep"], "outcome": "differs", "input": lk.get("input"), "detail": lk.get("detail")})
            continue
        lk = leaks.get(f"{e['ep']}|{e['outcome']}", {})
        run.violation(f"hostile|{e['outcome']}", f"{e['ep']}: {e['outcome']} ({lk.get('detail')}) on {str(lk.get('input'))[:160]}",
                      {"ep": e["ep"], "outcome": e["outcome"], "input": lk.get("input"), "detail": lk.get("detail")})
    run.sample({"encoder corpus": [b.hex() for b, a in corpus if a][:2] + [b.hex() for b, a in corpus if not a][:3]})
    run.sample({"event": evs[n_corpus + 10]})
    by_kind = {k: sum(1 for e in evs if e["kind"] == k) for k in ("parser", "predicate", "consumer", "variant")}
    run.section("calls", {"by_kind": by_kind, "entry_points": len({e["ep"] for e in evs}), "entry_points_without_a_valid_seed": unseeded, "encoder_corpus": len(corpus),
                          "outcomes": {o: sum(1 for e in evs if e["outcome"].split(":")[0] == o) for o in ("returned", "refused", "true", "false", "leaked", "timeout")}})
    run.count(evaluations=len(evs) + len(sevs), validated=len(evs) + len(sevs), nontrivial=len({(e["ep"], e["outcome"]) for e in evs}) + by_kind["consumer"])


def replay(path: str) -> int:
    body = json.load(open(path))
    ep, inp = body.get("ep"), body.get("input")
    if not ep or inp is None:
        return 0
    table: dict[str, Any] = {}
    table.update(binary_entry_points())
    table.update({"text:" + k: v for k, v in text_entry_points().items()})
    table.update({k + ".from_dict": v[0] for k, v in dict_entry_points().items()})
    table.update(predicates())
    f = table.get(ep)
    if f is None:
        print("replay: entry point not replayable in isolation; re-run ./check C19 --tier quick")
        return 0
    arg: Any = inp
    if not ep.startswith("text:") and not ep.endswith(".from_dict"):
        try:
            arg = bytes.fromhex(inp)
        except ValueError:
            return 0
    oc, val = classify(lambda: f(arg))
    if oc.startswith("leaked") or oc == "timeout" or (ep in predicates() and oc == "refused"):
        print(f"VIOLATION property=C19 replay={path}  # {ep}: {oc} {val}".encode("ascii", "backslashreplace").decode())
        return 1
    return 0
