"""C11 -- PSBT roles are lossless, order-independent and never alias their arguments.

Spec: PsbtRoles (the Combiner as the union of key-value pairs map by map, the computed tx_modifiable, what a signer's answer
may add, the transaction a PSBT describes), PsbtRolesModel (the coordinator / signers machine), C11Trace.
"""

from __future__ import annotations

import copy
import dataclasses
import io
import itertools
import random
from typing import Any

from .. import events, tlc
from ..core import Run
from . import c05
from .c18 import Kit

MODEL_CFG = "SPECIFICATION Spec\nCONSTANTS Signers = {{{s}}}\nPairs = {{10, 11}}\nINVARIANT Lossless\nINVARIANT NothingInvented\nINVARIANT OnlySignaturesAccepted\nINVARIANT NothingDropped\nINVARIANT BaseKept\nPROPERTY Idempotent\nCHECK_DEADLOCK FALSE\n"


def outcome(fn: Any) -> Any:
    from btclib.exceptions import BTClibException

    try:
        return fn()
    except BTClibException:
        return "refused"
    except Exception as e:  # noqa: BLE001
        return f"foreign:{type(e).__name__}"


# --------------------------------------------------------------------------------------
# the wire level: a PSBT as maps of key-value pairs


def split_maps(b: bytes) -> list[list[tuple[bytes, bytes]]] | None:
    from btclib import var_int

    st = io.BytesIO(b[5:])
    maps: list[list[tuple[bytes, bytes]]] = []
    try:
        while st.tell() < len(b) - 5:
            m = []
            while True:
                kl = var_int.parse(st)
                if kl == 0:
                    break
                k = st.read(kl)
                v = st.read(var_int.parse(st))
                m.append((k, v))
            maps.append(m)
    except Exception:  # noqa: BLE001
        return None
    return maps


def join_maps(maps: list[list[tuple[bytes, bytes]]]) -> bytes:
    return b"psbt\xff" + b"".join(b"".join(c05._kv(k, v) for k, v in m) + b"\x00" for m in maps)


def n_inputs(maps: list[list[tuple[bytes, bytes]]]) -> int:
    from btclib.tx import Tx

    g = dict(maps[0])
    if b"\x04" in g and g.get(b"\xfb", b"\0")[0] == 2:
        return g[b"\x04"][0]
    return len(Tx.parse(g[b"\x00"], check_validity=False).vin)


def structural(scope: str, key: bytes) -> bool:
    t = key[0]
    return (scope == "global" and t in (0, 2, 3, 4, 5, 0xFB)) or (scope == "input" and t in (14, 15, 17, 18)) or (scope == "output" and t in (3, 4))


def scope_of(maps: list[Any], j: int) -> str:
    return "global" if j == 0 else "input" if j <= n_inputs(maps) else "output"


# --------------------------------------------------------------------------------------
# object graphs: what a result shares with its arguments


def mutable_ids(o: Any, seen: dict[int, Any]) -> None:
    if isinstance(o, (bytes, str, int, float, bool, type(None))):
        return
    if id(o) in seen:
        return
    if isinstance(o, (list, dict, set, bytearray)):
        seen[id(o)] = o
    elif dataclasses.is_dataclass(o) and not isinstance(o, type):
        if not getattr(type(o), "__dataclass_params__").frozen:
            seen[id(o)] = o
    elif hasattr(o, "__dict__") and type(o).__module__.startswith("btclib"):
        seen[id(o)] = o
    if isinstance(o, dict):
        for k, v in o.items():
            mutable_ids(k, seen)
            mutable_ids(v, seen)
    elif isinstance(o, (list, tuple, set, frozenset)):
        for v in o:
            mutable_ids(v, seen)
    elif hasattr(o, "__dict__"):
        for v in vars(o).values():
            mutable_ids(v, seen)
    elif hasattr(o, "__slots__"):
        for n in o.__slots__:
            if hasattr(o, n):
                mutable_ids(getattr(o, n), seen)


def shared(result: Any, args: list[Any]) -> int:
    a: dict[int, Any] = {}
    mutable_ids(result, a)
    n = 0
    for x in args:
        b: dict[int, Any] = {}
        mutable_ids(x, b)
        n += len(set(a) & set(b))
    return n


def role_event(role: str, fn: Any, args: list[Any], evs: list[dict[str, Any]]) -> Any:
    """Run one role on PSBT arguments and record what it did to them and to the transaction."""
    before = [a.serialize(check_validity=False).hex() for a in args]
    res = outcome(lambda: fn(*args))
    after = [a.serialize(check_validity=False).hex() for a in args]
    if isinstance(res, str):
        evs.append({"op": "role", "role": role, "before": before[0], "after": before[0], "args_before": before, "args_after": after, "shared": 0, "refused": res, "check_tx": False})
        return None
    psbt = res[0] if isinstance(res, tuple) else res
    evs.append({"op": "role", "role": role, "before": before[0], "after": psbt.serialize(check_validity=False).hex(), "args_before": before, "args_after": after, "shared": shared(psbt, args), "check_tx": not role.startswith("combine")})
    return psbt


# --------------------------------------------------------------------------------------


def add_taproot_tree_kinds(kit: Kit) -> None:
    """Taproot outputs with a script tree: one signer holds the internal key AND a leaf key (it answers with a key-path and a script-path
    signature in one round), the other a second leaf; and a 2-of-2 multi_a leaf."""
    from btclib.bip32 import bip32
    from btclib.descriptors import descriptors

    def acct(s: Any, x: str, path: str) -> str:
        return f"[{s.master_fingerprint.hex()}/{path[2:]}]" + bip32.xpub_from_xprv(bip32.derive(x, path))

    from .c18 import X1

    a, b = acct(kit.s1, X1, "m/86h/0h/7h"), acct(kit.s2, kit.X2, "m/86h/0h/7h")
    kit.kinds["p2tr-tree"] = {"desc": descriptors.parse(f"tr({a}/0/*,{{pk({a}/1/*),pk({b}/0/*)}})"), "signers": [kit.s1, kit.s2]}
    kit.kinds["p2tr-multi_a"] = {"desc": descriptors.parse(f"tr({b}/2/*,multi_a(2,{a}/3/*,{b}/3/*))"), "signers": [kit.s1, kit.s2]}


def base_psbts(kit: Kit, rnd: random.Random, thorough: bool) -> list[tuple[Any, list[str]]]:
    """Updated, unsigned PSBTs over several input types (v0), and their v2 forms with BIP370 fields set."""
    from btclib.fee import FeeRate
    from btclib.script.script_pub_key import ScriptPubKey
    from btclib.tx import TxOut
    from btclib.tx_builder import build_psbt

    out = []
    # (the last mix: one signer holds several keys of an input, so its answer adds several signatures to it)
    mixes = [["p2wpkh", "p2wsh-p2ms", "p2tr"], ["p2pkh", "p2sh-p2wpkh"], ["p2tr", "p2tr"], ["p2sh-p2ms", "p2wpkh"], ["p2tr-tree", "p2tr-multi_a"],
             ["p2wsh-p2ms-3", "p2sh-p2ms-8"]] + ([["p2wsh-p2ms-3", "p2pk"], ["p2sh-p2wsh-p2ms", "p2tr", "p2pkh"]] if thorough else [])
    for r, mix in enumerate(mixes):
        ins = [kit.input(t, 5 * r + k, 150_000 + k, k)[0] for k, t in enumerate(mix)]
        if any("p2tr-" in t for t in mix):              # the builder has no size estimate for a script path: the Creator and Updater by hand
            from btclib.psbt.psbt import Psbt
            from btclib.tx import OutPoint, Tx, TxIn

            tx = Tx(2, 0, [TxIn(OutPoint(pin.previous_tx_id, pin.output_index), b"", 0xFFFFFFFD) for pin in ins],
                    [TxOut(70_000, ScriptPubKey(bytes.fromhex("0014" + "99" * 20), check_validity=False)), TxOut(200_000, ScriptPubKey(bytes.fromhex("5120" + "55" * 32), check_validity=False))])
            p0 = Psbt.from_tx(tx, check_validity=False)
            for k, (t, pin) in enumerate(zip(mix, ins)):
                p0.inputs[k].non_witness_utxo = pin.non_witness_utxo
                p0 = kit.kinds[t]["desc"].update_psbt_input(p0, k, 5 * r + k)
            p0.assert_valid()
        else:
            p0 = build_psbt(ins, [TxOut(70_000, ScriptPubKey(bytes.fromhex("0014" + "99" * 20), check_validity=False))], FeeRate(sats_per_kvbyte=2000), bytes.fromhex("5120" + "55" * 32)).psbt
        out.append((p0, mix))
        if r in (0, 1):
            # the transaction's own version at the values a library may take for "unset" or "unknown": roles and conversions leave it as it is
            for ver in ((0, 0xFFFFFFFF) if r == 0 else (1, 3)):
                pv = copy.deepcopy(p0)
                pv.tx_version = ver
                if not isinstance(outcome(lambda: pv.assert_valid()), str):
                    out.append((pv, mix))
        p2 = p0.to_v2()
        p2.inputs[0].sequence = 0                       # BIP125 gives 0 a meaning: it is a value, not an absence
        if len(p2.inputs) > 1:
            p2.inputs[1].sequence = 0xFFFFFFFD
        p2.tx_modifiable = rnd.choice([0, 1, 2, 3, 7, None])
        out.append((p2, mix))
        p2t = p0.to_v2()
        for k, pin in enumerate(p2t.inputs):
            pin.sequence = 0xFFFFFFFE
            if k == 0:
                pin.required_time_lock_time = 1_700_000_000 + r
            elif k == 1:
                pin.required_time_lock_time, pin.required_height_lock_time = 1_600_000_000, 700_000
        p2t.fallback_lock_time = 123
        out.append((p2t, mix))
        if "p2tr" in mix:
            p3 = copy.deepcopy(p0)
            for pin, t in zip(p3.inputs, mix):
                if t == "p2tr":
                    pin.sig_hash_type = 0                # an explicit SIGHASH_DEFAULT
            out.append((p3, mix))
    return out


def record_combines(run: Run, rnd: random.Random, thorough: bool, evs: list[dict[str, Any]], kit: Kit, bases: list[tuple[Any, list[str]]]) -> dict[str, int]:
    from btclib.psbt.psbt import Psbt, combine

    stats = {"combines": 0, "refused": 0, "orders": 0}
    sources: list[bytes] = []
    for p, mix in bases:
        full = p
        for s in (kit.s1, kit.s2):
            r = outcome(lambda: s.sign_psbt(full))
            if not isinstance(r, str):
                full = combine([full, r])
        sources.append(full.serialize(check_validity=False))
    for b in c05.psbt_seeds()[: (60 if thorough else 20)]:
        sources.append(b)
    more = []
    for b in sources[: (12 if thorough else 6)]:
        more += c05.enrich_psbt(b, rnd)
    sources += more
    for b in sources:
        maps = split_maps(b)
        if maps is None or isinstance(outcome(lambda: Psbt.parse(b)), str):
            continue
        movable = [(j, kv) for j, m in enumerate(maps) for kv in m if not structural(scope_of(maps, j), kv[0])]
        for rep in range(6 if thorough else 3):
            k = rnd.choice([2, 2, 3])
            # every movable pair goes to a non-empty subset of the copies (rep 0: exactly one copy, never the first when possible)
            copies = [[[kv for kv in m if structural(scope_of(maps, j), kv[0])] for j, m in enumerate(maps)] for _ in range(k)]
            for j, kv in movable:
                if rep == 0:
                    owners = [rnd.randrange(1, k)]
                else:
                    owners = [c for c in range(k) if rnd.random() < 0.5] or [rnd.randrange(k)]
                for c in owners:
                    copies[c][j].append(kv)
            parsed = [outcome(lambda c=c: Psbt.parse(join_maps(c))) for c in copies]
            if any(isinstance(x, str) for x in parsed):
                continue
            orders = list(itertools.permutations(range(k)))
            for order in (orders if thorough or k == 2 else rnd.sample(orders, 3)):
                ops = [parsed[c] for c in order]
                res = role_event("combine", lambda *a: combine(list(a)), ops, evs)
                e = {"op": "combine", "operands": [o.serialize(check_validity=False).hex() for o in ops], "outcome": "refused" if res is None else "ok",
                     "result": "" if res is None else res.serialize(check_validity=False).hex()}
                evs.append(e)
                stats["combines"] += 1
                stats["refused"] += res is None
                stats["orders"] += 1
                if k == 3 and res is not None:
                    # the other bracketing: (a . b) . c  vs  a . (b . c)
                    inner = outcome(lambda: combine(ops[1:]))
                    if not isinstance(inner, str):
                        res2 = outcome(lambda: combine([ops[0], inner]))
                        evs.append({"op": "combine", "operands": e["operands"], "outcome": "refused" if isinstance(res2, str) else "ok",
                                    "result": "" if isinstance(res2, str) else res2.serialize(check_validity=False).hex(), "bracketing": "right"})
            # combining a PSBT with itself changes nothing
            res = outcome(lambda: combine([parsed[0], parsed[0]]))
            evs.append({"op": "combine", "operands": [parsed[0].serialize(check_validity=False).hex()] * 2, "outcome": "refused" if isinstance(res, str) else "ok",
                        "result": "" if isinstance(res, str) else res.serialize(check_validity=False).hex()})
    # different versions and different transactions are refused
    for (p, _), (q, _) in itertools.combinations(bases[:6], 2):
        res = outcome(lambda: combine([p, q]))
        evs.append({"op": "combine", "operands": [p.serialize(check_validity=False).hex(), q.serialize(check_validity=False).hex()], "outcome": "refused" if isinstance(res, str) else "ok",
                    "result": "" if isinstance(res, str) else res.serialize(check_validity=False).hex()})
    # the same PSBT with one field of the transaction moved: a sequence (the identity in version 0, not in version 2), the lock time, an amount, an outpoint, the version
    def moved(p: Any, what: str) -> Any:
        q = copy.deepcopy(p)
        if what == "sequence":
            q.inputs[0].sequence = ((q.inputs[0].sequence if q.inputs[0].sequence is not None else 0xFFFFFFFF) ^ 1)
        elif what == "last sequence":
            q.inputs[-1].sequence = 0xFFFFFFFD if q.inputs[-1].sequence != 0xFFFFFFFD else 0xFFFFFFFC
        elif what == "amount":
            q.outputs[0].amount = (q.outputs[0].amount or 0) + 1
        elif what == "outpoint":
            q.inputs[0].output_index = (q.inputs[0].output_index or 0) + 1
            q.inputs[0].non_witness_utxo = None
        elif what == "tx version":
            q.tx_version = 3 if q.tx_version != 3 else 2
        elif what == "lock time":
            if q.version == 0:
                q.fallback_lock_time = (q.fallback_lock_time or 0) + 1
            else:
                q.fallback_lock_time = (q.fallback_lock_time or 0) + 1
        return q

    for p, _mix in bases[: (12 if thorough else 7)]:
        for what in ("sequence", "last sequence", "amount", "outpoint", "tx version", "lock time"):
            q = outcome(lambda: moved(p, what))
            if isinstance(q, str):
                continue
            sq = outcome(lambda: q.serialize(check_validity=False))
            if isinstance(sq, str) or isinstance(outcome(lambda: Psbt.parse(sq, check_validity=False)), str):
                continue
            for ops in ([p, q], [q, p], [p, q, p]):
                res = outcome(lambda: combine(ops))
                evs.append({"op": "combine", "operands": [o.serialize(check_validity=False).hex() for o in ops], "outcome": "refused" if isinstance(res, str) else "ok",
                            "result": "" if isinstance(res, str) else res.serialize(check_validity=False).hex(), "moved": what})
                stats["combines"] += 1
                stats["refused"] += isinstance(res, str)
    return stats


def record_answers(run: Run, rnd: random.Random, thorough: bool, evs: list[dict[str, Any]], kit: Kit, bases: list[tuple[Any, list[str]]]) -> dict[str, int]:
    from btclib.psbt.psbt import Psbt, assert_signatures_only

    stats = {"honest": 0, "tampered": 0, "accepted_tampered": 0}
    for p, mix in bases:
        req_b = p.serialize(check_validity=False)
        for signer in (kit.s1, kit.s2):
            ans = outcome(lambda: signer.sign_psbt(p))
            if isinstance(ans, str):
                continue
            ans_b = ans.serialize(check_validity=False)
            acc = outcome(lambda: assert_signatures_only(p, ans))
            evs.append({"op": "answer", "request": req_b.hex(), "answer": ans_b.hex(), "sigs_valid": True, "accepted": acc is None, "tamper": "none"})
            stats["honest"] += 1
            maps = split_maps(ans_b)
            req_maps = split_maps(req_b)
            tampers: list[tuple[str, list[Any], bool]] = []
            for j, m in enumerate(maps):
                sc = scope_of(maps, j)
                # a vendor / unknown pair added
                tampers.append((f"add unknown to {sc}", [mm + ([(b"\xfc\x01x" + bytes([j]), b"v")] if jj == j else []) for jj, mm in enumerate(maps)], True))
                for idx, (k, v) in enumerate(m):
                    is_sig = sc == "input" and k[0] in (2, 19, 20, 27, 28)
                    newly = (k, v) not in req_maps[j]
                    if len(v) > 0 and (rnd.random() < (1.0 if thorough else 0.5)):
                        v2 = v[:-1] + bytes([v[-1] ^ 1])
                        tampers.append((f"{sc} type {k[0]:#x} value changed", [mm[:idx] + [(k, v2)] + mm[idx + 1:] if jj == j else mm for jj, mm in enumerate(maps)], not (is_sig and newly) and True))
                    if not structural(sc, k):
                        tampers.append((f"{sc} type {k[0]:#x} dropped", [mm[:idx] + mm[idx + 1:] if jj == j else mm for jj, mm in enumerate(maps)], True))
            # global fields a signer has no business with
            tampers.append(("global signed message added", [maps[0] + [(b"\x09", b"hello")]] + maps[1:], True))
            tampers.append(("global xpub added", [maps[0] + [(b"\x01" + bytes.fromhex("0488b21e") + bytes(74), bytes.fromhex("73c5da0a") + (0x80000054).to_bytes(4, "little"))]] + maps[1:], True))
            for name, tm, sig_ok in tampers[: (400 if thorough else 120)]:
                tb = join_maps(tm)
                parsed = outcome(lambda: Psbt.parse(tb, check_validity=False))
                if isinstance(parsed, str):
                    continue
                # only a changed (newly added) signature value makes the signatures invalid; every other tamper leaves them as the signer made them
                sigs_valid = not (name.endswith("value changed") and any(name.startswith(f"input type {t:#x}") for t in (2, 19, 20)) )
                acc = outcome(lambda: assert_signatures_only(p, parsed))
                evs.append({"op": "answer", "request": req_b.hex(), "answer": parsed.serialize(check_validity=False).hex(), "sigs_valid": sigs_valid, "accepted": acc is None, "tamper": name})
                stats["tampered"] += 1
                stats["accepted_tampered"] += acc is None
    return stats


def record_roles(run: Run, rnd: random.Random, thorough: bool, evs: list[dict[str, Any]], kit: Kit, bases: list[tuple[Any, list[str]]]) -> dict[str, int]:
    from btclib.bip32 import bip32
    from btclib.psbt.psbt import combine, finalize
    from btclib.psbt_signer import SoftwareSigner, request_signatures

    stranger = SoftwareSigner(bip32.rootxprv_from_seed(bytes(range(32, 64))))
    stats = {"roles": 0, "finalized": 0}
    for p, mix in bases:
        cur = p
        cur = role_event("to_v2", lambda a: a.to_v2(), [cur], evs) or cur
        cur = role_event("to_v0", lambda a: a.to_v0(), [cur], evs) or cur
        cur = p
        role_event("request_signatures(stranger)", lambda a: request_signatures(stranger, a), [cur], evs)
        for s in (kit.s1, kit.s2):
            role_event("sign_psbt", lambda a, s=s: s.sign_psbt(a), [cur], evs)
            nxt = role_event("request_signatures", lambda a, s=s: request_signatures(s, a), [cur], evs)
            cur = nxt or cur
        role_event("request_signatures(again)", lambda a: request_signatures(kit.s1, a), [cur], evs)
        fin = role_event("finalize", lambda a: finalize(a), [cur], evs)
        stats["roles"] += 8
        if fin is not None:
            stats["finalized"] += 1
            role_event("to_v2(finalized)", lambda a: a.to_v2(), [fin], evs)
            role_event("to_v0(finalized)", lambda a: a.to_v0(), [fin], evs)
            role_event("combine(finalized, signed)", lambda a, b: combine([a, b]), [fin, cur], evs)
    return stats


def record_views(evs: list[dict[str, Any]], kit: Kit, bases: list[tuple[Any, list[str]]]) -> int:
    """PsbtView (a psbt read off a stream one map at a time) against the parsed object, on unsigned and signed psbts of both versions."""
    from btclib.psbt.psbt import combine
    from btclib.psbt.psbt_view import PsbtView

    n = 0
    for p, mix in bases:
        forms = [p]
        r = outcome(lambda: kit.s1.sign_psbt(p))
        if not isinstance(r, str):
            forms.append(combine([p, r]))
        for q in forms:
            b = q.serialize(check_validity=False)
            v = outcome(lambda: PsbtView(io.BytesIO(b)))
            if isinstance(v, str):
                evs.append({"op": "view", "psbt": b.hex(), "view_maps": [v], "object_maps": [], "view_tx": "", "object_tx": "", "view_lock": -1, "object_lock": 0})
                continue
            ver = q.version
            vm = [outcome(lambda i=i: v.input(i).serialize(psbt_version=ver, check_validity=False).hex()) for i in range(len(q.inputs))]
            vm += [outcome(lambda i=i: v.output(i).serialize(psbt_version=ver, check_validity=False).hex()) for i in range(len(q.outputs))]
            om = [x.serialize(psbt_version=ver, check_validity=False).hex() for x in q.inputs] + [x.serialize(psbt_version=ver, check_validity=False).hex() for x in q.outputs]
            vt = outcome(lambda: v.tx.serialize(include_witness=False, check_validity=False).hex())
            evs.append({"op": "view", "psbt": b.hex(), "view_maps": vm, "object_maps": om, "view_tx": vt, "object_tx": q.tx.serialize(include_witness=False, check_validity=False).hex(),
                        "view_lock": outcome(lambda: v.lock_time), "object_lock": q.lock_time})
            n += 1
    return n


def check(run: Run) -> None:
    thorough = run.tier == "thorough"
    rnd = random.Random(run.seed)
    run.rule = ("operands: every non-structural key-value pair of fully signed PSBTs built over 4-6 input-type mixes (v0, v2 with sequence 0 / required lock times / tx_modifiable, "
                "explicit SIGHASH_DEFAULT), of the BIP174/370/371/373/375 vectors and of enriched copies, dealt to 2-3 copies (once: each pair in exactly one copy that is not the "
                "first), combined in every order and both bracketings; answers: the honest answer of each signer and every single-pair tampering of it (value changed, pair dropped, "
                "unknown added to each map, global fields added); roles: to_v2, to_v0, sign, request_signatures (holder, stranger, repeated), finalize, conversions and combine after "
                "finalize, each checked for the transaction, the arguments and shared objects")
    run.assumptions = ["an answer's signatures are valid when they are the library signer's own and untouched (the harness knows which pair it changed)",
                       "operands that give one key two values (a conflict) may be resolved either way: only their refusal on a version mismatch is checked"]
    live = tlc.run("PsbtRolesModel", cfg_text="SPECIFICATION FairSpec\nCONSTANTS Signers = {1, 2}\nPairs = {10}\nPROPERTY HonestSignaturesArrive\nCHECK_DEADLOCK FALSE\n", workers=4)
    for v in live.violations:
        raise tlc.TLCFailure(f"PsbtRolesModel violates {v.name}:\n{v.text[:600]}")
    run.tlc(live, "M PsbtRolesModel liveness")
    res = tlc.run("PsbtRolesModel", cfg_text=MODEL_CFG.format(s="1, 2, 3"), workers=16)
    for v in res.violations:
        raise tlc.TLCFailure(f"PsbtRolesModel violates {v.name}:\n{v.text[:600]}")
    run.tlc(res, "M PsbtRolesModel")
    kit = Kit()
    add_taproot_tree_kinds(kit)
    bases = base_psbts(kit, rnd, thorough)
    evs: list[dict[str, Any]] = []
    s1 = record_combines(run, rnd, thorough, evs, kit, bases)
    s2 = record_answers(run, rnd, thorough, evs, kit, bases)
    s3 = record_roles(run, rnd, thorough, evs, kit, bases)
    s3["views"] = record_views(evs, kit, bases)
    keep = ("op", "operands", "outcome", "result", "request", "answer", "sigs_valid", "accepted", "before", "after", "args_before", "args_after", "shared", "check_tx",
            "psbt", "view_maps", "object_maps", "view_tx", "object_tx", "view_lock", "object_lock")
    compact = [{k: v for k, v in e.items() if k in keep} for e in evs]
    results, bad, diag = events.validate("C11Trace", compact, batch=2000, timeout=3000)
    for r in results:
        run.tlc(r, "V C11Trace")
    for k in bad:
        e = evs[k]
        d = str(diag.get(k))
        if e["op"] == "combine":
            key = "roles|combine|" + _lost_types(e)
        elif e["op"] == "answer":
            key = f"roles|answer|{e['tamper']}|accepted={e['accepted']}"
        elif e["op"] == "view":
            key = "roles|view|PsbtView differs from the parsed object"
        else:
            key = f"roles|role|{e['role']}"
        run.violation(key, f"{e['op']}: the specification does not explain {({kk: (vv if not isinstance(vv, (str, list)) or len(vv) < 80 else '...') for kk, vv in e.items()})}; expected {d[:600]}",
                      {"event": e, "expected": d[:4000]})
    run.sample({"event": {k: (v if not isinstance(v, (str, list)) or len(v) < 100 else str(v)[:100]) for k, v in next(e for e in evs if e["op"] == "answer" and e["tamper"] != "none").items()}})
    run.section("events", {"combine": s1, "answers": s2, "roles": s3})
    if s1["combines"] - s1["refused"] < 50 or s2["honest"] < 4 or s3["finalized"] < 2:
        raise tlc.TLCFailure(f"C11 harness is vacuous: {s1} {s2} {s3}")
    run.count(evaluations=len(evs), validated=len(evs), nontrivial=len(evs))


def _lost_types(e: dict[str, Any]) -> str:
    """Name the key types that the result of a combine lacks (for a stable finding key)."""
    if e["outcome"] != "ok":
        return "refused"
    ops = [split_maps(bytes.fromhex(x)) for x in e["operands"]]
    res = split_maps(bytes.fromhex(e["result"]))
    lost = set()
    for op in ops:
        for j, m in enumerate(op or []):
            for kv in m:
                if res is None or j >= len(res) or kv not in res[j]:
                    lost.add(f"{scope_of(op, j)} {kv[0][0]:#04x}")
    return "lost " + ",".join(sorted(lost)) if lost else "other"


def replay(path: str) -> int:
    import json

    body = json.load(open(path))
    e = body.get("event")
    if not e:
        return 0
    keep = ("op", "operands", "outcome", "result", "request", "answer", "sigs_valid", "accepted", "before", "after", "args_before", "args_after", "shared", "check_tx")
    results, bad, diag = events.validate("C11Trace", [{k: v for k, v in e.items() if k in keep}], workers=1)
    if bad:
        print(f"VIOLATION property=C11 replay={path}  # recorded event not explained by the specification; expected {str(diag.get(0))[:300]}")
        return 1
    return 0
