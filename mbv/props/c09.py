"""C09 -- signature hashes equal the legacy, BIP143 and BIP341 definitions.

Spec: Wire (serializers), ScriptBytes (GetOp), SigHash (three preimages + the dispatch), C09Trace.
M: the commitment matrix -- SigHashModel checks on a two-valued universe of transactions that the
   digest changes exactly when a field the hash type commits to changes.
V: digests recorded from every public route (direct, precomputed, from_tx, PSBT, PsbtView) are
   recomputed by TLC from the preimages.
"""

from __future__ import annotations

import json
import random
from typing import Any

from .. import events, tlc
from ..core import Run, nat

MODEL_CFG = """SPECIFICATION MSpec
INVARIANT CommitsExactly
INVARIANT SingleBug
INVARIANT TaprootRefusals
CHECK_DEADLOCK FALSE
"""


def u32(v: int) -> str:
    return nat(v & 0xFFFFFFFF)


def tx_json(tx: Any) -> dict[str, Any]:
    return {
        "version": u32(tx.version), "locktime": u32(tx.lock_time),
        "vin": [{"txid": i.prev_out.tx_id[::-1].hex(), "vout": u32(i.prev_out.vout), "script": i.script_sig.hex(),
                 "sequence": u32(i.sequence), "witness": [w.hex() for w in i.script_witness.stack]} for i in tx.vin],
        "vout": [{"value": nat(o.value & 0xFFFFFFFFFFFFFFFF), "spk": o.script_pub_key.script.hex()} for o in tx.vout],
    }


def out_json(o: Any) -> dict[str, Any]:
    return {"value": nat(o.value & 0xFFFFFFFFFFFFFFFF), "spk": o.script_pub_key.script.hex()}


class Gen:
    def __init__(self, seed: int) -> None:
        self.r = random.Random(seed)

    def script_code(self) -> bytes:
        r = self.r
        kind = r.randrange(8)
        key = bytes([2]) + r.randbytes(32)
        if kind == 0:
            return b"\x76\xa9\x14" + r.randbytes(20) + b"\x88\xac"
        if kind == 1:   # code separators outside pushes
            return b"\xab" + bytes([33]) + key + b"\xac\xab\x51\xab"
        if kind == 2:   # 0xab inside a push: must survive
            return bytes([5]) + b"\xab\x01\xab\x02\xab" + b"\xab" + bytes([33]) + key + b"\xac"
        if kind == 3:   # truncated push after a separator: scan stops, tail copied raw
            return b"\x51\xab\x52\xab\x4c\x20" + r.randbytes(5) + b"\xab"
        if kind == 4:   # PUSHDATA2 / PUSHDATA4 holding separators
            d = b"\xab" * 3
            return b"\x4d\x03\x00" + d + b"\xab\x4e\x03\x00\x00\x00" + d + b"\xac"
        if kind == 5:
            return b""
        if kind == 6:   # long script: CompactSize 0xfd
            return (bytes([75]) + r.randbytes(75)) * 4 + b"\xab\xac"
        return r.randbytes(r.randrange(1, 40))

    def tx(self, nin: int | None = None, nout: int | None = None, witness: bool = False) -> Any:
        from btclib.script.witness import Witness
        from btclib.tx import OutPoint, Tx, TxIn, TxOut

        r = self.r
        nin = nin if nin is not None else r.randrange(1, 5)
        nout = nout if nout is not None else r.randrange(0, 5)
        vin = []
        for _ in range(nin):
            seq = r.choice([0, 1, 0xFFFFFFFE, 0xFFFFFFFF, 0x80000000, 0x00400001, r.getrandbits(32)])
            wit = Witness([r.randbytes(r.randrange(0, 40)) for _ in range(r.randrange(1, 4))]) if witness and r.random() < 0.7 else Witness()
            vin.append(TxIn(OutPoint(r.randbytes(32), r.choice([0, 1, 0xFFFFFFFE, r.getrandbits(32) % 0xFFFFFFFF])),
                            r.randbytes(r.choice([0, 0, 10, 80])), seq, wit, check_validity=False))
        vout = []
        for _ in range(nout):
            spk = r.choice([b"", b"\x51", b"\x00\x14" + r.randbytes(20), b"\x76\xa9\x14" + r.randbytes(20) + b"\x88\xac", b"\x6a" + bytes([20]) + r.randbytes(20)])
            from btclib.script.script_pub_key import ScriptPubKey

            vout.append(TxOut(r.choice([0, 1, 546, 21 * 10**14, r.randrange(21 * 10**14)]), ScriptPubKey(spk, check_validity=False), check_validity=False))
        ver = r.choice([1, 2, 0, 0xFFFFFFFF, 0x7FFFFFFF, 3])
        lt = r.choice([0, 1, 499999999, 500000000, 0xFFFFFFFF, r.getrandbits(32)])
        return Tx(ver, lt, vin, vout, check_validity=False)


def _dig(fn: Any) -> str:
    from btclib.exceptions import BTClibValueError

    try:
        return fn().hex()
    except BTClibValueError:
        return "refused"
    except Exception as e:  # noqa: BLE001
        return f"foreign:{type(e).__name__}:{e}"[:120]


def record(run: Run, n_tx: int) -> list[dict[str, Any]]:
    from btclib.script import sig_hash
    from btclib.script.script_pub_key import ScriptPubKey
    from btclib.tx import TxOut

    g = Gen(run.seed)
    r = g.r
    evs: list[dict[str, Any]] = []
    high_words = [0, 0x100, 0x10000, 0x7FFFFF00, 0xFFFFFF00]
    for t in range(n_tx):
        tx = g.tx()
        tj = tx_json(tx)
        prevouts = [TxOut(r.choice([0, 1, 100000, 21 * 10**14]), ScriptPubKey(b"\x51\x20" + r.randbytes(32), check_validity=False), check_validity=False)
                    for _ in tx.vin]
        pj = [out_json(o) for o in prevouts]
        try:
            pre = sig_hash.PrecomputedTxData(tx, prevouts)
        except Exception:  # noqa: BLE001
            pre = None
        # which hash types: all 256 low bytes on the first transactions, a spread afterwards
        lows = list(range(256)) if t < 2 else sorted({0, 1, 2, 3, 4, 0x1F, 0x21, 0x22, 0x23, 0x41, 0x42, 0x43, 0x80, 0x81, 0x82, 0x83, 0x84, 0x9F, 0xE2, 0xFF} | {r.randrange(256) for _ in range(6)})
        for idx in range(len(tx.vin)):
            code = g.script_code()
            amount = r.choice([0, 1, 21 * 10**14, r.randrange(21 * 10**14)])
            for low in lows:
                hw = r.choice(high_words) if t >= 1 else 0
                ht = hw | low
                if ht >= 2**31 and r.random() < 0.5:
                    ht_arg = ht - 2**32     # Core's signed spelling of the same word
                else:
                    ht_arg = ht
                evs.append({"op": "legacy", "tx": tj, "idx": idx, "code": code.hex(), "ht": u32(ht),
                            "out": _dig(lambda: sig_hash.legacy(code, tx, idx, ht_arg))})
                evs.append({"op": "segwit_v0", "tx": tj, "idx": idx, "code": code.hex(), "ht": u32(ht), "amount": nat(amount),
                            "out": _dig(lambda: sig_hash.segwit_v0(code, tx, idx, ht_arg, amount))})
                if pre is not None and low % 5 == 0:
                    evs.append({"op": "segwit_v0", "route": "precomputed", "tx": tj, "idx": idx, "code": code.hex(), "ht": u32(ht), "amount": nat(amount),
                                "out": _dig(lambda: sig_hash.segwit_v0(code, tx, idx, ht_arg, amount, pre))})
            # taproot: the seven defined types, undefined ones, annex, key / script path
            for ht in [0, 1, 2, 3, 0x81, 0x82, 0x83, 0x80, 4, 0x84, 0x41, 0xFF]:
                for annex in (b"", b"\x50" + r.randbytes(r.randrange(0, 30))):
                    for ext in (b"", r.randbytes(32) + b"\x00" + r.choice([b"\xff\xff\xff\xff", b"\x02\x00\x00\x00"])):
                        ef = int(bool(ext))
                        base = {"op": "taproot", "tx": tj, "idx": idx, "prevouts": pj, "ht": ht, "extflag": ef, "annex": annex.hex(), "ext": ext.hex()}
                        evs.append({**base, "out": _dig(lambda: sig_hash.taproot(tx, idx, prevouts, ht, ef, annex, ext))})
                        if pre is not None and ht in (0, 1, 0x83):
                            evs.append({**base, "route": "precomputed", "out": _dig(lambda: sig_hash.taproot(tx, idx, prevouts, ht, ef, annex, ext, pre))})
    return evs


def record_from_tx(run: Run, n: int) -> list[dict[str, Any]]:
    """The dispatch: from_tx, psbt.ecdsa_sig_hash / taproot_sig_hash and PsbtView on spends of every output type."""
    from btclib.hashes import hash160, sha256
    from btclib.psbt.psbt import Psbt, ecdsa_sig_hash, taproot_sig_hash
    from btclib.psbt.psbt_view import PsbtView
    from btclib.script import sig_hash
    from btclib.script.script_pub_key import ScriptPubKey
    from btclib.script.witness import Witness
    from btclib.tx import OutPoint, Tx, TxIn, TxOut

    g = Gen(run.seed + 9)
    r = g.r
    evs: list[dict[str, Any]] = []
    for _ in range(n):
        nin = r.randrange(1, 4)
        kinds = [r.choice(["p2pkh", "p2sh", "p2wpkh", "p2wsh", "p2sh-p2wpkh", "p2sh-p2wsh", "p2tr-key", "p2tr-script", "bare"]) for _ in range(nin)]
        vin, prevouts, prev_txs, extras = [], [], [], []
        for kind in kinds:
            key = bytes([2]) + r.randbytes(32)
            # (0xab inside pushes ahead of the real separators: a separator is an op code, found by walking the script and not by looking for the byte)
            abkey = bytes([2]) + b"\xab" + r.randbytes(15) + b"\xab" + r.randbytes(15)
            ws = r.choice([b"\x51", bytes([33]) + key + b"\xac", b"\xab" + bytes([33]) + key + b"\xac\xab\x51", bytes([33]) + abkey + b"\xad\xab" + bytes([33]) + key + b"\xac",
                           b"\x03\xab\xab\xab\x75\xab" + bytes([33]) + abkey + b"\xac\xab\x51", b"\x4c\x02\xab\xab\x75" + bytes([33]) + key + b"\xac"])
            script_sig, wit, redeem, wscript = b"", [], b"", b""
            if kind == "p2pkh":
                spk = b"\x76\xa9\x14" + hash160(key) + b"\x88\xac"
            elif kind == "bare":
                spk = bytes([33]) + key + b"\xac"
            elif kind == "p2sh":
                redeem = r.choice([bytes([33]) + key + b"\xac", b"\x51\xab" + bytes([33]) + key + b"\xac", b"\x02\xab\xab\x75\xab" + bytes([33]) + abkey + b"\xac\xab\x51"])
                spk = b"\xa9\x14" + hash160(redeem) + b"\x87"
                script_sig = bytes([len(redeem)]) + redeem
            elif kind == "p2wpkh":
                spk = b"\x00\x14" + hash160(key)
            elif kind == "p2wsh":
                wscript = ws
                spk = b"\x00\x20" + sha256(ws)
                wit = [r.randbytes(3), ws]
            elif kind == "p2sh-p2wpkh":
                redeem = b"\x00\x14" + hash160(key)
                spk = b"\xa9\x14" + hash160(redeem) + b"\x87"
                script_sig = bytes([len(redeem)]) + redeem
            elif kind == "p2sh-p2wsh":
                wscript = ws
                redeem = b"\x00\x20" + sha256(ws)
                spk = b"\xa9\x14" + hash160(redeem) + b"\x87"
                script_sig = bytes([len(redeem)]) + redeem
                wit = [b"", ws]
            elif kind == "p2tr-key":
                spk = b"\x51\x20" + r.randbytes(32)
                wit = [r.randbytes(64)] + ([b"\x50" + r.randbytes(r.choice([0, 0, 1, 4]))] if r.random() < 0.5 else [])     # (an annex may be the byte 0x50 alone)
            else:
                spk = b"\x51\x20" + r.randbytes(32)
                leaf = r.choice([b"\x51", bytes([32]) + key[1:] + b"\xac"])
                ctrl = bytes([0xC0 + r.randrange(2)]) + r.randbytes(32) + r.randbytes(32 * r.randrange(0, 3))
                wit = [r.randbytes(64), leaf, ctrl] + ([b"\x50" + r.randbytes(r.choice([0, 0, 2]))] if r.random() < 0.5 else [])
            value = r.choice([1000, 546, 21 * 10**14 - 5, r.randrange(1, 10**9)])
            po = TxOut(value, ScriptPubKey(spk, check_validity=False), check_validity=False)
            ptx = Tx(2, 0, [TxIn(OutPoint(r.randbytes(32), 0))], [TxOut(5, ScriptPubKey(b"\x51")), po][:: r.choice([1, -1])])
            n_out = ptx.vout.index(po)
            vin.append(TxIn(OutPoint(ptx.id, n_out), script_sig, r.choice([0xFFFFFFFF, 0xFFFFFFFD, 5]), Witness(wit), check_validity=False))
            prevouts.append(po)
            prev_txs.append(ptx)
            extras.append((redeem, wscript))
        vout = [TxOut(r.randrange(1, 10**6), ScriptPubKey(r.choice([b"\x00\x14" + r.randbytes(20), b"\x51\x20" + r.randbytes(32)]))) for _ in range(r.randrange(1, 4))]
        tx = Tx(2, r.choice([0, 800000]), vin, vout, check_validity=False)
        tj = tx_json(tx)
        pj = [out_json(o) for o in prevouts]
        try:
            pre = sig_hash.PrecomputedTxData(tx, prevouts)
        except Exception:  # noqa: BLE001
            pre = None
        for idx, kind in enumerate(kinds):
            hts = [1, 2, 3, 0x81, 0x82, 0x83] + ([0] if kind.startswith("p2tr") else [0x41, 0x1F])
            for ht in hts:
                for codesep in ((0, 1, 2, 3) if kind in ("p2wsh", "p2sh-p2wsh", "p2sh") else (0,)):
                    base = {"op": "from_tx", "kind": kind, "tx": tj, "idx": idx, "prevouts": pj, "ht": u32(ht), "codesep": codesep}
                    out = _dig(lambda: sig_hash.from_tx(prevouts, tx, idx, ht, codesep_index=codesep))
                    # (a script with fewer separators than asked for has no such script code: refused, by the code and by the specification)
                    evs.append({**base, "out": out})
                    if pre is not None:
                        evs.append({**base, "route": "from_tx+precomputed",
                                    "out": _dig(lambda: sig_hash.from_tx(prevouts, tx, idx, ht, pre, codesep_index=codesep))})
        # the same transaction through a PSBT (v0 and v2) and through the streamed view of its bytes
        try:
            from btclib.psbt.psbt_out import PsbtOut

            utx = Tx(tx.version, tx.lock_time, [TxIn(i.prev_out, b"", i.sequence) for i in tx.vin], tx.vout)
            stripped = tx_json(utx)
            for version in (0, 2):
                psbt = Psbt.from_tx(utx)
                in_types: list[int | None] = []
                for idx, kind in enumerate(kinds):
                    pin = psbt.inputs[idx]
                    redeem, wscript = extras[idx]
                    if kind in ("p2pkh", "p2sh", "bare"):
                        pin.non_witness_utxo = prev_txs[idx]
                    else:
                        pin.witness_utxo = prevouts[idx]
                        if r.random() < 0.5 and not kind.startswith("p2tr"):
                            pin.non_witness_utxo = prev_txs[idx]
                    if redeem:
                        pin.redeem_script = redeem
                    if wscript:
                        pin.witness_script = wscript
                    # what the input itself asks for: the default of a call that names no type
                    it = r.choice([None, None, 1, 2, 3, 0x81, 0x82, 0x83])
                    pin.sig_hash_type = it
                    in_types.append(it)
                if version == 2:
                    psbt = psbt.to_v2()
                    for j, o in enumerate(psbt.outputs):
                        spk_j = utx.vout[j].script_pub_key.script
                        if len(spk_j) == 34 and spk_j[0] == 0x51 and r.random() < 0.7:
                            # BIP375: an output paying a silent-payment address, its script already derived
                            psbt.outputs[j] = PsbtOut(amount=utx.vout[j].value, script_pub_key=spk_j,
                                                      sp_v0_info=bytes.fromhex("0279be667ef9dcbbac55a06295ce870b07029bfcdb2dce28d959f2815b16f81798"
                                                                               "02c6047f9441ed7d6d3045406e95c07cd85c778e4b8cef3ca7abac09b95c709ee5"))
                raw = psbt.serialize()
                view = PsbtView(raw)
                tagv = f"v{version}"
                evs.append({"op": "ser", "tx": stripped, "idx": 0, "route": f"PsbtView.tx[{tagv}]", "out": _dig(lambda: view.tx.serialize(include_witness=False, check_validity=False))})
                evs.append({"op": "ser", "tx": stripped, "idx": 0, "route": f"Psbt.tx[{tagv}]", "out": _dig(lambda: psbt.tx.serialize(include_witness=False, check_validity=False))})
                for idx, kind in enumerate(kinds):
                    redeem, wscript = extras[idx]
                    it = in_types[idx]
                    if kind.startswith("p2tr"):
                        for ht in (None, 0, 1, 2, 3, 0x81, 0x83):
                            eff = ht if ht is not None else (it or 0)
                            lh = b"" if kind == "p2tr-key" else r.randbytes(32)
                            ext = (lh + b"\x00\xff\xff\xff\xff") if lh else b""
                            base = {"op": "taproot", "tx": stripped, "idx": idx, "prevouts": pj, "ht": eff, "extflag": int(bool(ext)), "annex": "", "ext": ext.hex(),
                                    "asked": "none" if ht is None else ht, "input_type": "none" if it is None else it}
                            evs.append({**base, "route": f"psbt.taproot_sig_hash[{tagv}]", "out": _dig(lambda: taproot_sig_hash(psbt, idx, leaf_hash=lh, hash_type=ht))})
                            evs.append({**base, "route": f"PsbtView.taproot_sig_hash[{tagv}]", "out": _dig(lambda: view.taproot_sig_hash(idx, leaf_hash=lh, hash_type=ht))})
                        continue
                    for ht in (None, 1, 2, 3, 0x81, 0x82, 0x83):
                        eff = ht if ht is not None else (it if it is not None else 1)
                        # what the input signs: the script code the spec derives from the spent output and the scripts the PSBT carries
                        if kind in ("p2pkh", "bare"):
                            base = {"op": "legacy", "code": prevouts[idx].script_pub_key.script.hex()}
                        elif kind == "p2sh":
                            base = {"op": "legacy", "code": redeem.hex()}
                        elif kind in ("p2wpkh", "p2sh-p2wpkh"):
                            prog = (redeem or prevouts[idx].script_pub_key.script)[2:]
                            base = {"op": "segwit_v0", "code": (b"\x76\xa9\x14" + prog + b"\x88\xac").hex(), "amount": nat(prevouts[idx].value)}
                        else:
                            base = {"op": "segwit_v0", "code": wscript.hex(), "amount": nat(prevouts[idx].value)}
                        base.update({"tx": stripped, "idx": idx, "ht": u32(eff), "kind": kind, "asked": "none" if ht is None else ht, "input_type": "none" if it is None else it})
                        evs.append({**base, "route": f"psbt.ecdsa_sig_hash[{tagv}]", "out": _dig(lambda: ecdsa_sig_hash(psbt, idx, hash_type=ht))})
                        evs.append({**base, "route": f"PsbtView.ecdsa_sig_hash[{tagv}]", "out": _dig(lambda: view.ecdsa_sig_hash(idx, hash_type=ht))})
                # the transaction a psbt or a view hands out is the caller's copy: written into, it changes no digest asked for afterwards
                for who, src in (("Psbt", psbt), ("PsbtView", view)):
                    t = src.tx
                    t.lock_time ^= 1
                    t.version += 1
                    t.vin[0].sequence ^= 1
                    t.vin[0].prev_out = OutPoint(bytes(32), 7, check_validity=False)
                    t.vout[0] = TxOut(t.vout[0].value + 1, t.vout[0].script_pub_key, check_validity=False)
                    evs.append({"op": "ser", "tx": stripped, "idx": 0, "route": f"{who}.tx[{tagv}] after the caller wrote into the one it was handed",
                                "out": _dig(lambda: src.tx.serialize(include_witness=False, check_validity=False))})
                    k0 = kinds[0]
                    if k0 == "p2tr-key":
                        base = {"op": "taproot", "tx": stripped, "idx": 0, "prevouts": pj, "ht": in_types[0] or 0, "extflag": 0, "annex": "", "ext": "", "asked": "none", "input_type": "none" if in_types[0] is None else in_types[0]}
                        evs.append({**base, "route": f"{who}.taproot_sig_hash[{tagv}] after the caller wrote into tx",
                                    "out": _dig(lambda: taproot_sig_hash(psbt, 0) if who == "Psbt" else view.taproot_sig_hash(0))})
                    elif k0 in ("p2wpkh", "p2sh-p2wpkh"):
                        prog = (extras[0][0] or prevouts[0].script_pub_key.script)[2:]
                        eff = in_types[0] if in_types[0] is not None else 1
                        base = {"op": "segwit_v0", "code": (b"\x76\xa9\x14" + prog + b"\x88\xac").hex(), "amount": nat(prevouts[0].value), "tx": stripped, "idx": 0, "ht": u32(eff), "kind": k0, "asked": "none",
                                "input_type": "none" if in_types[0] is None else in_types[0]}
                        evs.append({**base, "route": f"{who}.ecdsa_sig_hash[{tagv}] after the caller wrote into tx",
                                    "out": _dig(lambda: ecdsa_sig_hash(psbt, 0) if who == "Psbt" else view.ecdsa_sig_hash(0))})
        except Exception as e:  # noqa: BLE001
            run.note(f"psbt route skipped for one transaction: {type(e).__name__}: {e}"[:200])
    return evs


def check(run: Run) -> None:
    thorough = run.tier == "thorough"
    run.rule = ("generated transactions (1..4 inputs, 0..4 outputs, boundary version/locktime/sequence/amount) x every input x script codes with "
                "code separators inside/outside pushes and truncated pushes x all 256 low hash-type bytes (first transactions) and a spread "
                "with high words afterwards; taproot: 7 defined + undefined types x annex x extension; every route (direct, precomputed, "
                "from_tx, PSBT, PsbtView). Non-trivial = an event whose digest is not a refusal")
    run.assumptions = ["SHA-256 is the JDK's; the preimages are assembled in TLA+ from the Wire serializers",
                       "refusals of the API that no BIP defines (a missing redeem script) are not asserted; a separator index past the script's separators is refused (no such script code)"]
    res = tlc.run("SigHashModel", cfg_text=MODEL_CFG, workers=8)
    run.tlc(res, "M SigHashModel commitment matrix")
    for v in res.violations:
        raise tlc.TLCFailure(f"SigHashModel violates {v.name}:\n{v.text[:800]}")
    evs = record(run, 12 if thorough else 3)
    evs += record_from_tx(run, 60 if thorough else 10)
    for e in evs:
        if e["out"].startswith("foreign"):
            run.violation(f"sighash|foreign|{e['op']}|{e.get('route', '')}", f"{e['op']} raised {e['out']}", {"event": e})
    evs2 = [e for e in evs if not e["out"].startswith("foreign")]
    results, bad, diag = events.validate("C09Trace", evs2, batch=6000)
    for r in results:
        run.tlc(r, "V C09Trace")
    for k in bad:
        e = evs2[k]
        ht = e.get("ht")
        run.violation(f"sighash|{e['op']}|{e.get('route', 'direct')}|{e.get('kind', '')}|ht={ht if isinstance(ht, int) else ht[-2:] if ht else ''}",
                      f"{e['op']} via {e.get('route', 'the direct call')} (input {e['idx']}, hash type {ht}, asked {e.get('asked', '-')}, input's own {e.get('input_type', '-')}, {e.get('kind', '')}): btclib {e['out']}, specification {diag.get(k)}",
                      {"event": e, "spec": diag.get(k)})
    # the digest a psbt's partial signatures are verified against on the way to a finalized input is the one of each signature's own hash type byte:
    # the finalizer's verdict on multisig inputs signed under two types (honestly, and with one signature made over the other's digest), judged by the
    # specification's engine (C10Trace) on the transaction those signatures make
    from . import c10

    fevs: list[dict[str, Any]] = []
    c10.record_finalizer_verdicts(run, random.Random(run.seed + 9), thorough, fevs)
    keep = ("op", "tx", "prevouts", "idx", "flags", "ok")
    fres, fbad, fdiag = events.validate("C10Trace", [{k: v for k, v in e.items() if k in keep} for e in fevs], batch=300, timeout=3000)
    for r in fres:
        run.tlc(r, "V C10Trace (finalizer verdicts)")
    for k in fbad:
        e = fevs[k]
        run.violation(f"sighash|finalizer|{e['kind']}", f"{e['kind']}: the finalizer {'takes' if e['ok'] else 'refuses'} the signatures; the specification's engine says {str(fdiag.get(k))[:160]}",
                      {"event": e, "spec": str(fdiag.get(k))[:1000], "trace_module": "C10Trace"})
    run.section("finalizer_verdicts", {"inputs": len(fevs), "taken": sum(1 for e in fevs if e["ok"])})
    run.sample({k: v for k, v in evs2[0].items()})
    run.sample({k: (v if k not in ("tx", "prevouts") else "...") for k, v in evs2[-1].items()})
    run.count(evaluations=len(evs), validated=len(evs2), nontrivial=len({e["out"] for e in evs2 if e["out"] != "refused"}))
    run.section("routes", {rt: sum(1 for e in evs2 if e.get("route", "direct") == rt) for rt in sorted({e.get("route", "direct") for e in evs2})})


def replay(path: str) -> int:
    body = json.load(open(path))
    e = body.get("event")
    if not e:
        return 0
    if body.get("trace_module") == "C10Trace":
        keep = ("op", "tx", "prevouts", "idx", "flags", "ok")
        _, bad, diag = events.validate("C10Trace", [{k: v for k, v in e.items() if k in keep}])
    else:
        _, bad, diag = events.validate("C09Trace", [e])
    if bad:
        print(f"VIOLATION property=C09 replay={path}  # spec {diag}")
        return 1
    return 0
