"""C07 -- BIP32 derivation obeys the BIP's equations and its algebraic laws.

Spec: BIP32 (real size: HMAC-SHA512 in TLA+, secp256k1 through ECReal), BIP32Model (abstract instantiation
where the IL >= n / zero-child refusals are reachable), C07Trace.
"""

from __future__ import annotations

import json
import random
from typing import Any

from .. import events, tlc
from ..core import Run, nat

MODEL_CFG = """SPECIFICATION BSpec
CONSTANTS MaxP = {p}
AssocP = 5
GP = {p}
GA = {a}
GB = {b}
GX = {gx}
GY = {gy}
GN = {n}
Indexes = {{0, 1, 5, 6}}
HardenedFrom = 5
MaxDepth = {depth}
INVARIANT Commute
INVARIANT HardenedNeedsPrv
INVARIANT ParentRecovery
CHECK_DEADLOCK FALSE
"""

H = 0x80000000
VERSIONS = [  # (private, public) pairs: BIP32 main/test and the SLIP132 table
    ("0488ade4", "0488b21e"), ("04358394", "043587cf"), ("049d7878", "049d7cb2"), ("04b2430c", "04b24746"),
    ("044a4e28", "044a5262"), ("045f18bc", "045f1cf6"),
]


def _x(fn: Any) -> Any:
    from btclib.exceptions import BTClibException

    try:
        return fn()
    except BTClibException:
        return "refused"
    except Exception as e:  # noqa: BLE001
        return f"foreign:{type(e).__name__}:{e}"[:100]


def record(run: Run, n_seeds: int, steps_budget: int) -> list[dict[str, Any]]:
    from btclib.bip32 import bip32
    from btclib.bip32.bip32 import BIP32KeyData
    from btclib.curves import set_libsecp256k1_serving
    from btclib.curves.curve import is_libsecp256k1_serving

    rnd = random.Random(run.seed + 7)
    evs: list[dict[str, Any]] = []
    steps = 0
    start = is_libsecp256k1_serving()

    def payload(xkey: Any) -> str:
        if isinstance(xkey, str) and (xkey.startswith("foreign") or xkey == "refused"):
            return xkey
        kd = xkey if isinstance(xkey, BIP32KeyData) else BIP32KeyData.b58decode(xkey)
        return kd.serialize(check_validity=False).hex()

    boundary = [0, 1, 2, H - 1, H, H + 1, 2**32 - 1]
    try:
        for s in range(n_seeds):
            arm = (s % 2 == 0) if start else False
            if start:
                set_libsecp256k1_serving(serving=arm)
            tag = "bindings" if arm else "python"
            seed = rnd.randbytes(rnd.choice([16, 24, 32, 64]))
            prv_v, pub_v = VERSIONS[s % len(VERSIONS)]
            root = _x(lambda: bip32.rootxprv_from_seed(seed, bytes.fromhex(prv_v)))
            evs.append({"op": "master", "tag": tag, "seed": seed.hex(), "version": prv_v, "out": payload(root)})
            if not isinstance(root, str) or root in ("refused",) or root.startswith("foreign"):
                continue
            # paths: boundary indexes, varied depth
            depth = rnd.choice([0, 1, 2, 3, 5, 8]) if s % 5 else rnd.choice([20, 40])
            path = [rnd.choice(boundary + [rnd.getrandbits(32)]) for _ in range(depth)]
            if steps + 3 * depth > steps_budget:
                path = path[:2]
            steps += 3 * len(path)
            rootp = payload(root)
            out = _x(lambda: bip32.derive(root, path))
            evs.append({"op": "derive", "tag": tag, "fn": "derive", "xkey": rootp, "path": [nat(i) for i in path], "out": payload(out)})
            # every split of the path gives the same key (two calls)
            if len(path) >= 2 and not (isinstance(out, str) and (out == "refused" or out.startswith("foreign"))):
                for cut in sorted({1, len(path) // 2, len(path) - 1}):
                    mid = _x(lambda: bip32.derive(root, path[:cut]))
                    if isinstance(mid, str) and mid != "refused" and not mid.startswith("foreign"):
                        two = _x(lambda: bip32.derive(mid, path[cut:]))
                        evs.append({"op": "derive", "tag": tag, "fn": f"derive split at {cut}", "xkey": rootp, "path": [nat(i) for i in path], "out": payload(two)})
                # string spellings of the same path
                spell = "m/" + "/".join(f"{i - H}{rnd.choice(['h', chr(39), 'H'])}" if i >= H else str(i) for i in path)
                evs.append({"op": "derive", "tag": tag, "fn": "derive(str path)", "xkey": rootp, "path": [nat(i) for i in path],
                            "out": payload(_x(lambda: bip32.derive(root, spell)))})
            # neuter, and the unhardened tail derived from the public side
            xpub = _x(lambda: bip32.xpub_from_xprv(root))
            evs.append({"op": "neuter", "tag": tag, "xkey": rootp, "pubversion": pub_v, "out": payload(xpub)})
            evs.append({"op": "fingerprint", "tag": tag, "xkey": rootp, "out": _x(lambda: bip32.fingerprint(root).hex())})
            upath = [i for i in path if i < H][:4] or [0, 1]
            if isinstance(xpub, str) and not xpub.startswith("foreign") and xpub != "refused":
                pub_child = _x(lambda: bip32.derive(xpub, upath))
                evs.append({"op": "derive", "tag": tag, "fn": "derive from xpub", "xkey": payload(xpub), "path": [nat(i) for i in upath], "out": payload(pub_child)})
                evs.append({"op": "fingerprint", "tag": tag, "xkey": payload(xpub), "out": _x(lambda: bip32.fingerprint(xpub).hex())})
                steps += 2 * len(upath)
                # a hardened step from a public key is refused
                hard = _x(lambda: bip32.derive(xpub, [H + 1]))
                evs.append({"op": "derive", "tag": tag, "fn": "hardened from xpub", "xkey": payload(xpub), "path": [nat(H + 1)], "out": payload(hard)})
                # parent private key recovered from parent pub + unhardened child prv
                child_prv = _x(lambda: bip32.derive(root, [upath[0]]))
                if isinstance(child_prv, str) and child_prv != "refused" and not child_prv.startswith("foreign"):
                    cracked = _x(lambda: bip32.crack_prv_key_var(xpub, child_prv))
                    if cracked != root:
                        run.violation("bip32|crack_prv_key_var", f"crack_prv_key_var(parent xpub, child {upath[0]}) = {cracked}, the parent is {root}",
                                      {"op": "crack_prv_key_var", "root": root, "index": upath[0]})
                # derive_from_account on the public side
                acct = _x(lambda: bip32.xpub_from_xprv(bip32.derive(root, [H + 84, H, H + (s % 3)])))
                for br, idx in ((0, 0), (1, 65535), (0, rnd.randrange(65536))):
                    if not isinstance(acct, str) or acct == "refused" or acct.startswith("foreign"):
                        break
                    a = _x(lambda: bip32.derive_from_account(acct, br, idx))
                    evs.append({"op": "derive", "tag": tag, "fn": "derive_from_account", "xkey": payload(acct), "path": [nat(br), nat(idx)], "out": payload(a)})
                    steps += 2
        # depth 255 is the last one: one more step is refused
        deep_root = bip32.rootxprv_from_seed(bytes(range(32)))
        kd = BIP32KeyData.b58decode(deep_root)
        k255 = BIP32KeyData(kd.version, 255, b"\x01\x02\x03\x04", 7, kd.chain_code, kd.key, check_validity=False)
        evs.append({"op": "derive", "tag": "python", "fn": "depth 255 + 1", "xkey": k255.serialize(check_validity=False).hex(), "path": [nat(0)],
                    "out": payload(_x(lambda: bip32.derive_(k255, [0])))})
        k254 = BIP32KeyData(kd.version, 254, b"\x01\x02\x03\x04", 7, kd.chain_code, kd.key, check_validity=False)
        evs.append({"op": "derive", "tag": "python", "fn": "depth 254 + 1", "xkey": k254.serialize(check_validity=False).hex(), "path": [nat(H)],
                    "out": payload(_x(lambda: bip32.derive_(k254, [H])))})
    finally:
        if start:
            set_libsecp256k1_serving(serving=start)
    return evs


def record_forced(run: Run) -> list[dict[str, Any]]:
    """The refusals no real HMAC reaches: the HMAC output is dictated (hmac.new patched, as the library's own tests do)."""
    import hmac as _hmac

    from btclib.bip32 import bip32
    from btclib.bip32.bip32 import BIP32KeyData
    from btclib.curves import secp256k1, set_libsecp256k1_serving
    from btclib.curves.curve import is_libsecp256k1_serving

    class Forced:
        def __init__(self, digest: bytes) -> None:
            self._d = digest

        def digest(self) -> bytes:
            return self._d

    evs: list[dict[str, Any]] = []
    start = is_libsecp256k1_serving()
    root = bip32.rootxprv_from_seed(bytes(range(1, 33)))
    kd = BIP32KeyData.b58decode(root)
    k = int.from_bytes(kd.key[1:], "big")
    n = secp256k1.n
    xpub = bip32.xpub_from_xprv(root)
    real_new = _hmac.new
    try:
        for arm in ([True, False] if start else [False]):
            if start:
                set_libsecp256k1_serving(serving=arm)
            tag = "bindings" if arm else "python"
            for xkey, is_prv in ((root, True), (xpub, False)):
                for index in (0, 5, H, H + 3):
                    if not is_prv and index >= H:
                        continue
                    for il in (n, n + 1, 2**256 - 1, (n - k) % n if is_prv else 1, 1, n - 1):
                        I = il.to_bytes(32, "big") + bytes(range(32))
                        _hmac.new = lambda *a, I=I, **kw: Forced(I)   # type: ignore[assignment]
                        try:
                            out = _x(lambda: bip32.derive(xkey, [index]))
                        finally:
                            _hmac.new = real_new
                        p = out if isinstance(out, str) and (out == "refused" or out.startswith("foreign")) else BIP32KeyData.b58decode(out).serialize(check_validity=False).hex()
                        evs.append({"op": "derive_forced", "tag": tag, "fn": f"derive with a dictated hmac ({'prv' if is_prv else 'pub'}, {'hardened' if index >= H else 'unhardened'})",
                                    "xkey": BIP32KeyData.b58decode(xkey).serialize(check_validity=False).hex(), "index": nat(index), "I": I.hex(), "out": p})
    finally:
        _hmac.new = real_new
        if start:
            set_libsecp256k1_serving(serving=start)
    return evs


def record_slip132(run: Run, n: int) -> list[dict[str, Any]]:
    from btclib import slip132
    from btclib.bip32 import bip32
    from btclib.bip32.bip32 import BIP32KeyData

    rnd = random.Random(run.seed + 132)
    evs = []
    for s in range(n):
        version = bytes.fromhex("0488ade4" if s % 2 == 0 else "04358394")
        root = bip32.rootxprv_from_seed(rnd.randbytes(32), version)
        xpub = bip32.xpub_from_xprv(root)
        for kind, fn in (("p2pkh", slip132.p2pkh_xkey), ("p2wpkh_p2sh", slip132.p2wpkh_p2sh_xkey), ("p2wpkh", slip132.p2wpkh_xkey)):
            for xkey, path in ((root, [H + 49, H + (s % 2), H]), (root, [0, 7]), (xpub, [0, rnd.randrange(1000)]), (xpub, [1])):
                out = _x(lambda: fn(xkey, path))
                p = out if isinstance(out, str) and (out == "refused" or out.startswith("foreign")) else BIP32KeyData.b58decode(out).serialize(check_validity=False).hex()
                evs.append({"op": "slip132", "fn": f"slip132.{kind}_xkey ({'prv' if xkey is root else 'pub'})", "kind": kind,
                            "xkey": BIP32KeyData.b58decode(xkey).serialize(check_validity=False).hex(), "path": [nat(i) for i in path], "out": p})
    return evs


def record_wave3(run: Run, thorough: bool) -> tuple[list[dict[str, Any]], list[dict[str, Any]]]:
    """(events for C07Trace, address events for C06Trace).  Keys spelled with every SLIP132 version handed to slip132.*_xkey; derive_from_account_range in its
    two spellings beyond index 0xFFFF (max_index raised) and beyond branches 0/1; bip44.address_from_der_path from every key along a path and from keys off it."""
    from btclib import bip44, slip132
    from btclib.bip32 import bip32
    from btclib.bip32.bip32 import BIP32KeyData
    from btclib.to_pub_key import pub_keyinfo_from_key

    rnd = random.Random(run.seed + 333)
    evs: list[dict[str, Any]] = []
    addr_evs: list[dict[str, Any]] = []

    def payload(xkey: Any) -> str:
        return xkey if isinstance(xkey, str) and (xkey == "refused" or xkey.startswith("foreign")) else BIP32KeyData.b58decode(xkey).serialize(check_validity=False).hex()

    # 1. every SLIP132 spelling of a key, both networks, private and public
    prv_versions = ["0488ade4", "049d7878", "0295b005", "04b2430c", "02aa7a99", "04358394", "044a4e28", "024285b5", "045f18bc", "02575048"]
    pub_versions = ["0488b21e", "049d7cb2", "0295b43f", "04b24746", "02aa7ed3", "043587cf", "044a5262", "024289ef", "045f1cf6", "02575483"]
    seed = rnd.randbytes(32)
    for pv, uv in zip(prv_versions, pub_versions):
        root = _x(lambda: bip32.rootxprv_from_seed(seed, bytes.fromhex(pv)))
        if not isinstance(root, str) or root == "refused" or root.startswith("foreign"):
            continue
        xpub = _x(lambda: bip32.xpub_from_xprv(root))
        for kind, fn in (("p2pkh", slip132.p2pkh_xkey), ("p2wpkh_p2sh", slip132.p2wpkh_p2sh_xkey), ("p2wpkh", slip132.p2wpkh_xkey)):
            for xkey, path in ((root, [H + 84, H + 1, H]), (root, [3]), (xpub, [0, 5])):
                out = _x(lambda: fn(xkey, path))
                evs.append({"op": "slip132", "fn": f"slip132.{kind}_xkey of a key of version {pv if xkey is root else uv}", "kind": kind, "xkey": payload(xkey), "path": [nat(i) for i in path], "out": payload(out)})
    # 2. the range forms: one call for many indexes is the keys `derive` gives one by one, wherever the caller has put the bounds
    acct = bip32.xpub_from_xprv(bip32.derive(bip32.rootxprv_from_seed(seed), "m/84h/0h/0h"))
    acct_obj = BIP32KeyData.b58decode(acct)
    for branch, idxs, only01, mx in ((0, [0, 1, 0xFFFF], True, 0xFFFF), (1, [0x10000, 0x10001, 0x7FFFFFFF], True, 0x7FFFFFFF), (0, [0xFFFF, 0x10000], True, 0x10000),
                                      (0x10000, [0, 0x10000], False, 0x7FFFFFFF), (7, [5], False, 0xFFFF), (1, [0xFFFFFF], True, 0xFFFFFF)):
        for spelling, thunk in (("text", lambda: bip32.derive_from_account_range(acct, branch, idxs, only01, mx)),
                                ("object", lambda: [k.b58encode() for k in bip32.derive_from_account_range_(acct_obj, branch, idxs, only01, mx)])):
            got = _x(thunk)
            for j, idx in enumerate(idxs):
                one = got[j] if isinstance(got, list) and len(got) == len(idxs) else (got if isinstance(got, str) else "foreign: another number of keys")
                evs.append({"op": "derive", "tag": "range", "fn": f"derive_from_account_range ({spelling} spelling, max_index {mx:#x}, branches_0_1_only {only01})", "xkey": payload(acct),
                            "path": [nat(branch), nat(idx)], "out": payload(one)})
    # 3. BIP44 paths from a key partway down them
    for purpose, coin, ver, fn_name in ((44, 0, "0488ade4", "p2pkh"), (49, 0, "0488ade4", "p2wpkh_p2sh"), (84, 0, "0488ade4", "p2wpkh"), (84, 1, "04358394", "p2wpkh"), (44, 1, "04358394", "p2pkh")):
        root = bip32.rootxprv_from_seed(rnd.randbytes(32), bytes.fromhex(ver))
        path = [H + purpose, H + coin, H + 2, 1, 7]
        net = "mainnet" if coin == 0 else "testnet"
        starts: list[tuple[str, Any]] = [("the master key", root)]
        for depth in range(1, 6):
            k_on = bip32.derive(root, path[:depth])
            starts.append((f"the key at depth {depth}", k_on))
            if depth >= 3:
                starts.append((f"the public key at depth {depth}", bip32.xpub_from_xprv(k_on)))
            # off the path at this depth: the sibling index, the other branch, the hardened / unhardened twin
            for label, alt in (("a sibling", path[depth - 1] + 1), ("the twin across the hardened line", path[depth - 1] ^ H), ("index 0", 0 if path[depth - 1] != 0 else 2)):
                k_off = _x(lambda: bip32.derive(root, path[:depth - 1] + [alt]))
                if isinstance(k_off, str) and k_off != "refused" and not k_off.startswith("foreign"):
                    starts.append((f"{label} of the key at depth {depth}", k_off))
                    if depth >= 3:
                        starts.append((f"{label} of the key at depth {depth}, public", bip32.xpub_from_xprv(k_off)))
        for label, start in starts:
            addr = _x(lambda: bip44.address_from_der_path(start, path))
            refused = isinstance(addr, str) and addr == "refused"
            if isinstance(addr, str) and addr.startswith("foreign"):
                evs.append({"op": "bip44", "what": label, "xkey": payload(start), "path": [nat(i) for i in path], "out": addr})
                continue
            # the key the address is of: read from the library's own derivation from this start (recorded beside it as a derive event the specification checks)
            node = BIP32KeyData.b58decode(start)
            rest = path[node.depth:]
            end = _x(lambda: bip32.derive(start, rest))
            evs.append({"op": "derive", "tag": "bip44", "fn": "derive (the rest of a BIP44 path)", "xkey": payload(start), "path": [nat(i) for i in rest], "out": payload(end)})
            sec = pub_keyinfo_from_key(end)[0].hex() if isinstance(end, str) and end != "refused" and not end.startswith("foreign") else ""
            key_hex = BIP32KeyData.b58decode(end).key.hex() if sec else ""
            evs.append({"op": "bip44", "what": label, "xkey": payload(start), "path": [nat(i) for i in path], "out": "refused" if refused else key_hex})
            if not refused and sec:
                addr_evs.append({"op": "keyaddr", "fn": fn_name, "kind": "sec", "prefix": "", "sec": sec, "net": net, "out": {"refused": False, "v": addr.encode().hex()}, "what": f"bip44 {purpose}h/{coin}h from {label}"})
    return evs, addr_evs


def record_bip85(run: Run, n: int) -> list[dict[str, Any]]:
    """BIP85: the child entropy is HMAC-SHA512("bip-entropy-from-k", derived private key)."""
    from btclib import bip85
    from btclib.bip32 import bip32
    from btclib.bip32.bip32 import BIP32KeyData

    rnd = random.Random(run.seed + 85)
    evs = []
    for _ in range(n):
        root = bip32.rootxprv_from_seed(rnd.randbytes(32))
        path = [H + 83696968, H + rnd.choice([39, 2, 32, 128169]), H + rnd.randrange(0, 100), H + rnd.randrange(0, 50)]
        ent = _x(lambda: bip85.entropy_from_der_path(root, path))
        child = bip32.derive(root, path)
        k = BIP32KeyData.b58decode(child).key[1:]
        evs.append({"op": "hmac512", "fn": "bip85.entropy_from_der_path", "key": b"bip-entropy-from-k".hex(), "msg": k.hex(),
                    "out": ent.hex() if isinstance(ent, (bytes, bytearray)) else str(ent)})
    return evs


def record_more(run: Run, thorough: bool) -> list[dict[str, Any]]:
    """The tweaks API at the hardened boundary, the master key as an object under every kind of version, and BIP85's applications (the language numbers of 39')."""
    from btclib import b58, bip85
    from btclib.bip32 import bip32
    from btclib.bip32.bip32 import BIP32KeyData
    from btclib.mnemonic import bip39

    rnd = random.Random(run.seed + 86)
    evs: list[dict[str, Any]] = []
    # 1. pub_key_derivation_tweaks: unhardened paths answer IL per step, any hardened step (2^31 itself included) is refused
    for _ in range(4 if thorough else 2):
        xpub = BIP32KeyData.b58decode(bip32.xpub_from_xprv(bip32.derive(bip32.rootxprv_from_seed(rnd.randbytes(32)), "m/0h")))
        for path in ([0], [1, 2, 3], [H - 1], [H], [H + 1], [0, H], [2**32 - 1], [5, H - 1, 7], []):
            r = _x(lambda: bip32.pub_key_derivation_tweaks(xpub.key, xpub.chain_code, path))
            evs.append({"op": "tweaks", "key": xpub.key.hex(), "chain": xpub.chain_code.hex(), "path": [nat(i) for i in path],
                        "out": ["ok", [t.hex() for t in r]] if isinstance(r, list) else ["refused"] if r == "refused" else [str(r)]})
        for spelled in ("m/0h", "m/0'", "m/1/0H"):
            r = _x(lambda: bip32.pub_key_derivation_tweaks(xpub.key, xpub.chain_code, spelled))
            idx = [H if p_ in ("0h", "0'", "0H") else int(p_) for p_ in spelled.split("/")[1:]]
            evs.append({"op": "tweaks", "key": xpub.key.hex(), "chain": xpub.chain_code.hex(), "path": [nat(i) for i in idx],
                        "out": ["ok", [t.hex() for t in r]] if isinstance(r, list) else ["refused"] if r == "refused" else [str(r)]})
    # 2. rootxprv_from_seed_ (the object): private versions of both networks and SLIP132, public versions, anything else
    for ver in ("0488ade4", "04358394", "049d7878", "045f18bc", "02575048", "0488b21e", "043587cf", "04b24746", "00000000", "ffffffff", "0488ade5"):
        seed = rnd.randbytes(rnd.choice([16, 32, 64]))
        r = _x(lambda: bip32.rootxprv_from_seed_(seed, bytes.fromhex(ver)))
        evs.append({"op": "master_obj", "seed": seed.hex(), "version": ver, "out": r.serialize(check_validity=False).hex() if isinstance(r, BIP32KeyData) else str(r)})
    # 3. BIP85 applications
    root = bip32.rootxprv_from_seed(rnd.randbytes(32))
    rootp = BIP32KeyData.b58decode(root).serialize().hex()
    for lang in ("en", "ja", "ko", "es", "zh", "zh_tw", "fr", "it", "cs", "pt"):
        for words in ((12, 24) if thorough else (12,)):
            index = rnd.randrange(0, 50)
            m = _x(lambda: bip85.mnemonic_from_root_key(root, words, lang, index))
            ent = _x(lambda: bip39.entropy_from_mnemonic(m, lang)) if isinstance(m, str) and m != "refused" and not m.startswith("foreign") else m
            out = int(ent, 2).to_bytes(len(ent) // 8, "big").hex() if isinstance(ent, str) and set(ent) <= {"0", "1"} and ent else str(ent)
            evs.append({"op": "bip85", "app": "mnemonic", "xkey": rootp, "lang": lang, "words": words, "index": index, "take": words * 4 // 3, "out": out})
    for index in (0, 1, 77):
        w = _x(lambda: bip85.wif_from_root_key(root, index))
        from btclib.to_prv_key import prv_keyinfo_from_prv_key

        q = _x(lambda: prv_keyinfo_from_prv_key(w)[0]) if isinstance(w, str) and w != "refused" else w
        evs.append({"op": "bip85", "app": "wif", "xkey": rootp, "lang": "", "words": 0, "index": index, "take": 32, "out": q.to_bytes(32, "big").hex() if isinstance(q, int) else str(q)})
        xp = _x(lambda: bip85.xprv_from_root_key(root, index))
        kd = _x(lambda: BIP32KeyData.b58decode(xp)) if isinstance(xp, str) and xp != "refused" else xp
        evs.append({"op": "bip85", "app": "xprv", "xkey": rootp, "lang": "", "words": 0, "index": index, "take": 64,
                    "out": (kd.chain_code + kd.key[1:]).hex() if isinstance(kd, BIP32KeyData) else str(kd)})
    return evs


def check(run: Run) -> None:
    thorough = run.tier == "thorough"
    run.rule = ("seeds of 128..512 bits x every BIP32/SLIP132 version pair, paths of depth 0..40 with indexes at 0, 1, 2, 2^31-1, 2^31, 2^31+1, 2^32-1 "
                "and random, every recorded key recomputed field by field; each path also derived in two calls at several splits, from its string "
                "spelling, from the public side (unhardened tail), with a hardened step from a public key, at depth 254/255; both arms. "
                "Non-trivial = a derive event with at least one step")
    run.assumptions = ["the IL >= n and zero-child refusals cannot be reached at real size (probability 2^-127): they are covered by the abstract "
                       "model BIP32Model only, not bound to the code"]
    res = tlc.run("BIP32Model", cfg_text=MODEL_CFG.format(p=11, a=1, b=6, gx=2, gy=4, n=13, depth=4 if thorough else 3), workers=4)
    run.tlc(res, "M BIP32Model")
    for v in res.violations:
        raise tlc.TLCFailure(f"BIP32Model violates {v.name}:\n{v.text[:700]}")
    evs = record(run, 60 if thorough else 14, 1500 if thorough else 150)
    evs += record_bip85(run, 12 if thorough else 3)
    evs += record_more(run, thorough)
    evs += record_forced(run)
    evs += record_slip132(run, 6 if thorough else 2)
    w3, addr_evs = record_wave3(run, thorough)
    evs += w3
    for e in evs:
        if isinstance(e["out"], str) and e["out"].startswith("foreign"):
            run.violation(f"bip32|{e['op']}|{e.get('fn', '')}|foreign", f"{e.get('fn', e['op'])} raised {e['out']}", {"event": e})
    evs2 = [e for e in evs if not (isinstance(e["out"], str) and e["out"].startswith("foreign"))]
    results, bad, diag = events.validate("C07Trace", evs2, batch=400)
    for r in results:
        run.tlc(r, "V C07Trace")
    for k in bad:
        e = evs2[k]
        run.violation(f"bip32|{e['op']}|{e.get('fn', '')}|{e.get('tag', '')}",
                      f"{e.get('fn', e['op'])} ({e.get('tag', '')}): btclib {str(e['out'])[:100]}, BIP32 gives {str(diag.get(k))[:100]}", {"event": e, "spec": diag.get(k)})
    # the addresses bip44 answered, against the address specification (C06Trace: the address of a key on a network)
    ares, abad, adiag = events.validate("C06Trace", [{k: v for k, v in e.items() if k != "what"} for e in addr_evs], batch=400)
    for r in ares:
        run.tlc(r, "V C06Trace (bip44 addresses)")
    for k in abad:
        e = addr_evs[k]
        run.violation(f"bip32|bip44 address|{e['fn']}|{e['net']}", f"address_from_der_path ({e['what']}): btclib {bytes.fromhex(e['out']['v']).decode()}, the address of the key at the end of the path is {str(adiag.get(k))[:200]}",
                      {"event": e, "spec": str(adiag.get(k)), "trace_module": "C06Trace"})
    run.sample({k: v for k, v in evs2[1].items()})
    run.section("ops", {fn: sum(1 for e in evs2 if e.get("fn", e["op"]) == fn) for fn in sorted({e.get("fn", e["op"]) for e in evs2})})
    run.count(evaluations=len(evs), validated=len(evs2), nontrivial=sum(1 for e in evs2 if e["op"] == "derive" and e["path"]))


def replay(path: str) -> int:
    body = json.load(open(path))
    e = body.get("event")
    if not e:
        return 0
    _, bad, diag = events.validate(body.get("trace_module", "C07Trace"), [{k: v for k, v in e.items() if k != "what"} if body.get("trace_module") else e])
    if bad:
        print(f"VIOLATION property=C07 replay={path}  # {diag}")
        return 1
    return 0
