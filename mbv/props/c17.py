"""C17 -- block commitments: merkle roots, proofs, filters, compact blocks and targets.

Spec: Merkle (+MerkleModel), SipHash, GCS (+GCSModel), PoW (+PoWModel), CompactBlock (+CompactBlockModel), C17Trace.
"""

from __future__ import annotations

import hashlib
import json
import random
from datetime import datetime, timedelta, timezone
from typing import Any

from .. import events, tlc
from ..core import Run, nat
from . import c05

MERKLE_CFG = "SPECIFICATION Spec\nCONSTANTS MaxLeaves = {n}\nAlphabet = {{97, 98, 99}}\nINVARIANT Complete\nINVARIANT NoOtherIndex\nINVARIANT NoOtherLeaf\nINVARIANT TailRefused\nINVARIANT UniqueUnlessMutated\nINVARIANT TailMutationFlagged\nCHECK_DEADLOCK FALSE\n"
GCS_CFG = "SPECIFICATION Spec\nCONSTANTS P = {p}\nM = {m}\nMaxN = {n}\nINVARIANT RoundTrip\nINVARIANT OneEncoding\nINVARIANT NoSlack\nCHECK_DEADLOCK FALSE\n"
SIGS = sorted({0, 1, 2, 0x7F, 0x80, 0xFF, 0x100, 0x7FFF, 0x8000, 0xFFFF, 0x10000, 0x7FFFFF, 0x800000, 0x800001, 0x80FFFF, 0xFFFFFF, 0x7FFFFE, 0x123456, 0x008000, 0x00FFFF, 0x00007F, 0x000080})
POW_CFG = ("SPECIFICATION Spec\nCONSTANTS Exps = {" + ", ".join(map(str, list(range(0, 40)) + [128, 254, 255])) + "}\nSigs = {" + ", ".join(map(str, SIGS)) +
           "}\nINVARIANT RoundTripCanonical\nINVARIANT NeverUp\nINVARIANT Perturbed\nINVARIANT NegativeIffSignAndNonZero\nCHECK_DEADLOCK FALSE\n")
CB_CFG = ("SPECIFICATION Spec\nCONSTANTS Txs = {{{txs}}}\nSidRange = {{0, 1, 2}}\nMaxBlock = {mb}\nINVARIANT OnlyAnnounced\nINVARIANT RightWhenPoolComplete\nINVARIANT ExactUnlessForeign\n"
          "INVARIANT RefusedIffInternalCollision\nINVARIANT NoNeedlessRequest\nCHECK_DEADLOCK FALSE\n")


def h256(b: bytes) -> bytes:
    return hashlib.sha256(hashlib.sha256(b).digest()).digest()


def outcome(fn: Any) -> Any:
    from btclib.exceptions import BTClibException

    try:
        return fn()
    except BTClibException:
        return "refused"
    except Exception as e:  # noqa: BLE001
        return f"foreign:{type(e).__name__}"


# the harness's own tree builder (only to make inputs: every answer is judged by the specification)
def levels(leaves: list[bytes]) -> list[list[bytes]]:
    out = [list(leaves)]
    while len(out[-1]) > 1:
        lv = list(out[-1])
        if len(lv) % 2:
            lv.append(lv[-1])
        out.append([h256(lv[i] + lv[i + 1]) for i in range(0, len(lv), 2)])
    return out


def branch_of(leaves: list[bytes], idx: int) -> list[bytes]:
    br = []
    for lv in levels(leaves)[:-1]:
        lv = list(lv) + ([lv[-1]] if len(lv) % 2 else [])
        br.append(lv[idx ^ 1])
        idx //= 2
    return br


def record_merkle(run: Run, rnd: random.Random, thorough: bool, evs: list[dict[str, Any]]) -> None:
    from btclib.block import merkle_proof
    from btclib.hashes import hash256, merkle_root_and_mutated_from_hashes, merkle_root_from_branch

    def toy(x: bytes) -> bytes:
        return b"<" + x + b">"

    pool = [bytes([k]) * 32 for k in range(1, 6)] + [rnd.randbytes(32) for _ in range(6)]
    lists: list[list[bytes]] = []
    for n in list(range(1, 18)) + [31, 32, 33]:
        lists.append([rnd.randbytes(32) for _ in range(n)])
        lists.append([rnd.choice(pool[:3]) for _ in range(n)])                   # repeats: equal siblings at some level
        if n > 1:
            base = [rnd.randbytes(32) for _ in range(n)]
            lists.append(base + base[-1:])                                          # the duplicated tail
            if n % 2 == 0 and n >= 4:
                lists.append(base + base[-2:])                                      # a duplicated pair at the end
    for ls in lists:
        for tag, hf in (("h256", hash256), ("toy", toy)):
            r = outcome(lambda: merkle_root_and_mutated_from_hashes(ls, hf))
            if isinstance(r, str):
                evs.append({"op": "root", "tag": tag, "leaves": [x.hex() for x in ls], "root": r, "mutated": False})
            else:
                evs.append({"op": "root", "tag": tag, "leaves": [x.hex() for x in ls], "root": r[0].hex(), "mutated": r[1]})
    # branches: the right one at every index, at every other index, and every kind of tampering
    for ls in lists[: (len(lists) if thorough else 40)]:
        n = len(ls)
        root = levels(ls)[-1][0]
        depth = len(levels(ls)) - 1
        for i in (range(n) if n <= 9 or thorough else rnd.sample(range(n), 5)):
            br = branch_of(ls, i)
            cases = [(ls[i], br, i)]
            cases += [(ls[i], br, j) for j in (range(2 ** depth + 2) if depth <= 3 else rnd.sample(range(2 ** depth + 2), 6)) if j != i]
            cases += [(ls[i], br, i + 2 ** depth), (ls[i], br[:-1], i), (ls[i], br + [rnd.randbytes(32)], i), (ls[i], br + br[-1:], i)]
            if br:
                k = rnd.randrange(len(br))
                flipped = bytearray(br[k])
                flipped[rnd.randrange(32)] ^= 1 << rnd.randrange(8)
                cases += [(ls[i], br[:k] + [bytes(flipped)] + br[k + 1:], i), (ls[(i + 1) % n], br, i), (ls[i], br[::-1], i)]
            if n % 2 and n > 1:
                cases.append((ls[-1], branch_of(ls, n - 1), n))                     # the padded copy as a position of its own
            for leaf, b, idx in cases:
                o = outcome(lambda: merkle_root_from_branch(leaf, b, idx, hash256))
                evs.append({"op": "branch", "leaf": leaf.hex(), "branch": [x.hex() for x in b], "index": idx, "out": o if isinstance(o, str) else o.hex(), "root": root.hex()})
                v = outcome(lambda: merkle_proof.verify(leaf[::-1], [x[::-1] for x in b], idx, root[::-1]))
                evs.append({"op": "proof", "txid": leaf[::-1].hex(), "branch": [x[::-1].hex() for x in b], "index": idx, "root": root[::-1].hex(), "out": v})
    # CVE-2017-12842: an inner node that is a 64-byte transaction
    tx64 = bytes.fromhex("01000000" + "01" + "11" * 32 + "00000000" + "00" + "ffffffff" + "01" + "e803000000000000" + "04" + "51515151" + "00000000")
    assert len(tx64) == 64
    l0, l1 = tx64[:32], tx64[32:]
    for leaves_, idx, br in (([l0, l1], 0, [l1]), ([l0, l1], 1, [l0]), ([l0, l1, l0, l1][:3] + [rnd.randbytes(32)], 0, None)):
        b = br if br is not None else branch_of(leaves_, idx)
        root = levels(leaves_)[-1][0]
        v = outcome(lambda: merkle_proof.verify(leaves_[idx][::-1], [x[::-1] for x in b], idx, root[::-1]))
        evs.append({"op": "proof", "txid": leaves_[idx][::-1].hex(), "branch": [x[::-1].hex() for x in b], "index": idx, "root": root[::-1].hex(), "out": v})


# --------------------------------------------------------------------------------------
# blocks


def make_block(rnd: random.Random, n_tx: int, witness: bool, variant: str = "ok") -> Any:
    """A small block built field by field; `variant` names what is wrong with its commitments (nothing for 'ok')."""
    from btclib.block.block import Block
    from btclib.block.block_header import BlockHeader
    from btclib.script.script_pub_key import ScriptPubKey
    from btclib.script.witness import Witness
    from btclib.tx import OutPoint, Tx, TxIn, TxOut

    def spk(b: bytes) -> Any:
        return ScriptPubKey(b, check_validity=False)

    txs = []
    for k in range(n_tx):
        wit = Witness([rnd.randbytes(71), rnd.randbytes(33)]) if witness and (k % 2 == 0 or variant == "all-witness") else Witness()
        txs.append(Tx(2, 0, [TxIn(OutPoint(rnd.randbytes(32), k), b"" if wit.stack else rnd.randbytes(20), 0xFFFFFFFF, wit, check_validity=False)],
                      [TxOut(1000 + k, spk(bytes.fromhex("0014") + rnd.randbytes(20)), check_validity=False), TxOut(5, spk(bytes.fromhex("6a04deadbeef")), check_validity=False)], check_validity=False))
    nonce = rnd.randbytes(32)
    wroot = levels([bytes(32)] + [h256(t.serialize(include_witness=True, check_validity=False)) for t in txs])[-1][0]
    commitment = h256(wroot + nonce)
    outs = [TxOut(50 * 10**8, spk(bytes.fromhex("76a914") + rnd.randbytes(20) + bytes.fromhex("88ac")), check_validity=False)]
    cb_wit = Witness([nonce])
    has_commit = witness or variant in ("commit-without-witness",)
    if variant == "wrong-commitment":
        commitment = bytes([commitment[0] ^ 1]) + commitment[1:]
    if variant == "nonce-31":
        cb_wit = Witness([nonce[:31]])
    if variant == "no-nonce" or variant == "commit-without-witness":
        cb_wit = Witness()
    if variant == "two-nonce-items":
        cb_wit = Witness([nonce, b""])
    if variant == "no-commitment":
        has_commit = False
    if has_commit:
        if variant == "two-commitments":
            outs.append(TxOut(0, spk(bytes.fromhex("6a24aa21a9ed") + rnd.randbytes(32)), check_validity=False))
        if variant == "last-is-wrong":
            outs.append(TxOut(0, spk(bytes.fromhex("6a24aa21a9ed") + commitment), check_validity=False))
            outs.append(TxOut(0, spk(bytes.fromhex("6a24aa21a9ed") + rnd.randbytes(32)), check_validity=False))
        elif variant == "short-script":
            outs.append(TxOut(0, spk(bytes.fromhex("6a24aa21a9ed") + commitment[:31]), check_validity=False))
        elif variant == "long-script":
            outs.append(TxOut(0, spk(bytes.fromhex("6a24aa21a9ed") + commitment + b"\x00\x01"), check_validity=False))
        else:
            outs.append(TxOut(0, spk(bytes.fromhex("6a24aa21a9ed") + commitment), check_validity=False))
    coinbase = Tx(2, 0, [TxIn(OutPoint(bytes(32), 0xFFFFFFFF), bytes.fromhex("03a08601") + rnd.randbytes(4), 0xFFFFFFFF, cb_wit, check_validity=False)], outs, check_validity=False)
    all_txs = [coinbase] + txs
    if variant == "dup-tail" and len(all_txs) % 2 == 1 and len(all_txs) > 1:
        all_txs = all_txs + all_txs[-1:]
    root = levels([h256(t.serialize(include_witness=False, check_validity=False)) for t in (all_txs if variant != "dup-tail" else all_txs)])[-1][0]
    if variant == "wrong-root":
        root = bytes([root[0] ^ 0x80]) + root[1:]
    hdr = BlockHeader(0x20000000, rnd.randbytes(32), root[::-1], datetime(2021, 1, 1, tzinfo=timezone.utc) + timedelta(seconds=rnd.randrange(10**6)), bytes.fromhex("207fffff"), rnd.randrange(2**32), check_validity=False)
    return Block(hdr, all_txs, check_validity=False)


BLOCK_VARIANTS = ["ok", "wrong-root", "dup-tail", "wrong-commitment", "nonce-31", "no-nonce", "two-nonce-items", "no-commitment", "two-commitments", "last-is-wrong", "short-script",
                  "long-script", "commit-without-witness", "all-witness"]


def record_blocks(run: Run, rnd: random.Random, thorough: bool, evs: list[dict[str, Any]]) -> list[Any]:
    from btclib.block.block import Block

    blocks = []
    for variant in BLOCK_VARIANTS:
        for n in ((0, 1, 2, 3, 4, 6) if thorough else (0, 2, 3)):
            for witness in (True, False):
                blocks.append((variant, make_block(rnd, n, witness, variant)))
    for b in c05.seeds().get("Block", []):
        blocks.append(("vendored", Block.parse(b, check_validity=False)))
    for variant, blk in blocks:
        a = outcome(lambda: blk.assert_valid_merkle_root())
        c = outcome(lambda: blk.assert_valid_witness_commitment())
        evs.append({"op": "block", "variant": variant, "hex": blk.serialize(include_witness=True, check_validity=False).hex(), "root_ok": a is None, "commit_ok": c is None,
                    "foreign": [x for x in (a, c) if isinstance(x, str) and x.startswith("foreign")]})
    return [b for v, b in blocks if v in ("ok", "vendored", "all-witness")]


# --------------------------------------------------------------------------------------
# filters


def record_filters(run: Run, rnd: random.Random, thorough: bool, evs: list[dict[str, Any]], blocks: list[Any]) -> None:
    from btclib.block.block import Block
    from btclib.block.block_filter import BASIC_FILTER_M, BasicBlockFilter
    from btclib.hashes import siphash

    cases: list[tuple[Any, list[bytes]]] = []
    for blk in blocks[: (20 if thorough else 8)]:
        spent = sum(len(t.vin) for t in blk.transactions if not t.is_coinbase)
        prev = [rnd.choice([bytes.fromhex("0014") + rnd.randbytes(20), bytes.fromhex("a914") + rnd.randbytes(20) + b"\x87", b"", bytes.fromhex("6a0401020304")]) for _ in range(spent)]
        if spent >= 2:
            prev[1] = prev[0]          # a repeated script weighs once
        cases.append((blk, prev))
    vec = json.load(open(f"{c05.REPO}/tests/block/_data/blockfilters.json")) if hasattr(c05, "REPO") else []
    for row in vec[1: (11 if thorough else 5)]:
        try:
            cases.append((Block.parse(row[2], check_validity=False), [bytes.fromhex(x) for x in row[3]]))
        except Exception:  # noqa: BLE001
            pass
    # two different scripts hashing to one value: found by search over prevout scripts (they do not move the key or N)
    if blocks:
        blk = next(b for b in blocks if sum(len(t.vin) for t in b.transactions if not t.is_coinbase) >= 2)
        spent = sum(len(t.vin) for t in blk.transactions if not t.is_coinbase)
        outs = {o.script_pub_key.script for t in blk.transactions for o in t.vout if o.script_pub_key.script and o.script_pub_key.script[0] != 0x6A}
        n = len(outs) + spent
        internal = blk.header.hash[::-1]
        k0, k1 = int.from_bytes(internal[:8], "little"), int.from_bytes(internal[8:16], "little")
        seen: dict[int, bytes] = {}
        pair = None
        for c in range(400_000):
            s = b"\x00\x14" + c.to_bytes(20, "big")
            v = (siphash(k0, k1, s) * (n * BASIC_FILTER_M)) >> 64
            if v in seen:
                pair = (seen[v], s)
                break
            seen[v] = s
        if pair:
            prev = [bytes.fromhex("0014") + rnd.randbytes(20) for _ in range(spent)]
            prev[0], prev[1] = pair
            cases.append((blk, prev))
            run.note(f"filter value collision found after {c} candidates (N={n})")
    for blk, prev in cases:
        f = outcome(lambda: BasicBlockFilter.from_block(blk, prev))
        if isinstance(f, str):
            evs.append({"op": "filter", "hex": blk.serialize(include_witness=True, check_validity=False).hex(), "prevouts": [p.hex() for p in prev], "n": -1, "bytes": "", "err": f})
            continue
        evs.append({"op": "filter", "hex": blk.serialize(include_witness=True, check_validity=False).hex(), "prevouts": [p.hex() for p in prev], "n": f.element_count, "bytes": f.encoded_set.hex()})
        members = {o.script_pub_key.script for t in blk.transactions for o in t.vout if o.script_pub_key.script and o.script_pub_key.script[0] != 0x6A} | {p for p in prev if p}
        probes = list(members)[: (40 if thorough else 10)] + [rnd.randbytes(22) for _ in range(6)] + [b"\x6a\x04\xde\xad\xbe\xef"]
        for el in probes:
            evs.append({"op": "match", "hash": blk.header.hash.hex(), "n": f.element_count, "bytes": f.encoded_set.hex(), "element": el.hex(), "member": el in members, "out": outcome(lambda: f.match(el))})
        # sets of queries: a wallet's worth of scripts that are not in the block with no, one or several members among them, at the front, in the middle and
        # at the end; the members alone; the same query twice; the empty set
        mem = sorted(members)[:6]
        decoys = [b"\x00\x14" + rnd.randbytes(20) for _ in range(60 if thorough else 25)]
        queries: list[list[bytes]] = [[], decoys, mem, mem[:1] * 2, decoys + mem[:1], mem[:1] + decoys, decoys[:10] + mem[:1] + decoys[10:], decoys + mem[-1:], decoys[:3] + mem[:2] + decoys[3:6]]
        for m_ in mem[1:4]:
            queries.append(rnd.sample(decoys + [m_], len(decoys) + 1))
        for q in queries:
            got = outcome(lambda: f.match_any(q))
            if not q and isinstance(got, str):
                continue            # (an empty query set may be refused: there is nothing to ask)
            evs.append({"op": "match_any", "hash": blk.header.hash.hex(), "n": f.element_count, "bytes": f.encoded_set.hex(), "elements": [x.hex() for x in q], "out": got})
        # what the octets decode to, and every kind of damage to them
        ser = f.encoded_set
        variants = [(f.element_count, ser), (f.element_count, ser + b"\x00"), (f.element_count, ser[:-1]), (f.element_count + 1, ser), (max(0, f.element_count - 1), ser)]
        for _ in range(12 if thorough else 4):
            if ser:
                k = rnd.randrange(len(ser))
                variants.append((f.element_count, ser[:k] + bytes([ser[k] ^ (1 << rnd.randrange(8))]) + ser[k + 1:]))
        if ser and ser[-1] % 2 == 0:
            variants.append((f.element_count, ser[:-1] + bytes([ser[-1] | 1])))          # a non-zero padding bit (when the last bit is padding)
        for n_, b_ in variants:
            d = outcome(lambda: BasicBlockFilter(blk.header.hash, n_, b_).element_hashes)
            evs.append({"op": "decode", "n": n_, "bytes": b_.hex(), "refused": isinstance(d, str), "out": [] if isinstance(d, str) else [nat(x) for x in d], "err": d if isinstance(d, str) else ""})


# --------------------------------------------------------------------------------------
# proof of work


def record_pow(run: Run, rnd: random.Random, thorough: bool, evs: list[dict[str, Any]]) -> None:
    from btclib.block import proof_of_work as pw

    bits_list = [bytes([e]) + s.to_bytes(3, "big") for e in list(range(0, 36)) + [0x7F, 0x80, 0xFE, 0xFF] for s in SIGS]
    bits_list += [rnd.randbytes(4) for _ in range(2000 if thorough else 200)]
    for b in bits_list:
        t = outcome(lambda: pw.target_from_bits(b))
        evs.append({"op": "bits", "bits": b.hex(), "target": t if isinstance(t, str) else t.hex(), "negative": outcome(lambda: pw.is_negative_bits(b))})
        w = outcome(lambda: pw.block_work(b))
        evs.append({"op": "work", "bits": b.hex(), "out": w if isinstance(w, str) else nat(w)})
    targets = []
    for nbytes in range(0, 33):
        for top in (0x01, 0x7F, 0x80, 0xFF):
            for fill in (0x00, 0xFF, None):
                if nbytes == 0:
                    targets.append(b"")
                    continue
                rest = rnd.randbytes(nbytes - 1) if fill is None else bytes([fill]) * (nbytes - 1)
                targets.append(bytes([top]) + rest)
    targets += [bytes(32), bytes(31) + b"\x01", b"\x00" * 5 + b"\x80" + bytes(26)] + [rnd.randbytes(rnd.randint(1, 32)) for _ in range(300 if thorough else 40)]
    for t in targets:
        for form in (t, t.rjust(32, b"\x00")):
            evs.append({"op": "target", "target": form.hex(), "bits": outcome(lambda: pw.bits_from_target(form).hex())})
    two_weeks = 1209600
    t0 = datetime(2020, 1, 1, tzinfo=timezone.utc)
    spans = [0, 1, -1, -10**6, two_weeks // 4 - 1, two_weeks // 4, two_weeks // 4 + 1, two_weeks - 1, two_weeks, two_weeks + 1, two_weeks * 4 - 1, two_weeks * 4, two_weeks * 4 + 1, 10**8]
    spans += [rnd.randint(-10**6, 6 * two_weeks) for _ in range(100 if thorough else 15)]
    limits = [pw.MAINNET_POW_LIMIT_BITS, pw.REGTEST_POW_LIMIT_BITS]
    starts = [bytes.fromhex(x) for x in ("1d00ffff", "1c7fffff", "1b0404cb", "170b3ce9", "207fffff", "1e7fffff", "03000001", "04008000", "2100ffff", "1d00fffe", "1a05db8b")]
    for b in starts:
        for sp in spans:
            for lim in limits:
                o = outcome(lambda: pw.next_bits(b, t0, t0 + timedelta(seconds=sp), pow_limit_bits=lim))
                evs.append({"op": "next", "bits": b.hex(), "timespan": sp, "limit": lim.hex(), "out": o if isinstance(o, str) else o.hex()})


# --------------------------------------------------------------------------------------
# compact blocks


def record_compact(run: Run, rnd: random.Random, thorough: bool, evs: list[dict[str, Any]], blocks: list[Any]) -> None:
    from btclib.p2p.compact_blocks import CmpctBlock, PrefilledTransaction, reconstruct

    usable = [b for b in blocks if len(b.transactions) >= 3][: (10 if thorough else 4)]
    foreign = [t for b in blocks for t in b.transactions[1:]]
    for blk in usable:
        txs = list(blk.transactions)
        n = len(txs)
        for rep in range(14 if thorough else 7):
            nonce = rnd.getrandbits(64) if rep else 0
            # the prefilled set: the coinbase alone (what a sender does), the coinbase and others, and sets without the coinbase -- none at all, the
            # second transaction, the last one -- which BIP152 allows as well (the pools then hold the coinbase)
            pre_idx = sorted([{0}, {0} | {rnd.randrange(n) for _ in range(rnd.randint(1, 2))}, set(), {1}, {n - 1}, {0, n - 1}, {rnd.randrange(1, n), rnd.randrange(1, n)}][rep % 7])
            cb0 = CmpctBlock(blk.header, nonce, [], [], check_validity=False)
            sids = [cb0.short_id(t.hash) for k, t in enumerate(txs) if k not in pre_idx]
            mode = ["honest", "honest", "dup-sid", "foreign-sid", "honest"][rep % 5]
            pool_extra: list[Any] = []
            if mode == "dup-sid" and len(sids) >= 2:
                sids[-1] = sids[0]
            if mode == "foreign-sid" and sids:
                f = rnd.choice([t for t in foreign if t not in txs] or foreign)
                sids[0] = cb0.short_id(f.hash)
                pool_extra = [f]
            cb = CmpctBlock(blk.header, nonce, sids, [PrefilledTransaction(k, txs[k], check_validity=False) for k in pre_idx], check_validity=False)
            for pool_kind in ("all", "shuffled+foreign", "some", "none", "twice"):
                mine = txs[1:] if 0 in pre_idx else txs
                pool = {"all": mine, "shuffled+foreign": rnd.sample(mine + foreign[:5], len(mine + foreign[:5])), "some": [t for t in mine if rnd.random() < 0.5],
                        "none": [], "twice": mine + mine}[pool_kind] + pool_extra
                for t in {id(t): t for t in pool + txs}.values():
                    evs.append({"op": "sid", "header": blk.header.serialize(check_validity=False).hex(), "nonce": nonce.to_bytes(8, "little").hex(), "wtxid": t.hash.hex(), "out": nat(cb.short_id(t.hash))}) if rep == 0 and pool_kind == "all" else None
                r = outcome(lambda: reconstruct(cb, pool))
                e = {"op": "cmpct", "header": blk.header.serialize(check_validity=False).hex(), "nonce": nonce.to_bytes(8, "little").hex(), "count": n, "mode": mode, "pool_kind": pool_kind,
                     "prefilled": [{"i": k, "w": txs[k].hash.hex()} for k in pre_idx], "sids": [nat(s) for s in sids], "pool": [t.hash.hex() for t in pool]}
                if isinstance(r, str):
                    e["refused"], e["out"], e["err"] = True, [], r
                    evs.append(e)
                    continue
                e["refused"], e["out"] = False, [("" if t is None else t.hash.hex()) for t in r.transactions]
                evs.append(e)
                missing = r.missing_indexes
                for supplied in ([txs[k] for k in missing], [txs[k] for k in missing][:-1], [txs[k] for k in missing] + txs[:1]):
                    fb = outcome(lambda: r.fill(supplied, check_validity=False))
                    evs.append({"op": "fill", "slots": e["out"], "supplied": [t.hash.hex() for t in supplied], "refused": isinstance(fb, str), "err": fb if isinstance(fb, str) else "",
                                "out": [] if isinstance(fb, str) else [t.hash.hex() for t in fb.transactions],
                                "block_ok": (not isinstance(fb, str)) and mode == "honest" and len(supplied) == len(missing) and fb == blk})


def check(run: Run) -> None:
    thorough = run.tier == "thorough"
    rnd = random.Random(run.seed)
    run.rule = ("merkle: lists of 1..17, 31..33 leaves with repeats and duplicated tails, every index x the right branch, every other index, bit flips, foreign leaves, short and long "
                "branches; blocks: 14 commitment variants x 0-6 transactions x with/without witnesses; filters: built blocks, BIP158 vector blocks and an engineered value collision, "
                "every member matched, decoding of damaged octets; compact targets: 40 exponents x 22 significands + random, targets at every byte length, retargets across both clamps "
                "and the limit; compact blocks: honest, duplicated and foreign short ids x 5 pools x prefilled subsets x nonces")
    run.assumptions = ["SHA256 / hash256 are the Java overrides of module Hash (validated against FIPS vectors by the build self-test)",
                       "the witness-commitment rule is Core's ContextualCheckBlock with segwit active"]
    for name, cfg in (("MerkleModel", MERKLE_CFG.format(n=6 if thorough else 5)), ("GCSModel", GCS_CFG.format(p=2, m=5, n=3)), ("PoWModel", POW_CFG),
                      ("CompactBlockModel", CB_CFG.format(txs="1, 2, 3, 4", mb=3) if thorough else CB_CFG.format(txs="1, 2, 3", mb=3))):
        res = tlc.run(name, cfg_text=cfg, workers=16, timeout=1500)
        for v in res.violations:
            raise tlc.TLCFailure(f"{name} violates {v.name}:\n{v.text[:600]}")
        run.tlc(res, f"M {name}")
    evs: list[dict[str, Any]] = []
    record_merkle(run, rnd, thorough, evs)
    blocks = record_blocks(run, rnd, thorough, evs)
    record_filters(run, rnd, thorough, evs, blocks)
    record_pow(run, rnd, thorough, evs)
    record_compact(run, rnd, thorough, evs, blocks)
    evs = [e for e in evs if e is not None]
    keep = ("op", "tag", "leaves", "root", "mutated", "leaf", "branch", "index", "out", "txid", "hex", "root_ok", "commit_ok", "prevouts", "n", "bytes", "hash", "element", "bits", "target",
            "negative", "timespan", "limit", "header", "nonce", "wtxid", "count", "prefilled", "sids", "pool", "slots", "supplied", "refused", "elements")
    compact = [{k: v for k, v in e.items() if k in keep} for e in evs]
    results, bad, diag = events.validate("C17Trace", compact, batch=3000, timeout=3000)
    for r in results:
        run.tlc(r, "V C17Trace")
    for k in bad:
        e = evs[k]
        small = {kk: (vv if not isinstance(vv, (str, list)) or len(vv) < 90 else (vv[:90] if isinstance(vv, str) else vv[:3])) for kk, vv in e.items()}
        sub = e.get("variant") or e.get("mode") or ("member" if e.get("member") else "")
        run.violation(f"commitments|{e['op']}|{sub}", f"{e['op']}: the specification does not explain {small}; expected {diag.get(k)}", {"event": e, "expected": str(diag.get(k))})
    # clauses that are properties of the recorded answers themselves
    for e in evs:
        if e["op"] == "match" and e["member"] and e["out"] is not True:
            run.violation("commitments|match|false negative", f"a filter does not match a script it was built from: {e['element']}", {"event": e})
        if e["op"] == "fill" and e.get("block_ok") is False and isinstance(e["out"], list) and len(e["supplied"]) == e["slots"].count("") and False:
            pass
    run.sample({"event": {k: (v if not isinstance(v, (str, list)) or len(v) < 100 else v[:100]) for k, v in next(e for e in evs if e["op"] == "cmpct").items()}})
    run.section("events", {"by_op": {op: sum(1 for e in evs if e["op"] == op) for op in sorted({e["op"] for e in evs})}})
    run.count(evaluations=len(evs), validated=len(evs), nontrivial=len(evs))


def replay(path: str) -> int:
    body = json.load(open(path))
    e = body.get("event")
    if not e:
        return 0
    results, bad, diag = events.validate("C17Trace", [e], workers=1)
    if bad:
        print(f"VIOLATION property=C17 replay={path}  # recorded event not explained by the specification; expected {diag.get(0)}")
        return 1
    return 0
