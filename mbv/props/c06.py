"""C06 -- text encodings and addresses round-trip and accept exactly what the specs accept.

Spec: Bech32 (BIP173/350 reference decoder, polymod on TLC integers), Base58 (long division on BigNat,
double-SHA256 checksum), Address (templates and prefix tables from the BIPs / chainparams), Bech32Model (M),
C06Trace (V).
"""

from __future__ import annotations

import json
import random
from typing import Any

from .. import events, tlc
from ..core import Run

MODEL_CFG = """SPECIFICATION MSpec
INVARIANT RoundTrip
INVARIANT DetectsUpTo2
INVARIANT ConvertInverse
INVARIANT AddressInverse
INVARIANT NetworksApart
CHECK_DEADLOCK FALSE
"""

NETS = {"mainnet": "main", "testnet": "test", "signet": "test", "regtest": "regtest", "testnet4": "test"}


def hx(s: str | bytes) -> str:
    return (s.encode("utf-8", "surrogatepass") if isinstance(s, str) else bytes(s)).hex()


def _call(fn: Any) -> Any:
    from btclib.exceptions import BTClibException

    try:
        return ("ok", fn())
    except BTClibException:
        return ("refused", None)
    except Exception as e:  # noqa: BLE001
        return ("foreign", f"{type(e).__name__}: {e}"[:100])


def near_misses(s: str, rnd: random.Random, budget: int) -> list[str]:
    """Every single-character substitution (sampled), adjacent transposition, case flip, truncation, extension."""
    out = [s, s.upper(), s.lower(), s[:1].upper() + s[1:], s + "q", s + "1", " " + s, s[:-1], s[1:]]
    # characters Unicode's case mapping takes to ASCII letters (U+212A KELVIN SIGN lowers to "k", U+017F LONG S uppers to "S", U+0130 lowers to "i" + a mark)
    for ascii_c, uni in (("K", "\u212a"), ("k", "\u212a"), ("s", "\u017f"), ("S", "\u017f"), ("I", "\u0130"), ("i", "\u0131")):
        for base in (s, s.upper()):
            if ascii_c in base:
                k_ = base.rindex(ascii_c)
                out.append(base[:k_] + uni + base[k_ + 1:])
    alphabet = "qpzry9x8gf2tvdw0s3jn54khce6mua7l" + "bio1BO" + "123456789ABCDEFGHJKLMNPQRSTUVWXYZabcdefghijkmnopqrstuvwxyz"[::5]
    for i in range(len(s)):
        for c in rnd.sample(alphabet, 3) + [s[i].swapcase()]:
            if c != s[i]:
                out.append(s[:i] + c + s[i + 1:])
        if i + 1 < len(s) and s[i] != s[i + 1]:
            out.append(s[:i] + s[i + 1] + s[i] + s[i + 2:])
        out.append(s[:i] + s[i + 1:])
    uniq = list(dict.fromkeys(out))
    if len(uniq) > budget:
        keep = min(9, budget)
        uniq = uniq[:keep] + rnd.sample(uniq[keep:], max(0, budget - keep))
    return uniq


def record(run: Run, thorough: bool) -> list[dict[str, Any]]:
    from btclib import b32, b58, base58, bech32
    from btclib.script import script_pub_key as script_pub_key_mod
    from btclib.script.script_pub_key import ScriptPubKey

    rnd = random.Random(run.seed)
    evs: list[dict[str, Any]] = []
    budget = 120 if thorough else 25

    def out_of(res: Any, enc: Any) -> Any:
        kind, v = res
        if kind == "ok":
            return {"refused": False, **enc(v)}
        if kind == "refused":
            return {"refused": True}
        return {"foreign": v}

    # ---- base58check ----
    payloads = [b"", b"\x00", b"\x00\x00\x01", b"\xff" * 5, bytes(21), b"\x00" + rnd.randbytes(20), rnd.randbytes(33), rnd.randbytes(78)]
    payloads += [rnd.randbytes(rnd.randrange(1, 40)) for _ in range(12 if thorough else 4)]
    for p in payloads:
        res = _call(lambda: base58.encode(p))
        evs.append({"op": "b58check_encode", "payload": p.hex(), "out": out_of(res, lambda v: {"v": hx(v)})})
        if res[0] != "ok":
            continue
        s = res[1].decode()
        for m in near_misses(s, rnd, budget):
            if not m.isascii():
                continue
            r2 = _call(lambda: base58.decode(m))
            evs.append({"op": "b58check_decode", "s": hx(m), "out": out_of(r2, lambda v: {"v": bytes(v).hex()})})
    # ---- a 20-octet hash written as an address, and payloads of every other size around it (a sha256 handed to p2sh, an x-only key, nothing) ----
    for net, sn in NETS.items():
        for typ in ("p2pkh", "p2sh"):
            for ln in (0, 1, 19, 20, 21, 32, 33):
                payload = rnd.randbytes(ln)
                res = _call(lambda: b58.address_from_h160(typ, payload, net))
                evs.append({"op": "b58_address", "type": typ, "net": sn, "payload": payload.hex(), "out": out_of(res, lambda v: {"v": hx(v)})})
                res = _call(lambda: b58.address_from_h160(typ, payload.hex(), net))
                evs.append({"op": "b58_address", "type": typ, "net": sn, "payload": payload.hex(), "out": out_of(res, lambda v: {"v": hx(v)})})
    # ---- segwit addresses: every version x length x network ----
    lengths = list(range(2, 41)) if thorough else [2, 3, 19, 20, 21, 31, 32, 33, 39, 40]
    combos = [(v, n) for v in range(0, 17) for n in lengths]
    if not thorough:
        combos = [c for c in combos if c[0] in (0, 1, 2, 16) or c[1] in (20, 32)]
    for net, sn in NETS.items():
        for ver, ln in (combos if net == "mainnet" else rnd.sample(combos, min(len(combos), 12))):
            prog = rnd.randbytes(ln)
            res = _call(lambda: b32.address_from_witness(ver, prog, net))
            evs.append({"op": "segwit_encode", "net": sn, "ver": ver, "prog": prog.hex(), "out": out_of(res, lambda v: {"v": hx(v)})})
            if res[0] != "ok":
                continue
            addr = res[1] if isinstance(res[1], str) else res[1].decode()
            ms = near_misses(addr, rnd, budget if (ver, ln) in ((0, 20), (1, 32), (0, 32), (16, 2)) else 6)
            for m in ms:
                r2 = _call(lambda: b32.witness_from_address(m))
                evs.append({"op": "segwit_decode", "s": hx(m.strip() if m != addr else m),
                            "out": out_of(r2, lambda v: {"ver": v[0], "prog": bytes(v[1]).hex(), "net": NETS.get(v[2], v[2])})})
    # wrong checksum constant for the version, padding errors, invalid program lengths: built by hand with the library's own encoder
    for ver, ln, m_const in ((0, 20, 0x2BC830A3), (1, 32, 1), (2, 10, 1), (0, 21, 1), (0, 19, 1), (1, 1, 0x2BC830A3), (1, 41, 0x2BC830A3), (17, 20, 0x2BC830A3)):
        prog = rnd.randbytes(ln)
        data = [ver] + list(b32.power_of_2_base_conversion(prog, 8, 5, True))
        res = _call(lambda: bech32.encode("bc", data, m_const))
        if res[0] == "ok":
            s = res[1].decode()
            r2 = _call(lambda: b32.witness_from_address(s))
            evs.append({"op": "segwit_decode", "s": hx(s), "out": out_of(r2, lambda v: {"ver": v[0], "prog": bytes(v[1]).hex(), "net": NETS.get(v[2], v[2])})})
    # non-zero / overlong padding
    # (the checksum is recomputed, so only the 5-to-8 regrouping can refuse: every program length class modulo 5 bytes, with 1-3 surplus
    # characters of zeros, a surplus non-zero character, and non-zero bits in the last, partial group)
    for ver, ln in [(0, 20), (0, 32), (1, 32)] + [(v, n) for v in (1, 2, 16) for n in ((2, 3, 5, 10, 15, 24, 33, 36, 39, 40) if thorough else (5, 15, 33, 40))]:
        groups = list(b32.power_of_2_base_conversion(rnd.randbytes(ln), 8, 5, True))
        pads: list[list[int]] = [[0], [0, 0], [0, 0, 0], [1], [16], [0, 1]]
        variants = [groups + pad for pad in pads]
        spare = (5 * len(groups)) - 8 * ln
        if spare:
            variants += [groups[:-1] + [groups[-1] | 1], groups[:-1] + [groups[-1] | (1 << (spare - 1))]]
        for data in variants:
            res = _call(lambda: bech32.encode(rnd.choice(["bc", "tb", "bcrt"]), [ver, *data], 1 if ver == 0 else 0x2BC830A3))
            if res[0] == "ok":
                s = res[1].decode()
                r2 = _call(lambda: b32.witness_from_address(s))
                evs.append({"op": "segwit_decode", "s": hx(s), "out": out_of(r2, lambda v: {"ver": v[0], "prog": bytes(v[1]).hex(), "net": NETS.get(v[2], v[2])})})
    # ---- generic bech32 strings (BIP173 / BIP350 vectors shapes) ----
    for hrp, data, const in (("a", [], 1), ("a", [], 0x2BC830A3), ("abcdef", list(range(32)), 1), ("split", [24, 23, 25, 24, 22, 28, 1, 16, 11, 29, 8, 25, 23, 29, 19, 13, 16, 23, 29, 22, 25, 28, 1, 16, 11, 3, 25, 29, 27, 25, 3, 3, 29, 19, 11, 25, 3, 3, 25, 13, 24, 29, 1, 25, 3, 3, 25, 13], 0x2BC830A3), ("?", [1, 2], 1)):
        res = _call(lambda: bech32.encode(hrp, data, const))
        if res[0] != "ok":
            continue
        s = res[1].decode()
        for m in near_misses(s, rnd, 12):
            for mc in (1, 0x2BC830A3):
                r2 = _call(lambda: bech32.decode(m, mc))
                evs.append({"op": "bech32_decode", "s": hx(m), "m": mc, "out": out_of(r2, lambda v: {"hrp": hx(v[0]), "data": list(v[1])})})
    # ---- address <-> scriptPubKey on every standard type, every network ----
    for net, sn in NETS.items():
        spks = [b"\x76\xa9\x14" + rnd.randbytes(20) + b"\x88\xac", b"\xa9\x14" + rnd.randbytes(20) + b"\x87", b"\x00\x14" + rnd.randbytes(20),
                b"\x00\x20" + rnd.randbytes(32), b"\x51\x20" + rnd.randbytes(32), b"\x52\x02" + rnd.randbytes(2), b"\x60\x28" + rnd.randbytes(40),
                b"\x51", b"\x6a\x04test", b"\x00\x15" + rnd.randbytes(21)]
        for spk in spks:
            res = _call(lambda: ScriptPubKey(spk, net, check_validity=False).address)
            evs.append({"op": "address_encode", "spk": spk.hex(), "net": sn, "out": out_of(res, lambda v: {"v": hx(v)})})
            if res[0] == "ok" and res[1]:
                addr = res[1]
                for m in near_misses(addr, rnd, 10):
                    def dec(m: str = m) -> Any:
                        o = ScriptPubKey.from_address(m)
                        return o.script, o.network

                    r2 = _call(dec)
                    evs.append({"op": "address_decode", "s": hx(m.strip()), "wrote": sn,
                                "out": out_of(r2, lambda v: {"spk": bytes(v[0]).hex(), "net": "test" if NETS.get(v[1], v[1]) == "regtest" and not addr.startswith("bcrt") else NETS.get(v[1], v[1])})})
    # ---- keys in every spelling on every network: which network a string is read as, and the addresses it gives there ----
    from btclib.bip32 import bip32
    from btclib.curves import mult
    from btclib.network import NETWORKS
    from btclib.to_prv_key import prv_keyinfo_from_prv_key as prv_info
    from btclib.to_pub_key import pub_keyinfo_from_key as pub_info

    def sec_of(q: int, compressed: bool = True) -> bytes:
        x, y = mult(q)
        return (bytes([2 + y % 2]) + x.to_bytes(32, "big")) if compressed else b"\x04" + x.to_bytes(32, "big") + y.to_bytes(32, "big")

    declared = ["", *NETS]
    for net, table in NETWORKS.items():
        q = rnd.randrange(1, 2**255)
        spellings: list[tuple[str, str, Any, bytes]] = [("wif", table.wif.hex(), b58.wif_from_prv_key(q, net, True), sec_of(q)), ("sec", "", sec_of(q), sec_of(q))]
        fields = ["bip32", "slip132_p2wpkh", "slip132_p2wpkh_p2sh", "slip132_p2wsh", "slip132_p2wsh_p2sh"]
        for f in (fields if thorough or net in ("mainnet", "signet") else rnd.sample(fields, 2)):
            xprv = bip32.derive(bip32.rootxprv_from_seed(rnd.randbytes(32), getattr(table, f + "_prv")), "m/1h/7")
            xpub = bip32.xpub_from_xprv(xprv)
            kd = bip32.BIP32KeyData.b58decode(xpub)
            spellings += [("xprv", getattr(table, f + "_prv").hex(), xprv, kd.key), ("xpub", kd.version.hex(), xpub, kd.key)]
        for kind, prefix, key, sec_bytes in spellings:
            for d in declared:
                if kind != "sec":
                    if kind != "xpub":
                        r0 = _call(lambda: prv_info(key, d or None))
                        evs.append({"op": "keyinfo", "kind": kind, "prefix": prefix, "declared": d, "via": "prv_keyinfo_from_prv_key", "out": out_of(r0, lambda v: {"net": v[1]})})
                    r1 = _call(lambda: pub_info(key, d or None))
                    evs.append({"op": "keyinfo", "kind": kind, "prefix": prefix, "declared": d, "via": "pub_keyinfo_from_key", "out": out_of(r1, lambda v: {"net": v[1]})})
                if d:
                    for fn, f2 in (("p2pkh", b58.p2pkh), ("p2wpkh", b32.p2wpkh), ("p2wpkh_p2sh", b58.p2wpkh_p2sh)):
                        r2 = _call(lambda: f2(key, d))
                        evs.append({"op": "keyaddr", "fn": fn, "kind": kind, "prefix": prefix, "sec": sec_bytes.hex(), "net": d, "out": out_of(r2, lambda v: {"v": hx(v)})})
    # ---- a key that says nothing about compression (a point, a prepared point) or says it (SEC octets, WIF), with the caller asking for either form ----
    from btclib.curves import PreparedPoint, secp256k1

    qk = rnd.randrange(1, 2**255)
    Pk = mult(qk)
    for kname, keyobj, says in (("point", Pk, None), ("prepared point", PreparedPoint(Pk, secp256k1), None), ("sec compressed", sec_of(qk, True), True), ("sec uncompressed", sec_of(qk, False), False),
                                ("wif compressed", b58.wif_from_prv_key(qk, "mainnet", True), True), ("wif uncompressed", b58.wif_from_prv_key(qk, "mainnet", False), False)):
        for asked in (None, True, False):
            want = says if asked is None else asked
            r4 = _call(lambda: b58.p2pkh(keyobj, "mainnet", asked))
            if says is not None and asked is not None and says != asked:
                evs.append({"op": "keyaddr", "fn": "p2pkh", "kind": "wif", "prefix": "ef", "sec": "", "net": "mainnet", "out": out_of(r4, lambda v: {"v": hx(v)}), "what": f"{kname} asked as compressed={asked}"})   # a contradiction is refused
                continue
            evs.append({"op": "keyaddr", "fn": "p2pkh", "kind": "sec", "prefix": "", "sec": sec_of(qk, True if want is None else want).hex(), "net": "mainnet", "out": out_of(r4, lambda v: {"v": hx(v)}),
                        "what": f"{kname} asked as compressed={asked}"})
            r5 = _call(lambda: ScriptPubKey.p2pkh(keyobj, asked, "mainnet").address)
            evs.append({"op": "keyaddr", "fn": "p2pkh", "kind": "sec", "prefix": "", "sec": sec_of(qk, True if want is None else want).hex(), "net": "mainnet", "out": out_of(r5, lambda v: {"v": hx(v)}),
                        "what": f"ScriptPubKey.p2pkh of a {kname} asked as compressed={asked}"})
    # ---- a witness v0 key hash is over a compressed key only (BIP143): the same spellings through every p2wpkh entry point; a key that says "uncompressed" is refused ----
    for kname, keyobj, says in (("point", Pk, None), ("prepared point", PreparedPoint(Pk, secp256k1), None), ("sec compressed", sec_of(qk, True), True), ("sec uncompressed", sec_of(qk, False), False),
                                ("sec uncompressed as hex", sec_of(qk, False).hex(), False), ("wif compressed", b58.wif_from_prv_key(qk, "mainnet", True), True),
                                ("wif uncompressed", b58.wif_from_prv_key(qk, "mainnet", False), False)):
        for fn, f3 in (("p2wpkh", lambda k: b32.p2wpkh(k, "mainnet")), ("p2wpkh_p2sh", lambda k: b58.p2wpkh_p2sh(k, "mainnet")), ("p2wpkh", lambda k: ScriptPubKey.p2wpkh(k).address)):
            r7 = _call(lambda: f3(keyobj))
            evs.append({"op": "keyaddr", "fn": fn, "kind": "sec", "prefix": "", "sec": sec_of(qk, says is not False).hex(), "net": "mainnet", "out": out_of(r7, lambda v: {"v": hx(v)}),
                        "what": f"{fn} of a {kname}"})
    # ---- the keys of a p2ms read back as addresses: each key's own p2pkh address, compressed or not as the script holds it ----
    for forms in ((True, True), (True, False), (False, False), (False, True, True)):
        for net in ("mainnet", "testnet"):
            keys_ = [sec_of(qk + 5 + j, comp) for j, comp in enumerate(forms)]
            spk_ = _call(lambda: ScriptPubKey.p2ms(1, keys_, net, lexicographic_sorting=False))
            if spk_[0] != "ok":
                evs.append({"op": "multikey", "keys": [{"kind": "sec", "prefix": ""} for _ in keys_], "declared": net, "out": {"refused": True}, "what": f"p2ms of sec keys {forms}"})
                continue
            for how, f4 in (("property", lambda: spk_[1].addresses), ("function", lambda: script_pub_key_mod.addresses(spk_[1].script, net))):
                r8 = _call(f4)
                for j, k_ in enumerate(keys_):
                    got = ("ok", r8[1][j]) if r8[0] == "ok" and isinstance(r8[1], list) and len(r8[1]) == len(keys_) else (("refused", None) if r8[0] != "ok" else ("ok", ""))
                    evs.append({"op": "keyaddr", "fn": "p2pkh", "kind": "sec", "prefix": "", "sec": k_.hex(), "net": net, "out": out_of(got, lambda v: {"v": hx(v)}), "what": f"addresses ({how}) of a p2ms with keys {forms}, key {j}"})
    # ---- several keys in one script (p2ms): keys that name a network must name the same type, and the declared one when there is one ----
    w_main, w_test = b58.wif_from_prv_key(qk, "mainnet", True), b58.wif_from_prv_key(qk + 1, "testnet", True)
    x_main = bip32.xpub_from_xprv(bip32.rootxprv_from_seed(bytes(32), NETWORKS["mainnet"].bip32_prv))
    x_test = bip32.xpub_from_xprv(bip32.rootxprv_from_seed(bytes(32), NETWORKS["signet"].bip32_prv))
    spelled = {"sec": ("sec", "", sec_of(qk + 2)), "wif main": ("wif", "80", w_main), "wif test": ("wif", "ef", w_test), "xpub main": ("xpub", NETWORKS["mainnet"].bip32_pub.hex(), x_main),
               "xpub test": ("xpub", NETWORKS["signet"].bip32_pub.hex(), x_test)}
    for names in (("wif main", "wif test"), ("wif test", "wif main"), ("sec", "wif test"), ("sec", "wif main", "xpub test"), ("xpub main", "wif main"), ("xpub test", "wif test", "sec"), ("wif main", "sec", "xpub test"),
                  ("sec", "sec")):
        for d_ in ("", "mainnet", "testnet", "regtest"):
            ks_ = [spelled[n_] for n_ in names]
            if names == ("sec", "sec"):
                ks_ = [("sec", "", sec_of(qk + 2)), ("sec", "", sec_of(qk + 3))]
            r6 = _call(lambda: ScriptPubKey.p2ms(1, [k_[2] for k_ in ks_], d_ or None).script)
            evs.append({"op": "multikey", "keys": [{"kind": k_[0], "prefix": k_[1]} for k_ in ks_], "declared": d_, "out": {"refused": r6[0] != "ok"}, "what": "+".join(names)})
    # ---- ScriptPubKey constructors on every network: the object remembers the network and spells its address there ----
    for net in NETS:
        q1, q2 = rnd.randrange(1, 2**255), rnd.randrange(1, 2**255)
        rs = b"\x51" + bytes([rnd.randrange(1, 75)])
        ctors = {"p2pkh": lambda: ScriptPubKey.p2pkh(sec_of(q1), network=net), "p2pkh-uncompressed": lambda: ScriptPubKey.p2pkh(sec_of(q1, False), network=net),
                 "p2wpkh-of-wif": lambda: ScriptPubKey.p2wpkh(b58.wif_from_prv_key(q1, net, True)), "p2sh": lambda: ScriptPubKey.p2sh(rs, net), "p2wsh": lambda: ScriptPubKey.p2wsh(rs, net),
                 "p2tr-key": lambda: ScriptPubKey.p2tr(sec_of(q1), None, net), "p2tr-tree": lambda: ScriptPubKey.p2tr(sec_of(q1), [(0xC0, ["OP_1"])], net),
                 "p2tr-script-only": lambda: ScriptPubKey.p2tr(None, [(0xC0, ["OP_1"])], net), "p2pk": lambda: ScriptPubKey.p2pk(sec_of(q1), net),
                 "p2ms": lambda: ScriptPubKey.p2ms(1, [sec_of(q1), sec_of(q2)], net), "from_address": lambda: ScriptPubKey.from_address(b32.p2wpkh(sec_of(q2), net))}
        for name, fn in ctors.items():
            r3 = _call(lambda: (lambda o: (o.script, o.address, o.network))(fn()))
            if r3[0] == "ok" and name in ("from_address", "p2wpkh-of-wif"):      # a string names a prefix class, not a network: the first network of the class is answered
                evs.append({"op": "ctor", "ctor": name, "net": {"main": "mainnet", "test": "testnet", "regtest": "regtest" if name == "from_address" else "testnet"}[NETS[net]], "spk": bytes(r3[1][0]).hex(), "out": out_of(r3, lambda v: {"v": hx(v[1]), "net": v[2]})})
            else:
                evs.append({"op": "ctor", "ctor": name, "net": net, "spk": bytes(r3[1][0]).hex() if r3[0] == "ok" else "", "out": out_of(r3, lambda v: {"v": hx(v[1]), "net": v[2]})})
    # ---- BIP21 payment URIs ----
    from decimal import Decimal

    from btclib.bip21 import Bip21

    def nat_hex(n: int) -> str:
        return n.to_bytes((n.bit_length() + 7) // 8, "big").hex() if n else ""

    def uri_out(u: Any) -> dict[str, Any]:
        sats = None if u.amount is None else int(u.amount * 100_000_000)
        return {"address": hx(u.address), "has_amount": sats is not None, "sats": "" if sats is None else nat_hex(sats), "has_label": u.label is not None, "label": hx(u.label or ""),
                "has_message": u.message is not None, "message": hx(u.message or ""), "others": [[hx(k), hx(v)] for k, v in u.others.items()]}

    def parse_ev(text: str) -> None:
        try:
            raw = text.encode("utf-8")
        except UnicodeEncodeError:
            return
        r2 = _call(lambda: Bip21.parse(text))
        evs.append({"op": "bip21_parse", "s": raw.hex(), "out": out_of(r2, uri_out)})

    uri_addrs = [b32.p2wpkh(sec_of(7), "mainnet"), b58.p2pkh(sec_of(7), "testnet"), b32.p2wpkh(sec_of(9), "regtest").upper(), b58.p2sh(b"\x51", "mainnet")]
    texts = ["Alice", "Alice+Bob", "a b", "50% off", "caf\u00e9 & bar", "x=y", "#1", "?", "", "\u20bf\U0001f600", "a/b:c@d!e$f'g(h)i*j,k;l", "~_.-", "%41", "tab\there"]
    amounts = ["0", "1", "0.1", "20.3", "0.00000001", "21000000", "20999999.99999999", "1.50000000", "100", "0.10"]
    for a in uri_addrs:
        parse_ev(f"bitcoin:{a}")
        for t in texts if thorough or a == uri_addrs[0] else rnd.sample(texts, 4):
            for fields in ({"label": t}, {"message": t, "amount": rnd.choice(amounts)}, {"label": t, "message": t[::-1], "others": {"x" + t[:2]: t, "lightning": "lnbc1"}}):
                r1 = _call(lambda: Bip21(a, fields.get("amount"), fields.get("label"), fields.get("message"), fields.get("others")).serialize())
                am = fields.get("amount")
                evs.append({"op": "bip21_serialize", "address": hx(a), "has_amount": am is not None, "sats": "" if am is None else nat_hex(int(Decimal(am) * 100_000_000)),
                            "has_label": "label" in fields, "label": hx(fields.get("label", "")), "has_message": "message" in fields, "message": hx(fields.get("message", "")),
                            "others": [[hx(k), hx(v)] for k, v in fields.get("others", {}).items()], "out": out_of(r1, lambda v: {"v": hx(v)})})
                if r1[0] == "ok":
                    parse_ev(r1[1])
    a0 = uri_addrs[0]
    queries = ["amount=1", "amount=1.", "amount=.5", "amount=.", "amount=", "amount=1e3", "amount=+1", "amount=-1", "amount=1,5", "amount=0x10", "amount=1.2.3", "amount= 1", "amount=%31",
               "amount=21000000.00000001", "amount=0.000000001", "amount=0.000000010", "amount=21000001", "amount=00000000000000000000000000000000000001.5", "amount=1&amount=1", "amount=1&Amount=2",
               "label=a&label=b", "label=a&%6cabel=b", "label", "label=", "=v", "&&label=x&&", "label=%", "label=%4", "label=%zz", "label=%c3", "label=%c3%a9", "label=%C3%A9", "label=%ed%a0%80", "label=%f4%90%80%80",
               "label=%c0%af", "label=a%00b", "label=a+b", "label=a=b=c", "req-x=1", "REQ-x=1", "Req-=1", "%72eq-x=1", "re%71-x=1", "xreq-x=1", "req=1", "req-x", "foo=1&bar=2&foo=3", "foo=%26%3d",
               "label=x#frag", "label=x#&req-y=1", "#", "label=x?y", "message=caf\u00e9", "label=%e2%82%bf", "lightning=lnbc1&label=x&amount=2"]
    for q in queries:
        parse_ev(f"bitcoin:{a0}?{q}")
    for text in [f"bitcoin:%{ord(a0[0]):02x}{a0[1:]}", f"bitcoin:{a0[:-1]}%{ord(a0[-1]):02X}?amount=1", f"bitcoin:{a0}%20", f"bitcoin:%20{a0}", f"bitcoin:{a0}%00",      # the address is not percent-decoded
                 f"BITCOIN:{a0.upper()}?amount=1", f"BitCoin:{a0}", f"bitcoin://{a0}", f"bitcoin:{a0}#frag", f"bitcoin:?amount=1", f"bitcoin:{a0[:-1]}?amount=1", f"bitcoinx:{a0}", f"bitcoi:{a0}", a0,
                 f" bitcoin:{a0}", f"bitcoin :{a0}", f"bitcoin:{a0} ", f"bitcoin:{a0}?", f"bitcoin:{a0}&amount=1", f"bitcoin:{a0}?amount=1?label=x", f"b\u0131tcoin:{a0}", f"bitco\u0130n:{a0}", f"bitcoin:{uri_addrs[2]}?label=QR",
                 f"bitcoin:{uri_addrs[2].lower()[:-2].upper() + uri_addrs[2][-2:].lower()}"]:
        parse_ev(text)
    for q in rnd.sample(queries, 12 if thorough else 5):
        for m in near_misses(q, rnd, 8):
            parse_ev(f"bitcoin:{a0}?{m}")
    # ---- WIF ----
    for net, sn in (("mainnet", "main"), ("testnet", "test")):
        for q in (1, 2**255, rnd.randrange(1, 2**256 - 2**130)):
            for comp in (True, False):
                key = q.to_bytes(32, "big")
                res = _call(lambda: b58.wif_from_prv_key(q, net, comp))
                evs.append({"op": "wif_encode", "key": key.hex(), "compressed": comp, "net": sn, "out": out_of(res, lambda v: {"v": hx(v)})})
                if res[0] != "ok":
                    continue
                from btclib.to_prv_key import prv_keyinfo_from_prv_key

                for m in near_misses(res[1], rnd, 14):
                    if not m.isascii():
                        continue

                    def dw(m: str = m) -> Any:
                        qq, nn, cc = prv_keyinfo_from_prv_key(m)
                        return qq, nn, cc

                    r2 = _call(dw)
                    evs.append({"op": "wif_decode", "s": hx(m.strip()),
                                "out": out_of(r2, lambda v: {"key": v[0].to_bytes(32, "big").hex(), "compressed": v[2], "net": NETS.get(v[1], v[1]) if NETS.get(v[1], v[1]) != "regtest" else "test"})})
    return evs


def check(run: Run) -> None:
    thorough = run.tier == "thorough"
    run.rule = ("valid strings generated over witness versions 0..16 x program lengths x networks, Base58Check payloads, WIF keys, addresses of "
                "every standard output type; for each, single-character substitutions (sampled), adjacent transpositions, case flips, truncations, "
                "extensions; plus hand-built strings with the wrong checksum constant, bad padding and bad program lengths. Non-trivial = a "
                "decode event of a mutated string")
    run.assumptions = ["base58 addresses cannot tell testnet from regtest/signet (shared prefixes): the network is compared up to that class",
                       "the 4-byte double-SHA256 checksum is not a code with a guaranteed distance: its detection is not asserted beyond the reference verdict"]
    res = tlc.run("Bech32Model", cfg_text=MODEL_CFG, workers=8)
    run.tlc(res, "M Bech32Model")
    for v in res.violations:
        raise tlc.TLCFailure(f"Bech32Model violates {v.name}:\n{v.text[:700]}")
    res = tlc.run("Bip21Model", cfg_text=f"SPECIFICATION Spec\nCONSTANTS MaxLen = {2 if thorough else 1}\nINVARIANT RoundTrip\nINVARIANT AmountExact\nINVARIANT AmountRefusals\nINVARIANT ReqRule\nCHECK_DEADLOCK FALSE\n",
                  workers=16, timeout=6000)
    run.tlc(res, "M Bip21Model")
    for v in res.violations:
        raise tlc.TLCFailure(f"Bip21Model violates {v.name}:\n{v.text[:700]}")
    evs = record(run, thorough)
    for e in evs:
        if isinstance(e["out"], dict) and "foreign" in e["out"]:
            run.violation(f"text|{e['op']}|foreign|{e['out']['foreign'].split(':')[0]}", f"{e['op']} raised {e['out']['foreign']}", {"event": e})
    evs2 = [e for e in evs if "foreign" not in e["out"]]
    results, bad, diag = events.validate("C06Trace", evs2, batch=10000)
    for r in results:
        run.tlc(r, "V C06Trace")
    for k in bad:
        e = evs2[k]
        d = diag.get(k)
        got_ref = e["out"].get("refused")
        want_ref = d.get("refused") if isinstance(d, dict) else None
        kind = "accepts what the spec refuses" if (want_ref and not got_ref) else "refuses what the spec accepts" if (got_ref and not want_ref) else "different value"
        run.violation(f"text|{e['op']}|{kind}", f"{e['op']}({bytes.fromhex(e.get('s', '') or '').decode('utf-8', 'replace') or e}): btclib {e['out']}, reference algorithm {d}",
                      {"event": e, "spec": d})
    dec = [e for e in evs2 if e["op"].endswith("decode")]
    run.sample({"event": evs2[10]})
    run.sample({"decode events": [bytes.fromhex(e["s"]).decode("utf-8", "replace") for e in dec[5:10]]})
    run.section("ops", {op: sum(1 for e in evs2 if e["op"] == op) for op in sorted({e["op"] for e in evs2})})
    run.count(evaluations=len(evs), validated=len(evs2), nontrivial=len({e["s"] for e in dec}))


def replay(path: str) -> int:
    body = json.load(open(path))
    e = body.get("event")
    if not e:
        return 0
    _, bad, diag = events.validate("C06Trace", [e])
    if bad:
        print(f"VIOLATION property=C06 replay={path}  # {diag}")
        return 1
    return 0
