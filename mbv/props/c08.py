"""C08 -- the script engine gives Bitcoin Core's verdict on every script and spend.

Spec: ScriptBytes (GetOp), ScriptVM (EvalScript, byte level, Core's order of checks), ScriptVerify
(VerifyScript / VerifyWitnessProgram / ExecuteWitnessScript), ScriptGen (programs as TLC's state graph),
C08Trace.  The specification is first held to Core's own script_tests.json (every vector it models must get
Core's published verdict); then
G: every program TLC builds over five chunk families x sigversions x flag sets is run through
   engine.script.verify_script and the verdict and final stack compared;
V: generated spends (bare, P2SH, P2WSH, P2SH-P2WSH, unknown witness versions) with mutated scriptSigs and
   witnesses under random consistent flag subsets are validated by TLC.
Programs that execute a signature opcode are outside this signature-free instantiation (counted, not claimed).
"""

from __future__ import annotations

import concurrent.futures
import hashlib
import json
import random
from typing import Any

from .. import REPO, events, tlc
from ..core import Run
from ..coreasm import assemble, push_data

GEN_CFG = """SPECIFICATION GSpec
CONSTANTS Family = "{fam}"
MaxChunks = {mc}
Flags = {{{flags}}}
SV = "{sv}"
INVARIANT StackBound
INVARIANT OpBound
PROPERTY Frozen
INVARIANT Emit
CHECK_DEADLOCK FALSE
"""

ALL = ["P2SH", "STRICTENC", "DERSIG", "LOW_S", "NULLDUMMY", "SIGPUSHONLY", "MINIMALDATA", "DISCOURAGE_UPGRADABLE_NOPS", "CLEANSTACK",
       "CHECKLOCKTIMEVERIFY", "CHECKSEQUENCEVERIFY", "WITNESS", "DISCOURAGE_UPGRADABLE_WITNESS_PROGRAM", "MINIMALIF", "NULLFAIL",
       "WITNESS_PUBKEYTYPE", "CONST_SCRIPTCODE", "TAPROOT", "DISCOURAGE_UPGRADABLE_TAPROOT_VERSION", "DISCOURAGE_OP_SUCCESS",
       "DISCOURAGE_UPGRADABLE_PUBKEYTYPE"]


def consistent(flags: set[str]) -> list[str]:
    """Core asserts CLEANSTACK => P2SH and WITNESS, WITNESS => P2SH; TAPROOT only means something with WITNESS."""
    f = set(flags)
    if "CLEANSTACK" in f:
        f |= {"P2SH", "WITNESS"}
    if "WITNESS" in f or "TAPROOT" in f:
        f |= {"P2SH"}
    if "TAPROOT" in f:
        f |= {"WITNESS"}
    return sorted(f)


def _tx(version: int, locktime: int, sequence: int, script_sig: bytes, witness: list[bytes], prev_spk: bytes) -> tuple[Any, Any]:
    from btclib.script.script_pub_key import ScriptPubKey
    from btclib.script.witness import Witness
    from btclib.tx import OutPoint, Tx, TxIn, TxOut

    prev = TxOut(50_000, ScriptPubKey(prev_spk, check_validity=False), check_validity=False)
    tx = Tx(version, locktime, [TxIn(OutPoint(b"\x11" * 32, 0), script_sig, sequence, Witness(witness), check_validity=False)],
            [TxOut(40_000, ScriptPubKey(b"\x51", check_validity=False), check_validity=False)], check_validity=False)
    return prev, tx


def run_eval(script: bytes, stack: list[bytes], flags: list[str], sv: str, ctx: tuple[int, int, int]) -> tuple[Any, list[str]]:
    """engine.script.verify_script on one program: (True | False | 'foreign ...', final stack)."""
    from btclib.exceptions import BTClibValueError
    from btclib.script.engine import script as engine_script
    from btclib.script.engine.flags import to_script_flags

    prev, tx = _tx(ctx[0], ctx[1], ctx[2], b"", [], b"\x51")
    st = list(stack)
    try:
        engine_script.verify_script(script, st, prev.value, tx, 0, to_script_flags(flags), sv == "v0", False)
        return True, [x.hex() for x in st]
    except BTClibValueError:
        return False, []
    except Exception as e:  # noqa: BLE001
        return f"foreign {type(e).__name__}: {e}"[:120], []


def run_spend(script_sig: bytes, spk: bytes, witness: list[bytes], flags: list[str], ctx: tuple[int, int, int]) -> Any:
    from btclib.exceptions import BTClibValueError
    from btclib.script.engine import verify_input

    prev, tx = _tx(ctx[0], ctx[1], ctx[2], script_sig, witness, spk)
    try:
        verify_input([prev], tx, 0, flags)
        return True
    except BTClibValueError:
        return False
    except Exception as e:  # noqa: BLE001
        return f"foreign {type(e).__name__}: {e}"[:120]


def ctxj(ctx: tuple[int, int, int]) -> dict[str, str]:
    from ..core import nat

    return {"version": nat(ctx[0]), "locktime": nat(ctx[1]), "sequence": nat(ctx[2])}


# --------------------------------------------------------------------------------------


def core_vectors() -> tuple[list[dict[str, Any]], list[Any]]:
    d = json.load(open(REPO / "tests/script_engine/_data/script_tests.json"))
    evs, meta = [], []
    for v in d:
        if len(v) < 4:
            continue
        wit: list[str] = []
        if isinstance(v[0], list):
            wit, v = v[0][:-1], v[1:]
        sig, spk, flags, exp = v[0], v[1], v[2], v[3]
        if any("#" in w for w in wit) or "#" in sig or "#" in spk:
            continue
        try:
            e = {"op": "spend", "scriptSig": assemble(sig).hex(), "spk": assemble(spk).hex(), "witness": wit,
                 "flags": [f for f in flags.split(",") if f and f != "NONE"], "ctx": {"version": "01", "locktime": "", "sequence": "ffffffff"}, "ok": exp == "OK"}
        except ValueError:
            continue
        evs.append(e)
        meta.append(v[:4])
    return evs, meta


def generate(run: Run, thorough: bool) -> list[tuple[dict[str, str], list[Any]]]:
    jobs = []
    for fam, mc in (("cond", 4), ("arith", 3), ("stack", 3), ("push", 3), ("misc", 3)):
        for sv in ("base", "v0"):
            for flags in (["MINIMALDATA", "CHECKLOCKTIMEVERIFY", "CHECKSEQUENCEVERIFY", "MINIMALIF", "DISCOURAGE_UPGRADABLE_NOPS"], []):
                if not thorough and sv == "v0" and fam in ("arith", "stack"):
                    continue
                if not thorough and not flags and fam in ("stack",):
                    continue
                jobs.append({"fam": fam, "mc": str(mc + (1 if thorough and fam in ("cond", "push") else 0)), "sv": sv, "flags": ", ".join(f'"{f}"' for f in flags)})

    def one(j: dict[str, str]) -> tlc.Result:
        return tlc.run("ScriptGen", cfg_text=GEN_CFG.format(**j), workers=1, heap="3g")

    out = []
    with concurrent.futures.ThreadPoolExecutor(8) as ex:
        for j, res in zip(jobs, ex.map(one, jobs)):
            for v in res.violations:
                raise tlc.TLCFailure(f"ScriptGen {j}: the machine violates {v.name}:\n{v.text[:500]}")
            run.tlc(res, f"M+G ScriptGen {j['fam']} {j['sv']} flags={'on' if j['flags'] else 'off'}")
            progs = [v[1:] for v in res.printed_values() if isinstance(v, list) and len(v) == 4 and v[0] == "PROG"]
            if len(progs) < 100:
                raise tlc.TLCFailure(f"ScriptGen {j}: only {len(progs)} programs")
            out.append((j, progs))
    return out


def replay_programs(run: Run, gen: list[tuple[dict[str, str], list[Any]]]) -> tuple[int, int, int]:
    n = nontrivial = unmodelled = 0
    for j, progs in gen:
        flags = [f.strip().strip('"') for f in j["flags"].split(",") if f.strip()]
        init = [bytes([k]) for k in range(1, 7)] if j["fam"] == "stack" else []
        for prog, verdict, stack in progs:
            if verdict in ("SIGOP_UNMODELLED", "TAPROOT_UNMODELLED"):
                unmodelled += 1
                continue
            script = bytes(prog)
            n += 1
            ok, out = run_eval(script, init, flags, j["sv"], (2, 100, 5))
            want_ok = verdict == ""
            want_stack = [bytes(x).hex() for x in stack]
            if isinstance(ok, str):
                run.violation(f"script|eval|foreign|{ok.split(':')[0]}", f"verify_script({script.hex()}) raised {ok} (Core: {verdict or 'OK'})",
                              {"op": "eval", "script": script.hex(), "flags": flags, "sv": j["sv"]})
            elif ok != want_ok:
                run.violation(f"script|eval|{j['sv']}|{verdict or 'OK'}|code={'accepts' if ok else 'refuses'}",
                              f"verify_script({script.hex()}, flags={flags}, {j['sv']}): btclib {'accepts' if ok else 'refuses'}, Core's EvalScript gives {verdict or 'OK'}",
                              {"op": "eval", "script": script.hex(), "stack": [x.hex() for x in init], "flags": flags, "sv": j["sv"], "expected": verdict or "OK"})
            elif ok and out != want_stack:
                run.violation(f"script|eval|{j['sv']}|final stack", f"verify_script({script.hex()}): final stack {out}, Core's {want_stack}",
                              {"op": "eval", "script": script.hex(), "flags": flags, "sv": j["sv"], "expected": want_stack, "actual": out})
            if len(script) >= 2 and verdict not in ("BAD_OPCODE",):
                nontrivial += 1
    return n, nontrivial, unmodelled


# --------------------------------------------------------------------------------------

NUMS = [b"", b"\x01", b"\x81", b"\x7f", b"\xff", b"\x80", b"\x00", b"\xff\xff\xff\x7f", b"\xff\xff\xff\xff", b"\x00\x00\x00\x80\x00", b"\x02", b"\x10", b"\x11", b"\x00\x80"]
SAFE_OPS = [0x00, 0x4F, 0x51, 0x52, 0x53, 0x60, 0x61, 0x63, 0x64, 0x67, 0x68, 0x69, 0x6B, 0x6C, 0x6D, 0x6E, 0x6F, 0x70, 0x71, 0x72, 0x73, 0x74, 0x75, 0x76, 0x77,
            0x78, 0x79, 0x7A, 0x7B, 0x7C, 0x7D, 0x82, 0x87, 0x88, 0x8B, 0x8C, 0x8F, 0x90, 0x91, 0x92, 0x93, 0x94, 0x9A, 0x9B, 0x9C, 0x9D, 0x9E, 0x9F, 0xA0, 0xA1,
            0xA2, 0xA3, 0xA4, 0xA5, 0xA6, 0xA7, 0xA8, 0xA9, 0xAA, 0xAB, 0xB0, 0xB1, 0xB2, 0xB3, 0xB9]
RARE_OPS = [0x50, 0x62, 0x65, 0x66, 0x6A, 0x7E, 0x83, 0x8D, 0x95, 0x99, 0xBA, 0xBB, 0xFE, 0xFF, 0x89, 0x8A]


GOOD = [b"\x51", b"\x52", b"\x00\x91", b"\x51\x51\x87", b"\x51\x75\x51", b"\x51\x63\x51\x67\x00\x68", b"\x5a\x5a\x9c", b"\x01\x05\x01\x05\x87",
        b"\x51\x76\x88\x51", b"\x00\x64\x51\x68", b"\x02\xab\xcd\xa8\x82\x01\x20\x87", b"\x51\x6b\x6c", b"\x61\x51", b"\x51\xb1\x75\x51" if False else b"\x51\x61"]


def rand_program(r: random.Random, maxops: int) -> bytes:
    out = b""
    depth = 0
    for _ in range(r.randrange(1, maxops)):
        x = r.random()
        if x < 0.35:
            d = r.choice(NUMS) if r.random() < 0.8 else r.randbytes(r.choice([1, 2, 5, 20, 75, 76, 255, 256, 520, 521]))
            form = r.random()
            if form < 0.8:
                out += push_data(d)
            elif form < 0.9 and len(d) < 256:
                out += b"\x4c" + bytes([len(d)]) + d           # non-minimal PUSHDATA1
            else:
                out += b"\x4d" + len(d).to_bytes(2, "little") + d
        elif x < 0.92:
            op = r.choice(SAFE_OPS)
            if op in (0x63, 0x64):
                depth += 1
            if op == 0x68:
                depth = max(0, depth - 1)
            out += bytes([op])
        else:
            out += bytes([r.choice(RARE_OPS)])
    if depth and r.random() < 0.8:
        out += b"\x68" * depth
    if r.random() < 0.5:
        out += b"\x51"
    return out


def _tagged(tag: bytes, m: bytes) -> bytes:
    t = hashlib.sha256(tag).digest()
    return hashlib.sha256(t + t + m).digest()


def _leaf_hash(ver: int, script: bytes) -> bytes:
    ln = bytes([len(script)]) if len(script) < 253 else b"\xfd" + len(script).to_bytes(2, "little")
    return _tagged(b"TapLeaf", bytes([ver]) + ln + script)


def tapscript_spend(r: random.Random, prog: bytes, init: list[bytes], flags: list[str], ctx: tuple[int, int, int], path_len: int | None = None) -> dict[str, Any]:
    """A taproot script-path spend of `prog` (raw bytes) in a tree of 1..3 leaves (or at the given depth), honest or altered."""
    from btclib.script import taproot

    if path_len is None and r.random() < 0.3:
        # OP_SUCCESSx and 0xff around the program: the pre-scan decides before anything is executed
        filler = bytes([r.choice([0x50, 0x62, 0x7E, 0x89, 0x8D, 0xBB, 0xFE, 0xFF, 0x65])])
        prog = r.choice([prog + filler, filler + prog, b"\x00\x63" + filler + b"\x68" + prog])
    ver = r.choice([0xC0, 0xC0, 0xC0, 0xC2, 0xFA])
    me = _leaf_hash(ver, prog)
    path = [_leaf_hash(0xC0, bytes([0x51 + (k % 16)]) + bytes([k // 16])) for k in range(r.randrange(0, 3) if path_len is None else path_len)]
    k = me
    for e in path:
        k = _tagged(b"TapBranch", min(k, e) + max(k, e))
    px = bytes.fromhex("79be667ef9dcbbac55a06295ce870b07029bfcdb2dce28d959f2815b16f81798") if r.random() < 0.5 else \
        bytes.fromhex("c6047f9441ed7d6d3045406e95c07cd85c778e4b8cef3ca7abac09b95c709ee5")
    q, parity = taproot.output_pubkey_from_merkle_root(px, k)
    control = bytes([ver + parity]) + px + b"".join(path)
    m = r.random() if path_len is None else 1.0
    why = "honest" if path_len is None else f"honest at depth {path_len}, script of {len(prog)} bytes"
    if m < 0.08:
        control = bytes([control[0] ^ r.choice([1, 2, 4, 0x80])]) + control[1:]
        why = "control first byte altered"
    elif m < 0.14:
        pos = r.randrange(1, len(control))
        control = control[:pos] + bytes([control[pos] ^ 1]) + control[pos + 1:]
        why = "control altered"
    elif m < 0.18:
        control = control + bytes(r.choice([1, 31, 32]))
        why = "control size"
    elif m < 0.21:
        control = control[: r.choice([0, 1, 32, 33])]
        why = "control truncated"
    witness = init + [prog, control]
    if path_len is None and r.random() < 0.15:
        witness = witness + [b"\x50" + r.randbytes(3)]
        why += "+annex"
    spk = b"\x51\x20" + q
    script_sig = b"" if path_len is not None or r.random() < 0.95 else b"\x51"
    ok = run_spend(script_sig, spk, witness, flags, ctx)
    return {"op": "spend", "kind": "tapscript", "why": why, "scriptSig": script_sig.hex(), "spk": spk.hex(), "witness": [w.hex() for w in witness],
            "flags": flags, "ctx": ctxj(ctx), "ok": ok}


def honest_tapscript(prog: bytes, init: list[bytes], flags: list[str], why: str, ver: int = 0xC0) -> dict[str, Any]:
    from btclib.script import taproot

    ctx = (2, 0, 0xFFFFFFFF)
    px = bytes.fromhex("79be667ef9dcbbac55a06295ce870b07029bfcdb2dce28d959f2815b16f81798")
    q, parity = taproot.output_pubkey_from_merkle_root(px, _leaf_hash(ver, prog))
    control = bytes([ver + parity]) + px
    spk = b"\x51\x20" + q
    witness = init + [prog, control]
    return {"op": "spend", "kind": "tapscript", "why": why, "scriptSig": "", "spk": spk.hex(), "witness": [w.hex() for w in witness], "flags": flags,
            "ctx": ctxj(ctx), "ok": run_spend(b"", spk, witness, flags, ctx)}


def fixed_cases() -> list[dict[str, Any]]:
    """Deterministic corners that are always in the corpus (incl. the reproducers of the listed findings)."""
    tf = ["P2SH", "TAPROOT", "WITNESS"]
    out = []
    for prog, why in ((b"\x00\x63\xff\x68\x51", "0xff in an unexecuted branch"), (b"\xff\x50", "0xff ahead of OP_SUCCESS80"), (b"\x51\xff", "0xff executed"),
                      (b"\x00\x63\x65\x68\x51", "OP_VERIF unexecuted"), (b"\x65\x50", "OP_VERIF ahead of OP_SUCCESS80"), (b"\x50\x4c", "OP_SUCCESS then a truncated push"),
                      (b"\x4c\x50", "a truncated push then OP_SUCCESS"), (b"\x51", "OP_1"), (b"\x51\x51", "two elements left"), (b"\x00", "false"),
                      (b"\x00\x63\x7e\x68\x51", "OP_CAT is OP_SUCCESS126 even unexecuted"), (b"\x02\x00\x00\x63\x51\x68", "non-minimal IF argument"), (b"\x02\x00\x00\x64\x51\x68\x51", "non-minimal NOTIF argument"),
                      (b"\x01\x02\x63\x51\x68", "IF argument 02"), (b"\x01\x02\x64\x51\x68\x51", "NOTIF argument 02"), (b"\x00\x64\x51\x68", "NOTIF on empty")):
        out.append(honest_tapscript(prog, [], tf, why))
        out.append(honest_tapscript(prog, [], tf + ["DISCOURAGE_OP_SUCCESS", "MINIMALIF"], why + " (discourage)"))
    out.append(honest_tapscript(b"\x75\x50", [b"\x01" * 521], tf, "oversized witness element with OP_SUCCESS"))
    out.append(honest_tapscript(b"\x75\x51", [b"\x01" * 521], tf, "oversized witness element"))
    out.append(honest_tapscript(b"\x51", [], tf, "unknown leaf version", ver=0xC2))
    out.append(honest_tapscript(b"\x51", [], tf + ["DISCOURAGE_UPGRADABLE_TAPROOT_VERSION"], "unknown leaf version (discourage)", ver=0xC2))
    # the size of the control block: a leaf on the deepest level BIP341 allows (128 nodes, 4129 bytes), the level above it, and one past it
    rd = random.Random(341)
    for depth in (0, 1, 127, 128, 129):
        out.append(tapscript_spend(rd, b"\x51", [], tf, (2, 0, 0xFFFFFFFF), path_len=depth))
    return out


def record_spends(run: Run, n: int) -> list[dict[str, Any]]:
    r = random.Random(run.seed + 8)
    evs: list[dict[str, Any]] = fixed_cases()
    ctxs = [(2, 0, 0xFFFFFFFF), (1, 0, 0xFFFFFFFF), (2, 100, 5), (2, 500000001, 0x00400005), (2, 99, 0xFFFFFFFE), (1, 100, 5), (2, 100, 0x80000005)]
    for k in range(n):
        ctx = r.choice(ctxs)
        flags = consistent({f for f in ALL if r.random() < 0.45}) if k % 4 else consistent(set(ALL) - {"CONST_SCRIPTCODE"})
        prog = rand_program(r, 14)
        init = [r.choice(NUMS) for _ in range(r.randrange(0, 4))]
        if r.random() < 0.4:
            # programs that succeed, leaving exactly one true element: the wrapping rules are what is exercised
            prog = r.choice(GOOD)
            init = []
        kind = r.choice(["bare", "bare", "p2sh", "p2wsh", "p2sh-p2wsh", "witness-other", "eval", "eval-v0", "tapscript", "tapscript"])
        if kind == "tapscript":
            evs.append(tapscript_spend(r, prog, init, flags, ctx))
            continue
        if kind.startswith("eval"):
            sv = "v0" if kind == "eval-v0" else "base"
            ok, out = run_eval(prog, init, flags, sv, ctx)
            evs.append({"op": "eval", "kind": kind, "script": prog.hex(), "stack": [x.hex() for x in init], "flags": flags, "sv": sv, "ctx": ctxj(ctx), "ok": ok, "out": out})
            continue
        pushes = b"".join(push_data(x) for x in init)
        witness: list[bytes] = []
        if kind == "bare":
            script_sig, spk = pushes if r.random() < 0.8 else rand_program(r, 5), prog
            if r.random() < 0.1:
                witness = [b"\x01"]            # unexpected witness
        elif kind == "p2sh":
            spk = b"\xa9\x14" + hashlib.new("ripemd160", hashlib.sha256(prog).digest()).digest() + b"\x87"
            script_sig = pushes + push_data(prog)
            if r.random() < 0.15:
                script_sig = pushes + b"\x61" + push_data(prog)       # not push-only
            if r.random() < 0.25:
                witness = [r.randbytes(r.randrange(0, 4))]             # a witness stapled on a non-witness spend
        elif kind == "p2wsh":
            spk = b"\x00\x20" + hashlib.sha256(prog).digest()
            script_sig = b"" if r.random() < 0.85 else b"\x51"
            witness = init + [prog]
            m = r.random()
            if m < 0.08:
                witness = init + [prog + b"\x61"]                      # program mismatch
            elif m < 0.12:
                witness = []
            elif m < 0.16:
                witness = [r.randbytes(521)] + witness
        elif kind == "p2sh-p2wsh":
            redeem = b"\x00\x20" + hashlib.sha256(prog).digest()
            spk = b"\xa9\x14" + hashlib.new("ripemd160", hashlib.sha256(redeem).digest()).digest() + b"\x87"
            m = r.random()
            script_sig = push_data(redeem)
            if m < 0.25:
                script_sig = b"\x51" + push_data(redeem)               # an extra push: WITNESS_MALLEATED_P2SH
            elif m < 0.35:
                script_sig = b"\x4c" + bytes([len(redeem)]) + redeem   # the same push, not the canonical single push
            witness = init + [prog]
        else:
            ver = r.choice([0, 1, 2, 16])
            ln = r.choice([2, 20, 32, 33, 40]) if ver else r.choice([19, 21, 33])
            spk = bytes([0x50 + ver if ver else 0]) + bytes([ln]) + r.randbytes(ln)
            script_sig = b""
            witness = init
        ok = run_spend(script_sig, spk, witness, flags, ctx)
        evs.append({"op": "spend", "kind": kind, "scriptSig": script_sig.hex(), "spk": spk.hex(), "witness": [w.hex() for w in witness], "flags": flags,
                    "ctx": ctxj(ctx), "ok": ok})
    return evs


def tapscript_class(e: dict[str, Any]) -> str:
    """Which tapscript corner a failing spend sits on (for the finding key)."""
    try:
        w = [bytes.fromhex(x) for x in e["witness"]]
        if len(w) >= 2 and w[-1][:1] == b"\x50":
            w = w[:-1]
        script = w[-2]
    except Exception:  # noqa: BLE001
        return ""
    if 0xFF in script:
        return "byte 0xff in the script"
    return ""


REPRODUCERS = [
    # (key suffix, scriptSig, spk-maker, witness) -- the listed findings are always in the corpus
]


def core_sig_vectors() -> tuple[list[dict[str, Any]], list[Any]]:
    """Every vector of Core's script_tests.json on Core's own crediting / spending transactions (so that its signatures verify)."""
    from btclib.script.script_pub_key import ScriptPubKey
    from btclib.script.witness import Witness
    from btclib.tx import OutPoint, Tx, TxIn, TxOut

    d = json.load(open(REPO / "tests/script_engine/_data/script_tests.json"))
    evs, meta = [], []
    for v in d:
        if len(v) < 4:
            continue
        wit: list[str] = []
        amount = 0
        if isinstance(v[0], list):
            wit, amount, v = v[0][:-1], int(round(v[0][-1] * 1e8)), v[1:]
        sig, spk, flags, exp = v[0], v[1], v[2], v[3]
        if any("#" in w for w in wit) or "#" in sig or "#" in spk:
            continue
        try:
            s1, s2 = assemble(sig), assemble(spk)
        except ValueError:
            continue
        credit = Tx(1, 0, [TxIn(OutPoint(bytes(32), 0xFFFFFFFF, check_validity=False), b"\x00\x00", 0xFFFFFFFF, check_validity=False)],
                    [TxOut(amount, ScriptPubKey(s2, check_validity=False), check_validity=False)], check_validity=False)
        spend = Tx(1, 0, [TxIn(OutPoint(credit.id, 0), s1, 0xFFFFFFFF, Witness([bytes.fromhex(w) for w in wit]), check_validity=False)],
                   [TxOut(amount, ScriptPubKey(b"", check_validity=False), check_validity=False)], check_validity=False)
        evs.append({"op": "verify", "tx": spend.serialize(include_witness=True, check_validity=False).hex(), "prevouts": [{"value": nat(amount), "spk": s2.hex()}], "idx": 0,
                    "flags": [f for f in flags.split(",") if f and f != "NONE"], "ok": exp == "OK", "_credit": credit, "_spend": spend})
        meta.append(v[:5])
    return evs, meta


def nat(i: int) -> str:
    from ..core import nat as _nat

    return _nat(i)


def record_sig_spends(run: Run, n: int) -> list[dict[str, Any]]:
    """CHECKSIG / CHECKMULTISIG spends with real signatures in every state: valid, empty, wrong key, wrong order, high s, a changed
    hash type byte, hybrid and uncompressed keys, bare / P2SH / P2WSH, [NOT] after the opcode, under random consistent flag sets."""
    from btclib.curves import mult
    from btclib.ecc import dsa
    from btclib.script import sig_hash
    from btclib.script.engine import verify_input
    from btclib.script.script_pub_key import ScriptPubKey
    from btclib.script.witness import Witness
    from btclib.tx import OutPoint, Tx, TxIn, TxOut
    from btclib.exceptions import BTClibException

    from btclib.curves import set_libsecp256k1_serving
    from btclib.curves.curve import is_libsecp256k1_serving

    BINDINGS = is_libsecp256k1_serving()
    r = random.Random(run.seed + 8)
    N_ = 0xFFFFFFFFFFFFFFFFFFFFFFFFFFFFFFFEBAAEDCE6AF48A03BBFD25E8CD0364141
    FP_ = 2**256 - 2**32 - 977
    evs = []

    def push(b: bytes) -> bytes:
        return bytes([len(b)]) + b if len(b) <= 75 else b"\x4c" + bytes([len(b)]) + b

    def key_bytes(d: int, form: str) -> bytes:
        P = mult(d)
        x, y = P[0].to_bytes(32, "big"), P[1].to_bytes(32, "big")
        # c compressed, u uncompressed, h hybrid; malformed: x = 33 bytes under prefix 05, s = 32 bytes under 02, l = 34 bytes under 02, t = 65 bytes under 02, e = empty
        # well-formed by size and prefix and yet no point: o = compressed with an x that is on no point of the curve, p = compressed with x >= the field size,
        # w = uncompressed with another y, g = hybrid whose prefix states the other parity
        if form == "o":
            xi = P[0]
            while pow((xi**3 + 7) % FP_, (FP_ - 1) // 2, FP_) == 1:
                xi += 1
            return b"\x02" + xi.to_bytes(32, "big")
        return {"c": bytes([2 + P[1] % 2]) + x, "u": b"\x04" + x + y, "h": bytes([6 + P[1] % 2]) + x + y, "x": b"\x05" + x, "s": b"\x02" + x[:31], "l": b"\x02" + x + b"\x00",
                "t": b"\x02" + x + y, "e": b"", "p": b"\x03" + (FP_ + 5).to_bytes(32, "big"), "w": b"\x04" + x + ((P[1] + 1) % FP_).to_bytes(32, "big"),
                "g": bytes([7 - P[1] % 2]) + x + y}[form]

    # stratified: every (signature pattern, [NOT], CHECKSIG / CHECKMULTISIG) cell is visited n/44 times, the rest (keys, wrapping, flags) is drawn
    patterns = ["all valid", "one empty", "last empty", "first empty", "reversed", "one wrong message", "one high s", "hash type 0", "one padded r", "all empty", "wrong key"]
    cells = [(pt_, tl, mu) for pt_ in patterns for tl in (b"", b"\x91") for mu in (False, True)]
    r.shuffle(cells)
    # the public-key encoding rules, cell by cell: every key form x every wrapping x the four settings of (STRICTENC, WITNESS_PUBKEYTYPE) x a valid
    # signature or an empty one under OP_NOT (the two ways a wrongly tolerated key shows)
    # (and a well-encoded signature under OP_NOT: how a key that is no point shows, the check failing and the script going on); each cell is judged with the
    # bindings serving and with the Python arithmetic, the verdict being Core's on either arm
    key_family = [(form, wrap_, se, wp, pat, tl) for form in "cuhxslteopwg" for wrap_ in ("bare", "p2sh", "p2wsh", "p2sh-p2wsh") for se in (False, True) for wp in (False, True)
                  for pat, tl in (("all valid", b""), ("all empty", b"\x91"), ("all valid", b"\x91"))]
    for it in range(n + len(key_family)):
        fam = key_family[it - n] if it >= n else None
        pattern, tail, multi = cells[it % len(cells)] if fam is None else (fam[4], fam[5], False)
        nk = r.choice([1, 1, 2, 3]) if multi else 1
        ds = [r.randrange(1, N_) for _ in range(nk)]
        forms = [r.choice("cccccuuhhxslteopwg") for _ in range(nk)] if fam is None else [fam[0]]
        keys = [key_bytes(d, f) for d, f in zip(ds, forms)]
        m = r.randint(1, nk) if multi else 1
        # (tail = OP_NOT: the script survives a false)
        if multi:
            script = bytes([0x50 + m]) + b"".join(push(k) for k in keys) + bytes([0x50 + nk]) + b"\xae" + tail
        else:
            script = push(keys[0]) + b"\xac" + tail
        wrap = r.choice(["bare", "p2sh", "p2wsh", "p2sh-p2wsh"]) if fam is None else fam[1]
        if wrap == "bare":
            spk = script
        elif wrap == "p2sh":
            spk = ScriptPubKey.p2sh(script).script
        elif wrap == "p2wsh":
            spk = ScriptPubKey.p2wsh(script).script
        else:
            spk = ScriptPubKey.p2sh(ScriptPubKey.p2wsh(script).script).script
        amount = 70_000
        prev = TxOut(amount, ScriptPubKey(spk, check_validity=False), check_validity=False)
        tx = Tx(2, 0, [TxIn(OutPoint(b"\x21" * 32, 3), b"", 0xFFFFFFFE, check_validity=False)], [TxOut(60_000, ScriptPubKey(b"\x51", check_validity=False), check_validity=False)], check_validity=False)
        segwit = "wsh" in wrap

        def sign(d: int, ht: int, state: str) -> bytes:
            if state == "empty":
                return b""
            digest = sig_hash.segwit_v0(script, tx, 0, ht, amount) if segwit else sig_hash.legacy(script, tx, 0, ht)
            if state == "wrong message":
                digest = bytes([digest[0] ^ 1]) + digest[1:]
            sg = dsa.sign_(digest, d)
            if state == "high s":
                sg = dsa.Sig(sg.r, N_ - sg.s, check_validity=False)
            body = sg.serialize(check_validity=False)
            if state == "padded r":
                body = b"\x30" + bytes([body[1] + 1]) + b"\x02" + bytes([body[3] + 1]) + b"\x00" + body[4:]
            return body + bytes([ht if state != "hash type 0" else 0])

        # which signatures, in which order and state
        order = sorted(r.sample(range(nk), m)) if multi else [0]
        states = ["valid"] * len(order)
        if pattern == "one empty":
            states[r.randrange(len(states))] = "empty"
        elif pattern == "last empty":
            states[-1] = "empty"
        elif pattern == "first empty":
            states[0] = "empty"
        elif pattern == "one wrong message":
            states[r.randrange(len(states))] = "wrong message"
        elif pattern == "one high s":
            states[r.randrange(len(states))] = "high s"
        elif pattern == "hash type 0":
            states[r.randrange(len(states))] = "hash type 0"
        elif pattern == "one padded r":
            states[r.randrange(len(states))] = "padded r"
        elif pattern == "all empty":
            states = ["empty"] * len(states)
        ht = r.choice([1, 1, 2, 3, 0x81, 0x83])
        signers = [ds[j] for j in order]
        if pattern == "wrong key":
            signers = [r.randrange(1, N_)] + signers[1:]
        sigs = [sign(d, ht, st) for d, st in zip(signers, states)]
        if pattern == "reversed":
            sigs = sigs[::-1]
        dummy = r.choice([b"", b"", b"", b"\x01"])
        elems = ([dummy] if multi else []) + sigs
        if wrap == "bare":
            tx.vin[0].script_sig = b"".join(push(e) if e else b"\x00" for e in elems)
        elif wrap == "p2sh":
            tx.vin[0].script_sig = b"".join(push(e) if e else b"\x00" for e in elems) + push(script)
        elif wrap == "p2wsh":
            tx.vin[0].script_witness = Witness([*elems, script])
        else:
            tx.vin[0].script_sig = push(ScriptPubKey.p2wsh(script).script)
            tx.vin[0].script_witness = Witness([*elems, script])
        ALL = ["P2SH", "DERSIG", "STRICTENC", "NULLDUMMY", "NULLFAIL", "LOW_S", "WITNESS", "WITNESS_PUBKEYTYPE", "CLEANSTACK", "MINIMALDATA", "SIGPUSHONLY", "CONST_SCRIPTCODE"]
        flags = consistent({f for f in ALL if r.random() < 0.6} | ({"P2SH"} if "p2sh" in wrap else set()) | ({"WITNESS", "P2SH"} if "wsh" in wrap else set()))
        if fam is not None:
            flags = consistent((set(flags) - {"STRICTENC", "WITNESS_PUBKEYTYPE", "NULLFAIL", "SIGPUSHONLY", "CLEANSTACK"}) | ({"STRICTENC"} if fam[2] else set()) | ({"WITNESS_PUBKEYTYPE"} if fam[3] else set()))
        for arm in ((True, False) if fam is not None or it % 5 == 0 else (True,)):
            if not arm and not BINDINGS:
                continue
            if BINDINGS:
                set_libsecp256k1_serving(serving=arm)
            try:
                verify_input([prev], tx, 0, flags)
                ok: Any = True
            except BTClibException:
                ok = False
            except Exception as e:  # noqa: BLE001
                ok = f"foreign {type(e).__name__}: {e}"[:120]
            finally:
                if BINDINGS:
                    set_libsecp256k1_serving(serving=True)
            evs.append({"op": "verify", "tx": tx.serialize(include_witness=True, check_validity=False).hex(), "prevouts": [{"value": nat(amount), "spk": spk.hex()}], "idx": 0, "flags": flags, "ok": ok,
                        "kind": f"{'multisig ' + str(m) + '-of-' + str(nk) if multi else 'checksig'} {wrap} {pattern} keys {''.join(forms)}{' NOT' if tail else ''}{'' if arm else ' (Python arithmetic)'}"})
    return evs


def record_nullfail_spends(run: Run) -> list[dict[str, Any]]:
    """OP_CHECKMULTISIG (and OP_CHECKSIG) with every arrangement of valid, empty and wrong signatures, under NULLFAIL and without it, the check's result kept or
    inverted by OP_NOT: Core's rule is that a failed check leaves no non-empty signature among ALL that were given, matched or not."""
    import itertools

    from btclib.curves import mult
    from btclib.ecc import dsa
    from btclib.exceptions import BTClibException
    from btclib.script import sig_hash
    from btclib.script.engine import verify_input
    from btclib.script.script_pub_key import ScriptPubKey
    from btclib.script.witness import Witness
    from btclib.tx import OutPoint, Tx, TxIn, TxOut

    r = random.Random(run.seed + 23)
    N_ = 0xFFFFFFFFFFFFFFFFFFFFFFFFFFFFFFFEBAAEDCE6AF48A03BBFD25E8CD0364141
    evs = []

    def push(b: bytes) -> bytes:
        return b"\x00" if not b else bytes([len(b)]) + b

    for m, nk in ((1, 1), (1, 2), (2, 2), (2, 3), (3, 3)):
        ds = [r.randrange(1, N_) for _ in range(nk)]
        keys = []
        for d in ds:
            P = mult(d)
            keys.append(bytes([2 + P[1] % 2]) + P[0].to_bytes(32, "big"))
        for tail in (b"", b"\x91"):
            script = bytes([0x50 + m]) + b"".join(push(k) for k in keys) + bytes([0x50 + nk]) + b"\xae" + tail
            for wrap in ("p2wsh", "bare"):
                spk = ScriptPubKey.p2wsh(script).script if wrap == "p2wsh" else script
                amount = 40_000
                prev = TxOut(amount, ScriptPubKey(spk, check_validity=False), check_validity=False)
                for states in itertools.product(("valid", "empty", "wrong"), repeat=m):
                    for nullfail in (True, False):
                        tx = Tx(2, 0, [TxIn(OutPoint(b"\x23" * 32, 0), b"", 0xFFFFFFFE, check_validity=False)], [TxOut(30_000, ScriptPubKey(b"\x51", check_validity=False), check_validity=False)], check_validity=False)
                        digest = sig_hash.segwit_v0(script, tx, 0, 1, amount) if wrap == "p2wsh" else sig_hash.legacy(script, tx, 0, 1)
                        sigs = []
                        for j, st in enumerate(states):
                            d = ds[nk - m + j]                      # the last m keys, in order
                            if st == "empty":
                                sigs.append(b"")
                            else:
                                msg = digest if st == "valid" else bytes([digest[0] ^ 1]) + digest[1:]
                                sigs.append(dsa.sign_(msg, d).serialize() + b"\x01")
                        if wrap == "p2wsh":
                            tx.vin[0].script_witness = Witness([b"", *sigs, script])
                        else:
                            tx.vin[0].script_sig = b"\x00" + b"".join(push(x) for x in sigs)
                        flags = consistent({"P2SH", "WITNESS", "DERSIG", "NULLDUMMY"} | ({"NULLFAIL"} if nullfail else set()))
                        try:
                            verify_input([prev], tx, 0, flags)
                            ok: Any = True
                        except BTClibException:
                            ok = False
                        except Exception as e:  # noqa: BLE001
                            ok = f"foreign {type(e).__name__}: {e}"[:120]
                        evs.append({"op": "verify", "tx": tx.serialize(include_witness=True, check_validity=False).hex(), "prevouts": [{"value": nat(amount), "spk": spk.hex()}], "idx": 0, "flags": flags, "ok": ok,
                                    "kind": f"multisig {m}-of-{nk} {wrap} signatures {'/'.join(states)}{' NOT' if tail else ''}{' NULLFAIL' if nullfail else ''}"})
    return evs



def record_tapscript_codesep_spends(run: Run) -> list[dict[str, Any]]:
    """Tapscript leaves whose signature checks sit behind OP_CODESEPARATORs: a BIP342 signature commits to the position (counted in op codes, pushes
    included) of the last OP_CODESEPARATOR executed before its check, 0xffffffff where none was.  Every leaf shape (the separator after each op code that
    the engines expand or treat specially: CHECKSIGVERIFY, EQUALVERIFY, NUMEQUALVERIFY, CHECKSIGADD, inside a taken and an untaken branch, two separators,
    after a push of each width) x the signature of each check made for the right position, for the position one below and one above it, and for none."""
    from btclib.curves import mult
    from btclib.ecc import ssa
    from btclib.exceptions import BTClibException
    from btclib.script import sig_hash, taproot
    from btclib.script.engine import verify_input
    from btclib.script.script_pub_key import ScriptPubKey
    from btclib.script.witness import Witness
    from btclib.tx import OutPoint, Tx, TxIn, TxOut

    r = random.Random(run.seed + 17)
    N_ = 0xFFFFFFFFFFFFFFFFFFFFFFFFFFFFFFFEBAAEDCE6AF48A03BBFD25E8CD0364141
    NONE = 0xFFFFFFFF
    d1, d2 = r.randrange(1, N_), r.randrange(1, N_)
    k1, k2 = (b"\x20" + mult(d)[0].to_bytes(32, "big") for d in (d1, d2))
    SEP, CS, CSV, CSA = b"\xab", b"\xac", b"\xad", b"\xba"
    blob = bytes(range(76))
    # (leaf, [(private key, position its signature commits to)] in the order the checks run; the witness is the signatures reversed)
    shapes: list[tuple[str, bytes, list[tuple[int, int]]]] = [
        ("separator first", SEP + k1 + CS, [(d1, 0)]),
        ("separator after CHECKSIGVERIFY", k1 + CSV + SEP + k2 + CS, [(d1, NONE), (d2, 2)]),
        ("two separators around CHECKSIGVERIFY", SEP + k1 + CSV + SEP + k2 + CS, [(d1, 0), (d2, 3)]),
        ("separator after EQUALVERIFY", b"\x51\x51\x88" + SEP + k1 + CS, [(d1, 3)]),
        ("separator after NUMEQUALVERIFY", b"\x52\x52\x9d" + SEP + k1 + CS, [(d1, 3)]),
        ("separator between CHECKSIGADDs", b"\x00" + k1 + CSA + SEP + k2 + CSA + b"\x52\x9c", [(d1, NONE), (d2, 3)]),
        ("separator after two CHECKSIGVERIFYs", k1 + CSV + k2 + CSV + SEP + k1 + CS, [(d1, NONE), (d2, NONE), (d1, 4)]),
        ("separator in a taken branch", b"\x51\x63" + SEP + b"\x68" + k1 + CS, [(d1, 2)]),
        ("separator in an untaken branch", b"\x00\x63" + SEP + b"\x68" + k1 + CS, [(d1, NONE)]),
        ("separator in the else of a taken branch, then one that runs", b"\x51\x63\x67" + SEP + b"\x68" + k1 + CSV + SEP + k2 + CS, [(d1, NONE), (d2, 7)]),
        ("separator after an OP_PUSHDATA1", b"\x4c\x4c" + blob + b"\x75" + SEP + k1 + CS, [(d1, 2)]),
        ("separator after VERIFY and NOT", b"\x51\x69\x00\x91\x69" + SEP + k1 + CS, [(d1, 5)]),
        ("separator last", k1 + CS + SEP, [(d1, NONE)]),
        ("separator after CHECKSIGVERIFY, EQUALVERIFY and NUMEQUALVERIFY", k1 + CSV + b"\x53\x53\x88\x54\x54\x9d" + SEP + k2 + CS, [(d1, NONE), (d2, 8)]),
    ]
    evs = []
    internal = mult(r.randrange(1, N_))[0].to_bytes(32, "big")
    for name, script, checks in shapes:
        lh = taproot.leaf_hash(0xC0, script)
        outkey, parity = taproot.output_pubkey_from_merkle_root(internal, lh)
        control = bytes([0xC0 + parity]) + internal
        spk = b"\x51\x20" + outkey
        prev = TxOut(90_000, ScriptPubKey(spk, check_validity=False), check_validity=False)
        variants: list[tuple[str, list[int]]] = [("every signature for its position", [pos for _, pos in checks])]
        for j, (_, pos) in enumerate(checks):
            for label, other in (("one below", (pos - 1) & 0xFFFFFFFF), ("one above", (pos + 1) & 0xFFFFFFFF), ("none", NONE), ("zero", 0)):
                if other != pos:
                    variants.append((f"signature {j} for the position {label}", [other if i == j else p_ for i, (_, p_) in enumerate(checks)]))
        for vname, positions in variants:
            tx = Tx(2, 0, [TxIn(OutPoint(b"\x32" * 32, 1), b"", 0xFFFFFFFD, check_validity=False)], [TxOut(80_000, ScriptPubKey(b"\x51", check_validity=False), check_validity=False)], check_validity=False)
            sigs = []
            for (d, _), pos in zip(checks, positions):
                msg = sig_hash.taproot(tx, 0, [prev], 0, 1, b"", lh + b"\x00" + pos.to_bytes(4, "little"))
                sigs.append(ssa.sign_(msg, d, bytes(32)).serialize())
            tx.vin[0].script_witness = Witness([*sigs[::-1], script, control])
            flags = ["P2SH", "WITNESS", "TAPROOT"] + (["NULLFAIL"] if r.random() < 0.5 else [])
            try:
                verify_input([prev], tx, 0, flags)
                ok: Any = True
            except BTClibException:
                ok = False
            except Exception as e:  # noqa: BLE001
                ok = f"foreign {type(e).__name__}: {e}"[:120]
            evs.append({"op": "verify", "tx": tx.serialize(include_witness=True, check_validity=False).hex(), "prevouts": [{"value": nat(90_000), "spk": spk.hex()}], "idx": 0, "flags": flags, "ok": ok,
                        "kind": f"tapscript {name}: {vname}"})
    return evs



def record_tapscript_sig_spends(run: Run, n: int) -> list[dict[str, Any]]:
    """Taproot script-path spends of leaves made of signature checks: <key> CHECKSIG / CHECKSIGVERIFY / CHECKSIGADD over keys of every size class (32 bytes with
    a known private key, 33 / 1 / 20 bytes = an unknown key version, empty), signatures in every state, enough checks to cross the BIP342 validation-weight budget,
    OP_SUCCESSx and oversized pushes placed before and after each other, one or two leaves in the tree, random consistent flags."""
    from btclib.curves import mult
    from btclib.ecc import ssa
    from btclib.exceptions import BTClibException
    from btclib.script import sig_hash, taproot
    from btclib.script.engine import verify_input
    from btclib.script.script_pub_key import ScriptPubKey
    from btclib.script.witness import Witness
    from btclib.tx import OutPoint, Tx, TxIn, TxOut

    r = random.Random(run.seed + 13)
    N_ = 0xFFFFFFFFFFFFFFFFFFFFFFFFFFFFFFFEBAAEDCE6AF48A03BBFD25E8CD0364141
    evs = []

    def push(b: bytes) -> bytes:
        return b"\x00" if not b else bytes([len(b)]) + b if len(b) <= 75 else b"\x4c" + bytes([len(b)]) + b if len(b) <= 255 else b"\x4d" + len(b).to_bytes(2, "little") + b

    decors = ["none", "none", "none", "bigpush drop", "bigpush then success", "success then bigpush", "truncated push then success", "success in untaken branch", "success after the checks", "push 520", "push 521"]
    key_kinds = ["x32", "x32", "x32", "u33", "u1", "u20", "e"]
    states = ["valid", "valid", "empty", "wrong", "valid65", "one byte", "64 zero", "66 bytes"]
    cells = [(dc, kk, st) for dc in decors for kk in key_kinds[2:] for st in states[1:]]
    r.shuffle(cells)
    # the validation-weight budget (50 + the witness size, 50 a check with a non-empty signature): one-byte signatures under keys of an unknown version
    # pass at no cost to the witness, so a run of them crosses the budget at a known count -- every count on both sides of it, for every key size
    budget_family = [(kk, m, sty) for kk in ("u1", "u33", "u20") for m in range(1, 8) for sty in ("add", "verify-chain")]
    for it in range(n + len(budget_family)):
        if it < len(budget_family):
            kk0, nchecks, style = budget_family[it]
            decor, st0 = "none", "one byte"
            kinds, sts = [kk0] * nchecks, ["one byte"] * nchecks
        else:
            decor, kk0, st0 = cells[it % len(cells)]
            nchecks = r.choice([1, 1, 2, 3, 4, 5, 6, 8]) if kk0 in ("u33", "u1", "u20") else r.choice([1, 2, 3])
            style = r.choice(["add", "add", "verify-chain", "single"])
            if style == "single":
                nchecks = 1
            kinds = [kk0] + [r.choice(key_kinds) if kk0 == "x32" else kk0 if r.random() < 0.8 else r.choice(key_kinds) for _ in range(nchecks - 1)]
            sts = [st0] + [r.choice(states) for _ in range(nchecks - 1)]
        ds = [r.randrange(1, N_) for _ in range(nchecks)]
        keys = []
        for d, kk in zip(ds, kinds):
            x = mult(d)[0].to_bytes(32, "big")
            keys.append({"x32": x, "u33": b"\x02" + x, "u1": b"\x42", "u20": x[:20], "e": b""}[kk])
        nonempty = sum(1 for st in sts if st != "empty")
        target = nonempty if it < len(budget_family) or r.random() < 0.7 else r.choice([0, nonempty + 1, max(0, nonempty - 1)])
        if style == "add":
            body = b"\x00" + b"".join(push(k) + b"\xba" for k in keys) + (bytes([0x50 + target]) if 1 <= target <= 16 else b"\x00") + b"\x9c"
        elif style == "verify-chain":
            body = b"".join(push(k) + b"\xad" for k in keys[:-1]) + push(keys[-1]) + b"\xac"
        else:
            body = push(keys[0]) + b"\xac" + (b"\x91" if r.random() < 0.4 else b"")
        big = push(bytes(521))
        script = {"none": body, "bigpush drop": big + b"\x75" + body, "bigpush then success": big + b"\x75" + body + b"\x50", "success then bigpush": b"\x50" + big + b"\x75" + body,
                  "truncated push then success": body + b"\x50\x4d\xff\xff\x00", "success in untaken branch": b"\x00\x63\x7e\x68" + body, "success after the checks": body + b"\x62",
                  "push 520": push(bytes(520)) + b"\x75" + body, "push 521": big + b"\x75" + body}[decor]
        if decor == "truncated push then success":
            script = b"\x4d\xff\xff\x00" + b"\x50" if r.random() < 0.5 else body + b"\x50" + b"\x4d\xff\xff\x00"
        internal = mult(r.randrange(1, N_))[0].to_bytes(32, "big")
        other = (0xC0, ["OP_1"])
        # the leaf as raw bytes: taproot.tree_helper takes a ScriptList, so the tree is assembled by hand from the hashes
        lh = taproot.leaf_hash(0xC0, script)
        two = r.random() < 0.5
        if two:
            oh = taproot.tree_helper([other])[1]
            a_, b_ = sorted([lh, oh])
            from btclib.hashes import tagged_hash

            root, path = tagged_hash(b"TapBranch", a_ + b_), oh
        else:
            root, path = lh, b""
        outkey, parity = taproot.output_pubkey_from_merkle_root(internal, root)
        control = bytes([0xC0 + parity]) + internal + path
        spk = b"\x51\x20" + outkey
        amount = 90_000
        prev = TxOut(amount, ScriptPubKey(spk, check_validity=False), check_validity=False)
        tx = Tx(2, 0, [TxIn(OutPoint(b"\x31" * 32, 1), b"", 0xFFFFFFFD, check_validity=False)], [TxOut(80_000, ScriptPubKey(b"\x51", check_validity=False), check_validity=False)], check_validity=False)
        ext = lh + b"\x00" + b"\xff\xff\xff\xff"

        def sign(d: int, st: str) -> bytes:
            if st == "empty":
                return b""
            if st == "one byte":
                return b"\x01"
            if st == "64 zero":
                return bytes(64)
            ht = 1 if st == "valid65" else 0
            try:
                msg = sig_hash.taproot(tx, 0, [prev], ht, 1, b"", ext)
            except BTClibException:
                return bytes(64)
            sg = ssa.sign_(msg, d, bytes(32)).serialize()
            if st == "wrong":
                sg = sg[:40] + bytes([sg[40] ^ 1]) + sg[41:]
            if st == "66 bytes":
                return sg + b"\x01\x00"
            return sg + (b"\x01" if ht else b"")

        sigs = [sign(d, st) for d, st in zip(ds, sts)]
        stack = sigs[::-1] if style != "verify-chain" else sigs[::-1]
        tx.vin[0].script_witness = Witness([*stack, script, control])
        ALL = ["P2SH", "WITNESS", "TAPROOT", "NULLFAIL", "CLEANSTACK", "MINIMALIF", "DISCOURAGE_UPGRADABLE_PUBKEYTYPE", "DISCOURAGE_OP_SUCCESS", "DISCOURAGE_UPGRADABLE_TAPROOT_VERSION", "STRICTENC", "MINIMALDATA"]
        flags = consistent({"TAPROOT", "WITNESS", "P2SH"} | {f for f in ALL if r.random() < 0.4 and (it >= len(budget_family) or f != "DISCOURAGE_UPGRADABLE_PUBKEYTYPE")}) if it % 7 or it < len(budget_family) else consistent({f for f in ALL if r.random() < 0.5})
        try:
            verify_input([prev], tx, 0, flags)
            ok: Any = True
        except BTClibException:
            ok = False
        except Exception as e:  # noqa: BLE001
            ok = f"foreign {type(e).__name__}: {e}"[:120]
        evs.append({"op": "verify", "tx": tx.serialize(include_witness=True, check_validity=False).hex(), "prevouts": [{"value": nat(amount), "spk": spk.hex()}], "idx": 0, "flags": flags, "ok": ok,
                    "kind": f"tapscript {style} x{nchecks} keys {'/'.join(kinds)} sigs {'/'.join(sts)} {decor}{' two leaves' if two else ''}"})
    return evs


def check(run: Run) -> None:
    thorough = run.tier == "thorough"
    run.rule = ("programs = every chunk sequence TLC builds over five families (conditionals, arithmetic with boundary numbers, stack ops, push forms, "
                "misc/locktime/reserved/disabled) up to the length, legacy and witness-v0 sigversions, policy flags on/off; spends = random programs "
                "spent bare / P2SH / P2WSH / P2SH-P2WSH / unknown witness versions with mutated scriptSigs and witnesses under random consistent "
                "subsets of the 21 flags and 7 (version, locktime, sequence) classes. Non-trivial = a program of >= 2 bytes not refused at GetOp. "
                "Events whose execution reaches a signature opcode or taproot are outside this signature-free instantiation and are counted apart")
    run.assumptions = ["Bitcoin Core's behaviour is represented by the transcription in spec/ScriptVM.tla + ScriptVerify.tla, validated on every run against "
                       "the signature-free vectors of Core's script_tests.json vendored in the repository",
                       "the signature opcodes are decided by module ScriptSigs (validated against all 1228 vectors, 23 of them -- signatures that are not strict DER where no flag demands it -- outside it)"]
    # ---- the specification against Core's own vectors ----
    vec, meta = core_vectors()
    results, bad, diag = events.validate("C08Trace", vec)
    for r in results:
        run.tlc(r, "spec vs Core script_tests.json")
    if bad:
        k = bad[0]
        raise tlc.TLCFailure(f"C08: the specification disagrees with Core's vector {meta[k]}: {diag.get(k)}")
    # ---- the specification WITH the signature opcodes (module ScriptSigs) against every vector, on Core's own transactions ----
    from btclib.exceptions import BTClibException
    from btclib.script.engine import verify_input

    svec, smeta = core_sig_vectors()
    keep = ("op", "tx", "prevouts", "idx", "flags", "ok")
    results, sbad, sdiag = events.validate("C10Trace", [{k: v for k, v in e.items() if k in keep} for e in svec], batch=300, timeout=3000)
    for r in results:
        run.tlc(r, "ScriptSigs vs Core script_tests.json")
    if sbad:
        k = sbad[0]
        raise tlc.TLCFailure(f"C08: the specification with signature opcodes disagrees with Core's vector {smeta[k]}: {sdiag.get(k)}")
    # the library on the same transactions, and on signature spends in every state: judged by the same specification
    sig_evs = []
    for e, mta in zip(svec, smeta):
        try:
            verify_input([e["_credit"].vout[0]], e["_spend"], 0, e["flags"])
            ok: Any = True
        except BTClibException:
            ok = False
        except Exception as ex:  # noqa: BLE001
            ok = f"foreign {type(ex).__name__}"
        sig_evs.append({**{k: v for k, v in e.items() if k in keep}, "ok": ok, "kind": f"core vector: {mta[4] if len(mta) > 4 else mta[:2]}"})
    sig_evs += record_sig_spends(run, 1500 if thorough else 300)
    sig_evs += record_tapscript_sig_spends(run, 1200 if thorough else 300)
    sig_evs += record_tapscript_codesep_spends(run)
    sig_evs += record_nullfail_spends(run)
    for e in sig_evs:
        if isinstance(e["ok"], str):
            run.violation(f"script|verify|foreign|{e['ok'].split(':')[0]}", f"verify_input ({e.get('kind')}) raised {e['ok']}", {"event": e})
    sig_evs2 = [e for e in sig_evs if not isinstance(e["ok"], str)]
    results, sbad2, sdiag2 = events.validate("C10Trace", [{k: v for k, v in e.items() if k in keep} for e in sig_evs2], batch=300, timeout=3000)
    for r in results:
        run.tlc(r, "V C10Trace (signature opcodes)")
    for k in sbad2:
        e = sig_evs2[k]
        run.violation(f"script|verify|{e.get('kind', '')}|code={'accepts' if e['ok'] else 'refuses'}",
                      f"{e.get('kind')}: btclib {'accepts' if e['ok'] else 'refuses'}, Core's rules give {sdiag2.get(k)} (flags {e['flags']})", {"event": e, "spec": str(sdiag2.get(k))})
    run.section("signature_opcodes", {"core_vectors_on_core_transactions": len(svec), "signature_spends": len(sig_evs2) - len(svec)})
    # the same vectors through btclib
    n_vec = 0
    vec_code = []
    for e in vec:
        ok = run_spend(bytes.fromhex(e["scriptSig"]), bytes.fromhex(e["spk"]), [bytes.fromhex(w) for w in e["witness"]], e["flags"], (1, 0, 0xFFFFFFFF))
        vec_code.append({**e, "ok": ok, "kind": "core-vector"})
        n_vec += 1
    # ---- G ----
    gen = generate(run, thorough)
    n_prog, nontrivial, unmodelled = replay_programs(run, gen)
    # ---- V ----
    evs = vec_code + record_spends(run, 6000 if thorough else 1200)
    for e in evs:
        if isinstance(e["ok"], str):
            run.violation(f"script|{e['op']}|foreign|{e['ok'].split(':')[0]}", f"{e['op']} ({e.get('kind')}) raised {e['ok']}", {"event": e})
    evs2 = [e for e in evs if not isinstance(e["ok"], str)]
    results, bad, diag = events.validate("C08Trace", evs2, batch=3000)
    for r in results:
        run.tlc(r, "V C08Trace")
    for k in bad:
        e = evs2[k]
        d = diag.get(k) or {}
        verdict = d.get("verdict", "?") if isinstance(d, dict) else "?"
        key = f"script|{e['op']}|{e.get('kind', '')}|{verdict or 'OK'}|code={'accepts' if e['ok'] else 'refuses'}"
        if e.get("kind") == "tapscript":
            key += "|" + tapscript_class(e)
        run.violation(key, f"{e.get('kind')} spend / program: btclib {'accepts' if e['ok'] else 'refuses'}, Core's rules give {verdict or 'OK'} "
                           f"(scriptSig {e.get('scriptSig', '')[:60]}, spk/script {e.get('spk', e.get('script', ''))[:60]}, flags {e['flags']})",
                      {"event": e, "spec": d})
    run.sample({"program family": gen[0][0], "program": [bytes(gen[0][1][50][0]).hex(), gen[0][1][50][1]]})
    run.sample({"spend": {k: v for k, v in evs2[len(vec_code) + 3].items()}})
    run.section("core_vectors", {"vectors": len(vec), "run_through_btclib": n_vec})
    run.section("generated_programs", {"generated_and_run": n_prog, "nontrivial": nontrivial, "reach_a_signature_opcode": unmodelled})
    run.count(evaluations=n_prog + len(evs) + len(sig_evs), validated=n_prog + len(evs2) + len(sig_evs2), nontrivial=nontrivial + sum(1 for e in evs2 if e.get("kind") != "core-vector"))


def replay(path: str) -> int:
    body = json.load(open(path))
    e = body.get("event")
    if e and e.get("op") == "verify":       # a spend judged by ScriptSigs: re-run the library on it, then the specification
        from btclib.exceptions import BTClibException
        from btclib.script.engine import verify_input
        from btclib.tx import Tx, TxOut

        tx = Tx.parse(bytes.fromhex(e["tx"]))
        prev = [TxOut(int(p["value"] or "0", 16), bytes.fromhex(p["spk"]), check_validity=False) for p in e["prevouts"]]
        try:
            verify_input(prev, tx, e["idx"], e["flags"])
            ok = True
        except BTClibException:
            ok = False
        keep = ("op", "tx", "prevouts", "idx", "flags")
        _, bad, diag = events.validate("C10Trace", [{**{k: v for k, v in e.items() if k in keep}, "ok": ok}])
        if bad:
            print(f"VIOLATION property=C08 replay={path}  # {e.get('kind')}: btclib {'accepts' if ok else 'refuses'}, Core's rules give {diag.get(0)}")
            return 1
        return 0
    if e:
        _, bad, diag = events.validate("C08Trace", [e])
        if bad:
            print(f"VIOLATION property=C08 replay={path}  # {diag}")
            return 1
        return 0
    if body.get("op") == "eval":
        ok, out = run_eval(bytes.fromhex(body["script"]), [bytes.fromhex(x) for x in body.get("stack", [])], body["flags"], body["sv"], (2, 100, 5))
        exp = body.get("expected")
        bad_ = (ok is True) != (exp == "OK") if isinstance(exp, str) else out != exp
        if bad_:
            print(f"VIOLATION property=C08 replay={path}  # verify_script gives {ok} {out}, expected {exp}")
            return 1
    return 0
