"""C13 -- mnemonics and seeds: entropy round-trips, checksums bind, thresholds recover.

Spec: Mnemonic (BIP39 index coding / checksum / seed, Electrum index coding / version / seed), SLIP39 (share codec with RS1024,
GF(256) interpolation, digest share, Feistel cipher, two-level recovery; its own Split / Encode), SLIP39Model (TLC splits a
secret for small configurations, checks every qualifying selection and hands the shares to the implementation), C13Trace.
"""

from __future__ import annotations

import itertools
import random
import unicodedata
from typing import Any

from .. import REPO, events, tlc
from ..core import Run, nat

MODEL_CFG = "SPECIFICATION Spec\nCONSTANTS Configs <- {c}\nINVARIANT EveryQualifyingSetRecovers\nINVARIANT BelowThresholdRefused\nINVARIANT Emit\nCHECK_DEADLOCK FALSE\n"
H = 0x80000000


def outcome(fn: Any) -> Any:
    from btclib.exceptions import BTClibException

    try:
        return fn()
    except BTClibException:
        return "refused"
    except Exception as e:  # noqa: BLE001
        return f"foreign:{type(e).__name__}"


_LISTS: dict[str, list[str]] = {}


def wordlist(name: str) -> list[str]:
    """The vendored word-list files, read by the harness itself (NFKD, as the sentences are compared)."""
    files = {"en": "english", "es": "spanish", "fr": "french", "it": "italian", "ja": "japanese", "ko": "korean", "pt": "portuguese", "cs": "czech", "ru": "russian", "tr": "turkish",
             "zh": "chinese_simplified", "zh_tw": "chinese_traditional", "slip39": "wordlist", "electrum_pt": "electrum_portuguese"}
    if name not in _LISTS:
        lines = open(REPO / "btclib/mnemonic/_data" / (files[name] + ".txt"), encoding="utf-8").read().split("\n")
        _LISTS[name] = [unicodedata.normalize("NFKD", w.strip()) for w in lines if w.strip() and not w.startswith("#")]
    return _LISTS[name]


def indexes(sentence: str, lang: str) -> list[int] | None:
    wl = {w: i for i, w in enumerate(wordlist(lang))}
    try:
        return [wl[w] for w in unicodedata.normalize("NFKD", sentence).lower().split()]
    except KeyError:
        return None


def electrum_normalize(text: str) -> str:
    """Electrum's normalize_text, written from Electrum's description (NFKD, lower, no combining marks, single spaces, none between CJK)."""
    cjk = [(0x4E00, 0x9FFF), (0x3400, 0x4DBF), (0x20000, 0x2A6DF), (0x2A700, 0x2B73F), (0x2B740, 0x2B81F), (0xF900, 0xFAFF), (0x2F800, 0x2FA1D), (0x3190, 0x319F), (0x2E80, 0x2EFF),
           (0x2F00, 0x2FDF), (0x31C0, 0x31EF), (0x2FF0, 0x2FFF), (0x3100, 0x312F), (0x31A0, 0x31BF), (0xFF00, 0xFFEF), (0x3000, 0x303F), (0x3200, 0x32FF), (0x3300, 0x33FF), (0xFE30, 0xFE4F),
           (0xF900, 0xFAFF), (0x3040, 0x309F), (0x30A0, 0x30FF), (0x31F0, 0x31FF), (0xAC00, 0xD7AF), (0x1100, 0x11FF), (0x3130, 0x318F), (0xA960, 0xA97F), (0xD7B0, 0xD7FF), (0x4DC0, 0x4DFF),
           (0xA000, 0xA48F), (0xA490, 0xA4CF)]

    def is_cjk(c: str) -> bool:
        return any(a <= ord(c) <= b for a, b in cjk)

    t = unicodedata.normalize("NFKD", text).lower()
    t = "".join(c for c in t if not unicodedata.combining(c))
    t = " ".join(t.split())
    return "".join(c for i, c in enumerate(t) if not (c.isspace() and is_cjk(t[i - 1]) and is_cjk(t[i + 1])))


# (the third: compatibility characters that decompose to CAPITAL letters -- the order "decompose, then lower-case" shows on them only)
PASSPHRASES = ["", "TREZOR", "\u2116 \u2122 \u2103 \u3391 \u1d2c\u1d2e \u2160\u2161 \ufb01", "pässwörd", "ｐａｓｓ　ｗｏｒｄ", "ǅ ﬁ Ω", "パスフレーズ", " leading and trailing ", "é vs é"]
LANGS = ["en", "es", "fr", "it", "ja", "ko", "pt", "cs", "ru", "tr", "zh", "zh_tw"]


def record_bip39(run: Run, rnd: random.Random, thorough: bool, evs: list[dict[str, Any]]) -> dict[str, int]:
    from btclib.mnemonic import bip39

    stats = {"sentences": 0, "substitutions": 0, "seeds": 0}
    for lang in LANGS:
        for size in (16, 20, 24, 28, 32):
            ents = [bytes(size), b"\xff" * size, b"\x00" * (size - 1) + b"\x01", rnd.randbytes(size)] + [rnd.randbytes(size) for _ in range(3 if thorough else 0)]
            for ent in ents:
                m = outcome(lambda: bip39.mnemonic_from_entropy(ent, lang))
                if isinstance(m, str) and m in ("refused",) or str(m).startswith("foreign"):
                    evs.append({"op": "bip39enc", "entropy": ent.hex(), "indexes": [], "lang": lang, "err": str(m)})
                    continue
                idx = indexes(m, lang)
                evs.append({"op": "bip39enc", "entropy": ent.hex(), "indexes": idx if idx is not None else [], "lang": lang})
                back = outcome(lambda: bip39.entropy_from_mnemonic(m, lang))
                evs.append({"op": "bip39dec", "indexes": idx or [], "lang": lang, "out": back if back in ("refused",) or str(back).startswith("foreign") else int(back, 2).to_bytes(size, "big").hex()})
                stats["sentences"] += 1
                # single-word substitutions: accepted exactly when the checksum still holds
                words = m.split()
                wl = wordlist(lang)
                for _ in range(6 if thorough else 2):
                    k = rnd.randrange(len(words))
                    w2 = list(words)
                    w2[k] = wl[rnd.randrange(2048)]
                    s2 = " ".join(w2)
                    i2 = indexes(s2, lang)
                    b2 = outcome(lambda: bip39.entropy_from_mnemonic(s2, lang))
                    evs.append({"op": "bip39dec", "indexes": i2 or [], "lang": lang, "out": b2 if b2 == "refused" or str(b2).startswith("foreign") else int(b2, 2).to_bytes(size, "big").hex(),
                                "kind": "substitution"})
                    stats["substitutions"] += 1
                # a wrong number of words
                s3 = " ".join(words[:-1])
                b3 = outcome(lambda: bip39.entropy_from_mnemonic(s3, lang))
                evs.append({"op": "bip39dec", "indexes": indexes(s3, lang) or [], "lang": lang, "out": b3 if b3 == "refused" or str(b3).startswith("foreign") else "accepted", "kind": "short"})
            # the same entropy in its other spellings: an integer (zero included: it is the all-zero entropy of that size, not "none given") and a string of bits
            for ent in (bytes(size), b"\x00" * (size - 1) + b"\x01", ents[3]):
                bits = bin(int.from_bytes(ent, "big"))[2:].zfill(8 * size)
                for spelled, what in ((bits, "bit string"),) + (((int.from_bytes(ent, "big"), "integer"),) if size == 16 else ()):   # (an integer has no length of its own: it names the shortest size)
                    m = outcome(lambda: bip39.mnemonic_from_entropy(spelled, lang))
                    idx = indexes(m, lang) if isinstance(m, str) and m != "refused" and not m.startswith("foreign") else None
                    evs.append({"op": "bip39enc", "entropy": ent.hex(), "indexes": idx if idx is not None else [], "lang": lang, "kind": f"entropy given as {what}", "err": "" if idx is not None else str(m)})
            # seeds: every passphrase on one sentence per language and size (PBKDF2 is the cost)
            if size in (16, 32) or thorough:
                m = bip39.mnemonic_from_entropy(ents[-1], lang)
                for pw in (PASSPHRASES if (thorough or lang in ("en", "ja", "es")) else PASSPHRASES[:3]):
                    seed = outcome(lambda: bip39.seed_from_mnemonic(m, pw))
                    evs.append({"op": "bip39seed", "text": m.encode().hex(), "pass": pw.encode().hex(), "lang": lang, "out": seed if isinstance(seed, str) else seed.hex()})
                    stats["seeds"] += 1
    return stats


def record_electrum(run: Run, rnd: random.Random, thorough: bool, evs: list[dict[str, Any]]) -> dict[str, int]:
    from btclib.mnemonic import electrum

    stats = {"sentences": 0, "versions": 0}
    for lang in LANGS:
        for typ in ("standard", "segwit", "2fa", "2fa_segwit"):
            for _ in range(2 if thorough else 1):
                # (a "2fa" sentence has 12 words or at least 20: with the 1626-word list 132 bits are 13 words, which Electrum refuses too)
                ent = rnd.getrandbits(264 if (typ == "2fa" and lang == "pt") else rnd.choice([132, 132, 264]))
                m = outcome(lambda: electrum.mnemonic_from_entropy(typ, ent, lang))
                if not isinstance(m, str) or m == "refused" or m.startswith("foreign"):
                    evs.append({"op": "elver", "norm": "", "nwords": 0, "out": f"mnemonic_from_entropy({typ}, {lang}): {m}", "lang": lang})
                    continue
                norm = electrum_normalize(m)
                v = outcome(lambda: electrum.version_from_mnemonic(m))
                evs.append({"op": "elver", "norm": norm.encode().hex(), "nwords": len(m.split()), "lang": lang, "typ": typ, "out": v[0] if isinstance(v, tuple) else ("none" if v == "refused" else v)})
                stats["versions"] += 1
                base = 1626 if lang == "pt" else 2048
                idx = indexes(m, "electrum_pt" if lang == "pt" else lang)
                e2 = outcome(lambda: electrum.entropy_from_mnemonic(m, lang))
                if idx is not None:
                    evs.append({"op": "elint", "indexes": idx, "base": base, "lang": lang, "out": e2 if e2 == "refused" or str(e2).startswith("foreign") else nat(int(e2, 2))})
                stats["sentences"] += 1
                # upper-cased, extra spaces: the same sentence
                m2 = "  " + m.upper().replace(" ", "   ") + " "
                v2 = outcome(lambda: electrum.version_from_mnemonic(m2))
                evs.append({"op": "elver", "norm": electrum_normalize(m2).encode().hex(), "nwords": len(m2.split()), "lang": lang, "typ": typ, "out": v2[0] if isinstance(v2, tuple) else ("none" if v2 == "refused" else v2)})
                # a sentence of the wrong version: one word swapped
                words = m.split()
                words[rnd.randrange(len(words))] = wordlist("electrum_pt" if lang == "pt" else lang)[rnd.randrange(1000)]
                m3 = " ".join(words)
                v3 = outcome(lambda: electrum.version_from_mnemonic(m3))
                evs.append({"op": "elver", "norm": electrum_normalize(m3).encode().hex(), "nwords": len(m3.split()), "lang": lang, "typ": "swapped", "out": v3[0] if isinstance(v3, tuple) else ("none" if v3 == "refused" else v3)})
                if typ in ("standard", "segwit") and (thorough or lang in ("en", "ja")):
                    for pw in PASSPHRASES[: (9 if thorough else 4)]:
                        sd = outcome(lambda: electrum._seed_from_mnemonic(m, pw))
                        evs.append({"op": "elseed", "norm": norm.encode().hex(), "normpass": electrum_normalize(pw).encode().hex(), "out": sd[1].hex() if isinstance(sd, tuple) else str(sd)})
    return stats


def record_slip39(run: Run, rnd: random.Random, thorough: bool, evs: list[dict[str, Any]], model_shares: list[Any]) -> dict[str, int]:
    from btclib.mnemonic import slip39

    stats = {"recoveries": 0, "refusals": 0, "from_spec": 0}
    wl = wordlist("slip39")

    def rec(mn: list[str], pw: str, kind: str, secret: bytes | None = None) -> None:
        idx = [[wl.index(w) for w in m.split()] for m in mn]
        r = outcome(lambda: slip39.master_secret_from_mnemonics(mn, pw))
        evs.append({"op": "slip39" if secret is None else "slip39own", "secret": "" if secret is None else secret.hex(), "mnemonics": idx, "pass": pw.encode().hex(), "refused": isinstance(r, str), "out": "" if isinstance(r, str) else r.hex(), "kind": kind, "err": r if isinstance(r, str) else ""})
        stats["recoveries" if not isinstance(r, str) else "refusals"] += 1

    # specification -> code: the shares TLC made
    for cfg, ext, shares, secret, pw in model_shares:
        words = [[" ".join(wl[i] for i in m) for m in g] for g in shares]
        gt, groups = cfg
        pw_s = bytes(pw).decode()
        for gsel in itertools.combinations(range(len(groups)), gt):
            mn: list[str] = []
            for g in gsel:
                mt = groups[g][0]
                mn += list(rnd.sample(words[g], mt))
            rnd.shuffle(mn)
            rec(mn, pw_s, "from the specification", bytes(secret))
            stats["from_spec"] += 1
    # code -> specification: the library's own shares, every secret length, both flags, several exponents
    configs = [(1, [(1, 1)]), (1, [(2, 3)]), (2, [(1, 1), (2, 2), (3, 5)]), (1, [(3, 3)]), (3, [(1, 1), (1, 1), (2, 3), (2, 2)])]
    lengths = [16, 18, 20, 24, 30, 32] if thorough else [16, 20, 30, 32]
    for n_bytes in lengths:
        for gt, groups in (configs if thorough else configs[:3]):
            ext = rnd.random() < 0.5
            e = rnd.choice([0, 0, 1])
            pw = ["", "TREZOR", "a b~", " ~!}"][(lengths.index(n_bytes) + gt + len(groups)) % 4]      # (every printable ASCII character is a passphrase character, the first and the last included)
            secret = rnd.randbytes(n_bytes)
            counter = itertools.count(1)
            mn_groups = outcome(lambda: slip39.mnemonics_from_master_secret(secret, groups, gt, pw, e, ext, lambda n: bytes((next(counter) * 37 + k * 11) % 256 for k in range(n))))
            if isinstance(mn_groups, str):
                evs.append({"op": "slip39", "mnemonics": [], "pass": "", "refused": False, "out": secret.hex(), "kind": f"mnemonics_from_master_secret refused: {mn_groups}"})
                continue
            sels = list(itertools.combinations(range(len(groups)), gt))
            for gsel in (sels if thorough else sels[:2]):
                mn = []
                for g in gsel:
                    mn += list(rnd.sample(mn_groups[g], groups[g][0]))
                rnd.shuffle(mn)
                rec(mn, pw, f"library shares {n_bytes} bytes", secret)
                if gsel == sels[0]:
                    rec(mn, pw + "x", "wrong passphrase")
                    if len(mn) > 1:
                        rec(mn[:-1], pw, "below threshold")
                    # one word changed: the checksum refuses it
                    w = mn[0].split()
                    w[rnd.randrange(len(w))] = wl[rnd.randrange(1024)]
                    rec([" ".join(w)] + mn[1:], pw, "one word changed")
                    # a share of another split among them
    # a share written and read back, no key stretching involved: each field at every value of its range (the sixteen iteration exponents among them)
    def share_event(**over: Any) -> None:
        f = {"identifier": 0x1234, "extendable": False, "iteration_exponent": 1, "group_index": 0, "group_threshold": 1, "group_count": 1, "member_index": 0, "member_threshold": 1,
             "value": bytes(range(16)), **over}
        m = outcome(lambda: slip39.mnemonic_from_share(slip39.Share(**f)))
        def failed(x: Any) -> bool:
            return isinstance(x, str) and (x == "refused" or x.startswith("foreign"))

        if failed(m):
            return                  # (a share the library does not write: nothing to read back)
        idx = [wl.index(w) for w in m.split()]
        sh = outcome(lambda: slip39.share_from_mnemonic(m))
        back = outcome(lambda: slip39.mnemonic_from_share(sh)) if not failed(sh) else sh
        evs.append({"op": "slip39share", "indexes": idx, "refused": failed(sh),
                    "fields": [] if failed(sh) else [sh.identifier, int(sh.extendable), sh.iteration_exponent, sh.group_index, sh.group_threshold, sh.group_count, sh.member_index, sh.member_threshold],
                    "value": "" if failed(sh) else bytes(sh.value).hex(), "back": [] if failed(back) else [wl.index(w) for w in back.split()], "kind": str(over)})

    for v in range(16):
        share_event(iteration_exponent=v)
        share_event(group_index=v, group_count=16, group_threshold=1 + v % 16)
        share_event(member_index=v, member_threshold=1 + (15 - v))
        share_event(group_count=v + 1, group_threshold=1 + v // 2)
    for ident in (0, 1, 0x4000, 0x7FFF):
        for ext in (False, True):
            share_event(identifier=ident, extendable=ext)
    for n_bytes in (16, 18, 32, 64):
        share_event(value=bytes(range(n_bytes)))
    # the largest thresholds SLIP-0039 defines: sixteen of sixteen members, sixteen of sixteen groups
    for gt, groups in ((1, [(16, 16)]), (16, [(1, 1)] * 16), (2, [(15, 16), (1, 1)])):
        secret = rnd.randbytes(16)
        counter = itertools.count(1)
        mn_groups = outcome(lambda: slip39.mnemonics_from_master_secret(secret, groups, gt, "", 0, True, lambda n: bytes((next(counter) * 41 + k * 7) % 256 for k in range(n))))
        if isinstance(mn_groups, str):
            evs.append({"op": "slip39own", "secret": secret.hex(), "mnemonics": [], "pass": "", "refused": True, "out": "", "kind": f"mnemonics_from_master_secret({gt}, {groups}) refused: {mn_groups}"})
            continue
        mn = []
        for g in range(gt if gt > 2 else len(groups))[:gt if gt > 2 else 2 if gt == 2 else 1]:
            mn += list(rnd.sample(mn_groups[g], groups[g][0]))
        rnd.shuffle(mn)
        rec(mn, "", f"library shares at the largest threshold {gt} of {groups[:2]}..", secret)
        rec(mn[:-1], "", "one short of the largest threshold")
    return stats


def record_dispatch(run: Run, rnd: random.Random, thorough: bool, evs: list[dict[str, Any]]) -> int:
    """mnemonic.dispatch: which schemes claim a sentence, in the language the caller names -- BIP39 sentences asked in their own and in another language,
    sentences made of the words English and French share (valid in one, in the other, in both), Electrum seeds, SLIP-0039 shares, near misses."""
    from btclib.mnemonic import bip39, dispatch, electrum, slip39

    wl_slip = {w: k for k, w in enumerate(wordlist("slip39"))}
    lists = {lang: {w: k for k, w in enumerate(wordlist(lang))} for lang in ("en", "fr", "es", "it")}

    def ev(sentence: str, lang: str, what: str) -> None:
        words = sentence.split()
        idx = [lists[lang].get(w, -1) for w in words]
        sidx = [wl_slip.get(w, -1) for w in words]
        out = outcome(lambda: dispatch.all_seed_types_from_mnemonic(sentence, lang))
        if isinstance(out, list) and any(t == "electrum_old" for t in out):
            return                                   # (pre-2.0 Electrum seeds are not in the specification)
        evs.append({"op": "seedtypes", "lang": lang, "in_list": all(k >= 0 for k in idx) and bool(words), "idx": idx if all(k >= 0 for k in idx) else [], "nwords": len(words),
                    "slip_idx": sidx if all(k >= 0 for k in sidx) and words else [], "norm": electrum_normalize(sentence).encode().hex(), "out": out if isinstance(out, list) else [str(out)],
                    "first": outcome(lambda: dispatch.seed_type_from_mnemonic(sentence, lang)), "what": what})

    n0 = len(evs)
    for lang in ("en", "fr", "es"):
        for bits in (128, 256):
            m = bip39.mnemonic_from_entropy(rnd.getrandbits(bits).to_bytes(bits // 8, "big"), lang)
            for asked in ("en", "fr", "es"):
                ev(m, asked, f"a {lang} BIP39 sentence asked as {asked}")
            w = m.split()
            ev(" ".join(w[:-1]), lang, "one word short")
            ev(" ".join(w[:-1] + [w[0]]), lang, "last word replaced")
    shared = sorted(set(lists["en"]) & set(lists["fr"]))
    found = {"fr only": 0, "en only": 0, "both": 0, "neither": 0}
    tries = 0
    while min(found.values()) < (3 if thorough else 1) and tries < 200000:
        tries += 1
        words = [rnd.choice(shared) for _ in range(12)]
        s_ = " ".join(words)
        def valid(lang_: str) -> bool:                      # (the entropy comes back as a string of bits: a refusal is told apart by what it says)
            r_ = outcome(lambda: bip39.entropy_from_mnemonic(s_, lang_))
            return not (isinstance(r_, str) and (r_ == "refused" or r_.startswith("foreign")))

        en_ok, fr_ok = valid("en"), valid("fr")
        kind = "both" if en_ok and fr_ok else "en only" if en_ok else "fr only" if fr_ok else "neither"
        if found[kind] < (3 if thorough else 1):
            found[kind] += 1
            for asked in ("en", "fr", "it"):
                ev(s_, asked, f"twelve words English and French share, a valid BIP39 sentence in: {kind}; asked as {asked}")
    for typ in ("standard", "segwit"):
        m = electrum.mnemonic_from_entropy(typ, rnd.getrandbits(132), "en")
        ev(m, "en", f"an Electrum {typ} seed")
        ev(m.upper(), "en", f"an Electrum {typ} seed, upper case")
    counter = itertools.count(1)
    for sh in slip39.mnemonics_from_master_secret(rnd.randbytes(16), [(1, 1)], 1, "", 0, True, lambda n: bytes((next(counter) * 3 + k) % 256 for k in range(n)))[0][:1]:
        ev(sh, "en", "a SLIP-0039 share")
        w = sh.split()
        w[3] = "academic" if w[3] != "academic" else "acid"
        ev(" ".join(w), "en", "a SLIP-0039 share with one word changed")
    ev("", "en", "the empty sentence")
    ev("abandon " * 11 + "about", "en", "the BIP39 test sentence")
    ev("abandon " * 11 + "about", "fr", "the BIP39 test sentence asked as French")
    return len(evs) - n0


def record_bip85(run: Run, rnd: random.Random, thorough: bool, evs: list[dict[str, Any]]) -> int:
    from btclib import bip85
    from btclib.bip32 import bip32
    from btclib.bip32.bip32 import BIP32KeyData

    root = "xprv9s21ZrQH143K2LBWUUQRFXhucrQqBpKdRRxNVq2zBqsx8HVqFk2uYo8kmbaLLHRdqtQpUm98uKfu3vca1LqdGhUtyoFnCNkfmXRyPXLjbKb"      # BIP85's test root
    n = 0
    paths = []
    for app, extra in ((39, [0, 12]), (2, []), (32, []), (128169, [32])):
        for i in range(600 if thorough else 300):
            paths.append([H + 83696968, H + app] + [H + x for x in extra] + [H + i])
    zero_first = 0
    for path in paths:
        child = BIP32KeyData.b58decode(bip32.derive(root, path))
        k = child.key[1:]
        if k[0] != 0 and rnd.random() > 0.02:
            continue                                   # every path whose derived key starts with a zero byte, and a sample of the others
        zero_first += k[0] == 0
        ent = outcome(lambda: bip85.entropy_from_der_path(root, path))
        evs.append({"op": "hmac512", "fn": "bip85.entropy_from_der_path", "key": b"bip-entropy-from-k".hex(), "msg": k.hex(), "out": ent.hex() if isinstance(ent, (bytes, bytearray)) else str(ent)})
        n += 1
    run.note(f"bip85: {n} paths, {zero_first} of them with a derived key starting with a zero byte")
    return n


def check(run: Run) -> None:
    thorough = run.tier == "thorough"
    rnd = random.Random(run.seed)
    run.rule = ("BIP39: 12 languages x 5 entropy sizes x extreme and random entropies, single-word substitutions, a missing word, seeds under NFKD-sensitive passphrases; Electrum: 12 "
                "languages (incl. the 1626-word list) x 4 versions, re-spelled and swapped sentences, seeds; SLIP39: every exactly-qualifying selection of TLC-made shares for 3-7 "
                "configurations, library-made shares of 4-6 secret lengths x 3-5 configurations x flags/exponents/passphrases, wrong passphrase, below threshold, one word changed; "
                "BIP85: every path of 1200-2400 whose derived key starts with a zero byte")
    run.assumptions = ["which word a list gives an index is data: the harness maps words to indexes with the vendored lists",
                       "Electrum's text normalization is re-implemented in the harness from Electrum's description (the specification takes the normalized bytes)",
                       "SLIP39 recovery takes exactly the threshold numbers of groups and members, as SLIP-0039's reference implementation does"]
    res = tlc.run("SLIP39Model", cfg_text=MODEL_CFG.format(c="ConfigsFull" if thorough else "ConfigsSmall"), workers=16, timeout=3000)
    for v in res.violations:
        raise tlc.TLCFailure(f"SLIP39Model violates {v.name}:\n{v.text[:600]}")
    run.tlc(res, "M+G SLIP39Model")
    model_shares = [v[1:] for v in res.printed_values() if isinstance(v, list) and v and v[0] == "SHARES"]
    model_shares = list({str(x): x for x in model_shares}.values())
    evs: list[dict[str, Any]] = []
    s1 = record_bip39(run, rnd, thorough, evs)
    s2 = record_electrum(run, rnd, thorough, evs)
    s3 = record_slip39(run, rnd, thorough, evs, model_shares)
    n85 = record_bip85(run, rnd, thorough, evs)
    # BIP85's applications (the language numbers of 39', WIF, xprv) recomputed from the BIP's path table by the BIP32 specification
    from . import c07

    evs85 = [e for e in c07.record_more(run, thorough) if e["op"] == "bip85"]
    r85, bad85, diag85 = events.validate("C07Trace", evs85, batch=300, timeout=3000)
    for r in r85:
        run.tlc(r, "V C07Trace (BIP85 applications)")
    for k in bad85:
        e = evs85[k]
        run.violation(f"mnemonics|bip85|{e['app']}|{e.get('lang', '')}", f"bip85 {e['app']} ({e.get('lang')}, {e.get('words')} words, index {e.get('index')}): btclib {e['out'][:40]}, the BIP's path gives {str(diag85.get(k))[:80]}",
                      {"event": e, "expected": str(diag85.get(k))[:400]})
    n85 += len(evs85)
    n_disp = record_dispatch(run, rnd, thorough, evs)
    keep = ("lang", "in_list", "idx", "slip_idx", "first", "op", "entropy", "indexes", "out", "text", "pass", "norm", "nwords", "base", "normpass", "mnemonics", "refused", "key", "msg", "secret", "fields", "value", "back")
    compact = [{k: v for k, v in e.items() if k in keep} for e in evs]
    results, bad, diag = events.validate("C13Trace", compact, batch=300, timeout=6000)
    for r in results:
        run.tlc(r, "V C13Trace")
    for k in bad:
        e = evs[k]
        sub = e.get("kind") or e.get("typ") or e.get("fn") or e.get("what") or ""
        run.violation(f"mnemonics|{e['op']}|{e.get('lang', '')}|{sub}", f"{e['op']}: the specification does not explain {({kk: (vv if len(str(vv)) < 80 else str(vv)[:80]) for kk, vv in e.items()})}; "
                      f"expected {str(diag.get(k))[:300]}", {"event": e, "expected": str(diag.get(k))[:2000]})
    run.sample({"event": {k: (v if len(str(v)) < 100 else str(v)[:100]) for k, v in next(e for e in evs if e["op"] == "slip39own" and not e["refused"]).items()}})
    run.section("events", {"bip39": s1, "electrum": s2, "slip39": s3, "bip85_paths": n85, "dispatch": n_disp, "shares_from_the_specification": len(model_shares)})
    if s3["from_spec"] < 3 or s3["recoveries"] < 8 or s1["sentences"] < 100:
        raise tlc.TLCFailure(f"C13 harness is vacuous: {s1} {s3}")
    run.count(evaluations=len(evs), validated=len(evs), nontrivial=len(evs))


def replay(path: str) -> int:
    import json

    body = json.load(open(path))
    e = body.get("event")
    if not e:
        return 0
    results, bad, diag = events.validate("C07Trace" if e.get("op") == "bip85" else "C13Trace", [e], workers=1)
    if bad:
        print(f"VIOLATION property=C13 replay={path}  # recorded event not explained by the specification; expected {str(diag.get(0))[:300]}")
        return 1
    return 0
