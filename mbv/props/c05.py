"""C05 -- wire formats are canonical: parse and serialize are mutually inverse.

Spec: Wire / WireMore (serializers + parsers for CompactSize, var-bytes, OutPoint, TxIn, TxOut, Witness,
Tx, BlockHeader, Block, p2p envelope, PSBT key-value maps), WireModel (M), C05Trace (V).
Every class of btclib that has a parse/serialize pair is discovered by introspection and held to the
class-independent law "an accepted string is the serialization of what it parsed to"; the classes with a
transcribed grammar are additionally held to the grammar's verdict and numbers.
"""

from __future__ import annotations

import importlib
import inspect
import io
import json
import pkgutil
import random
from typing import Any, Callable

from .. import REPO, events, tlc
from ..core import Run

MODEL_CFG = """SPECIFICATION MSpec
CONSTANTS Alphabet = {{{alpha}}}
MaxLen = {maxlen}
INVARIANT CompactCanonical
INVARIANT VarBytesCanonical
INVARIANT OutPointCanonical
INVARIANT TxOutCanonical
{emit}CHECK_DEADLOCK FALSE
"""

GRAMMAR = {"var_int", "var_bytes", "OutPoint", "TxIn", "TxOut", "Witness", "Tx", "BlockHeader", "Block", "Message"}


def _accepts_kw(fn: Any, kw: str) -> bool:
    try:
        return kw in inspect.signature(fn).parameters
    except (TypeError, ValueError):
        return False


class Codec:
    """parse / serialize of one class, with the calling convention worked out once."""

    def __init__(self, name: str, parse: Callable[..., Any], serialize: Callable[[Any], bytes], cls: Any = None) -> None:
        self.name = name
        self._parse = parse
        self._ser = serialize
        self.cls = cls
        self.has_cv = _accepts_kw(parse, "check_validity")

    def parse(self, b: bytes, strict: bool) -> Any:
        if self.has_cv:
            return self._parse(b, check_validity=strict)
        return self._parse(b)

    def ser(self, obj: Any) -> bytes:
        return self._ser(obj)


def _serializer(cls: Any) -> Callable[[Any], bytes]:
    f = cls.serialize
    params = inspect.signature(f).parameters
    kw: dict[str, Any] = {}
    if "check_validity" in params:
        kw["check_validity"] = False
    if "include_witness" in params:
        return lambda o: o.serialize(True, **kw)
    return lambda o: o.serialize(**kw)


def discover() -> dict[str, Codec]:
    import btclib
    from btclib import var_bytes, var_int

    out: dict[str, Codec] = {
        "var_int": Codec("var_int", lambda b: var_int.parse(b, 2**64 - 1), var_int.serialize),
        "var_bytes": Codec("var_bytes", var_bytes.parse, var_bytes.serialize),
    }
    for m in pkgutil.walk_packages(btclib.__path__, "btclib."):
        if ".fetch" in m.name or "hwi" in m.name:
            continue
        try:
            mod = importlib.import_module(m.name)
        except Exception:  # noqa: BLE001
            continue
        for n, c in vars(mod).items():
            if not inspect.isclass(c) or c.__module__ != m.name or n.startswith("_"):
                continue
            if callable(getattr(c, "parse", None)) and callable(getattr(c, "serialize", None)):
                short = n if n != "Sig" else f"{m.name.split('.')[-1]}.Sig"
                out[short] = Codec(short, c.parse, _serializer(c), c)
    return out


def seeds() -> dict[str, list[bytes]]:
    """Valid encodings to mutate, per class (built with the library's own constructors and vendored data)."""
    from btclib.block.block import Block
    from btclib.block.block_header import BlockHeader
    from btclib.ecc import bms, dsa, ssa
    from btclib.p2p.address import Addr  # noqa: F401
    from btclib.p2p.block_filters import BlockFilterType, CFCheckpt, CFHeaders, CFilter, GetCFCheckpt, GetCFHeaders, GetCFilters
    from btclib.p2p.compact_blocks import BlockTxn, CmpctBlock, GetBlockTxn, PrefilledTransaction, SendCmpct
    from btclib.p2p.inventory import GetBlocks, GetData, GetHeaders, Headers, Inv, Inventory, InventoryType, NotFound
    from btclib.p2p.keepalive import Ping, Pong
    from btclib.p2p.message import Message
    from btclib.p2p.negotiation import FeeFilter
    from btclib.tx import Tx

    data = REPO / "tests"
    block1 = (data / "block/_data/block_1.bin").read_bytes()
    block170 = (data / "block/_data/block_170.bin").read_bytes()
    hdr = block1[:80]
    h32 = hdr[4:36][::-1]
    tx_seg = bytes.fromhex(
        "010000000001019bdea7abb2fa14dead47dd14d03cf82212a25b6096a8da6b14feec3658dbcf9d0100000000ffffffff02a02526000000000017a914f987c321394968be"
        "164053d352fc49763b2be55c874361610000000000220020701a8d401c84fb13e6baf169d59684e17abd9fa216c8cc5b9fc63d622ff8c58d04004730440220421fbbedf2"
        "ee096d6289b99973509809d5e09589040d5e0d453133dd11b2f78a02205686dbdb57e0c44e49421e9400dd4e931f1655332e8d078260c9295ba959e05d01473044022039"
        "8f141917e4525d3e9e0d1c6482cb19ca3188dc5516a3a5ac29a0f4017212d902204ea405fae3a58b1fc30c5ad8ac70a76ab4f4d876e8af706a6a7b4cd6fa100f44016952"
        "210375e00eb72e29da82b89367947f29ef34afb75e8654f6ea368e0acdfd92976b7c2103a1b26313f430c4b15bb1fdce663207659d8cac749a0e53d70eff01874496feff"
        "2103c96d495bfdd5ba4145e3e046fee45e84a8a48ad05bd8dbb395c011a32cf9f88053ae00000000")
    blk = Block.parse(block170)
    tx_legacy = blk.transactions[1].serialize(True)
    txo = Tx.parse(tx_seg)
    s: dict[str, list[bytes]] = {
        "var_int": [b"\x00", b"\xfc", b"\xfd\xfd\x00", b"\xfd\xff\xff", b"\xfe\x00\x00\x01\x00", b"\xff\x00\x00\x00\x00\x01\x00\x00\x00"],
        "var_bytes": [b"\x00", b"\x03abc", b"\xfd\xfd\x00" + bytes(253)],
        "Tx": [tx_seg, tx_legacy, blk.transactions[0].serialize(True)],
        "TxIn": [txo.vin[0].serialize(), blk.transactions[1].vin[0].serialize()],
        "TxOut": [o.serialize() for o in txo.vout],
        "OutPoint": [txo.vin[0].prev_out.serialize()],
        "Witness": [txo.vin[0].script_witness.serialize(), b"\x00"],
        "BlockHeader": [hdr, block170[:80]],
        "Block": [block1, block170],
        "Message": [Message("f9beb4d9", "ping", bytes(8)).serialize(), Message("f9beb4d9", "verack", b"").serialize(),
                    Message("0b110907", "tx", tx_seg).serialize()],
        "Ping": [Ping(7).serialize()], "Pong": [Pong(2**64 - 1).serialize()],
        "Inv": [Inv([Inventory(InventoryType.MSG_BLOCK, h32), Inventory(InventoryType.MSG_TX, h32)]).serialize()],
        "GetData": [GetData([Inventory(InventoryType.MSG_WITNESS_TX, h32)]).serialize()],
        "NotFound": [NotFound([Inventory(InventoryType.MSG_TX, h32)]).serialize()],
        "Inventory": [Inventory(InventoryType.MSG_BLOCK, h32).serialize()],
        "Headers": [b"\x01" + hdr + b"\x00", b"\x02" + hdr + b"\x00" + block170[:80] + b"\x00"],
        "GetBlocks": [GetBlocks(70016, [h32], bytes(32)).serialize()],
        "GetHeaders": [GetHeaders(70016, [h32, h32[::-1]], h32).serialize()],
        "FeeFilter": [FeeFilter(1000).serialize()],
        "SendCmpct": [SendCmpct(True, 2).serialize() if _try(lambda: SendCmpct(True, 2)) else b"\x01\x02\x00\x00\x00\x00\x00\x00\x00"],
        "CFilter": [CFilter(BlockFilterType.BASIC, h32, b"\x01\x02\x03").serialize()],
        "CFHeaders": [CFHeaders(BlockFilterType.BASIC, h32, bytes(32), [h32]).serialize()],
        "CFCheckpt": [CFCheckpt(BlockFilterType.BASIC, h32, [h32, bytes(32)]).serialize()],
        "GetCFilters": [GetCFilters(BlockFilterType.BASIC, 5, h32).serialize()],
        "GetCFHeaders": [GetCFHeaders(BlockFilterType.BASIC, 5, h32).serialize()],
        "GetCFCheckpt": [GetCFCheckpt(BlockFilterType.BASIC, h32).serialize()],
        "CmpctBlock": [CmpctBlock(BlockHeader.parse(hdr), 1, [0x010203040506], [PrefilledTransaction(1, Block.parse(block1).transactions[0])]).serialize()],
        "GetBlockTxn": [GetBlockTxn(h32, [0, 2, 5]).serialize()],
        "BlockTxn": [BlockTxn(h32, [txo]).serialize()],
        "PrefilledTransaction": [PrefilledTransaction(3, txo).serialize()],
        "TxPayload": [tx_seg], "BlockPayload": [block1],
        "Version": [bytes.fromhex("62ea0000010000000000000011b2d05000000000010000000000000000000000000000000000ffff000000000000"
                                  "010000000000000000000000000000000000ffff0000000000003b2eb35d8ce617650f2f5361746f7368693a302e372e322fc03e0300")],
        "Verack": [b""], "GetAddr": [b""], "Mempool": [b""], "SendHeaders": [b""], "WtxidRelay": [b""], "SendAddrV2": [b""],
        "Addr": [bytes.fromhex("01e215104d010000000000000000000000000000000000ffff0a000001208d")],
        "TimestampedNetworkAddress": [bytes.fromhex("e215104d010000000000000000000000000000000000ffff0a000001208d")],
        "NetworkAddress": [bytes.fromhex("010000000000000000000000000000000000ffff0a000001208d")],
        "AddrV2": [bytes.fromhex("0361bc6649000210000000000000000000000000000000010000796276830102100000000000000000000000000000000100f1"
                                 "fffffffffd4804021000000000000000000000000000000001f1f2")],
        "NetworkAddressV2": [bytes.fromhex("61bc6649000210000000000000000000000000000000010000")],
    }
    # witnesses whose every item is empty (what an anyone-can-spend or an OP_NOT puzzle is fed): a witness all the same, written by hand so that
    # no serializer of the library decides what the bytes are
    def _empty_item_tx(stacks: list[bytes]) -> bytes:
        ins = b"".join(h32 + bytes([j, 0, 0, 0]) + b"\x00" + b"\xfd\xff\xff\xff" for j in range(len(stacks)))
        return b"\x02\x00\x00\x00" + b"\x00\x01" + bytes([len(stacks)]) + ins + b"\x01" + (1000).to_bytes(8, "little") + b"\x01\x51" + b"".join(stacks) + bytes(4)

    empties = [_empty_item_tx([b"\x01\x00"]), _empty_item_tx([b"\x02\x00\x00", b"\x00"]), _empty_item_tx([b"\x00", b"\x01\x00", b"\x00"])]
    s["Tx"] += empties
    s["TxPayload"] += empties[:1]
    s["Witness"] += [b"\x01\x00", b"\x03\x00\x00\x00"]
    s["BlockTxn"] += [h32 + b"\x01" + empties[1]]
    sig = dsa.sign_(bytes(32), 1)
    # (small scalars too: a one-byte r or s is where a padding rule is off by one)
    s["dsa.Sig"] = [sig.serialize(), dsa.Sig(1, 1).serialize(), dsa.Sig(0x7F, 0x80).serialize(), dsa.Sig(0x81, 0xFFFF).serialize(), dsa.Sig(0x1234, 5).serialize(), dsa.Sig(0x8001, 0x7FFF).serialize()]
    s["ssa.Sig"] = [ssa.sign_(bytes(32), 1, bytes(32)).serialize()]
    s["bms.Sig"] = [bms.sign(b"msg", "KwdMAjGmerYanjeui5SHS7JkmpZvVipYvB2LJGU1ZxJwYvP98617").serialize()]
    from btclib.bip32.bip32 import BIP32KeyData
    from btclib.bip32.key_origin import BIP32KeyOrigin

    xprv = "xprv9s21ZrQH143K3GJpoapnV8SFfukcVBSfeCficPSGfubmSFDxo1kuHnLisriDvSnRRuL2Qrg5ggqHKNVpxR86QEC8w35uxmGoggxtQTPvfUu"
    s["BIP32KeyData"] = [BIP32KeyData.b58decode(xprv).serialize()]
    s["BIP32KeyOrigin"] = [BIP32KeyOrigin("73c5da0a", "m/84h/0h/0h/1/65535").serialize()]
    return s


def _try(fn: Any) -> bool:
    try:
        fn()
        return True
    except Exception:  # noqa: BLE001
        return False


def psbt_seeds() -> list[bytes]:
    out = []
    for name in ("bip174_test_vectors.json", "bip370_test_vectors.json", "bip371_test_vectors.json", "bip373_test_vectors.json", "bip375_test_vectors.json"):
        try:
            doc = json.load(open(REPO / "tests/psbt/_data" / name))
        except Exception:  # noqa: BLE001
            continue
        _harvest(doc, out)
    return out


def _harvest(doc: Any, out: list[bytes]) -> None:
    import base64

    if isinstance(doc, dict):
        for v in doc.values():
            _harvest(v, out)
    elif isinstance(doc, list):
        for v in doc:
            _harvest(v, out)
    elif isinstance(doc, str) and len(doc) > 20:
        b = None
        if doc.startswith("cHNidP"):
            try:
                b = base64.b64decode(doc)
            except Exception:  # noqa: BLE001
                b = None
        elif doc.startswith("70736274ff"):
            try:
                b = bytes.fromhex(doc)
            except ValueError:
                b = None
        if b and b not in out:
            out.append(b)


def mutations(s: bytes, rnd: random.Random, budget: int) -> list[bytes]:
    """Structure-aware near misses: truncation, extension, boundary values at every position, CompactSize widening."""
    out: list[bytes] = [s]
    n = len(s)
    pos = list(range(n)) if n <= 120 else sorted(set(list(range(0, 60)) + list(range(n - 12, n)) + rnd.sample(range(n), 60)))
    for i in (range(n) if n <= 200 else pos):
        out.append(s[:i])
    for x in (0, 1, 0xFF):
        out.append(s + bytes([x]))
    for i in pos:
        for v in {0, 1, 2, 0xFC, 0xFD, 0xFE, 0xFF, s[i] ^ 1, (s[i] + 1) & 0xFF, (s[i] - 1) & 0xFF, s[i] ^ 0x80}:
            if v != s[i]:
                out.append(s[:i] + bytes([v]) + s[i + 1:])
        if s[i] < 0xFD:   # the same count / length written non-minimally
            out.append(s[:i] + b"\xfd" + bytes([s[i], 0]) + s[i + 1:])
            out.append(s[:i] + b"\xfe" + bytes([s[i], 0, 0, 0]) + s[i + 1:])
        out.append(s[:i] + s[i + 1:])
        out.append(s[:i] + s[i:i + 1] + s[i:])
    if n <= 80:
        # a length byte grown by one with a zero inserted after it (the padding a tag-length-value or length-prefixed field must refuse),
        # alone and with the enclosing length at offset 1 grown too
        for i in range(n):
            if s[i] < 0xFC:
                grown = s[:i] + bytes([s[i] + 1, 0]) + s[i + 1:]
                out.append(grown)
                if i > 1 and grown[1] < 0xFC:
                    out.append(grown[:1] + bytes([grown[1] + 1]) + grown[2:])
    uniq = list(dict.fromkeys(out))
    if len(uniq) > budget:
        # never sampled away: the object itself and every position bumped by one (a count, a flag, a length, a version that moves by one is the
        # realistic slip), at all positions of a short encoding and at the sampled positions of a long one
        head = list(dict.fromkeys([s] + [s[:i] + bytes([(s[i] + 1) & 0xFF]) + s[i + 1:] for i in (range(n) if n <= 400 else pos)]))
        hs = set(head)
        rest = [u for u in uniq if u not in hs]
        uniq = head + rnd.sample(rest, min(len(rest), max(0, budget - 1)))
    return uniq


def record_class(run: Run, codec: Codec, seed_list: list[bytes], rnd: random.Random, budget: int, evs: list[dict[str, Any]]) -> int:
    from btclib.exceptions import BTClibException

    n = 0
    grammar = codec.name in GRAMMAR
    for s in seed_list:
        for m in mutations(s, rnd, budget):
            for strict in ((False, True) if codec.has_cv else (True,)):
                n += 1
                try:
                    obj = codec.parse(m, strict)
                    reser = codec.ser(obj)
                    accepted = True
                except BTClibException:
                    accepted, obj, reser = False, None, b""
                except Exception:  # noqa: BLE001  (C19's subject; here: not accepted)
                    accepted, obj, reser = False, None, b""
                if not isinstance(reser, (bytes, bytearray)):
                    accepted, reser = False, b""
                ev: dict[str, Any] = {"op": "parse" if grammar else "rt", "cls": codec.name, "b": m.hex(), "strict": strict,
                                      "accepted": accepted, "reser": bytes(reser).hex()}
                if grammar and codec.name == "Tx":
                    ev["meta"] = {"size": 0, "weight": 0, "vsize": 0, "id": "", "wid": ""}
                    if accepted:
                        try:
                            ev["meta"] = {"size": obj.size, "weight": obj.weight, "vsize": obj.vsize, "id": obj.id.hex(), "wid": obj.hash.hex()}
                        except Exception as e:  # noqa: BLE001
                            ev["meta"]["id"] = f"raised {type(e).__name__}"
                evs.append(ev)
                if accepted and m is s and strict:
                    # parse(serialize(x)) == x for the valid object, and its JSON form
                    try:
                        again = codec.parse(reser, strict)
                        evs.append({"op": "obj", "cls": codec.name, "b": m.hex(), "same": bool(again == obj), "reser": codec.ser(again).hex()})
                    except Exception as e:  # noqa: BLE001
                        evs.append({"op": "obj", "cls": codec.name, "b": m.hex(), "same": False, "reser": f"raised {type(e).__name__}"})
    return n


def record_json(run: Run, codecs: dict[str, Codec], seed_map: dict[str, list[bytes]], evs: list[dict[str, Any]]) -> None:
    """from_dict(json(to_dict(x))) == x for every class with a JSON form, on valid objects incl. non-mainnet outputs."""
    from btclib.script.script_pub_key import ScriptPubKey
    from btclib.tx import TxOut

    objs: list[tuple[str, Any, Any]] = []
    for name, c in codecs.items():
        if c.cls is None or not hasattr(c.cls, "to_dict") or not hasattr(c.cls, "from_dict"):
            continue
        for s in seed_map.get(name, []):
            try:
                objs.append((name, c.cls, c.parse(s, True)))
            except Exception:  # noqa: BLE001
                continue
    from btclib.tx import OutPoint, Tx, TxIn

    for net in ("testnet", "signet", "regtest", "mainnet"):
        for script in (b"\x00\x14" + bytes(range(20)), b"\x51\x20" + bytes(range(32)), b"\x76\xa9\x14" + bytes(20) + b"\x88\xac"):
            spk = ScriptPubKey(script, net)
            o = TxOut(1234, spk)
            objs.append(("TxOut", TxOut, o))
            objs.append(("Tx", Tx, Tx(2, 0, [TxIn(OutPoint(b"\x11" * 32, 0), b"", 0xFFFFFFFF)], [o])))
    for name, cls, obj in objs:
        try:
            d = json.loads(json.dumps(obj.to_dict()))
            back = cls.from_dict(d)
            a = _serializer(cls)(obj).hex()
            b = _serializer(cls)(back).hex()
            same = back == obj and json.dumps(back.to_dict(), sort_keys=True) == json.dumps(obj.to_dict(), sort_keys=True)
        except Exception as e:  # noqa: BLE001
            a, b, same = "00", f"raised {type(e).__name__}: {e}"[:100], False
        evs.append({"op": "json", "cls": name, "a": a, "b": b if same else (b if b != a else "objects differ though their bytes agree")})


def _kv(key: bytes, val: bytes) -> bytes:
    from btclib import var_bytes

    return var_bytes.serialize(key) + var_bytes.serialize(val)


def keydata_variants(seed_list: list[bytes], limit: int) -> list[bytes]:
    """Every kind of record met in the vendored PSBTs -- (global or not, key type, key length) -- once with one octet of key data appended to its key, and once
    with the last octet of its key data dropped: a type that takes no key data (or a fixed size of it) must refuse the pair or write it back as it read it."""
    from btclib import var_int

    seen: set[tuple[bool, int, int, str]] = set()
    out: list[bytes] = []
    for b in seed_list:
        pos, j = 5, 0
        try:
            while pos < len(b) and len(out) < limit:
                st = io.BytesIO(b[pos:])
                while True:
                    at = pos + st.tell()
                    kl = var_int.parse(st)
                    if kl == 0:
                        break
                    key = st.read(kl)
                    vl = var_int.parse(st)
                    st.read(vl)
                    if kl >= 0xFC:
                        continue
                    for how in ("longer", "shorter"):
                        cls = (j == 0, key[0], kl, how)
                        if cls in seen or (how == "shorter" and kl < 2):
                            continue
                        seen.add(cls)
                        new_key = key + b"\xaa" if how == "longer" else key[:-1]
                        out.append(b[:at] + bytes([len(new_key)]) + new_key + b[at + 1 + kl:])
                pos += st.tell()
                j += 1
        except Exception:  # noqa: BLE001
            continue
    return out[:limit]


def enrich_psbt(b: bytes, rnd: random.Random) -> list[bytes]:
    """Insert extra key-value pairs (unknown, proprietary, taproot derivations with several leaf hashes) into each map."""
    out = []
    # split into maps at the byte level: magic, then maps separated by 0x00 terminators (walk with the kv grammar)
    from btclib import var_int

    pos = 5
    cuts = []
    try:
        while pos < len(b):
            st = io.BytesIO(b[pos:])
            while True:
                kl = var_int.parse(st)
                if kl == 0:
                    break
                st.read(kl)
                vl = var_int.parse(st)
                st.read(vl)
            cuts.append(pos + st.tell() - 1)   # index of the terminator of this map
            pos += st.tell()
    except Exception:  # noqa: BLE001
        return out
    if len(cuts) < 2:
        return out
    fp = bytes.fromhex("73c5da0a")
    path = b"".join(i.to_bytes(4, "little") for i in (0x80000056, 0x80000000, 0x80000000, 0, rnd.randrange(100)))
    hashes = [rnd.randbytes(32) for _ in range(3)]
    hashes.sort(reverse=True)   # deliberately not ascending
    xonly = rnd.randbytes(32)
    extra_global = _kv(b"\xfc\x04test\x01\x02", b"proprietary") + _kv(b"\xee\x01", b"unknown-global")
    extra_in = _kv(b"\xef" + rnd.randbytes(3), rnd.randbytes(5))
    tap_in = _kv(b"\x16" + xonly, bytes([len(hashes)]) + b"".join(hashes) + fp + path)
    tap_out = _kv(b"\x07" + xonly, bytes([2]) + hashes[0] + hashes[2] + fp + path)
    extra_out = _kv(b"\xed\xaa", b"unknown-output")
    ins = {0: [extra_global]}
    # which maps are inputs / outputs is not known at this level: unknown keys go everywhere, taproot ones are tried on each map
    for variant in range(3):
        pieces = []
        last = 5
        for j, cut in enumerate(cuts):
            add = b""
            if j == 0:
                add = extra_global
            elif variant == 0:
                add = extra_in if j % 2 else extra_out
            elif variant == 1 and j == 1:
                add = tap_in
            elif variant == 2 and j == len(cuts) - 1:
                add = tap_out
            pieces.append(b[last:cut] + add + b"\x00")
            last = cut + 1
        out.append(b[:5] + b"".join(pieces))
    del ins
    # zero-valued fields: an explicit SIGHASH_DEFAULT on the first input, an explicit version 0 in the global map
    def rebuild(extra_by_map: dict[int, bytes]) -> bytes:
        pieces, last = [], 5
        for j, cut in enumerate(cuts):
            pieces.append(b[last:cut] + extra_by_map.get(j, b"") + b"\x00")
            last = cut + 1
        return b[:5] + b"".join(pieces)

    if b"\x01\x03\x04" not in b[cuts[0]:cuts[1]]:
        out.append(rebuild({1: _kv(b"\x03", bytes(4))}))
    # taproot leaf scripts on the first input under every class of leaf version octet (even and odd, 0xc0's neighbours, the annex tag, the extremes): the value is
    # script || version and is kept as it is read; and a merkle root, an internal key, a key-path signature of 64 and of 65 octets
    if b"\x15" not in b[cuts[0]:cuts[1]]:
        for ver in (0xC0, 0xC1, 0xC2, 0x50, 0x51, 0x00, 0x01, 0xFE, 0xFF):
            out.append(rebuild({1: _kv(b"\x15" + bytes([0xC0 | (ver & 1)]) + xonly + hashes[0], b"\x51\x75\x51" + bytes([ver]))}))
        out.append(rebuild({1: _kv(b"\x18", hashes[1]) + _kv(b"\x17", xonly)}))
        for siglen in (64, 65):
            out.append(rebuild({1: _kv(b"\x13", bytes([7]) * siglen if siglen == 64 else bytes([7]) * 64 + b"\x83")}))
    return out


def psbt_version0(b: bytes) -> bytes | None:
    """The same PSBT with an explicit PSBT_GLOBAL_VERSION = 0 (known finding: it is dropped)."""
    if b"\x01\xfb\x04" in b[:400]:
        return None
    from btclib import var_int

    st = io.BytesIO(b[5:])
    try:
        while True:
            kl = var_int.parse(st)
            if kl == 0:
                break
            st.read(kl)
            st.read(var_int.parse(st))
    except Exception:  # noqa: BLE001
        return None
    end = 5 + st.tell() - 1
    return b[:end] + _kv(b"\xfb", bytes(4)) + b[end:]


def _kv_maps(b: bytes) -> list[list[tuple[bytes, bytes]]]:
    from btclib import var_int

    pos, out = 5, []
    while pos < len(b):
        st = io.BytesIO(b[pos:])
        m = []
        while True:
            kl = var_int.parse(st)
            if kl == 0:
                break
            k = st.read(kl)
            m.append((k, st.read(var_int.parse(st))))
        out.append(m)
        pos += st.tell()
    return out


def lost_pairs_class(b: bytes, reser: bytes) -> str:
    """Name what a re-serialization lost (for the finding key only; the verdict is TLC's)."""
    try:
        A, B = _kv_maps(b), _kv_maps(reser)
    except Exception:  # noqa: BLE001
        return ""
    if len(A) != len(B):
        return "map count differs"
    kinds = set()
    for x, y in zip(A, B):
        lost = set(x) - set(y)
        if not lost:
            continue
        finalized = any(k[:1] in (b"\x07", b"\x08") and len(k) == 1 for k, _ in x)
        for k, _ in lost:
            if finalized and k[:1] not in (b"\x07", b"\x08", b"\x00", b"\x01"):
                kinds.add("finalized input drops its signing fields")
            elif k == b"\xfb":
                kinds.add("explicit version 0")
            else:
                kinds.add(f"key type {k[:1].hex()}")
    return "+".join(sorted(kinds))


def finalized_reproducer(seeds_: list[bytes]) -> bytes | None:
    """Deterministic: the first vendored PSBT (in sorted order) with a finalized input, given one more signing field."""
    for s in sorted(seeds_):
        try:
            maps = _kv_maps(s)
        except Exception:  # noqa: BLE001
            continue
        for j, m in enumerate(maps[1:], start=1):
            if any(k in (b"\x07", b"\x08") for k, _ in m) and not any(k[:1] == b"\x16" for k, _ in m):
                extra = _kv(b"\x16" + bytes(range(1, 33)), b"\x01" + bytes(range(32, 64)) + bytes.fromhex("73c5da0a") + (0x80000056).to_bytes(4, "little"))
                body = b"".join(b"".join(_kv(k, v) for k, v in mm) + (extra if jj == j else b"") + b"\x00" for jj, mm in enumerate(maps))
                from btclib.psbt.psbt import Psbt

                try:
                    Psbt.parse(s[:5] + body)
                except Exception:  # noqa: BLE001
                    break
                return s[:5] + body
    return None


def record_psbt(run: Run, rnd: random.Random, limit: int, evs: list[dict[str, Any]]) -> int:
    from btclib.exceptions import BTClibException
    from btclib.psbt.psbt import Psbt

    seeds_ = psbt_seeds()
    repro = finalized_reproducer(seeds_)
    rnd.shuffle(seeds_)
    n = 0
    accepted_n = 0
    kd = keydata_variants(sorted(seeds_), 400 if limit > 100 else 120)
    for s in seeds_[:limit] + ([repro] if repro else []) + kd:
        v0 = psbt_version0(s) if s is not repro and s not in kd else None
        for b in [s] + (enrich_psbt(s, rnd) if s is not repro and s not in kd else []) + ([v0] if v0 else []):
            n += 1
            try:
                p = Psbt.parse(b)
                reser = p.serialize()
                reser2 = Psbt.parse(reser).serialize()
                acc = True
                accepted_n += 1
            except BTClibException:
                acc, reser, reser2 = False, b"", b""
            except Exception as e:  # noqa: BLE001
                acc, reser, reser2 = False, b"", b""
                run.note(f"Psbt.parse raised {type(e).__name__} (C19's subject)")
            evs.append({"op": "psbt", "cls": "Psbt", "b": b.hex(), "accepted": acc, "reser": reser.hex(), "reser2": reser2.hex(),
                        "variant": lost_pairs_class(b, reser) if acc else ""})
            if acc:
                try:
                    d = json.loads(json.dumps(p.to_dict()))
                    back = Psbt.from_dict(d)
                    evs.append({"op": "json", "cls": "Psbt", "a": reser.hex(), "b": back.serialize().hex()})
                except Exception as e:  # noqa: BLE001
                    evs.append({"op": "json", "cls": "Psbt", "a": reser.hex(), "b": f"raised {type(e).__name__}: {e}"[:120]})
    if accepted_n < 5:
        raise tlc.TLCFailure(f"C05: only {accepted_n} PSBT seeds were accepted (vacuous)")
    return n


def short_strings(run: Run, maxlen: int) -> list[bytes]:
    alpha = "0, 1, 2, 252, 253, 254, 255"
    cfg = MODEL_CFG.format(alpha=alpha, maxlen=maxlen, emit="INVARIANT Emit\n")
    res = tlc.run("WireModel", cfg_text=cfg, workers=1)
    for v in res.violations:
        raise tlc.TLCFailure(f"WireModel violates {v.name}:\n{v.text[:600]}")
    run.tlc(res, f"M+G WireModel len<={maxlen}")
    out = [bytes(v[1]) for v in res.printed_values() if isinstance(v, list) and len(v) == 2 and v[0] == "W"]
    if len(out) < 1000:
        raise tlc.TLCFailure("WireModel: too few strings generated")
    return out


def record_limits(evs: list[dict[str, Any]], thorough: bool) -> int:
    """Objects with as many elements as a count field can carry: at the width boundaries of a CompactSize and at (and one past) every limit the
    library declares.  Whatever the constructor and serializer accept must parse back to an equal object; too large to hand to TLC as bytes,
    so the event carries the three observations (built, parsed, same) and the law is the specification's."""
    from btclib.block.block_header import BlockHeader  # noqa: F401
    from btclib.p2p import limits as pl
    from btclib.p2p.address import Addr, TimestampedNetworkAddress
    from btclib.p2p.addrv2 import AddrV2, NetworkAddressV2
    from btclib.p2p.inventory import GetBlocks, GetData, Headers, Inv, Inventory, InventoryType
    from btclib.script.witness import Witness
    from btclib.tx import OutPoint, Tx, TxIn, TxOut
    from btclib.tx.limits import MAX_TX_IN_COUNT, MAX_TX_OUT_COUNT

    h32 = bytes(range(32))
    one_in = [TxIn(OutPoint(h32, 0), b"", 0xFFFFFFFF)]
    one_out = [TxOut(1, b"\x51")]
    inv = Inventory(InventoryType.MSG_TX, h32)
    block170 = seeds()["Headers"][0][1:81]
    hdr = BlockHeader.parse(block170)
    tna = TimestampedNetworkAddress.parse(seeds()["TimestampedNetworkAddress"][0])
    nav2 = NetworkAddressV2.parse(seeds()["NetworkAddressV2"][0])
    widths = [252, 253] + ([65535, 65536] if thorough else [])
    cases: list[tuple[str, str, int, Any, Any]] = []
    for n in sorted(set(widths + [MAX_TX_OUT_COUNT - 1, MAX_TX_OUT_COUNT, MAX_TX_OUT_COUNT + 1, MAX_TX_IN_COUNT, MAX_TX_IN_COUNT + 1])):
        cases.append(("Tx", "outputs", n, lambda n=n: Tx(2, 0, one_in, [TxOut(1 + (j & 1), b"\x51") for j in range(n)]), Tx.parse))
    for n in sorted(set(widths[:2] + [MAX_TX_IN_COUNT - 1, MAX_TX_IN_COUNT, MAX_TX_IN_COUNT + 1])):
        cases.append(("Tx", "inputs", n, lambda n=n: Tx(2, 0, [TxIn(OutPoint(h32, j), b"", 0xFFFFFFFF) for j in range(n)], one_out), Tx.parse))
    for n in widths[:2] + [1000, 65535 if thorough else 2000]:
        cases.append(("Witness", "items", n, lambda n=n: Witness([bytes([j & 0xFF]) for j in range(n)]), Witness.parse))
    for cls, what, lim, mk in (("Inv", "inventories", pl.MAX_INV_SZ, lambda n: Inv([inv] * n)), ("GetData", "inventories", pl.MAX_INV_SZ, lambda n: GetData([inv] * n)),
                               ("Headers", "headers", pl.MAX_HEADERS_RESULTS, lambda n: Headers([hdr] * n)), ("Addr", "addresses", pl.MAX_ADDR_TO_SEND, lambda n: Addr([tna] * n)),
                               ("AddrV2", "addresses", pl.MAX_ADDR_TO_SEND, lambda n: AddrV2([nav2] * n)),
                               ("GetBlocks", "locator hashes", pl.MAX_LOCATOR_SZ, lambda n: GetBlocks(70016, [h32] * n, h32))):
        for n in sorted({0, 1, 252, 253, lim - 1, lim, lim + 1}):
            cases.append((cls, what, n, lambda n=n, mk=mk: mk(n), {"Inv": Inv, "GetData": GetData, "Headers": Headers, "Addr": Addr, "AddrV2": AddrV2, "GetBlocks": GetBlocks}[cls].parse))
    k = 0
    for cls, what, n, build, parse in cases:
        built = parsed = same = False
        try:
            obj = build()
            raw = obj.serialize(include_witness=True) if cls == "Tx" else obj.serialize()
            built = True
        except Exception:  # noqa: BLE001   (a refusal to build or write is allowed: the law is about what was written)
            raw = b""
        if built:
            try:
                back = parse(raw)
                parsed = True
                same = bool(back == obj) and (back.serialize(include_witness=True) if cls == "Tx" else back.serialize()) == raw
            except Exception:  # noqa: BLE001
                pass
        evs.append({"op": "big", "cls": cls, "what": what, "n": n, "built": built, "parsed": parsed, "same": same})
        k += 1
    return k


def check(run: Run) -> None:
    thorough = run.tier == "thorough"
    rnd = random.Random(run.seed)
    run.rule = ("classes = every btclib class with a parse/serialize pair (discovered by introspection) + var_int / var_bytes; inputs = valid "
                "encodings (library constructors, vendored blocks / transactions / PSBT vectors) and their structure-aware mutations "
                "(truncations, extensions, boundary values at every position, CompactSize widening, deletions, duplications), check_validity on "
                "and off; all byte strings over {00,01,02,fc,fd,fe,ff} up to the length for the small grammars. Non-trivial = an accepted "
                "encoding other than the seed itself, or a refused mutation of a grammar class")
    run.assumptions = ["classes without a transcribed grammar are held to the canonical round-trip law only (their acceptance set is not predicted)",
                       "foreign exceptions are counted as refusals here; they are C19's subject"]
    codecs = discover()
    seed_map = seeds()
    evs: list[dict[str, Any]] = []
    # G: every short string TLC enumerates, through the small grammars
    strings = short_strings(run, 7 if thorough else 5)
    from btclib.exceptions import BTClibException

    for cname in ("var_int", "var_bytes", "Witness"):
        c = codecs[cname]
        for b in strings:
            try:
                o = c.parse(b, False)
                acc, reser = True, c.ser(o)
            except BTClibException:
                acc, reser = False, b""
            except Exception:  # noqa: BLE001
                acc, reser = False, b""
            evs.append({"op": "parse", "cls": cname, "b": b.hex(), "strict": False, "accepted": acc, "reser": bytes(reser).hex()})
    n_short = len(evs)
    budget = 1500 if thorough else 160
    missing = []
    for name, c in sorted(codecs.items()):
        if name in ("Psbt", "PsbtIn", "PsbtOut"):
            continue
        if name not in seed_map:
            missing.append(name)
            continue
        record_class(run, c, seed_map[name], rnd, budget, evs)
    record_json(run, codecs, seed_map, evs)
    record_psbt(run, rnd, 200 if thorough else 40, evs)
    n_big = record_limits(evs, thorough)
    if sum(1 for e in evs if e["op"] == "big" and e["built"]) < n_big // 2:
        raise tlc.TLCFailure("C05: the boundary-count objects could not be built (harness)")
    if missing:
        run.note("classes with parse/serialize but no seed encoding in the harness (not exercised): " + ", ".join(missing))
    results, bad, diag = events.validate("C05Trace", evs, batch=8000)
    for r in results:
        run.tlc(r, "V C05Trace")
    for k in bad:
        e = evs[k]
        d = diag.get(k) or {}
        failing = sorted(kk for kk, vv in d.items() if vv is False and kk != "grammar") if isinstance(d, dict) else []
        key = f"wire|{e['cls']}|{e['op']}|{'+'.join(failing)}"
        if e["op"] == "big":
            key += f"|{e['what']}"
        if e["op"] == "parse":
            key += f"|strict={e.get('strict')}|accepted={e['accepted']}"
        if e.get("variant"):
            key += f"|{e['variant']}"
        run.violation(key, f"{e['cls']} ({e['op']}): clause(s) {failing or '?'} fail for {e.get('b', e.get('a', ''))[:120]}..; "
                           f"accepted={e.get('accepted')} reser={str(e.get('reser', e.get('b')))[:80]}",
                      {"event": e, "spec": d})
    acc_mut = sum(1 for e in evs if e["op"] in ("parse", "rt") and e["accepted"])
    run.sample({"event": {k: (v if k not in ("b", "reser") else v[:80]) for k, v in evs[n_short + 5].items()}})
    run.sample({"short strings": [b.hex() for b in strings[:8]]})
    run.section("classes", {"discovered": len(codecs), "with_seeds": len([c for c in codecs if c in seed_map]), "grammar_classes": sorted(GRAMMAR),
                            "events": len(evs), "short_string_events": n_short, "accepted_encodings": acc_mut,
                            "by_op": {op: sum(1 for e in evs if e["op"] == op) for op in ("parse", "rt", "obj", "json", "psbt", "big")}})
    run.count(evaluations=len(evs), validated=len(evs), nontrivial=len({e["b"] for e in evs if e["op"] in ("parse", "rt", "psbt") and e["accepted"]}))


def replay(path: str) -> int:
    body = json.load(open(path))
    e = body.get("event")
    if not e:
        return 0
    _, bad, diag = events.validate("C05Trace", [e])
    if bad:
        print(f"VIOLATION property=C05 replay={path}  # {diag}")
        return 1
    return 0
